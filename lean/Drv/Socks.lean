/-
Driver for the SOCKS model (C18): executes the reader scripts, the writers and the UDP header
functions of `Penguin.Socks`, and the builders / client parsers of `Spec.Rfc1928` and `Spec.Socks4a`,
on request lines (see `harness/src/bin/socks.rs` for the line protocol); and the session handler of
`Penguin.SocksSession` (op `sess`, see `harness-full/src/bin/socks_session.rs`).
-/
import Penguin.Basic.Bytes
import Penguin.Basic.Loop
import Penguin.Model.Socks
import Penguin.Model.SocksSession
import Penguin.Spec.Rfc1928
import Penguin.Spec.Socks4a

open Penguin Penguin.Socks

def showErr : ErrKind → String
  | .eof ctx => "eof:" ++ ctx.text.replace " " "-"
  | .version v => s!"version:{v.toNat}"
  | .atyp t => s!"atyp:{t.toNat}"

def showReq : Result Req → String
  | .done q c w => s!"done {q.cmd.toNat} {hexOrDash q.host.render} {q.port} {c} {hexOrDash w}"
  | .needMore => "pending"
  | .error e w => s!"err {showErr e} {hexOrDash w}"

def showMethods : Result Bytes → String
  | .done ms c w => s!"done {hexOrDash ms} {c} {hexOrDash w}"
  | .needMore => "pending"
  | .error e w => s!"err {showErr e} {hexOrDash w}"

def runReader (op : String) (inp : Bytes) (eof : Bool) : Option String :=
  match op with
  | "r5" => some (showReq (read5 inp eof))
  | "r4" => some (showReq (read4 inp eof))
  | "am" => some (showMethods (readMethods inp eof))
  | _ => none

/-- Run-length encoding `n*line;n*line;…` of a list of answers. -/
def rle (ls : List String) : String :=
  let rec go (l : List String) (cur : Option (String × Nat)) (acc : List String) : List String :=
    match l, cur with
    | [], none => acc.reverse
    | [], some (s, n) => (s!"{n}*{s}" :: acc).reverse
    | x :: t, none => go t (some (x, 1)) acc
    | x :: t, some (s, n) => if x = s then go t (some (s, n + 1)) acc else go t (some (x, 1)) (s!"{n}*{s}" :: acc)
  ";".intercalate (go ls none [])

def parseEof : String → Option Bool
  | "0" => some false
  | "1" => some true
  | _ => none

def byte? (s : String) : Option UInt8 := do
  let n ← s.toNat?
  if n < 256 then some (UInt8.ofNat n) else none

def port? (s : String) : Option Nat := do
  let n ← s.toNat?
  if n < 65536 then some n else none

def sockAddr? (fam raw port : String) : Option SockAddr := do
  let o ← ofHex raw
  let p ← port? port
  match fam with
  | "4" => if o.length = 4 then some (.v4 o p) else none
  | "6" => if o.length = 16 then some (.v6 o p) else none
  | _ => none

open Spec.Rfc1928 in
def addr? (atyp raw : String) : Option Addr := do
  let o ← ofHex raw
  match atyp, o with
  | "1", [a, b, c, d] => some (.ipv4 a b c d)
  | "3", n => if n.length ≤ 255 then some (.domain n) else none
  | "4", o => if o.length = 16 then some (.ipv6 o) else none
  | _, _ => none

open Spec.Rfc1928 in
def showAddr : Addr → String
  | .ipv4 a b c d => s!"1 {toHex [a, b, c, d]}"
  | .domain n => s!"3 {hexOrDash n}"
  | .ipv6 o => s!"4 {hexOrDash o}"

def hostOfKind? (atyp : String) (raw : Bytes) : Option Host :=
  match atyp with
  | "1" => some ⟨.ipv4, raw⟩
  | "3" => some ⟨.domain, raw⟩
  | "4" => some ⟨.ipv6, raw⟩
  | _ => none

/-! ### The session handler (`Penguin.SocksSession`) -/

section session
open Penguin.SocksSession

def showSessRes : Res → String
  | .ok => "ok"
  | .bridge => "bridge"
  | .needMore => "pending"
  | .err (.socks (.reader e)) => "err:" ++ showErr e
  | .err (.socks (.invalidCommand c)) => s!"err:invalid-command:{c.toNat}"
  | .err (.socks .bindUdp) => "err:bind-udp"
  | .err (.socks .udpLocalAddr) => "err:udp-local-addr"
  | .err .otherAuth => "err:other-auth"
  | .err .fatalRequestStream => "err:fatal:request-stream"
  | .err .fatalMainLoopExit => "err:fatal:main-loop-exit"

def showSockAddr : SockAddr → String
  | .v4 o p => s!"4:{toHex o}:{p}"
  | .v6 o p => s!"6:{toHex o}:{p}"

def listOrDash (l : List String) : String := if l.isEmpty then "-" else ",".intercalate l

/-- `<result>|w=<written>|req=<host>:<port>,…|relay=<fam>:<octets>:<port>|left=<handed to the bridge>` -/
def showSessState (o : Outcome) : String :=
  let reqs := o.requests.map fun (h, p) => s!"{hexOrDash h.render}:{p}"
  let relays := o.relays.map showSockAddr
  s!"{showSessRes o.result}|w={hexOrDash o.written}|req={listOrDash reqs}|relay={listOrDash relays}|left={hexOrDash o.leftover}"

def udpAnswer? (s : String) : Option UdpAnswer :=
  match s.splitOn ":" with
  | ["bindfail"] => some .bindFails
  | ["lafail"] => some .localAddrFails
  | ["ok", fam, raw, port] => (sockAddr? fam raw port).map .bound
  | _ => none

def chunks? (s : String) : Option (List Bytes) :=
  if s = "-" then some [] else (s.splitOn ",").mapM ofHex

/-- The inputs after each chunk: the bytes sent so far, stream open. -/
def prefixes (chunks : List Bytes) : List Bytes :=
  (chunks.foldl (fun (acc : Bytes × List Bytes) c => (acc.1 ++ c, (acc.1 ++ c) :: acc.2)) ([], [])).2.reverse

/-- One state per chunk (stream open after it) and, with `eof`, one more after the close; then what had
    been written when the tunnel was requested. -/
def sessAnswer (reserve stream : Bool) (udp : UdpAnswer) (eof : Bool) (chunks : List Bytes) : String :=
  let env : Env := ⟨reserve, stream, udp⟩
  let all := chunks.flatten
  let opens := (prefixes chunks).map fun p => session ⟨p, false⟩ env
  let outs := if eof then opens ++ [session ⟨all, true⟩ env] else opens
  let final := session ⟨all, eof⟩ env
  let wb := if final.requests.isEmpty then "none" else hexOrDash (written (beforeRequest final.trace))
  ";".intercalate (outs.map showSessState) ++ " wb=" ++ wb

end session

def answer (toks : List String) : Option String :=
  match toks with
  | [op, h, e] =>
    match op with
    | "r5" | "r4" | "am" => do
      runReader op (← ofHex h) (← parseEof e)
    | "r5p" | "r4p" | "amp" => do
      let inp ← ofHex h
      let eof ← parseEof e
      let base := (op.dropEnd 1).toString
      let outs ← (List.range (inp.length + 1)).mapM fun k => runReader base (inp.take k) eof
      pure (rle outs)
    | "render" => do
      let host ← hostOfKind? h (← ofHex e)
      pure (hexOrDash host.render)
    | _ => none
  | ["sess", r, st, udp, e, chunks] => do
    pure (sessAnswer (← parseEof r) (← parseEof st) (← udpAnswer? udp) (← parseEof e) (← chunks? chunks))
  | ["wr5", rep, fam, raw, port] => do
    pure (toHex (writeResponse5 (← byte? rep) (← sockAddr? fam raw port)))
  | ["wru", rep] => do pure (toHex (writeResponseUnspecified (← byte? rep)))
  | ["wam", m] => do pure (toHex (writeAuthMethod (← byte? m)))
  | ["wr4", rep] => do pure (toHex (writeResponse4 (← byte? rep)))
  | ["udpr", fam, raw, port, d] => do
    pure (toHex (udpRelayResponse (← sockAddr? fam raw port) (← ofHex d)))
  | ["udpp", h] => do
    match parseUdpRelayHeader (← ofHex h) with
    | .ok (host, port, data) => pure s!"ok {hexOrDash host.render} {port} {hexOrDash data}"
    | .error .parseAssociate => pure "err parse-associate"
    | .error .fragmented => pure "err fragmented"
    | .error (.unknownAtyp t) => pure s!"err unknown-atyp:{t.toNat}"
  -- the independent specifications
  | ["udpc", h] => do
    match Spec.Rfc1928.clientParseUdp (← ofHex h) with
    | some (a, p, d) => pure s!"some {showAddr a} {p} {hexOrDash d}"
    | none => pure "none"
  | ["spec5", cmd, atyp, raw, port] => do
    pure (toHex (Spec.Rfc1928.request ⟨← byte? cmd, ← addr? atyp raw, ← port? port⟩))
  | ["specreply5", rep, atyp, raw, port] => do
    pure (toHex (Spec.Rfc1928.reply (← byte? rep) (← addr? atyp raw) (← port? port)))
  | ["specudp", _, atyp, raw, port] => do
    pure (toHex (Spec.Rfc1928.udpHeader (← addr? atyp raw) (← port? port)))
  | ["specgreeting", ms] => do
    let ms ← ofHex ms
    if ms.length ≤ 255 then pure (toHex (Spec.Rfc1928.greeting ms)) else none
  | ["spec4", cmd, port, ip, uid] => do
    match ← ofHex ip with
    | [a, b, c, d] => pure (toHex (Spec.Socks4a.request4 ⟨← byte? cmd, ← port? port, a, b, c, d, ← ofHex uid⟩))
    | _ => none
  | ["spec4a", cmd, port, x, uid, dom] => do
    pure (toHex (Spec.Socks4a.request4a ⟨← byte? cmd, ← port? port, ← byte? x, ← ofHex uid, ← ofHex dom⟩))
  | ["specreply4", cd] => do pure (toHex (Spec.Socks4a.reply4 (← byte? cd)))
  | _ => none

def step (_ : Unit) (line : String) : Unit × String :=
  ((), (answer (tokens line)).getD "bad-op")

def main : IO Unit := driverLoop step ()
