/-
Driver for C19: the back-off generator (`Penguin.Backoff`) and the client retry loop / connected
main loop (`Penguin.Client`).

Requests (one line each, one response line each):

* `backoff <initial> <max> <mult> <count> <ops>` — `ops` is a word over `a` (advance) and `r`
  (reset), `-` for none.  Response: the observations of the `advance` calls, space separated:
  a number (milliseconds) for `Some(d)`, `none` for `None`, `panic` for the `Duration` overflow
  panic (the run stops there); `-` when there was no `advance`.
* `closed <initial> <max> <mult> <count> <k>` — the closed form `Penguin.Spec.closedDelay` of the
  `k`-th consecutive delay (from 0): a number or `none`.
* `retryable <error>` — classification of a client error (see `Penguin.Client.parseErr`).
* `scenario [ws|wss-ca|wss-insecure] <count> <maxInterval> <hsTimeout|-> <chTimeout|-> <step>...` —
  run the whole-client model on a script of server behaviours (see `Penguin.Client.parseStep`);
  without a transport token: `ws`.  Response:
  `sleeps=<a,b,..|-> attempts=<n> final=<..> served=<req@attempt,..|-> parked=<req|-> queued=<..|-> lost=<..|->`.
-/
import Penguin.Basic.Bytes
import Penguin.Basic.Loop
import Penguin.Model.Backoff
import Penguin.Model.Client
import Penguin.Spec.Backoff

open Penguin

def parseOps (s : String) : Option (List Backoff.Op) :=
  if s = "-" then some [] else
  s.toList.mapM fun c => if c = 'a' then some Backoff.Op.advance else if c = 'r' then some .reset else none

def showOut : Backoff.Out → String
  | .delay d => toString d
  | .refused => "none"
  | .panic => "panic"

def joinOr (sep : String) (xs : List String) : String :=
  if xs.isEmpty then "-" else sep.intercalate xs

def step (_ : Unit) (line : String) : Unit × String :=
  let out :=
    match tokens line with
    | ["backoff", i, m, c, n, ops] =>
      match i.toNat?, m.toNat?, c.toNat?, n.toNat?, parseOps ops with
      | some i, some m, some c, some n, some ops =>
        joinOr " " (((Backoff.new i m c n).runOps ops).map showOut)
      | _, _, _, _, _ => "bad-op"
    | ["closed", i, m, c, n, k] =>
      match i.toNat?, m.toNat?, c.toNat?, n.toNat?, k.toNat? with
      | some i, some m, some c, some n, some k =>
        match Spec.closedDelay i m c n k with
        | some d => toString d
        | none => "none"
      | _, _, _, _, _ => "bad-op"
    | ["retryable", e] =>
      match Client.parseErr e with
      | some e => toString e.retryable
      | none => "bad-op"
    | "scenario" :: rest =>
      -- the transport is optional (older corpus lines have none): `ws` then
      let (tr, rest) :=
        match rest with
        | t :: more => match Client.parseTransport t with
          | some tr => (tr, more)
          | none => (Client.Transport.ws, rest)
        | [] => (Client.Transport.ws, rest)
      match rest with
      | n :: m :: hs :: ch :: steps =>
        match n.toNat?, m.toNat?, Client.parseOptMs hs, Client.parseOptMs ch, steps.mapM Client.parseStep with
        | some n, some m, some hs, some ch, some steps =>
          -- a half-finished TLS handshake needs TLS
          if tr = .ws ∧ steps.any (·.beh = .stallTls) then "bad-op" else
          Client.showScenario (Client.runScenario (Client.Config.mk n m hs ch tr) steps)
        | _, _, _, _, _ => "bad-op"
      | _ => "bad-op"
    | _ => "bad-op"
  ((), out)

def main : IO Unit := driverLoop step ()
