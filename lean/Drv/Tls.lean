/-
Driver for the TLS configuration model (C17): executes `Penguin.Tls` over the concrete finite PKI
`Penguin.Tls.Concrete` on request lines.

Tokens: certificate `<issuer>:<name>,<name>` (`<issuer>:-` = no names), absent = `-`;
root store `<label>,<label>`, `empty` = a CA file without usable certificates, `-` = not given;
booleans `0`/`1`; server name = any token, `!` = does not parse as a `ServerName`.

  hs <srvCert> <srvClientCa> <cliCert> <cliKey> <cliCa> <skip> <name>
      -> `<ok|client-rejects|server-rejects> ok=<handshakeOk> asks=<b> presented=<b>`
       | `config-error no-root-anchors ok=false` | `dns-name ok=false`
  clicfg <cliCert> <cliKey> <cliCa> <skip>   -> `verifier=<empty|webpki:roots> auth=<b>`
  name <urlHost> <hostname|-|!> <sni|->      -> `ok <name>` | `err invalid-domain-name`
  sysroots <ca>                              -> `ok`   (built-in roots of the build; default empty)
  init <id> | reload <id> | reload-fail      -> `ok`
  accept                                     -> `<id>` (identity the new connection is served with)
  sessions                                   -> `<id>,<id>,...` | `-`
  rinit <id> | rreload <id> | rreload-fail   -> `ok`   (listener with per-configuration session caches)
  raccept <ticket|->                         -> `<id> <full|resumed> cache=<n>` (identity served, handshake
                                                kind, number of the serving configuration's cache = the
                                                ticket a client admitted by this connection holds)
-/
import Penguin.Basic.Bytes
import Penguin.Basic.Loop
import Penguin.Model.Tls

open Penguin Penguin.Tls Penguin.Tls.Concrete

structure DrvState where
  sys : Ca := []
  listener : Listener Nat := Listener.init 0
  rlistener : RListener Nat := RListener.init 0

def parseBool : String → Option Bool
  | "0" => some false
  | "1" => some true
  | _ => none

def parseLabels (s : String) : Option (List Nat) := (s.splitOn ",").mapM String.toNat?

/-- `-` = not given, `empty` = given but empty. -/
def parseCa : String → Option (Option Ca)
  | "-" => some none
  | "empty" => some (some [])
  | s => (parseLabels s).map some

def parseCert : String → Option (Option Cert)
  | "-" => some none
  | s =>
    match s.splitOn ":" with
    | [i, ns] =>
      match i.toNat? with
      | some i => some (some ⟨i, if ns = "-" then [] else ns.splitOn ","⟩)
      | none => none
    | _ => none

def parseName : String → Option String
  | "!" => none
  | s => some s

def b01 (b : Bool) : String := if b then "1" else "0"

def showOutcome : Outcome → String
  | .ok => "ok"
  | .clientRejects => "client-rejects"
  | .serverRejects => "server-rejects"

def showCa (ca : Ca) : String := if ca.isEmpty then "empty" else ",".intercalate (ca.map toString)

def doHs (sys : Ca) (srv : Cert) (sca : Option Ca) (ccert : Option Cert) (ckey : Bool) (cca : Option Ca)
    (skip : Bool) (name : Option String) : String :=
  let P := pki sys
  let ca : ClientArgs Cert Ca := { tlsCert := ccert, tlsKey := ckey, tlsCa := cca, skipVerify := skip }
  let sa : ServerArgs Cert Ca := { cert := srv, clientCa := sca }
  match makeServerConfig P sa with
  | .error .noRootAnchors => "config-error no-root-anchors ok=false"
  | .ok sc =>
    match tlsConnect P ca name sc, name with
    | .dnsName, _ => "dns-name ok=false"
    | .done o, some n =>
      let cfg : Cfg Cert Ca String := { client := { ca with serverName := n }, server := sa }
      let cc := makeClientConfig P ca
      s!"{showOutcome o} ok={handshakeOk P cfg} asks={b01 (serverAsks P sa)} presented={b01 (presented cc sc).isSome}"
    | .done _, none => "bad-op"

def step (st : DrvState) (line : String) : DrvState × String :=
  match tokens line with
  | ["hs", srv, sca, ccert, ckey, cca, skip, name] =>
    match parseCert srv, parseCa sca, parseCert ccert, parseBool ckey, parseCa cca, parseBool skip with
    | some (some srv), some sca, some ccert, some ckey, some cca, some skip =>
      (st, doHs st.sys srv sca ccert ckey cca skip (parseName name))
    | _, _, _, _, _, _ => (st, "bad-op")
  | ["clicfg", ccert, ckey, cca, skip] =>
    match parseCert ccert, parseBool ckey, parseCa cca, parseBool skip with
    | some ccert, some ckey, some cca, some skip =>
      let cc := makeClientConfig (pki st.sys) { tlsCert := ccert, tlsKey := ckey, tlsCa := cca, skipVerify := skip }
      let v := match cc.verifier with
        | .empty => "empty"
        | .webpki roots => s!"webpki:{showCa roots}"
      (st, s!"verifier={v} auth={b01 cc.clientAuth.isSome}")
    | _, _, _, _ => (st, "bad-op")
  | ["name", url, hostname, sni] =>
    let h : Option (Option String) :=
      if hostname = "-" then none else if hostname = "!" then some none else some (some hostname)
    let s : Option String := if sni = "-" then none else some sni
    match chooseServerName url h s with
    | .ok n => (st, s!"ok {n}")
    | .error .invalidDomainName => (st, "err invalid-domain-name")
  | ["sysroots", ca] =>
    match parseCa ca with
    | some (some ca) => ({ st with sys := ca }, "ok")
    | _ => (st, "bad-op")
  | ["init", id] =>
    match id.toNat? with
    | some id => ({ st with listener := Listener.init id }, "ok")
    | none => (st, "bad-op")
  | ["reload", id] =>
    match id.toNat? with
    | some id => ({ st with listener := st.listener.step (.reload (some id)) }, "ok")
    | none => (st, "bad-op")
  | ["reload-fail"] => ({ st with listener := st.listener.step (.reload none) }, "ok")
  | ["accept"] =>
    let l := st.listener.step .accept
    ({ st with listener := l }, match l.sessions.getLast? with | some i => toString i | none => "bad-op")
  | ["sessions"] =>
    (st, if st.listener.sessions.isEmpty then "-" else ",".intercalate (st.listener.sessions.map toString))
  | ["rinit", id] =>
    match id.toNat? with
    | some id => ({ st with rlistener := RListener.init id }, "ok")
    | none => (st, "bad-op")
  | ["rreload", id] =>
    match id.toNat? with
    | some id => ({ st with rlistener := st.rlistener.step (.reload (some id)) }, "ok")
    | none => (st, "bad-op")
  | ["rreload-fail"] => ({ st with rlistener := st.rlistener.step (.reload none) }, "ok")
  | ["raccept", t] =>
    let ticket : Option (Option Nat) := if t = "-" then some none else t.toNat?.map some
    match ticket with
    | none => (st, "bad-op")
    | some ticket =>
      let l := st.rlistener.step (.accept ticket)
      match l.sessions.getLast? with
      | some (i, k) =>
        ({ st with rlistener := l },
          s!"{i} {match k with | .full => "full" | .resumed => "resumed"} cache={l.cache}")
      | none => (st, "bad-op")
  | _ => (st, "bad-op")

def main : IO Unit := driverLoop step {}
