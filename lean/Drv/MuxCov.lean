/-
Which branch of the endpoint model a stimulus exercises — for REPORTING only (generator quality: the
evidence lists how often each branch of the model was hit by the correspondence run and which were
never hit).  Nothing here is trusted or proved about: the tags are computed from the model state
before the stimulus with the same tests the model makes.
Core Lean only.
-/
import Penguin.Model.Mux

namespace Penguin.MuxCov
open Penguin Penguin.Mux

def modeTag (e : EP) : String :=
  if e.dead then "dead" else if e.draining.isSome then "draining" else if e.closing.isSome then "closing" else "running"

def parkTag (e : EP) : String :=
  match e.park with
  | none => "nopark"
  | some (.accept _) => "park-accept"
  | some (.bind _) => "park-bind"

def slotTag (e : EP) (fid : Nat) : String :=
  match lookup e.flows fid with
  | none => "none"
  | some (.requested _) => "requested"
  | some (.bindRequested _) => "bindrequested"
  | some (.established i) =>
    match e.objs[i]? with
    | none => "established-noobj"
    | some o =>
      "established" ++ (if o.senderAlive then "" else "+sender-gone") ++ (if o.rxOpen then "" else "+rx-closed")
        ++ (if o.finishSent then "+finish-sent" else "")

def frameTags (e : EP) (f : Frame) : List String :=
  match f with
  | .connect fid _ _ _ =>
    if fid = 0 then ["pf:connect:zero"]
    else if (lookup e.flows fid).isSome then ["pf:connect:in-use:" ++ slotTag e fid]
    else if e.outClosed then ["pf:connect:out-closed"]
    else if !e.muxAlive then ["pf:connect:mux-gone"]
    else if e.acceptq.length < e.opts.acceptCap then ["pf:connect:queued"] else ["pf:connect:parks"]
  | .acknowledge fid _ =>
    match lookup e.flows fid with
    | some (.requested req) =>
      if e.opens.any (·.req == req) then ["pf:ack:requested:answered"] else ["pf:ack:requested:requester-gone"]
    | _ => ["pf:ack:" ++ slotTag e fid]
  | .finish fid =>
    match lookup e.flows fid with
    | some (.requested req) =>
      if e.opens.any (·.req == req) then ["pf:finish:requested:pending"] else ["pf:finish:requested:requester-gone"]
    | _ => ["pf:finish:" ++ slotTag e fid]
  | .reset fid =>
    match lookup e.flows fid with
    | some (.established i) =>
      match e.objs[i]? with
      | some o => ["pf:reset:" ++ slotTag e fid ++ (if o.parked && !o.woken then "+writer-parked" else "")]
      | none => ["pf:reset:" ++ slotTag e fid]
    | _ => ["pf:reset:" ++ slotTag e fid]
  | .push fid d =>
    match lookup e.flows fid with
    | some (.established i) =>
      match e.objs[i]? with
      | none => ["pf:push:established-noobj"]
      | some o =>
        if !o.senderAlive then ["pf:push:after-finish"]
        else if !o.rxOpen then ["pf:push:rx-closed"]
        else if o.rxq.length < o.cap then [if d.isEmpty then "pf:push:queued-empty" else "pf:push:queued"]
        else ["pf:push:overrun"]
    | _ => ["pf:push:" ++ slotTag e fid]
  | .bind _ _ _ _ =>
    if e.opts.bindCap = 0 then ["pf:bind:disabled"]
    else if !e.muxAlive then ["pf:bind:mux-gone"]
    else if e.bindq.length < e.opts.bindCap then ["pf:bind:queued"] else ["pf:bind:parks"]
  | .datagram _ _ _ d =>
    if !e.muxAlive then ["pf:dgram:mux-gone"]
    else if e.dgramq.length < e.opts.dgramCap then [if d.isEmpty then "pf:dgram:queued-empty" else "pf:dgram:queued"]
    else ["pf:dgram:full"]

/-- Tags of one stimulus, from the state before it. -/
def tagsOf (e : EP) (op : Mux.Op) : List String :=
  let ctx := modeTag e
  match op with
  | .open req _ _ =>
    if e.opens.any (·.req == req) then ["open:duplicate"]
    else if e.opts.maxRetries = 0 then ["open:no-retries"]
    else if (drawId e.flows e.rng e.fallback 64).isNone then ["open:no-id"]
    else if e.outClosed then ["open:out-closed:" ++ ctx] else ["open:sent"]
  | .accept =>
    match e.acceptq with
    | _ :: _ => ["accept:stream" ++ (if e.park.isSome then "+unparks" else "")]
    | [] => if e.dead then ["accept:closed"] else ["accept:pending"]
  | .write h d =>
    match e.handleObj h with
    | none => ["write:badhandle"]
    | some (_, o) =>
      if o.finishSent then ["write:brokenpipe:" ++ (if o.senderAlive then "own-shutdown-or-reset" else "closed") ++ (if o.parked && o.woken then "+was-woken" else "")]
      else if d.isEmpty then ["write:empty"]
      else if o.credit = 0 then ["write:pending" ++ (if o.parked then "+again" else "")]
      else if e.outClosed then ["write:out-closed"]
      else ["write:wrote" ++ (if o.parked && o.woken then "+after-wake" else "")]
  | .read h n =>
    match e.handleObj h with
    | none => ["read:badhandle"]
    | some (_, o) =>
      let r := appRead e h n
      let kind := match r.2 with
        | .data _ => "data" | .eof => "eof" | .pending => "pending" | _ => "other"
      ["read:" ++ kind ++ (if r.1.outq.length > e.outq.length then "+acks" else "")
        ++ (if !o.buf.isEmpty then "+from-buf" else "") ++ (if o.rxq.any (·.isEmpty) then "+empty-frame-queued" else "")]
  | .shutdown h =>
    match e.handleObj h with
    | none => ["shutdown:badhandle"]
    | some (_, o) => if o.finishSent then ["shutdown:already"] else [if o.parked then "shutdown:finish+writer-parked" else "shutdown:finish"]
  | .dropStream h =>
    match e.handleObj h with
    | none => ["drop:badhandle"]
    | some (i, o) =>
      ["drop:" ++ (if o.finishSent then "finished" else "unfinished") ++
        (if lookup e.flows o.fid == some (.established i) then "" else "+slot-gone") ++ (if o.rxq.isEmpty && o.buf.isEmpty then "" else "+unread") ++ ":" ++ ctx]
  | .sendDgram d =>
    if d.host.length > 255 then ["dgsend:toolong"] else if e.outClosed then ["dgsend:closed"] else ["dgsend:sent"]
  | .recvDgram =>
    match e.dgramq with
    | _ :: _ => ["dgrecv:dgram"]
    | [] => if e.dead then ["dgrecv:closed"] else ["dgrecv:pending"]
  | .bindReq _ _ _ _ =>
    if (drawId e.flows e.rng e.fallback 64).isNone then ["bindreq:no-id"]
    else if e.outClosed then ["bindreq:out-closed:" ++ ctx] else ["bindreq:sent"]
  | .bindNext =>
    if e.opts.bindCap = 0 then ["bindnext:unsupported"]
    else match e.bindq with
      | _ :: _ => ["bindnext:request" ++ (if e.park.isSome then "+unparks" else "")]
      | [] => if e.dead then ["bindnext:closed"] else ["bindnext:pending"]
  | .bindReply k a =>
    match e.held[k]? with
    | none => ["bindreply:badhandle"]
    | some b => if !b.alive then ["bindreply:dropped"] else if e.outClosed then ["bindreply:closed"]
        else [(if a then "bindreply:accept" else "bindreply:refuse") ++ (if b.replied then "+second-answer" else "")]
  | .bindDrop k =>
    match e.held[k]? with
    | none => ["binddrop:badhandle"]
    | some b => if !b.alive then ["binddrop:dropped"] else [if b.replied then "binddrop:answered" else "binddrop:unanswered"]
  | .dropMux =>
    ["dropmux:" ++ ctx ++ (if e.outq.isEmpty then "" else "+queued") ++ (if e.sinkRoom == some 0 then "+sink-blocked" else "")
      ++ (if e.acceptq.isEmpty then "" else "+unaccepted") ++ (if e.bindq.isEmpty then "" else "+bind-queued") ++ ":" ++ parkTag e]
  | .sinkRoom n =>
    [match n with | none => "sink:unblock" | some 0 => "sink:block" | some _ => "sink:grant"]
  | .cancelOpen req => [if e.opens.any (·.req == req) then "cancelopen:pending" else "cancelopen:gone"]
  | .deliver w =>
    if e.srcEnded || e.inbox.any (fun x => x == .eof || x == .err) then ["deliver:ignored"]
    else
      let whenTag := if e.dead then ":dead" else if e.closing.isSome then ":closing" else if e.draining.isSome then ":draining"
        else if e.park.isSome then ":" ++ parkTag e else ""
      match w with
      | .msg (.frame f) => (frameTags e f).map (· ++ whenTag)
      | .msg .ping => ["deliver:ping" ++ whenTag]
      | .msg .pong => ["deliver:pong" ++ whenTag]
      | .msg .close => ["fault:close" ++ whenTag ++ (if e.flows.isEmpty then "" else "+flows") ++ (if e.opens.isEmpty then "" else "+opens")]
      | .bad _ => ["fault:bad" ++ whenTag]
      | .err => ["fault:err" ++ whenTag ++ (if e.flows.isEmpty then "" else "+flows")]
      | .eof => ["fault:eof" ++ whenTag ++ (if e.flows.isEmpty then "" else "+flows")]

end Penguin.MuxCov
