/-
Driver for the frame codec model (C09): executes `Penguin.encode`, `Penguin.decode`,
`Penguin.appendPushData` and the PROTOCOL.md validity predicate on request lines.
-/
import Penguin.Basic.Bytes
import Penguin.Basic.Loop
import Penguin.Model.Frame
import Penguin.Spec.Layout

open Penguin

def opName : Frame → String
  | .connect .. => "connect" | .acknowledge .. => "acknowledge" | .reset .. => "reset"
  | .finish .. => "finish" | .push .. => "push" | .bind .. => "bind" | .datagram .. => "datagram"

def showDec : Except DecErr Frame → String
  | .ok f => s!"ok {toHex (encode f)} {opName f} {f.id}"
  | .error .tooShort => "err short"
  | .error (.version n) => s!"err version {n}"
  | .error (.opcode n) => s!"err opcode {n}"
  | .error (.bindType n) => s!"err bindtype {n}"

def parseFrame : List String → Option Frame
  | ["connect", id, rwnd, port, host] => do
      pure (.connect (← id.toNat?) (← rwnd.toNat?) (← port.toNat?) (← ofHex host))
  | ["acknowledge", id, n] => do pure (.acknowledge (← id.toNat?) (← n.toNat?))
  | ["reset", id] => do pure (.reset (← id.toNat?))
  | ["finish", id] => do pure (.finish (← id.toNat?))
  | ["push", id, d] => do pure (.push (← id.toNat?) (← ofHex d))
  | ["bind", id, t, port, host] => do
      let bt ← (match t with | "1" => some BindType.stream | "3" => some BindType.datagram | _ => none)
      pure (.bind (← id.toNat?) bt (← port.toNat?) (← ofHex host))
  | ["datagram", id, port, host, d] => do
      pure (.datagram (← id.toNat?) (← port.toNat?) (← ofHex host) (← ofHex d))
  | _ => none

def step (_ : Unit) (line : String) : Unit × String :=
  let out :=
    match tokens line with
    | ["dec", h] =>
      match ofHex h with
      | some bs => showDec (decode bs)
      | none => "bad-op"
    | ["valid", h] =>
      match ofHex h with
      | some bs => toString (Spec.Layout.Valid bs)
      | none => "bad-op"
    | "enc" :: rest =>
      match parseFrame rest with
      | some f => if f.wf then toHex (encode f) else "panic"
      | none => "bad-op"
    | "encv" :: id :: pieces =>
      match id.toNat?, pieces.mapM ofHex with
      | some id, some ps => toHex (encodePushVectored id ps)
      | _, _ => "bad-op"
    | ["append", f, d] =>
      match ofHex f, ofHex d with
      | some f, some d =>
        match appendPushData f d with
        | some r => toHex r
        | none => "panic"
      | _, _ => "bad-op"
    | _ => "bad-op"
  ((), out)

def main : IO Unit := driverLoop step ()
