/-
Driver for the frame codec model (C09): executes `Penguin.encode`, `Penguin.decode`,
`Penguin.appendPushData` and the PROTOCOL.md validity predicate on request lines.
-/
import Penguin.Basic.Bytes
import Penguin.Basic.Loop
import Penguin.Model.Frame
import Penguin.Spec.Layout
import Penguin.Model.WsMsg

open Penguin

def opName : Frame → String
  | .connect .. => "connect" | .acknowledge .. => "acknowledge" | .reset .. => "reset"
  | .finish .. => "finish" | .push .. => "push" | .bind .. => "bind" | .datagram .. => "datagram"

def showDec : Except DecErr Frame → String
  | .ok f => s!"ok {toHex (encode f)} {opName f} {f.id}"
  | .error .tooShort => "err short"
  | .error (.version n) => s!"err version {n}"
  | .error (.opcode n) => s!"err opcode {n}"
  | .error (.bindType n) => s!"err bindtype {n}"

def parseFrame : List String → Option Frame
  | ["connect", id, rwnd, port, host] => do
      pure (.connect (← id.toNat?) (← rwnd.toNat?) (← port.toNat?) (← ofHex host))
  | ["acknowledge", id, n] => do pure (.acknowledge (← id.toNat?) (← n.toNat?))
  | ["reset", id] => do pure (.reset (← id.toNat?))
  | ["finish", id] => do pure (.finish (← id.toNat?))
  | ["push", id, d] => do pure (.push (← id.toNat?) (← ofHex d))
  | ["bind", id, t, port, host] => do
      let bt ← (match t with | "1" => some BindType.stream | "3" => some BindType.datagram | _ => none)
      pure (.bind (← id.toNat?) bt (← port.toNat?) (← ofHex host))
  | ["datagram", id, port, host, d] => do
      pure (.datagram (← id.toNat?) (← port.toNat?) (← ofHex host) (← ofHex d))
  | _ => none

def step (_ : Unit) (line : String) : Unit × String :=
  let out :=
    match tokens line with
    | ["wsfrom", kind, h] =>
      -- `From<tungstenite::Message>`: kind ∈ text binary ping pong close closenone frame
      match ofHex h with
      | some b =>
        let m : Option WsMsg.TMsg := match kind with
          | "text" => some (.text b) | "binary" => some (.binary b) | "ping" => some (.ping b) | "pong" => some (.pong b)
          | "close" => some (.close (some (1000, b))) | "closenone" => some (.close none) | "frame" => some .frame
          | _ => none
        match m with
        | none => "bad-op"
        | some m =>
          match WsMsg.fromT m with
          | none => "panic"
          | some (.binary d) => s!"binary {hexOrDash d}"
          | some .ping => "ping" | some .pong => "pong" | some .close => "close"
      | none => "bad-op"
    | ["wsto", kind, h] =>
      match ofHex h with
      | some b =>
        let m : Option WsMsg.Msg := match kind with
          | "binary" => some (.binary b) | "ping" => some .ping | "pong" => some .pong | "close" => some .close | _ => none
        match m with
        | none => "bad-op"
        | some m =>
          match WsMsg.toT m with
          | .binary d => s!"binary {hexOrDash d}" | .text d => s!"text {hexOrDash d}"
          | .ping d => s!"ping {hexOrDash d}" | .pong d => s!"pong {hexOrDash d}"
          | .close none => "closenone" | .close (some (c, d)) => s!"close {c} {hexOrDash d}" | .frame => "frame"
      | none => "bad-op"
    | ["dec", h] =>
      match ofHex h with
      | some bs => showDec (decode bs)
      | none => "bad-op"
    | ["valid", h] =>
      match ofHex h with
      | some bs => toString (Spec.Layout.Valid bs)
      | none => "bad-op"
    | "enc" :: rest =>
      match parseFrame rest with
      | some f => if f.wf then toHex (encode f) else "panic"
      | none => "bad-op"
    | "encv" :: id :: pieces =>
      match id.toNat?, pieces.mapM ofHex with
      | some id, some ps => toHex (encodePushVectored id ps)
      | _, _ => "bad-op"
    | ["append", f, d] =>
      match ofHex f, ofHex d with
      | some f, some d =>
        match appendPushData f d with
        | some r => toHex r
        | none => "panic"
      | _, _ => "bad-op"
    | _ => "bad-op"
  ((), out)

def main : IO Unit := driverLoop step ()
