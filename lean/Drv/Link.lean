/-
Driver for the link model (`Penguin.Link`): one direction of one established stream. The mux
harness projects the real endpoints' trace of every paired stream, per direction, onto link actions
and compares what the real code answered with what `Link.step` answers.

  new <W> <th>      -> `ok`              a fresh link: receiver window W, receiver threshold th
  write <hex|->     -> `wrote n` | `pending` | `brokenpipe`
  shutdown | abort  -> `none`
  deliver           -> the item that reaches the receiving task: `push <hex|->` | `fin` | `rst` | `empty`
  ack               -> the count that reaches the sending task: `ack n` | `empty`
  read <n>          -> `data <hex>` | `pending` | `eof`
  state             -> `credit c since s rxq k overrun b`
-/
import Penguin.Basic.Bytes
import Penguin.Basic.Loop
import Penguin.Model.Link

open Penguin Penguin.Link

def hexTok (b : Bytes) : String := hexOrDash b

def showOut : Out → String
  | .wrote n => s!"wrote {n}"
  | .pending => "pending"
  | .brokenPipe => "brokenpipe"
  | .data bs => s!"data {toHex bs}"
  | .eof => "eof"
  | .none => "none"

def showItem : Option Item → String
  | some (.push d) => s!"push {hexTok d}"
  | some .fin => "fin"
  | some .rst => "rst"
  | none => "empty"

def parseBytes (s : String) : Option Bytes := ofHex s

def step (s : St) (line : String) : St × String :=
  match tokens line with
  | ["new", w, th] =>
    match w.toNat?, th.toNat? with
    | some w, some th => (Link.init w th, "ok")
    | _, _ => (s, "bad-op")
  | ["write", d] =>
    match parseBytes d with
    | some d => let r := Link.step s (.write d); (r.1, showOut r.2)
    | none => (s, "bad-op")
  | ["shutdown"] => ((Link.step s .shutdown).1, "none")
  | ["abort"] => ((Link.step s .abort).1, "none")
  | ["deliver"] => ((Link.step s .deliver).1, showItem s.wire.head?)
  | ["ack"] =>
    ((Link.step s .deliverAck).1, match s.acks.head? with | some n => s!"ack {n}" | none => "empty")
  | ["read", n] =>
    match n.toNat? with
    | some n => let r := Link.step s (.read n); (r.1, showOut r.2)
    | none => (s, "bad-op")
  | ["state"] => (s, s!"credit {s.credit} since {s.since} rxq {s.rxq.length} overrun {s.overrun}")
  | _ => (s, "bad-op")

def main : IO Unit := driverLoop step (Link.init 1 1)
