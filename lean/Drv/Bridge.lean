/-
Driver for `Model/Bridge` (C13).  One request line, one response line.

  new <credit> <fixed|pinned>          → ok        fresh bridge; the stream has <credit> units of credit
  script <lfill|lwrite|lflush|lshut> <answer>*   → ok        (replaces that script)
      lfill answers:  d:<hex> | z:<n>:<k> | eof | p0 | p1 | e:<code>
                      (z:<n>:<k> = the n bytes k, k+1, … modulo 251: the bulk cases' large chunks)
      lwrite answers: n:<k>   | p0 | p1 | e:<code>
      lflush / lshut: ok      | p0 | p1 | e:<code>
  ev push <hex> | ev fin | ev rst | ev ack <n> | ev abort   → ok      (what reached the stream)
  coop                                 → ok        (the local scripts are dropped: co-operative from now on)
  poll                                 → res=<pending|ok:<r>:<w>|err:<brokenpipe|writezero|local:<c>>|diverged>
                                          rs=<T|S|D><n> ws=<T|D><n> in=<hex|-> out=<hex,…|-> fin=<0|1>
                                          cr=<credit> mw=<mux waker slots held> calls=<local calls|->
  anything else                        → bad-op
-/
import Penguin.Basic.Bytes
import Penguin.Basic.Loop
import Penguin.Model.Bridge

open Penguin Penguin.Bridge

structure DState where
  fx : Fix := fixed
  st : St := {}
  env : MuxEnv := {}

def parsePend : String → Option Bool
  | "p0" => some false
  | "p1" => some true
  | _ => none

def parseErr (s : String) : Option Nat :=
  match s.splitOn ":" with
  | ["e", c] => c.toNat?
  | _ => none

def parseAns {α : Type} (ready : String → Option α) (s : String) : Option (Ans α) :=
  match parsePend s with
  | some b => some (.pending b)
  | none =>
    match parseErr s with
    | some c => some (.err c)
    | none => (ready s).map .ready

def readyFill (s : String) : Option Bytes :=
  if s = "eof" then some []
  else match s.splitOn ":" with
    | ["d", h] => ofHex h
    | ["z", n, k] =>
      match n.toNat?, k.toNat? with
      | some n, some k => some ((List.range n).map fun i => UInt8.ofNat ((k + i) % 251))
      | _, _ => none
    | _ => none

def readyWrite (s : String) : Option Nat :=
  match s.splitOn ":" with
  | ["n", k] => k.toNat?
  | _ => none

def readyUnit (s : String) : Option Unit := if s = "ok" then some () else none

def showPend (b : Bool) : String := if b then "p1" else "p0"

def showUnitAns : Ans Unit → String
  | .ready () => "ok"
  | .pending b => showPend b
  | .err c => s!"e:{c}"

def showCall : Call → Option String
  | .lfill (.ready d) => some (if d.isEmpty then "F:eof" else s!"F:d:{toHex d}")
  | .lfill (.pending b) => some s!"F:{showPend b}"
  | .lfill (.err c) => some s!"F:e:{c}"
  | .lconsume n => some s!"C:{n}"
  | .lwrite len (.ready k) => some s!"W:{len}:n:{k}"
  | .lwrite len (.pending b) => some s!"W:{len}:{showPend b}"
  | .lwrite len (.err c) => some s!"W:{len}:e:{c}"
  | .lflush a => some s!"L:{showUnitAns a}"
  | .lshut a => some s!"S:{showUnitAns a}"
  | _ => none

def showErr : Err → String
  | .brokenPipe => "brokenpipe"
  | .writeZero => "writezero"
  | .localErr c => s!"local:{c}"

def showRes : Res → String
  | .ok r w => s!"ok:{r}:{w}"
  | .pending => "pending"
  | .err e => s!"err:{showErr e}"
  | .diverged => "diverged"

def showRs : ReadState → String
  | .transferring n => s!"T{n}" | .shuttingDown n => s!"S{n}" | .done n => s!"D{n}"

def showWs : WriteState → String
  | .transferring n => s!"T{n}" | .done n => s!"D{n}"

def joinOrDash (sep : String) (xs : List String) : String :=
  if xs.isEmpty then "-" else sep.intercalate xs

def doPoll (d : DState) : DState × String :=
  let s0 := d.env.install d.st
  let (res, s) := poll d.fx s0
  let env := d.env.after s
  let inb := s.toLocal.drop s0.toLocal.length
  let out := s.frames.drop s0.frames.length
  -- `do_shutdown` sends a `Finish` frame only when the stream was not closed already
  let fin := s.calls.contains .finish && !d.env.closed && !d.env.taskGone
  let mw := (if env.rdSlot then 1 else 0) + (if env.crSlot then 1 else 0)
  let line := s!"res={showRes res} rs={showRs s.rs} ws={showWs s.ws} in={hexOrDash inb} " ++
    s!"out={joinOrDash "," (out.map toHex)} fin={if fin then 1 else 0} cr={env.credit} mw={mw} " ++
    s!"calls={joinOrDash "," (s.calls.filterMap showCall)}"
  ({ d with st := s, env := env }, line)

def step (d : DState) (line : String) : DState × String :=
  match tokens line with
  | ["new", c, m] =>
    match c.toNat?, (if m = "fixed" then some fixed else if m = "pinned" then some pinned else none) with
    | some c, some fx => ({ fx := fx, st := {}, env := { credit := c } }, "ok")
    | _, _ => (d, "bad-op")
  | "script" :: which :: toks =>
    match which with
    | "lfill" =>
      match toks.mapM (parseAns readyFill) with
      | some xs => ({ d with st := { d.st with lfill := xs } }, "ok")
      | none => (d, "bad-op")
    | "lwrite" =>
      match toks.mapM (parseAns readyWrite) with
      | some xs => ({ d with st := { d.st with lwrite := xs } }, "ok")
      | none => (d, "bad-op")
    | "lflush" =>
      match toks.mapM (parseAns readyUnit) with
      | some xs => ({ d with st := { d.st with lflush := xs } }, "ok")
      | none => (d, "bad-op")
    | "lshut" =>
      match toks.mapM (parseAns readyUnit) with
      | some xs => ({ d with st := { d.st with lshut := xs } }, "ok")
      | none => (d, "bad-op")
    | _ => (d, "bad-op")
  | ["ev", "push", h] =>
    match ofHex h with
    | some b => ({ d with env := d.env.apply (.push b) }, "ok")
    | none => (d, "bad-op")
  | ["ev", "fin"] => ({ d with env := d.env.apply .fin }, "ok")
  | ["ev", "rst"] => ({ d with env := d.env.apply .rst }, "ok")
  | ["ev", "abort"] => ({ d with env := d.env.apply .abort }, "ok")
  | ["ev", "ack", n] =>
    match n.toNat? with
    | some n => ({ d with env := d.env.apply (.ack n) }, "ok")
    | none => (d, "bad-op")
  | ["coop"] => ({ d with st := { d.st with lfill := [], lwrite := [], lflush := [], lshut := [] } }, "ok")
  | ["poll"] => doPoll d
  | _ => (d, "bad-op")

def main : IO Unit := driverLoop step {}
