/-
Driver for the endpoint model (`Penguin.Mux`): any number of named endpoints; every request is one
application call or one transport delivery followed by the task's run to quiescence (`settle`).
Response: `<result> | <event>; <event>; …`.
-/
import Penguin.Basic.Bytes
import Penguin.Basic.Loop
import Penguin.Model.Frame
import Penguin.Model.Mux
import Penguin.Model.MuxExt
import Penguin.Model.MuxStart
import Drv.MuxCov

open Penguin Penguin.Mux

/-! ### Compact tokens for long payloads

The huge-write cases of the harness (one write of more than 1 MiB) use payloads that are runs
`k, k+1, …` modulo 251. A byte string of at least 1024 such bytes — possibly after a 5-byte frame
header — is written `<hex of the header>z:<n>:<k>` in both directions (harness/src/muxsim.rs
`hexz` / `unhexz`), so that no line carries megabytes of hex. -/

def zpattern (n k : Nat) : Bytes := (List.range n).map fun i => UInt8.ofNat ((k + i) % 251)

/-- `bs` is the run `k, k+1, …` modulo 251 (tail recursive: it runs over millions of bytes). -/
def isRun : Nat → Bytes → Bool
  | _, [] => true
  | k, b :: rest => if b.toNat == k % 251 then isRun (k + 1) rest else false

def zMin : Nat := 1024

def startsRun (bs : Bytes) : Bool :=
  match bs with
  | b :: _ => if b.toNat < 251 then isRun b.toNat bs else false
  | [] => false

def zTok (bs : Bytes) : String :=
  if bs.length < zMin then hexOrDash bs
  else if startsRun bs then s!"z:{bs.length}:{(bs.headD 0).toNat}"
  else
    let tl := bs.drop 5
    if tl.length ≥ zMin && startsRun tl then s!"{toHex (bs.take 5)}z:{tl.length}:{(tl.headD 0).toNat}"
    else
      -- (wave 9a) a Datagram frame: the run may start after the header, the host length, the port and the host
      let p := if bs.length > 8 && (bs.headD 0).toNat % 16 == 6 then 8 + (bs.getD 5 0).toNat else 0
      let tl := bs.drop p
      if p > 0 && tl.length ≥ zMin && startsRun tl then s!"{toHex (bs.take p)}z:{tl.length}:{(tl.headD 0).toNat}"
      else toHex bs

def ofHexZ (s : String) : Option Bytes :=
  match s.splitOn "z:" with
  | [pre, z] =>
    match z.splitOn ":" with
    | [n, k] =>
      match n.toNat?, k.toNat?, (if pre.isEmpty then some [] else ofHexChars pre.toList) with
      | some n, some k, some p => if n ≤ 16777216 ∧ k < 251 then some (p ++ zpattern n k) else none
      | _, _, _ => none
    | _ => none
  | _ => ofHex s

def showMsg : Msg → String
  | .frame f => zTok (encode f)
  | .ping => "ping"
  | .pong => "pong"
  | .close => "close"

def showBt : BindType → String
  | .stream => "1"
  | .datagram => "3"

def showEv : Ev → String
  | .wire m => s!"wire {showMsg m}"
  | .wireClose => "wclose"
  | .openDone r (.ok h) => s!"opendone {r} ok {h}"
  | .openDone r .closed => s!"opendone {r} closed"
  | .openDone r .rejected => s!"opendone {r} rejected"
  | .bindDone r .accepted => s!"binddone {r} true"
  | .bindDone r .refused => s!"binddone {r} false"
  | .bindDone r .closed => s!"binddone {r} closed"
  | .exit .ok => "exit ok"
  | .exit (.invalidFrame _) => "exit invalidframe"
  | .exit .wsError => "exit wserror"
  | .exit .closedErr => "exit closed"
  | .exit .sendStream => "exit sendstream"
  | .exit .connAckGone => "exit connackgone"

def showRes : Res → String
  | .unit => "unit"
  | .wrote n => s!"wrote {n}"
  | .data b => s!"data {zTok b}"
  | .eof => "eof"
  | .pending => "pending"
  | .brokenPipe => "brokenpipe"
  | .closed => "closed"
  | .stream h host port => s!"stream {h} {hexOrDash host} {port}"
  | .dgram d => s!"dgram {d.fid} {hexOrDash d.host} {d.port} {zTok d.data}"
  | .bindReq k fid bt host port => s!"bindreq {k} {fid} {showBt bt} {hexOrDash host} {port}"
  | .tooLong => "toolong"
  | .unsupported => "unsupported"
  | .started => "started"
  | .badHandle => "badhandle"

abbrev St := List (String × EP)

def getEP (st : St) (n : String) : Option EP := (st.find? (·.1 = n)).map (·.2)
def putEP (st : St) (n : String) (e : EP) : St := (n, e) :: st.filter (·.1 ≠ n)

def run1 (st : St) (n : String) (e : EP) (op : Mux.Op) : St × String :=
  let tags := MuxCov.tagsOf e op
  let (e, r, evs) := applyOp e op
  -- (the trailing ` | #tag …` names the model branch the stimulus exercised: reporting only)
  (putEP st n e, showRes r ++ " | " ++ "; ".intercalate (evs.map showEv) ++ " | #" ++ " #".intercalate tags)

def run3 (st : St) (n : String) (r : EP × Res × List Ev) : St × String :=
  (putEP st n r.1, showRes r.2.1 ++ " | " ++ "; ".intercalate (r.2.2.map showEv))

/-! ### The stimulus `writemany` (wave 9a)

`writemany E h n k`: up to `n` one-byte writes on handle `h`, made back to back before the connection
task runs again — the j-th carries the byte `(k + j) mod 251` — stopping at the first call that is not
accepted; then the task runs to quiescence once. This is `applyBatch` over that list of `write` calls,
cut at the first answer that is not `wrote`; the frames the calls queue are collected apart (the model's
queue is a list that is appended to: tens of thousands of appends would be quadratic) and joined to
the queue before `settle`. Answer: `many <accepted> <done | pending | brokenpipe | badhandle>`. -/

def writeManyLoop (h k : Nat) : Nat → Nat → EP → List Msg → EP × Nat × Option Res × List Msg
  | 0, j, e, acc => (e, j, none, acc)
  | fuel + 1, j, e, acc =>
    let r := appWrite { e with outq := [] } h [UInt8.ofNat ((k + j) % 251)]
    match r.2 with
    | .wrote _ => writeManyLoop h k fuel (j + 1) { r.1 with outq := [] } (r.1.outq.reverse ++ acc)
    | res => ({ r.1 with outq := [] }, j, some res, r.1.outq.reverse ++ acc)

def applyWriteMany (e : EP) (h n k : Nat) : EP × String × List Ev :=
  let q0 := e.outq
  let (e, j, last, acc) := writeManyLoop h k n 0 e []
  let (e, evs) := settle { e with outq := q0 ++ acc.reverse }
  (e, s!"many {j} " ++ (match last with | none => "done" | some r => showRes r), evs)

def parseIn : List String → Option WsIn
  | ["bin", h] => (ofHexZ h).map fun bs =>
      match decode bs with
      | .ok f => WsIn.msg (.frame f)
      | .error e => WsIn.bad e
  | ["ping"] => some (.msg .ping)
  | ["pong"] => some (.msg .pong)
  | ["close"] => some (.msg .close)
  | ["err"] => some .err
  | ["eof"] => some .eof
  | _ => none

/-- The application calls that may appear inside a `batch`. -/
def parseCall : List String → Option Mux.Op
  | ["open", req, host, port] =>
    match req.toNat?, ofHex host, port.toNat? with
    | some req, some host, some port => some (.open req host port)
    | _, _, _ => none
  | ["accept"] => some .accept
  | ["write", h, d] =>
    match h.toNat?, ofHexZ d with
    | some h, some d => some (.write h d)
    | _, _ => none
  | ["read", h, k] =>
    match h.toNat?, k.toNat? with
    | some h, some k => some (.read h k)
    | _, _ => none
  | ["shutdown", h] => h.toNat?.map .shutdown
  | ["dropstream", h] => h.toNat?.map .dropStream
  | ["dgsend", fid, host, port, d] =>
    match fid.toNat?, ofHex host, port.toNat?, ofHexZ d with
    | some fid, some host, some port, some d => some (.sendDgram { fid := fid, host := host, port := port, data := d })
    | _, _, _, _ => none
  | ["dgrecv"] => some .recvDgram
  | ["bindnext"] => some .bindNext
  | ["cancelopen", req] => req.toNat?.map .cancelOpen
  -- a frame of the peer that is readable in the same poll of the task as the calls of the batch,
  -- and the drop of the `Multiplexor` among them (both are plain `opStep`s)
  | ["deliver", "bin", h] => (parseIn ["bin", h]).map .deliver
  | ["dropmux"] => some .dropMux
  | _ => none

/-- Split a token list at the separator `;`. -/
def splitCalls : List String → List (List String)
  | [] => [[]]
  | ";" :: rest => [] :: splitCalls rest
  | t :: rest =>
    match splitCalls rest with
    | [] => [[t]]
    | c :: cs => (t :: c) :: cs

/-! ### wave 9b: a failing sink, and a task that has not been polled yet

`sinkfail E` — the outbound direction of the transport fails and the task is polled (`MuxStart.applySinkFail`).
`new E … unstarted` creates an endpoint whose task exists but has not run: until `start E` every line
for `E` is the application call (or the delivery into the transport) ALONE — `opStep`, no run of the
task, as inside a `batch` — and `sinkfail E` only marks the sink as dead; `start E` is the first poll
(`MuxStart.applyStart`). The two marks are kept in the endpoint list under the names `E!unstarted` and
`E!sinkfailed` (never the name of an endpoint). -/

def flagOn (st : St) (n f : String) : Bool := (getEP st (n ++ "!" ++ f)).isSome
def setFlag (st : St) (n f : String) (e : EP) : St := putEP st (n ++ "!" ++ f) e
def clearFlag (st : St) (n f : String) : St := st.filter (·.1 ≠ n ++ "!" ++ f)

/-- The calls an application can make (and what the transport can be handed) before the task's first poll. -/
def parseCallX : List String → Option Mux.Op
  | ["bindreq", req, t, host, port] =>
    match req.toNat?, (if t = "1" then some BindType.stream else if t = "3" then some BindType.datagram else none),
          ofHex host, port.toNat? with
    | some req, some bt, some host, some port => some (.bindReq req bt host port)
    | _, _, _, _ => none
  | ["bindreply", k, a] => k.toNat?.map fun k => .bindReply k (a = "1")
  | ["binddrop", k] => k.toNat?.map .bindDrop
  | ["sinkblock"] => some (.sinkRoom (some 0))
  | ["sinkunblock"] => some (.sinkRoom none)
  | ["sinkgrant", k] => k.toNat?.map fun k => .sinkRoom (some k)
  | "deliver" :: w => (parseIn w).map .deliver
  | c => parseCall c

/-- Several items handed to the transport at once, before the task's first poll. -/
def parseMany : List String → Option (List WsIn)
  | "many" :: hs => hs.mapM (fun h => parseIn ["bin", h])
  | "closemany" :: hs => (hs.mapM (fun h => parseIn ["bin", h])).map fun ws => [.msg .close] ++ ws ++ [.eof]
  | ["closeerr"] => some [.msg .close, .err]
  | ["err2"] => some [.err, .err]
  | _ => none

def stepStart (st : St) : List String → Option (St × String)
  | ["new", n, rwnd, th, ac, dc, bc, mr, "unstarted"] =>
    match rwnd.toNat?, th.toNat?, ac.toNat?, dc.toNat?, bc.toNat?, mr.toNat? with
    | some rwnd, some th, some ac, some dc, some bc, some mr =>
      let e : EP := { opts := { rwnd := rwnd, threshold := th, acceptCap := ac, dgramCap := dc, bindCap := bc, maxRetries := mr } }
      some (setFlag (clearFlag (putEP st n e) n "sinkfailed") n "unstarted" e, "ok")
    | _, _, _, _, _, _ => some (st, "bad-op")
  | "rng" :: _ => none
  | cmd :: n :: args =>
    match getEP st n with
    | none => none
    | some e =>
      if flagOn st n "unstarted" then
        match cmd, args with
        | "start", [] =>
          let failed := flagOn st n "sinkfailed"
          some (run3 (clearFlag (clearFlag st n "unstarted") n "sinkfailed") n (applyStart e failed))
        | "sinkfail", [] => some (setFlag st n "sinkfailed" e, "unit | ")
        | "flowcount", [] => some (st, s!"count {e.flows.length} | ")
        | "deliver", w :: ws =>
          match parseMany (w :: ws) with
          | some items => some (putEP st n (deliverMany e items), "unit | ")
          | none =>
            match parseCallX (cmd :: args) with
            | some op =>
              let r := opStep e op
              some (putEP st n r.1, showRes r.2.1 ++ " | " ++ "; ".intercalate (r.2.2.map showEv))
            | none => some (st, "bad-op")
        | _, _ =>
          match parseCallX (cmd :: args) with
          | some op =>
            let r := opStep e op
            some (putEP st n r.1, showRes r.2.1 ++ " | " ++ "; ".intercalate (r.2.2.map showEv))
          | none => some (st, "bad-op")
      else
        match cmd, args with
        | "sinkfail", [] => some (run3 st n (applySinkFail e))
        | "start", [] => some (st, "unit | ")
        | _, _ => none
  | _ => none

def step (st : St) (line : String) : St × String :=
  match stepStart st (tokens line) with
  | some r => r
  | none =>
  match tokens line with
  | ["reset"] => ([], "ok")
  | ["new", n, rwnd, th, ac, dc, bc, mr] =>
    match rwnd.toNat?, th.toNat?, ac.toNat?, dc.toNat?, bc.toNat?, mr.toNat? with
    | some rwnd, some th, some ac, some dc, some bc, some mr =>
      (putEP st n { opts := { rwnd := rwnd, threshold := th, acceptCap := ac, dgramCap := dc, bindCap := bc, maxRetries := mr } }, "ok")
    | _, _, _, _, _, _ => (st, "bad-op")
  | "rng" :: n :: ks =>
    match getEP st n, ks.mapM String.toNat? with
    | some e, some ks => (putEP st n { e with rng := e.rng ++ ks }, "ok")
    | _, _ => (st, "bad-op")
  | cmd :: n :: args =>
    match getEP st n with
    | none => (st, "bad-op")
    | some e =>
      match cmd, args with
      | "open", [req, host, port] =>
        match req.toNat?, ofHex host, port.toNat? with
        | some req, some host, some port => run1 st n e (.open req host port)
        | _, _, _ => (st, "bad-op")
      | "accept", [] => run1 st n e .accept
      | "write", [h, d] =>
        match h.toNat?, ofHexZ d with
        | some h, some d => run1 st n e (.write h d)
        | _, _ => (st, "bad-op")
      | "wpush", [h, d] =>
        match h.toNat?, ofHexZ d with
        | some h, some d => run3 st n (applyWritePush e h d)
        | _, _ => (st, "bad-op")
      | "writev", h :: ps =>
        match h.toNat?, ps.mapM ofHexZ with
        | some h, some ps => run1 st n e (.write h ps.flatten)
        | _, _ => (st, "bad-op")
      | "writemany", [h, cnt, k] =>
        match h.toNat?, cnt.toNat?, k.toNat? with
        | some h, some cnt, some k =>
          let r := applyWriteMany e h cnt k
          (putEP st n r.1, r.2.1 ++ " | " ++ "; ".intercalate (r.2.2.map showEv))
        | _, _, _ => (st, "bad-op")
      -- (the scripted peer has taken what the endpoint sent: nothing happens at the endpoint)
      | "wiredrop", [] => (st, "unit | ")
      | "read", [h, k] =>
        match h.toNat?, k.toNat? with
        | some h, some k => run1 st n e (.read h k)
        | _, _ => (st, "bad-op")
      | "shutdown", [h] =>
        match h.toNat? with
        | some h => run1 st n e (.shutdown h)
        | none => (st, "bad-op")
      | "dropstream", [h] =>
        match h.toNat? with
        | some h => run1 st n e (.dropStream h)
        | none => (st, "bad-op")
      | "batch", toks =>
        match (splitCalls toks).mapM parseCall with
        | some ops =>
          let r := applyBatch e ops
          (putEP st n r.1, " , ".intercalate (r.2.1.map showRes) ++ " | " ++ "; ".intercalate (r.2.2.map showEv))
        | none => (st, "bad-op")
      | "dropmany", hs =>
        match hs.mapM (·.toNat?) with
        | some hs => run3 st n (applyDropMany e hs)
        | none => (st, "bad-op")
      | "dgsend", [fid, host, port, d] =>
        match fid.toNat?, ofHex host, port.toNat?, ofHexZ d with
        | some fid, some host, some port, some d =>
          run1 st n e (.sendDgram { fid := fid, host := host, port := port, data := d })
        | _, _, _, _ => (st, "bad-op")
      | "dgrecv", [] => run1 st n e .recvDgram
      | "bindreq", [req, t, host, port] =>
        match req.toNat?, (if t = "1" then some BindType.stream else if t = "3" then some BindType.datagram else none),
              ofHex host, port.toNat? with
        | some req, some bt, some host, some port => run1 st n e (.bindReq req bt host port)
        | _, _, _, _ => (st, "bad-op")
      | "bindnext", [] => run1 st n e .bindNext
      | "bindreply", [k, a] =>
        match k.toNat? with
        | some k => run1 st n e (.bindReply k (a = "1"))
        | none => (st, "bad-op")
      | "binddrop", [k] =>
        match k.toNat? with
        | some k => run1 st n e (.bindDrop k)
        | none => (st, "bad-op")
      | "dropmux", [] => run1 st n e .dropMux
      | "cancelopen", [req] =>
        match req.toNat? with
        | some req => run1 st n e (.cancelOpen req)
        | none => (st, "bad-op")
      | "sinkblock", [] => run1 st n e (.sinkRoom (some 0))
      | "sinkunblock", [] => run1 st n e (.sinkRoom none)
      | "sinkgrant", [k] =>
        match k.toNat? with
        | some k => run1 st n e (.sinkRoom (some k))
        | none => (st, "bad-op")
      | "deliver", "many" :: hs =>
        match hs.mapM (fun h => parseIn ["bin", h]) with
        | some ws => run3 st n (applyDeliverMany e ws)
        | none => (st, "bad-op")
      | "deliver", "closemany" :: hs =>
        match hs.mapM (fun h => parseIn ["bin", h]) with
        | some ws => run3 st n (applyDeliverMany e ([.msg .close] ++ ws ++ [.eof]))
        | none => (st, "bad-op")
      | "deliver", ["closeerr"] => run3 st n (applyDeliverMany e [.msg .close, .err])
      | "deliver", ["err2"] => run3 st n (applyDeliverMany e [.err, .err])
      | "deliver", w =>
        match parseIn w with
        | some w => run1 st n e (.deliver w)
        | none => (st, "bad-op")
      -- the size of the flow table (the implementation answers through its verification hook)
      | "flowcount", [] => (st, s!"count {e.flows.length} | ")
      | "wstate", [h] =>
        match h.toNat? with
        | some h =>
          match e.handleObj h with
          | some (_, o) => (st, if o.parked then (if o.woken then "woken" else "parked") else "idle")
          | none => (st, "badhandle")
        | none => (st, "bad-op")
      | _, _ => (st, "bad-op")
  | _ => (st, "bad-op")

def main : IO Unit := driverLoop step []
