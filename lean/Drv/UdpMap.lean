/-
Driver for the UDP map model (C01): executes `Penguin.UdpMap` (client maps) and its server part
on request lines.

  reset                                   -> ok
  add <t> <peer> <our> <sock> <s5> <rng>  -> id <n> | rng-exhausted | panic     (rng = draws, comma separated)
  reply <t> <id>                          -> target <sock> <peer> <s5> | stdio | unknown
  prune <t>                               -> pruned <ids|-> | panic
  dump                                    -> ids=<id:peer:our:sock:s5;…|-> addrs=<peer:our:id;…|->
  srv-reset                               -> ok
  srv-recv <flow> <host> <port> <data>    -> to-target <fwd> <host> <port> <data> | dropped
  srv-reply <fwd> <data>                  -> to-client <flow> <host> <port> <data> | none
  srv-expire <fwd>                        -> ok
`<t>` is the absolute model time in ms (never decreasing).
-/
import Penguin.Basic.Bytes
import Penguin.Basic.Loop
import Penguin.Model.UdpMap

open Penguin Penguin.UdpMap

structure DSt where
  m : Maps := {}
  s : Srv := {}

def b01 (b : Bool) : String := if b then "1" else "0"

def csvNats (s : String) : Option (List Nat) :=
  if s = "-" then some [] else (s.splitOn ",").mapM String.toNat?

def showNats (l : List Nat) : String :=
  if l.isEmpty then "-" else ",".intercalate (l.map toString)

def showOut : Out → String
  | .id n => s!"id {n}"
  | .target sock peer s5 => s!"target {sock} {peer} {b01 s5}"
  | .stdio => "stdio"
  | .unknown => "unknown"
  | .pruned ids => s!"pruned {showNats (ids.mergeSort (· ≤ ·))}"
  | .panic => "panic"
  | .rngExhausted => "rng-exhausted"
  | .none => "none"

def showSOut : SOut → String
  | .toTarget i h p d => s!"to-target {i} {hexOrDash h} {p} {hexOrDash d}"
  | .toClient d => s!"to-client {d.flowId} {hexOrDash d.host} {d.port} {hexOrDash d.data}"
  | .dropped => "dropped"
  | .none => "none"

def dump (m : Maps) : String :=
  let ids := m.idMap.mergeSort (fun a b => a.1 ≤ b.1)
  let addrs := m.addrMap.mergeSort (fun a b => a.1.1 < b.1.1 || (a.1.1 == b.1.1 && a.1.2 ≤ b.1.2))
  let f (l : List String) : String := if l.isEmpty then "-" else ";".intercalate l
  let i := ids.map (fun p => s!"{p.1}:{p.2.peer}:{p.2.our}:{p.2.sock}:{b01 p.2.socks5}")
  let a := addrs.map (fun q => s!"{q.1.1}:{q.1.2}:{q.2}")
  s!"ids={f i} addrs={f a}"

def at_ (m : Maps) (t : Nat) : Maps := if t ≥ m.now then { m with now := t } else m

def step (st : DSt) (line : String) : DSt × String :=
  match tokens line with
  | ["reset"] => ({ st with m := {} }, "ok")
  | ["add", t, peer, our, sock, s5, rng] =>
    match t.toNat?, peer.toNat?, our.toNat?, sock.toNat?, csvNats rng with
    | some t, some peer, some our, some sock, some rng =>
      if s5 ≠ "0" ∧ s5 ≠ "1" then (st, "bad-op") else
      let r := add (at_ st.m t) peer our sock (s5 == "1") rng
      ({ st with m := r.1 }, showOut r.2)
    | _, _, _, _, _ => (st, "bad-op")
  | ["reply", t, id] =>
    match t.toNat?, id.toNat? with
    | some t, some id =>
      let r := reply (at_ st.m t) id
      ({ st with m := r.1 }, showOut r.2)
    | _, _ => (st, "bad-op")
  | ["prune", t] =>
    match t.toNat? with
    | some t =>
      let r := prune (at_ st.m t)
      ({ st with m := r.1 }, showOut r.2)
    | none => (st, "bad-op")
  | ["dump"] => (st, dump st.m)
  | ["srv-reset"] => ({ st with s := {} }, "ok")
  | ["srv-recv", flow, host, port, data] =>
    match flow.toNat?, ofHex host, port.toNat?, ofHex data with
    | some flow, some host, some port, some data =>
      let r := sstep st.s (.fromClient { flowId := flow, host := host, port := port, data := data })
      ({ st with s := r.1 }, showSOut r.2)
    | _, _, _, _ => (st, "bad-op")
  | ["srv-reply", i, data] =>
    match i.toNat?, ofHex data with
    | some i, some data =>
      let r := sstep st.s (.fromTarget i data)
      ({ st with s := r.1 }, showSOut r.2)
    | _, _ => (st, "bad-op")
  | ["srv-expire", i] =>
    match i.toNat? with
    | some i => ({ st with s := (sstep st.s (.expire i)).1 }, "ok")
    | none => (st, "bad-op")
  | _ => (st, "bad-op")

def main : IO Unit := driverLoop step {}
