/-
Driver for the HTTP-proxy model (C01): executes `Penguin.HttpProxy` on request lines.

  proxy <connect|other> noauth <https> <reserve> <channel> <handshake> <send>
  proxy <connect|other> auth <host> <port> <https> <reserve> <channel> <handshake> <send>
      -> status=<n|upstream> body=<hex|-> tunnel=<host>:<port>|none|<k>-requests bridged=<0|1> forwarded=<0|1>
  strip <host>                              -> <host>
`<host>` in hex (`-` = empty); `<port>` = `-` (nothing written), a number, or `x` (written, but not a
u16); the flags are 0 | 1.
-/
import Penguin.Basic.Bytes
import Penguin.Basic.Loop
import Penguin.Model.HttpProxy

open Penguin Penguin.HttpProxy

def bit (s : String) : Option Bool :=
  if s = "1" then some true else if s = "0" then some false else none

def b01 (b : Bool) : String := if b then "1" else "0"

def methodOf (s : String) : Option Method :=
  if s = "connect" then some .connect else if s = "other" then some .other else none

def portOf (s : String) : Option PortIn :=
  if s = "-" then some .absent else if s = "x" then some .invalid else s.toNat?.map .num

def showOutcome (o : Outcome) : String :=
  let (st, body) := match o.answer with
    | .fixed s b => (toString s, hexOrDash b)
    | .upstream => ("upstream", "-")
  let tun := match o.tunnels with
    | [] => "none"
    | [(h, p)] => s!"{hexOrDash h}:{p}"
    | l => s!"{l.length}-requests"
  s!"status={st} body={body} tunnel={tun} bridged={b01 o.bridged} forwarded={b01 o.forwarded}"

def run (m : String) (auth : Option Authority) (flags : List String) : String :=
  match methodOf m, flags.mapM bit with
  | some m, some [https, reserve, channel, handshake, send] =>
    showOutcome (proxy { method := m, authority := auth, schemeHttps := https }
      { reserveOk := reserve, channelOk := channel, handshakeOk := handshake, sendOk := send })
  | _, _ => "bad-op"

def step (_ : Unit) (line : String) : Unit × String :=
  match tokens line with
  | "proxy" :: m :: "noauth" :: flags => ((), run m none flags)
  | "proxy" :: m :: "auth" :: host :: port :: flags =>
    match ofHex host, portOf port with
    | some h, some p => ((), run m (some { host := h, port := p }) flags)
    | _, _ => ((), "bad-op")
  | ["strip", host] =>
    match ofHex host with
    | some h => ((), hexOrDash (stripBrackets h))
    | none => ((), "bad-op")
  | _ => ((), "bad-op")

def main : IO Unit := driverLoop step ()
