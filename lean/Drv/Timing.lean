/-
Driver for the keepalive model (C16): executes `Penguin.Timing.Options.build` and
`Penguin.Timing.keepalive` on request lines.

  build <calls>                                   calls = `-` or comma list of i:<ms|->, t:<ms|->, dg:<n>, sb:<n>,
                                                  bb:<n>, fr:<n>, rw:<n>, th:<n>
      -> `ok <I> <T> <dg> <sb> <bb> <fr> <rw> <th>` | `panic`
  run <I|-> <T|-> <H> <rest|-> <extra csv|-> <d0|-> <d1|-> …
      -> `pings <csv|-> end alive` | `pings <csv|-> end timeout <t>` | `panic`
  runb <B> <I|-> <T|-> <H> <rest|-> <extra csv|-> <d0|-> <d1|-> …
      the same run with the transport's sink blocked from time B on (it accepts nothing more, the peer
      has stopped reading): the ping loop is the same machine (a `Ping` is put on the endpoint's
      unbounded outbound queue, task.rs `schedule_ping_task`, which never waits for the sink), but a
      ping due at or after B reaches neither the sink nor the peer — it is never answered and is not
      among the pings observed on the transport.
-/
import Penguin.Basic.Bytes
import Penguin.Basic.Loop
import Penguin.Model.Timing

open Penguin Penguin.Timing

def odTok : OptionalDuration → String
  | none => "-"
  | some n => toString n

def parseOd (s : String) : Option OptionalDuration :=
  if s == "-" then some none else s.toNat?.map some

def parseSetter (s : String) : Option Setter :=
  match s.splitOn ":" with
  | ["i", v] => (parseOd v).map .keepaliveInterval
  | ["t", v] => (parseOd v).map .keepaliveTimeout
  | ["dg", v] => v.toNat?.map .datagramBufferSize
  | ["sb", v] => v.toNat?.map .streamBufferSize
  | ["bb", v] => v.toNat?.map .bindBufferSize
  | ["fr", v] => v.toNat?.map .maxFlowIdRetries
  | ["rw", v] => v.toNat?.map .rwnd
  | ["th", v] => v.toNat?.map .defaultRwndThreshold
  | _ => none

def parseCalls (s : String) : Option (List Setter) :=
  if s == "-" then some [] else (s.splitOn ",").mapM parseSetter

def parseCsv (s : String) : Option (List Nat) :=
  if s == "-" then some [] else (s.splitOn ",").mapM String.toNat?

def csv (l : List Nat) : String :=
  if l.isEmpty then "-" else ",".intercalate (l.map toString)

def showOptions (o : Options) : String :=
  s!"ok {odTok o.keepaliveInterval} {odTok o.keepaliveTimeout} {o.datagramBufferSize} {o.streamBufferSize} {o.bindBufferSize} {o.maxFlowIdRetries} {o.rwnd} {o.defaultRwndThreshold}"

def showOutcome : Outcome → String
  | .panic => "panic"
  | .ok s =>
    let e := match s.dead with
      | none => "alive"
      | some t => s!"timeout {t}"
    s!"pings {csv s.pings.reverse} end {e}"

/-- Pings that reached the sink before it was blocked at time `b`. -/
def showOutcomeBlocked (b : Nat) : Outcome → String
  | .panic => "panic"
  | .ok s => showOutcome (.ok { s with pings := s.pings.filter (· < b) })

def step (_ : Unit) (line : String) : Unit × String :=
  let out :=
    match tokens line with
    | ["build", calls] =>
      match parseCalls calls with
      | some cs =>
        match Options.build cs with
        | some o => showOptions o
        | none => "panic"
      | none => "bad-op"
    | ["od", "cmp", a, b] =>
      match parseOd a, parseOd b with
      | some a, some b =>
        let c := match OptionalDuration.cmp a b with | .lt => "lt" | .eq => "eq" | .gt => "gt"
        s!"{c} max={odTok (OptionalDuration.max a b)} le={OptionalDuration.le a b}"
      | _, _ => "bad-op"
    | ["od", "cmpd", a, d] =>
      match parseOd a, d.toNat? with
      | some a, some d => (match OptionalDuration.cmpDuration a d with | .lt => "lt" | .eq => "eq" | .gt => "gt")
      | _, _ => "bad-op"
    | ["od", "from", ms] =>
      match ms.toNat? with
      | some ms => odTok (OptionalDuration.ofDuration ms)
      | none => "bad-op"
    | ["od", "str", t] =>
      -- the harness says whether the text is a `u64` (`u:<value>`) or not (`x`): integer parsing is std's
      (match t.splitOn ":" with
       | ["u", v] => (match v.toNat? with
          | some v => (match OptionalDuration.ofSecsText (some v) with | some o => "ok " ++ odTok o | none => "err")
          | none => "bad-op")
       | ["x"] => (match OptionalDuration.ofSecsText none with | some o => "ok " ++ odTok o | none => "err")
       | _ => "bad-op")
    | "run" :: i :: t :: h :: rest :: extra :: delays =>
      match parseOd i, parseOd t, h.toNat?, parseOd rest, parseCsv extra, delays.mapM parseOd with
      | some i, some t, some h, some rest, some extra, some delays =>
        let o : Options := { Options.new with keepaliveInterval := i, keepaliveTimeout := t }
        showOutcome (keepalive o (scriptDelay delays rest) extra h)
      | _, _, _, _, _, _ => "bad-op"
    | "runb" :: b :: i :: t :: h :: rest :: extra :: delays =>
      match b.toNat?, parseOd i, parseOd t, h.toNat?, parseOd rest, parseCsv extra, delays.mapM parseOd with
      | some b, some i, some t, some h, some rest, some extra, some delays =>
        let o : Options := { Options.new with keepaliveInterval := i, keepaliveTimeout := t }
        let iv := i.getD 0
        let delay : Nat → Option Nat := fun k => if k * iv ≥ b then none else scriptDelay delays rest k
        showOutcomeBlocked b (keepalive o delay extra h)
      | _, _, _, _, _, _, _ => "bad-op"
    | _ => "bad-op"
  ((), out)

def main : IO Unit := driverLoop step ()
