/-
Driver for `Model/Waker` (C12): enumerates ALL interleavings of a scenario in the model and prints
the set of final outcomes in the canonical form the loom hook in `/repo` prints
(`penguin-mux/src/verif_loom.rs`).

  outcomes <fixed|pinned> <scenario>             → ok <states> <outcome> <outcome> …   (sorted)
  schedule <fixed|pinned> <scenario> <outcome>   → ok <step> <step> …  |  none
  monitor <scenario> <outcome>                   → ok | lost-wakeup | conservation | frames
  anything else                                  → bad-op

scenario = c<credit>-p<polls>[-a<n>|-x]*      outcome = res=S,P;credit=1;wakes=0,1;closed=0;frames=1
`fixed` = `Penguin.Waker.step` (the repaired code), `pinned` = `Penguin.Waker.stepPinned`.
-/
import Std.Data.HashMap
import Penguin.Basic.Bytes
import Penguin.Basic.Loop
import Penguin.Model.Waker

open Penguin Penguin.Waker

def stripPrefix (c : Char) (s : String) : Option String :=
  match s.toList with
  | d :: rest => if d = c then some (String.ofList rest) else none
  | [] => none

def parseActor (s : String) : Option ActorKind :=
  if s = "x" then some .close
  else do
    let n ← (← stripPrefix 'a' s).toNat?
    pure (.ack n)

def parseScenario (s : String) : Option Scenario :=
  match s.splitOn "-" with
  | c :: p :: rest => do
    let credit ← (← stripPrefix 'c' c).toNat?
    let polls ← (← stripPrefix 'p' p).toNat?
    let actors ← rest.mapM parseActor
    pure ⟨credit, polls, actors⟩
  | _ => none

def joinOrDash (xs : List String) : String :=
  if xs.isEmpty then "-" else ",".intercalate xs

def resultName : PollResult → String
  | .some => "S" | .none => "N" | .pending => "P"

/-- The canonical outcome of a final state (same text as the loom hook prints). -/
def outcomeOf (sc : Scenario) (s : State) : String :=
  let res := joinOrDash ((results s).map resultName)
  let wakes := joinOrDash ((List.range sc.polls).map (fun k => toString (wakesOf s k)))
  s!"res={res};credit={s.credit};wakes={wakes};closed={if s.closed then 1 else 0};frames={s.sent}"

def pcName : WPc → String
  | .loadFin => "loadFin" | .loadCredit => "loadCredit" | .register => "register"
  | .reloadFin => "reloadFin" | .reloadCredit => "reloadCredit" | .cas o => s!"cas({o})"
  | .send => "send" | .finished => "finished"

def labelName (s : State) : Label → String
  | .writer => "w:" ++ pcName s.pc
  | .casSpurious => "w:casSpurious"
  | .actor i =>
    match s.actors[i]? with
    | some a =>
      let op := match a.pc, a.kind with
        | .write, .ack _ => "fetchAdd" | .write, .close => "swap" | .wake, _ => "wake" | .done, _ => "done"
      s!"a{i}:{op}"
    | none => s!"a{i}:?"

def labelsOf (s : State) : List Label :=
  ([Label.writer, Label.casSpurious] ++ (List.range s.actors.length).map Label.actor).filter (enabled s)

/-- Breadth-first exploration of every interleaving (visited set: the `casSpurious` loop and
    commuting steps make the graph a DAG with sharing plus small cycles).  Returns the number of
    distinct states and, per distinct final outcome, one shortest schedule reaching it. -/
partial def explore (recheck : Bool) (sc : Scenario) : Nat × List (String × List String) :=
  let rec go (frontier : List (State × List String)) (seen : Std.HashMap State Unit)
      (outs : Std.HashMap String (List String)) : Nat × List (String × List String) :=
    match frontier with
    | [] => (seen.size, outs.toList)
    | _ =>
      let (next, seen, outs) := frontier.foldl (init := ([], seen, outs)) fun (next, seen, outs) (s, path) =>
        let ls := labelsOf s
        if ls.isEmpty then
          let o := outcomeOf sc s
          (next, seen, if outs.contains o then outs else outs.insert o path.reverse)
        else
          ls.foldl (init := (next, seen, outs)) fun (next, seen, outs) l =>
            let s' := stepGen recheck s l
            if seen.contains s' then (next, seen, outs)
            else ((s', labelName s l :: path) :: next, seen.insert s' (), outs)
      go next.reverse seen outs
  let s0 := init sc
  go [(s0, [])] ((∅ : Std.HashMap State Unit).insert s0 ()) ∅

def sortStrings (xs : List String) : List String := (xs.toArray.qsort (· < ·)).toList

def parseMode : String → Option Bool
  | "fixed" => some true
  | "pinned" => some false
  | _ => none

/-- Fields of a canonical outcome. -/
structure Outcome where
  res : List String
  credit : Nat
  wakes : List Nat
  closed : Bool
  frames : Nat

def parseList (s : String) : List String := if s = "-" then [] else s.splitOn ","

def parseOutcome (s : String) : Option Outcome :=
  match (s.splitOn ";").map (·.splitOn "=") with
  | [["res", r], ["credit", c], ["wakes", w], ["closed", x], ["frames", f]] => do
    let wakes ← (parseList w).mapM (·.toNat?)
    let closed ← (match x with | "0" => some false | "1" => some true | _ => none)
    pure ⟨parseList r, ← c.toNat?, wakes, closed, ← f.toNat?⟩
  | _ => none

/-- The property's predicate on a FINAL outcome (all threads joined), as `Props/C12` states it:
    `no_lost_wakeup_quiescent`, `credit_conservation`, `no_frame_without_credit`. -/
def monitor (sc : Scenario) (o : Outcome) : String :=
  let grants := (sc.actors.map fun | .ack n => n | .close => 0).sum
  let taken := o.res.count "S"
  let lastPending := o.res.getLast? == some "P"
  let lastWakes := o.wakes.getLast?.getD 0
  if lastPending && lastWakes == 0 && (o.credit > 0 || o.closed) then "lost-wakeup"
  else if o.credit + taken != sc.credit + grants then "conservation"
  else if o.frames != taken then "frames"
  else "ok"

def step (_ : Unit) (line : String) : Unit × String :=
  let out :=
    match tokens line with
    | ["outcomes", m, scn] =>
      match parseMode m, parseScenario scn with
      | some recheck, some sc =>
        let (n, outs) := explore recheck sc
        " ".intercalate ("ok" :: toString n :: sortStrings (outs.map (·.1)))
      | _, _ => "bad-op"
    | ["schedule", m, scn, o] =>
      match parseMode m, parseScenario scn with
      | some recheck, some sc =>
        match (explore recheck sc).2.find? (·.1 == o) with
        | some (_, path) => " ".intercalate ("ok" :: path)
        | none => "none"
      | _, _ => "bad-op"
    | ["monitor", scn, o] =>
      match parseScenario scn, parseOutcome o with
      | some sc, some oc => monitor sc oc
      | _, _ => "bad-op"
    | _ => "bad-op"
  ((), out)

def main : IO Unit := driverLoop step ()
