/-
Driver for `Model/Waker` (C12): enumerates ALL interleavings of a scenario in the model and prints
the set of final outcomes in the canonical form the loom hook in `/repo` prints
(`penguin-mux/src/verif_loom.rs`).

  outcomes <fixed|pinned> <scenario>             → ok <states> <outcome> <outcome> …   (sorted)
  schedule <fixed|pinned> <scenario> <outcome>   → ok <step> <step> …  |  none
  monitor <scenario> <outcome>                   → ok | lost-wakeup | conservation | frames
  anything else                                  → bad-op

scenario = c<credit>-p<polls>[-a<n>|-x]*      outcome = res=S,P;credit=1;wakes=0,1;closed=0;frames=1
`fixed` = `Penguin.Waker.step` (the repaired code), `pinned` = `Penguin.Waker.stepPinned`.

Several writer threads on one stream (`Model/WakerN`, repaired code only; `pinned` answers `bad-op`):

scenario = c<credit>-w<writers>[-a<n>|-x|-s]* (every writer thread polls once, as in the loom hook;
                                               `s` = a thread calling `do_shutdown()` through another
                                               handle: `swap(true)`, no `wake()`; model only — the
                                               loom hook has no such scenario yet)
outcome  = res=S,P;credit=0;wakes=0,1;after=1,1;closed=0;frames=1
  `res` / `wakes` per writer thread, `after` per writer the wake-ups delivered to ANY waker after that
  writer's poll began.  "Began" is the hook's instrumentation, not an operation of the code: the hook
  reads its wake-up counter when the writer thread starts to run, which for the threads it spawns
  (writers 1, 2, …) is a moment of its own before the poll's first atomic operation, and for writer 0
  (the hook's main thread) lies before any other writer exists.  The driver mirrors that with a
  `begin` step per spawned writer (writer 0 has begun in the initial state); the model itself has no
  such step.
-/
import Std.Data.HashMap
import Penguin.Basic.Bytes
import Penguin.Basic.Loop
import Penguin.Model.Waker
import Penguin.Model.WakerN

open Penguin Penguin.Waker

def stripPrefix (c : Char) (s : String) : Option String :=
  match s.toList with
  | d :: rest => if d = c then some (String.ofList rest) else none
  | [] => none

def parseActor (s : String) : Option ActorKind :=
  if s = "x" then some .close
  else do
    let n ← (← stripPrefix 'a' s).toNat?
    pure (.ack n)

def parseScenario (s : String) : Option Scenario :=
  match s.splitOn "-" with
  | c :: p :: rest => do
    let credit ← (← stripPrefix 'c' c).toNat?
    let polls ← (← stripPrefix 'p' p).toNat?
    let actors ← rest.mapM parseActor
    pure ⟨credit, polls, actors⟩
  | _ => none

def joinOrDash (xs : List String) : String :=
  if xs.isEmpty then "-" else ",".intercalate xs

def resultName : PollResult → String
  | .some => "S" | .none => "N" | .pending => "P"

/-- The canonical outcome of a final state (same text as the loom hook prints). -/
def outcomeOf (sc : Scenario) (s : State) : String :=
  let res := joinOrDash ((results s).map resultName)
  let wakes := joinOrDash ((List.range sc.polls).map (fun k => toString (wakesOf s k)))
  s!"res={res};credit={s.credit};wakes={wakes};closed={if s.closed then 1 else 0};frames={s.sent}"

def pcName : WPc → String
  | .loadFin => "loadFin" | .loadCredit => "loadCredit" | .register => "register"
  | .reloadFin => "reloadFin" | .reloadCredit => "reloadCredit" | .cas o => s!"cas({o})"
  | .send => "send" | .finished => "finished"

def labelName (s : State) : Label → String
  | .writer => "w:" ++ pcName s.pc
  | .casSpurious => "w:casSpurious"
  | .actor i =>
    match s.actors[i]? with
    | some a =>
      let op := match a.pc, a.kind with
        | .write, .ack _ => "fetchAdd" | .write, .close => "swap" | .wake, _ => "wake" | .done, _ => "done"
      s!"a{i}:{op}"
    | none => s!"a{i}:?"

def labelsOf (s : State) : List Label :=
  ([Label.writer, Label.casSpurious] ++ (List.range s.actors.length).map Label.actor).filter (enabled s)

/-- Breadth-first exploration of every interleaving (visited set: the `casSpurious` loop and
    commuting steps make the graph a DAG with sharing plus small cycles).  Returns the number of
    distinct states and, per distinct final outcome, one shortest schedule reaching it. -/
partial def explore (recheck : Bool) (sc : Scenario) : Nat × List (String × List String) :=
  let rec go (frontier : List (State × List String)) (seen : Std.HashMap State Unit)
      (outs : Std.HashMap String (List String)) : Nat × List (String × List String) :=
    match frontier with
    | [] => (seen.size, outs.toList)
    | _ =>
      let (next, seen, outs) := frontier.foldl (init := ([], seen, outs)) fun (next, seen, outs) (s, path) =>
        let ls := labelsOf s
        if ls.isEmpty then
          let o := outcomeOf sc s
          (next, seen, if outs.contains o then outs else outs.insert o path.reverse)
        else
          ls.foldl (init := (next, seen, outs)) fun (next, seen, outs) l =>
            let s' := stepGen recheck s l
            if seen.contains s' then (next, seen, outs)
            else ((s', labelName s l :: path) :: next, seen.insert s' (), outs)
      go next.reverse seen outs
  let s0 := init sc
  go [(s0, [])] ((∅ : Std.HashMap State Unit).insert s0 ()) ∅

def sortStrings (xs : List String) : List String := (xs.toArray.qsort (· < ·)).toList

def parseMode : String → Option Bool
  | "fixed" => some true
  | "pinned" => some false
  | _ => none

/-- Fields of a canonical outcome. -/
structure Outcome where
  res : List String
  credit : Nat
  wakes : List Nat
  closed : Bool
  frames : Nat

def parseList (s : String) : List String := if s = "-" then [] else s.splitOn ","

def parseOutcome (s : String) : Option Outcome :=
  match (s.splitOn ";").map (·.splitOn "=") with
  | [["res", r], ["credit", c], ["wakes", w], ["closed", x], ["frames", f]] => do
    let wakes ← (parseList w).mapM (·.toNat?)
    let closed ← (match x with | "0" => some false | "1" => some true | _ => none)
    pure ⟨parseList r, ← c.toNat?, wakes, closed, ← f.toNat?⟩
  | _ => none

/-- The property's predicate on a FINAL outcome (all threads joined), as `Props/C12` states it:
    `no_lost_wakeup_quiescent`, `credit_conservation`, `no_frame_without_credit`. -/
def monitor (sc : Scenario) (o : Outcome) : String :=
  let grants := (sc.actors.map fun | .ack n => n | .close => 0).sum
  let taken := o.res.count "S"
  let lastPending := o.res.getLast? == some "P"
  let lastWakes := o.wakes.getLast?.getD 0
  if lastPending && lastWakes == 0 && (o.credit > 0 || o.closed) then "lost-wakeup"
  else if o.credit + taken != sc.credit + grants then "conservation"
  else if o.frames != taken then "frames"
  else "ok"

/-! ### Several writer threads on one stream (`Model/WakerN`) -/

namespace N
open Penguin.WakerN

/-- `c<credit>-w<writers>[-a<n>|-x|-s]*`: `writers` threads, one poll each; every `s` is one more
    `do_shutdown()` thread (these are not actors of the connection task: `Model/WakerN`). -/
def parseScenario (s : String) : Option WakerN.Scenario :=
  match s.splitOn "-" with
  | c :: w :: rest => do
    let credit ← (← stripPrefix 'c' c).toNat?
    let writers ← (← stripPrefix 'w' w).toNat?
    if writers < 2 then none
    let actors ← (rest.filter (· != "s")).mapM parseActor
    pure ⟨credit, List.replicate writers 1, actors, rest.count "s"⟩
  | _ => none

/-- Exploration state: the model state and, per writer thread, the hook's reading of its wake-up
    counter when that writer's poll began (`none`: the thread has not started to run). -/
abbrev XState := WakerN.State × List (Option Nat)

inductive XLabel
  | begin (w : Nat)
  | model (l : WakerN.Label)

def xinit (sc : WakerN.Scenario) : XState :=
  (WakerN.init sc, (List.range sc.writers.length).map fun i => if i = 0 then some 0 else none)

def began (x : XState) (w : Nat) : Bool := (x.2[w]?.join).isSome

def xlabels (x : XState) : List XLabel :=
  let n := x.1.writers.length
  let begins := ((List.range n).filter (fun w => !began x w)).map XLabel.begin
  let ws := ((List.range n).filter (began x)).flatMap fun w => [WakerN.Label.writer w, WakerN.Label.casSpurious w]
  let ls := (ws ++ (List.range x.1.actors.length).map WakerN.Label.actor ++ [WakerN.Label.shutdown]).filter
    (WakerN.enabled x.1)
  begins ++ ls.map XLabel.model

def xstep (x : XState) : XLabel → XState
  | .begin w => (x.1, x.2.set w (some x.1.wakeLog.length))
  | .model l => (WakerN.step x.1 l, x.2)

def xlabelName (x : XState) : XLabel → String
  | .begin w => s!"w{w}:begin"
  | .model (.writer w) => s!"w{w}:" ++ (match x.1.writers[w]? with | some wr => pcName wr.pc | none => "?")
  | .model (.casSpurious w) => s!"w{w}:casSpurious"
  | .model .shutdown => "s:swap"
  | .model (.actor i) =>
    match x.1.actors[i]? with
    | some a =>
      let op := match a.pc, a.kind with
        | .write, .ack _ => "fetchAdd" | .write, .close => "swap" | .wake, _ => "wake" | .done, _ => "done"
      s!"a{i}:{op}"
    | none => s!"a{i}:?"

/-- The canonical outcome of a final state (same text as the loom hook prints for `w` scenarios). -/
def outcomeOf (x : XState) : String :=
  let s := x.1
  let idx := List.range s.writers.length
  let res := joinOrDash (s.writers.map fun w => "".intercalate (w.results.map resultName))
  let wakes := joinOrDash (idx.map fun i => toString (WakerN.wakesOf s (i, 0)))
  let after := joinOrDash (idx.map fun i => toString (s.wakeLog.length - (x.2[i]?.join).getD 0))
  s!"res={res};credit={s.credit};wakes={wakes};after={after};closed={if s.closed then 1 else 0};frames={WakerN.totalSent s}"

/-- Breadth-first exploration of every interleaving, as `explore` above. -/
partial def explore (sc : WakerN.Scenario) : Nat × List (String × List String) :=
  let rec go (frontier : List (XState × List String)) (seen : Std.HashMap XState Unit)
      (outs : Std.HashMap String (List String)) : Nat × List (String × List String) :=
    match frontier with
    | [] => (seen.size, outs.toList)
    | _ =>
      let (next, seen, outs) := frontier.foldl (init := ([], seen, outs)) fun (next, seen, outs) (x, path) =>
        let ls := xlabels x
        if ls.isEmpty then
          let o := outcomeOf x
          (next, seen, if outs.contains o then outs else outs.insert o path.reverse)
        else
          ls.foldl (init := (next, seen, outs)) fun (next, seen, outs) l =>
            let x' := xstep x l
            if seen.contains x' then (next, seen, outs)
            else ((x', xlabelName x l :: path) :: next, seen.insert x' (), outs)
      go next.reverse seen outs
  let x0 := xinit sc
  go [(x0, [])] ((∅ : Std.HashMap XState Unit).insert x0 ()) ∅

structure Outcome where
  res : List String
  credit : Nat
  wakes : List Nat
  after : List Nat
  closed : Bool
  frames : Nat

def parseOutcome (s : String) : Option Outcome :=
  match (s.splitOn ";").map (·.splitOn "=") with
  | [["res", r], ["credit", c], ["wakes", w], ["after", a], ["closed", x], ["frames", f]] => do
    let wakes ← (parseList w).mapM (·.toNat?)
    let after ← (parseList a).mapM (·.toNat?)
    let closed ← (match x with | "0" => some false | "1" => some true | _ => none)
    pure ⟨parseList r, ← c.toNat?, wakes, after, closed, ← f.toNat?⟩
  | _ => none

/-- The predicate of `Props/C12` (`…_n` theorems) and `Props/C03` on a FINAL outcome of a scenario with
    several writers: `no_frame_without_credit_n` (frames never exceed initial + grants),
    `credit_conservation_n`, frames = `Ready(Some)` polls, `no_lost_wakeup_slot_task_n` /
    `no_writer_left_unwoken_after_close_n` (a writer left `Pending` although credit is available or the
    CONNECTION TASK has closed the stream — at quiescence: the scenario has a `disallow_write()` —: a
    wake-up was delivered after its poll began; a stream closed by foreign `do_shutdown()`s alone owes
    no wake-up, `foreign_shutdown_alone_wakes_nobody`). -/
def monitor (sc : WakerN.Scenario) (o : Outcome) : String :=
  let n := sc.writers.length
  let obtainable := sc.credit + sc.ackTotal
  let taken := o.res.count "S"
  let taskCloses := sc.actors.any fun | .close => true | .ack _ => false
  let asleep := (List.range n).any fun i =>
    o.res[i]? == some "P" && o.after[i]?.getD 0 == 0 && (o.credit > 0 || (o.closed && taskCloses))
  if o.res.length != n || o.wakes.length != n || o.after.length != n then "malformed"
  else if taken > obtainable || o.frames > obtainable then "no-credit"
  else if o.credit + taken != obtainable then "conservation"
  else if o.frames != taken then "frames"
  else if asleep then "lost-wakeup"
  else "ok"

end N

def step (_ : Unit) (line : String) : Unit × String :=
  let out :=
    match tokens line with
    | ["outcomes", m, scn] =>
      match parseMode m, parseScenario scn, N.parseScenario scn with
      | some recheck, some sc, _ =>
        let (n, outs) := explore recheck sc
        " ".intercalate ("ok" :: toString n :: sortStrings (outs.map (·.1)))
      | some true, none, some sc =>
        let (n, outs) := N.explore sc
        " ".intercalate ("ok" :: toString n :: sortStrings (outs.map (·.1)))
      | _, _, _ => "bad-op"
    | ["schedule", m, scn, o] =>
      match parseMode m, parseScenario scn, N.parseScenario scn with
      | some recheck, some sc, _ =>
        match (explore recheck sc).2.find? (·.1 == o) with
        | some (_, path) => " ".intercalate ("ok" :: path)
        | none => "none"
      | some true, none, some sc =>
        match (N.explore sc).2.find? (·.1 == o) with
        | some (_, path) => " ".intercalate ("ok" :: path)
        | none => "none"
      | _, _, _ => "bad-op"
    | ["monitor", scn, o] =>
      match parseScenario scn, parseOutcome o with
      | some sc, some oc => monitor sc oc
      | _, _ =>
        match N.parseScenario scn, N.parseOutcome o with
        | some sc, some oc => N.monitor sc oc
        | _, _ => "bad-op"
    | _ => "bad-op"
  ((), out)

def main : IO Unit := driverLoop step ()
