/-
Driver for the request-gate model (C14): executes `Penguin.Gate.route` / `respond`, the SHA-1 and the
base64 of the model on request lines.

  route <psk> <obfs> <notfound> <method> <target> <onupgrade> <name>=<value>*
      psk        `none` | `some:<hex or ->`
      obfs       0 | 1
      notfound   hex or `-`   (configured 404 body)
      method     token        (`http::Method::as_str`)
      target     hex          (origin-form request target; the model takes `Uri::path` of it)
      onupgrade  0 | 1
      name=value header name as the `HeaderMap` keeps it, value hex or `-`; arrival order
    -> `<decision> <status> <name>=<value>,…|- <body>`   (headers sorted by name; no backend)
       decision = health | version | upgrade | fallback:<reason>
  accept <key>   -> accept hash (hex) of the key
  sha1 <bytes>   -> digest (hex)
  b64 <bytes>    -> base64 text (hex)
  eqci <a> <b>   -> true | false

The client's half (`Penguin.ClientReq`):
  clientreq <target> <urlhost> <psk> <hostname> <key> <name>=<value>*
      target     hex  (path and query of the server URL as `ServerUrl` keeps it)
      urlhost    hex or `-` (authority after any `@`)
      psk, hostname   `none` | `some:<hex or ->`   (`--ws-psk`, `--hostname`)
      key        hex  (the `sec-websocket-key` tungstenite drew)
      name=value custom `--header`s in command-line order, names lower case
    -> `sent <method> <target> <name>=<value>,…`  (header map of `buildRequest`, sorted by name, stable)
     | `unsent:hostname` | `unsent:value:<name>`
  clientroute <srvpsk> <obfs> <clientreq arguments…>
    -> `unsent:…` | the server model's decision on `received (buildRequest …)`:
       `upgrade:<accept hex>` | `fallback:<reason>` | `health` | `version`
  parsepsk <text hex or ->   -> the key `--ws-psk <text>` configures (hex or `-`)
  normurl <scheme> <authority hex|none> <hasport 0|1> <pathquery hex|none>
    -> `ok <scheme> <added port|-> <target hex>` | `err:incorrect-scheme` | `err:missing-host`
-/
import Penguin.Basic.Bytes
import Penguin.Basic.Loop
import Penguin.Model.Gate
import Penguin.Model.ClientReq

open Penguin Penguin.Gate

def asciiString (bs : Bytes) : String := String.ofList (bs.map fun b => Char.ofNat b.toNat)

def parsePsk (s : String) : Option (Option Bytes) :=
  if s = "none" then some none
  else if s.startsWith "some:" then (ofHex (s.drop 5).toString).map some
  else none

def parseBool (s : String) : Option Bool :=
  if s = "0" then some false else if s = "1" then some true else none

def parseHeader (s : String) : Option (String × Bytes) :=
  match s.splitOn "=" with
  | [n, v] => if n.isEmpty then none else (ofHex v).map fun b => (n, b)
  | _ => none

def reasonName : Reason → String
  | .notGet => "not-get" | .badPsk => "bad-psk" | .noKey => "no-key"
  | .badHeader => "bad-header" | .noOnUpgrade => "no-on-upgrade"

def decisionName (cfg : Config) (req : Request) : String :=
  match route cfg req with
  | .health => "health"
  | .version => "version"
  | .upgrade _ => "upgrade"
  | .fallback =>
    if req.path = Constants.pathWs then
      match wsCheck cfg req with
      | .error r => "fallback:" ++ reasonName r
      | .ok _ => "fallback:?"
    else "fallback:path"

/-- Insertion sort by header name (stable), so that the line does not depend on map order. -/
def insertHeader (h : String × Bytes) : List (String × Bytes) → List (String × Bytes)
  | [] => [h]
  | x :: xs => if h.1 < x.1 then h :: x :: xs else x :: insertHeader h xs

def sortHeaders (hs : List (String × Bytes)) : List (String × Bytes) :=
  hs.foldl (fun acc h => insertHeader h acc) []

def showResponse (r : Response) : String :=
  let hs := sortHeaders r.headers
  let htxt := if hs.isEmpty then "-" else ",".intercalate (hs.map fun (n, v) => n ++ "=" ++ hexOrDash v)
  s!"{r.status} {htxt} {hexOrDash r.body}"

def doRoute : List String → Option String
  | psk :: obfs :: nf :: method :: target :: onup :: hdrs => do
    let psk ← parsePsk psk
    let obfs ← parseBool obfs
    let nf ← ofHex nf
    let target ← ofHex target
    let onup ← parseBool onup
    let headers ← hdrs.mapM parseHeader
    let cfg : Config := { psk := psk, obfs := obfs, notFound := nf, backend := none }
    let req : Request :=
      { method := method, path := pathOfTarget (asciiString target), headers := headers, onUpgrade := onup }
    let tunnel := if startsTunnel cfg req then "+" else ""
    pure s!"{decisionName cfg req}{tunnel} {showResponse (respond cfg req)}"
  | _ => none

/-! ### The client's request -/

def parseClientCfg : List String → Option (ClientReq.ClientCfg × Bytes)
  | target :: urlhost :: psk :: hostname :: key :: hdrs => do
    let target ← ofHex target
    let urlhost ← ofHex urlhost
    let psk ← parsePsk psk
    let hostname ← parsePsk hostname
    let key ← ofHex key
    let custom ← hdrs.mapM parseHeader
    pure ({ target := asciiString target, urlHost := urlhost, psk := psk, hostname := hostname, custom := custom }, key)
  | _ => none

def unsentName : ClientReq.Unsent → String
  | .hostnameNotText => "unsent:hostname"
  | .valueNotText n => "unsent:value:" ++ n

def doClientReq (args : List String) : Option String := do
  let (c, key) ← parseClientCfg args
  match ClientReq.sent c key with
  | .error e => pure (unsentName e)
  | .ok r =>
    let hs := sortHeaders r.headers
    let htxt := if hs.isEmpty then "-" else ",".intercalate (hs.map fun (n, v) => n ++ "=" ++ hexOrDash v)
    pure s!"sent {r.method} {hexOrDash (asciiBytes c.target)} {htxt}"

def doClientRoute : List String → Option String
  | srvpsk :: obfs :: rest => do
    let srvpsk ← parsePsk srvpsk
    let obfs ← parseBool obfs
    let (c, key) ← parseClientCfg rest
    let cfg : Config := { psk := srvpsk, obfs := obfs, notFound := [], backend := none }
    match ClientReq.sent c key with
    | .error e => pure (unsentName e)
    | .ok r =>
      let req := ClientReq.received r
      match route cfg req with
      | .upgrade a => pure ("upgrade:" ++ hexOrDash a)
      | _ => pure (decisionName cfg req)
  | _ => none

def parseOptText (s : String) : Option (Option String) :=
  if s = "none" then some none else (ofHex s).map fun b => some (asciiString b)

def doNormUrl : List String → Option String
  | [scheme, authority, hasport, pq] => do
    let authority ← parseOptText authority
    let hasport ← parseBool hasport
    let pq ← parseOptText pq
    match ClientReq.normalizeUrl { scheme := scheme, authority := authority, hasPort := hasport, pathAndQuery := pq } with
    | .error .incorrectScheme => pure "err:incorrect-scheme"
    | .error .missingHost => pure "err:missing-host"
    | .ok u =>
      let port := match u.addedPort with | some p => toString p | none => "-"
      pure s!"ok {u.scheme} {port} {hexOrDash (asciiBytes u.target)}"
  | _ => none

def step (_ : Unit) (line : String) : Unit × String :=
  let out :=
    match tokens line with
    | "route" :: rest => (doRoute rest).getD "bad-op"
    | "clientreq" :: rest => (doClientReq rest).getD "bad-op"
    | "clientroute" :: rest => (doClientRoute rest).getD "bad-op"
    | "normurl" :: rest => (doNormUrl rest).getD "bad-op"
    | ["parsepsk", t] => match ofHex t with | some t => hexOrDash (ClientReq.parsePsk t) | none => "bad-op"
    | ["accept", k] => match ofHex k with | some k => hexOrDash (acceptOf k) | none => "bad-op"
    | ["sha1", m] => match ofHex m with | some m => toHex (Sha1.digest m) | none => "bad-op"
    | ["b64", m] => match ofHex m with | some m => hexOrDash (base64 m) | none => "bad-op"
    | ["eqci", a, b] =>
      match ofHex a, ofHex b with
      | some a, some b => toString (eqIgnoreAsciiCase a b)
      | _, _ => "bad-op"
    | _ => "bad-op"
  ((), out)

def main : IO Unit := driverLoop step ()
