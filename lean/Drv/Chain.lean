/-
Driver for the `cow-bytes` model (C20): executes `Penguin.Chain.step`, `Penguin.Chain.run`, the
`Seg` (= `CowBytes`) operations, accessors and comparisons on request lines.

  step <cached-len> <segs> <op ...>        one LongChain operation from the given state
  run  <cached-len> <segs> ; <op> ; ...    a whole operation sequence through `Chain.run`
  seg  <seg> <split_to|split_off|truncate|advance> <n>
  acc  <seg>                               accessors and hash input
  cmp  <seg> <seg>                         `==` and `partial_cmp`
<segs> is `-` or `T:0102,S:-,...`; a value is shown as `len=.. rem=.. empty=.. chunk=.. segs=..`.
-/
import Penguin.Basic.Bytes
import Penguin.Basic.Loop
import Penguin.Model.Chain

open Penguin

def showSeg (s : Seg) : String :=
  (match s.tag with | .temporary => "T:" | .static => "S:") ++ hexOrDash s.bytes

def showSegs (l : List Seg) : String :=
  if l.isEmpty then "-" else ",".intercalate (l.map showSeg)

def showChain (c : Chain) : String :=
  s!"len={c.len} rem={c.remaining} empty={c.isEmpty} chunk={hexOrDash c.chunk} segs={showSegs c.asRef}"

def showOut : Out → String
  | .unit => "-"
  | .popped none => "none"
  | .popped (some s) => showSeg s
  | .removed s => showSeg s
  | .part c => "[" ++ showChain c ++ "]"

def parseSeg (t : String) : Option Seg :=
  match t.splitOn ":" with
  | ["T", h] => (ofHex h).map (Seg.mk .temporary)
  | ["S", h] => (ofHex h).map (Seg.mk .static)
  | _ => none

def parseSegs (t : String) : Option (List Seg) :=
  if t = "-" then some [] else (t.splitOn ",").mapM parseSeg

def parseOp : List String → Option Op
  | ["push", s] => (parseSeg s).map .push
  | ["insert", i, s] => do pure (.insert (← i.toNat?) (← parseSeg s))
  | ["pop"] => some .pop
  | ["remove", i] => i.toNat?.map .remove
  | ["split_to", n] => n.toNat?.map .splitTo
  | ["split_off", n] => n.toNat?.map .splitOff
  | ["truncate", n] => n.toNat?.map .truncate
  | ["advance", n] => n.toNat?.map .advance
  | ["clear"] => some .clear
  | _ => none

/-- Split a token list at the `;` tokens. -/
def splitSemi : List String → List (List String)
  | [] => [[]]
  | t :: rest =>
    match splitSemi rest with
    | [] => [[t]]
    | g :: gs => if t = ";" then [] :: g :: gs else (t :: g) :: gs

def showOrd : Option Ordering → String
  | some .lt => "lt"
  | some .eq => "eq"
  | some .gt => "gt"
  | none => "none"

def segOp (s : Seg) (op : String) (n : Nat) : Option String :=
  let two (r : Res Seg Seg) : String :=
    match r with
    | .error p => "panic " ++ showSeg p.left
    | .ok (s', ret) => s!"ok {showSeg s'} {showSeg ret}"
  let one (r : Res Seg Unit) : String :=
    match r with
    | .error p => "panic " ++ showSeg p.left
    | .ok (s', _) => s!"ok {showSeg s'} -"
  match op with
  | "split_to" => some (two (s.splitTo n))
  | "split_off" => some (two (s.splitOff n))
  | "truncate" => some (one (s.truncate n))
  | "advance" => some (one (s.advance n))
  | _ => none

def step (_ : Unit) (line : String) : Unit × String :=
  let out : String :=
    match tokens line with
    | "step" :: len :: segs :: op =>
      match len.toNat?, parseSegs segs, parseOp op with
      | some len, some segs, some op =>
        match Chain.step ⟨segs, len⟩ op with
        | .error p => "panic | " ++ showChain p.left
        | .ok (c', o) => s!"ok {showOut o} | {showChain c'}"
      | _, _, _ => "bad-op"
    | "run" :: len :: segs :: rest =>
      match len.toNat?, parseSegs segs, splitSemi rest with
      | some len, some segs, [] :: ops =>
        match ops.mapM parseOp with
        | some ops =>
          match Chain.run ⟨segs, len⟩ ops with
          | .error (p, outs) => s!"panic {outs.length} | {showChain p.left}"
          | .ok (c', outs) => s!"ok {outs.length} | {showChain c'}"
        | none => "bad-op"
      | _, _, _ => "bad-op"
    | ["seg", s, op, n] =>
      match parseSeg s, n.toNat? with
      | some s, some n => (segOp s op n).getD "bad-op"
      | _, _ => "bad-op"
    | ["acc", s] =>
      match parseSeg s with
      | some s =>
        s!"len={s.len} empty={s.isEmpty} rem={s.remaining} chunk={hexOrDash s.chunk} hash={toHex s.hashInput}"
      | none => "bad-op"
    | ["cmp", a, b] =>
      match parseSeg a, parseSeg b with
      | some a, some b => s!"eq={a.beq b} ord={showOrd (a.partialCmp b)}"
      | _, _ => "bad-op"
    | _ => "bad-op"
  ((), out)

def main : IO Unit := driverLoop step ()
