/-
Driver for the `cow-bytes` model (C20): executes `Penguin.Chain.step`, `Penguin.Chain.run`, the
`Seg` (= `CowBytes`) operations, accessors and comparisons on request lines.

  step <cached-len> <segs> <op ...>        one LongChain operation from the given state
  run  <cached-len> <segs> ; <op> ; ...    a whole operation sequence through `Chain.run`
  seg  <seg> <split_to|split_off|truncate|advance|copy_to_bytes|copy_to_slice|get_u8|get_u16|get_u32> <n>
  acc  <seg>                               accessors and hash input
  cmp  <seg> <seg>                         `==` and `partial_cmp`
<segs> is `-` or `T:0102,S:-,...`; a value is shown as
`len=.. rem=.. empty=.. more=.. chunk=.. iov=<k=0>|<k=1>|<k=3> segs=..` (`more` is `has_remaining()`, `iov`
the slices `chunks_vectored` offers for 0, 1 and 3 slots, each `-` or hex joined by `+`).
Bytes returned by `copy_to_bytes` / `copy_to_slice` are shown as `b:<hex>`, numbers as `n:<decimal>`.
-/
import Penguin.Basic.Bytes
import Penguin.Basic.Loop
import Penguin.Model.Chain

open Penguin

def showSeg (s : Seg) : String :=
  (match s.tag with | .temporary => "T:" | .static => "S:") ++ hexOrDash s.bytes

def showSegs (l : List Seg) : String :=
  if l.isEmpty then "-" else ",".intercalate (l.map showSeg)

def showIov (l : List Bytes) : String :=
  if l.isEmpty then "-" else "+".intercalate (l.map hexOrDash)

def showChain (c : Chain) : String :=
  s!"len={c.len} rem={c.remaining} empty={c.isEmpty} more={c.hasRemaining} chunk={hexOrDash c.chunk} " ++
  s!"iov={showIov (c.chunksVectored 0)}|{showIov (c.chunksVectored 1)}|{showIov (c.chunksVectored 3)} " ++
  s!"segs={showSegs c.asRef}"

def showOut : Out → String
  | .unit => "-"
  | .popped none => "none"
  | .popped (some s) => showSeg s
  | .removed s => showSeg s
  | .part c => "[" ++ showChain c ++ "]"
  | .copied b => "b:" ++ hexOrDash b
  | .u8 v => s!"n:{v.toNat}"
  | .u16 v => s!"n:{v.toNat}"
  | .u32 v => s!"n:{v.toNat}"

def parseSeg (t : String) : Option Seg :=
  match t.splitOn ":" with
  | ["T", h] => (ofHex h).map (Seg.mk .temporary)
  | ["S", h] => (ofHex h).map (Seg.mk .static)
  | _ => none

def parseSegs (t : String) : Option (List Seg) :=
  if t = "-" then some [] else (t.splitOn ",").mapM parseSeg

def parseOp : List String → Option Op
  | ["push", s] => (parseSeg s).map .push
  | ["insert", i, s] => do pure (.insert (← i.toNat?) (← parseSeg s))
  | ["pop"] => some .pop
  | ["remove", i] => i.toNat?.map .remove
  | ["split_to", n] => n.toNat?.map .splitTo
  | ["split_off", n] => n.toNat?.map .splitOff
  | ["truncate", n] => n.toNat?.map .truncate
  | ["advance", n] => n.toNat?.map .advance
  | ["clear"] => some .clear
  | ["copy_to_bytes", n] => n.toNat?.map .copyToBytes
  | ["copy_to_slice", n] => n.toNat?.map .copyToSlice
  | ["get_u8"] => some .getU8
  | ["get_u16"] => some .getU16
  | ["get_u32"] => some .getU32
  | _ => none

/-- Split a token list at the `;` tokens. -/
def splitSemi : List String → List (List String)
  | [] => [[]]
  | t :: rest =>
    match splitSemi rest with
    | [] => [[t]]
    | g :: gs => if t = ";" then [] :: g :: gs else (t :: g) :: gs

def showOrd : Option Ordering → String
  | some .lt => "lt"
  | some .eq => "eq"
  | some .gt => "gt"
  | none => "none"

def segOp (s : Seg) (op : String) (n : Nat) : Option String :=
  let two (r : Res Seg Seg) : String :=
    match r with
    | .error p => "panic " ++ showSeg p.left
    | .ok (s', ret) => s!"ok {showSeg s'} {showSeg ret}"
  let one (r : Res Seg Unit) : String :=
    match r with
    | .error p => "panic " ++ showSeg p.left
    | .ok (s', _) => s!"ok {showSeg s'} -"
  let bytes (r : Res Seg Bytes) : String :=
    match r with
    | .error p => "panic " ++ showSeg p.left
    | .ok (s', b) => s!"ok {showSeg s'} b:{hexOrDash b}"
  let num (r : Res Seg Nat) : String :=
    match r with
    | .error p => "panic " ++ showSeg p.left
    | .ok (s', v) => s!"ok {showSeg s'} n:{v}"
  match op with
  | "split_to" => some (two (s.splitTo n))
  | "split_off" => some (two (s.splitOff n))
  | "truncate" => some (one (s.truncate n))
  | "advance" => some (one (s.advance n))
  | "copy_to_bytes" => some (bytes (s.copyToBytes n))
  | "copy_to_slice" => some (bytes (s.copyToSlice n))
  | "get_u8" => some (num (s.getU8.map fun (s', v) => (s', v.toNat)))
  | "get_u16" => some (num (s.getU16.map fun (s', v) => (s', v.toNat)))
  | "get_u32" => some (num (s.getU32.map fun (s', v) => (s', v.toNat)))
  | _ => none

def step (_ : Unit) (line : String) : Unit × String :=
  let out : String :=
    match tokens line with
    | "step" :: len :: segs :: op =>
      match len.toNat?, parseSegs segs, parseOp op with
      | some len, some segs, some op =>
        match Chain.step ⟨segs, len⟩ op with
        | .error p => "panic | " ++ showChain p.left
        | .ok (c', o) => s!"ok {showOut o} | {showChain c'}"
      | _, _, _ => "bad-op"
    | "run" :: len :: segs :: rest =>
      match len.toNat?, parseSegs segs, splitSemi rest with
      | some len, some segs, [] :: ops =>
        match ops.mapM parseOp with
        | some ops =>
          match Chain.run ⟨segs, len⟩ ops with
          | .error (p, outs) => s!"panic {outs.length} | {showChain p.left}"
          | .ok (c', outs) => s!"ok {outs.length} | {showChain c'}"
        | none => "bad-op"
      | _, _, _ => "bad-op"
    | ["seg", s, op, n] =>
      match parseSeg s, n.toNat? with
      | some s, some n => (segOp s op n).getD "bad-op"
      | _, _ => "bad-op"
    | ["acc", s] =>
      match parseSeg s with
      | some s =>
        s!"len={s.len} empty={s.isEmpty} rem={s.remaining} more={s.hasRemaining} chunk={hexOrDash s.chunk} " ++
        s!"iov={showIov (s.chunksVectored 0)}|{showIov (s.chunksVectored 1)}|{showIov (s.chunksVectored 3)} " ++
        s!"hash={toHex s.hashInput}"
      | none => "bad-op"
    | ["cmp", a, b] =>
      match parseSeg a, parseSeg b with
      | some a, some b => s!"eq={a.beq b} ord={showOrd (a.partialCmp b)}"
      | _, _ => "bad-op"
    | _ => "bad-op"
  ((), out)

def main : IO Unit := driverLoop step ()
