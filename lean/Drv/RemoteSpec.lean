/-
Driver for the remote-specification model (C01 glue): executes `Penguin.RemoteSpec` on request lines.
Strings travel as the lowercase hex of their UTF-8 bytes, the empty string as `-`.

  pre <s>                     -> pre proto=<p|none> toks=<t1,t2,…|->
        what the model will ask the two black boxes about when it parses `s`: the protocol text
        handed to `to_lowercase` (none when there is no suffix to parse) and the tokens that may be
        handed to `idna::domain_to_ascii` (empty list when the tokenizer fails)
  parse <s> <lower|none> <t1=a1,t2=!,…|->
        -> ok arm=<Arm> local=<L> remote=<R> proto=tcp|udp
         | err arm=<Arm|-> <Variant> <payload…>
         | panic arm=<Arm|-> special|arms|loopBound
        `lower` = the real `to_lowercase` of the protocol text, `ti=ai` = the real
        `idna::domain_to_ascii` answers (`!` = Err) for every token listed by `pre`;
        a missing answer is `bad-op missing-oracle`, never a silent default
  display <L> <R> tcp|udp      -> text <s>
        <L> = inet:<host>:<port> | stdio | unix:<path>     <R> = inet:<host>:<port> | socks | http | tproxy
  port <s>                    -> ok <n> | err <IntErrorKind>
  tokens <s>                  -> ok <b|u>:<t>,… | err … | panic …
-/
import Penguin.Basic.Bytes
import Penguin.Basic.Loop
import Penguin.Model.RemoteSpec

open Penguin Penguin.RemoteSpec

def strOfHex (h : String) : Option Str := do
  let bs ← ofHex h
  let s ← String.fromUTF8? (ByteArray.mk bs.toArray)
  pure s.toList

def hexOfStr (s : Str) : String := hexOrDash (String.ofList s).toUTF8.data.toList

def hexOfString (s : String) : String := hexOrDash s.toUTF8.data.toList

def showKind : IntErrKind → String
  | .empty => "Empty"
  | .invalidDigit => "InvalidDigit"
  | .posOverflow => "PosOverflow"
  | .negOverflow => "NegOverflow"
  | .zero => "Zero"

def showError : Error → String
  | .emptySegment => "EmptySegment"
  | .bracketMismatch => "BracketMismatch"
  | .garbageAfterAddress c => s!"GarbageAfterAddress {c.toNat}"
  | .port t k => s!"Port {hexOfStr t} {showKind k}"
  | .protocol t => s!"Protocol {hexOfStr t}"
  | .unsupportedCombination c => s!"UnsupportedCombination {hexOfString c.texts.1} {hexOfString c.texts.2}"
  | .tooManySegments => "TooManySegments"
  | .invalidDomain t => s!"InvalidDomain {hexOfStr t}"

def showSite : PanicSite → String
  | .special => "special"
  | .arms => "arms"
  | .loopBound => "loopBound"

def showArm : Arm → String
  | .socks1 => "socks1" | .http1 => "http1" | .tproxy1 => "tproxy1" | .port1 => "port1"
  | .stdioSpecial2 => "stdioSpecial2" | .stdioTproxy2 => "stdioTproxy2" | .stdioPort2 => "stdioPort2"
  | .unixSpecial2 => "unixSpecial2" | .portSpecial2 => "portSpecial2" | .unixPort2 => "unixPort2"
  | .hostPort2 => "hostPort2" | .stdio3 => "stdio3" | .special3 => "special3" | .unix3 => "unix3"
  | .port3 => "port3" | .full4 => "full4" | .wildcard => "wildcard"

def showLocal : LocalSpec → String
  | .inet h p => s!"inet:{hexOfStr h}:{p}"
  | .stdio => "stdio"
  | .domainSocket p => s!"unix:{hexOfStr p}"

def showRemote : RemoteSpec → String
  | .inet h p => s!"inet:{hexOfStr h}:{p}"
  | .socks => "socks"
  | .http => "http"
  | .tproxy => "tproxy"

def showProto : Protocol → String
  | .tcp => "tcp"
  | .udp => "udp"

def showFail (arm : String) : Fail → String
  | .err e => s!"err arm={arm} {showError e}"
  | .panic p => s!"panic arm={arm} {showSite p}"

/-- The protocol text that will be lower-cased (if any) and the text that will be tokenized. -/
def preSplit (s : Str) : Option Str × Str :=
  match rsplitOnce '/' s with
  | some (rest, proto) => if ':' ∈ proto then (none, s) else (some proto, rest)
  | none => (none, s)

def preToks (s : Str) : List Str :=
  match tokenize (preSplit s).2 with
  | .ok toks => toks.map (·.text)
  | .error _ => []

def parseTable (t : String) : Option (List (Str × Option Str)) :=
  if t = "-" then some [] else
  (t.splitOn ",").mapM fun e =>
    match e.splitOn "=" with
    | [k, v] => do
      let k ← strOfHex k
      if v = "!" then pure (k, none) else do
        let v ← strOfHex v
        pure (k, some v)
    | _ => none

def parseLocal (t : String) : Option LocalSpec :=
  match t.splitOn ":" with
  | ["stdio"] => some .stdio
  | ["unix", p] => (strOfHex p).map .domainSocket
  | ["inet", h, p] => do
    let h ← strOfHex h
    let p ← p.toNat?
    pure (.inet h p)
  | _ => none

def parseRemote (t : String) : Option RemoteSpec :=
  match t.splitOn ":" with
  | ["socks"] => some .socks
  | ["http"] => some .http
  | ["tproxy"] => some .tproxy
  | ["inet", h, p] => do
    let h ← strOfHex h
    let p ← p.toNat?
    pure (.inet h p)
  | _ => none

def step (st : Unit) (line : String) : Unit × String :=
  match tokens line with
  | ["pre", s] =>
    match strOfHex s with
    | some s =>
      let (p, _) := preSplit s
      let toks := preToks s
      let ps := match p with | some p => hexOfStr p | none => "none"
      let ts := if toks.isEmpty then "-" else ",".intercalate (toks.map hexOfStr)
      (st, s!"pre proto={ps} toks={ts}")
    | none => (st, "bad-op")
  | ["parse", s, lower, table] =>
    match strOfHex s, parseTable table with
    | some s, some table =>
      let (p, _) := preSplit s
      let lowerAns : Option Str := if lower = "none" then none else strOfHex lower
      if p.isSome && lowerAns.isNone then (st, "bad-op missing-oracle") else
      if (preToks s).any (fun t => (table.lookup t).isNone) then (st, "bad-op missing-oracle") else
      let o : Oracle := {
        idna := fun t => (table.lookup t).getD none
        lower := fun t => if some t = p then lowerAns.getD [] else [] }
      let (arm, r) := parseArm o s
      let a := match arm with | some a => showArm a | none => "-"
      match r with
      | .ok r => (st, s!"ok arm={a} local={showLocal r.localAddr} remote={showRemote r.remoteAddr} proto={showProto r.protocol}")
      | .error f => (st, showFail a f)
    | _, _ => (st, "bad-op")
  | ["display", l, r, p] =>
    match parseLocal l, parseRemote r with
    | some l, some r =>
      if p = "tcp" then (st, s!"text {hexOfStr (Remote.display ⟨l, r, .tcp⟩)}")
      else if p = "udp" then (st, s!"text {hexOfStr (Remote.display ⟨l, r, .udp⟩)}")
      else (st, "bad-op")
    | _, _ => (st, "bad-op")
  | ["port", s] =>
    match strOfHex s with
    | some s =>
      match parseU16 s with
      | .ok n => (st, s!"ok {n}")
      | .error k => (st, s!"err {showKind k}")
    | none => (st, "bad-op")
  | ["tokens", s] =>
    match strOfHex s with
    | some s =>
      match tokenize s with
      | .ok toks =>
        (st, "ok " ++ ",".intercalate (toks.map fun t => (if t.bracketed then "b:" else "u:") ++ hexOfStr t.text))
      | .error f => (st, showFail "-" f)
    | none => (st, "bad-op")
  | _ => (st, "bad-op")

def main : IO Unit := driverLoop step ()
