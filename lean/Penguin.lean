-- Root of the `Penguin` library: models, lemmas and property theorems.
import Penguin.Basic.Bytes
