/-
`#audit_module M`: print, for every theorem declared in module `M`, the axioms it depends on,
one line per theorem: `AXIOMS <theorem> : [<axiom>, ...]`.  Used by bin/check on every run.
-/
import Lean
open Lean Elab Command

elab "#audit_module " m:ident : command => do
  let env ← getEnv
  let modName := m.getId
  let some idx := env.getModuleIdx? modName
    | throwError "module {modName} is not imported"
  let names := env.header.moduleData[idx.toNat]!.constNames
  let mut count : Nat := 0
  for n in names do
    if n.isInternal then continue
    match env.find? n with
    | some (.thmInfo _) =>
      let axs ← liftCoreM (Lean.collectAxioms n)
      let axs := axs.qsort Name.lt
      logInfo m!"AXIOMS {n} : {axs.toList}"
      count := count + 1
    | _ => pure ()
  logInfo m!"AUDITED {modName} theorems={count}"
