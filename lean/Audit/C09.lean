import Audit.Axioms
import Penguin.Props.C09
#audit_module Penguin.Props.C09
