/-
The client's HTTP-proxy entry point (C01): `do_proxy_request`
(`penguin/src/client/handle_remote/http.rs:30-131`) — what one parsed request makes the proxy do:
which tunnel (host, port) is requested from the main loop, and what the local client is answered.

hyper and the `http` crate are black boxes: the input is the PARSED request (method, the authority
as `Authority::host` / `Authority::port_u16` give it, whether the scheme is `https`), together with
the outcomes of the calls into the environment (`Env`).  Core Lean only (the driver links this).

The order of the effects is that of the code:
  1. `hr.stream_command_tx.reserve()` (http.rs:36) — fails only when the main loop has exited: 503;
  2. `proxy::add_headers` (http.rs:43) — changes headers of the request only, not modelled;
  3. `req.uri().authority()` (http.rs:44) — none: 400;
  4. host = `target.host()` with one pair of surrounding brackets stripped when both are there
     (http.rs:52-58; fix 8ad03c3 — before it the brackets were passed on: `httpStripsBrackets`);
  5. port = `target.port_u16()`, else — when nothing (or only `:`) follows the host — 443 for `https`
     and 80 otherwise; a port text that is not a `u16` (`host:65536`, `host:http`) is answered 400
     (http.rs:59-78; before fix C01-http-proxy-invalid-port it was read as "no port":
     `httpRejectsInvalidPort`);
  6. `request_tcp_channel(permit, host, port)` (http.rs:80) — the tunnel is requested BEFORE the
     method is looked at: a `GET` with an absolute URI opens a tunnel too; no stream: 500;
  7. `Method::CONNECT` (http.rs:86-100): a task is spawned that awaits the upgrade and bridges the
     upgraded connection with the stream; the answer is 200 with an empty body;
  8. any other method (http.rs:101-130): HTTP/1 client handshake on the stream (502 when it fails),
     the request is sent over it and the target's answer is relayed (502 when that fails).
-/
import Penguin.Basic.Bytes
import Penguin.Gen.HttpProxy

namespace Penguin.HttpProxy
open Penguin Penguin.Constants

inductive Method
  | connect
  | other
  deriving DecidableEq, Repr

/-- What is written behind the host in the authority, as the code can tell it apart:
    `Authority::port_u16` is `some n`; or it is `none` and nothing but an optional `:` follows the
    host; or it is `none` although something follows (`:65536`, `:http`, `]x`). -/
inductive PortIn
  | absent
  | num (n : Nat)
  | invalid
  deriving DecidableEq, Repr

structure Authority where
  /-- `Authority::host()`: an IPv6 literal keeps its brackets -/
  host : Bytes
  port : PortIn
  deriving DecidableEq, Repr

structure Req where
  method : Method
  authority : Option Authority
  /-- `req.uri().scheme() == Some(&Scheme::HTTPS)` -/
  schemeHttps : Bool
  deriving DecidableEq, Repr

/-- The outcomes of the calls into the environment. -/
structure Env where
  /-- `stream_command_tx.reserve()` succeeds (the main loop is there) -/
  reserveOk : Bool
  /-- the main loop hands a stream back (`request_tcp_channel` is `Ok`) -/
  channelOk : Bool
  /-- other methods: `http1::handshake` on the stream succeeds -/
  handshakeOk : Bool
  /-- other methods: `send_request` yields the target's answer -/
  sendOk : Bool
  deriving DecidableEq, Repr

inductive Answer
  /-- `make_static_body(status, body)` (http.rs:22-28) -/
  | fixed (status : Nat) (body : Bytes)
  /-- the answer of the target, relayed (http.rs:119-122) -/
  | upstream
  deriving DecidableEq, Repr

structure Outcome where
  answer : Answer
  /-- the `StreamCommand`s sent to the main loop, in order: (host, port) -/
  tunnels : List (Bytes × Nat)
  /-- the upgraded connection is bridged with the stream (the task of http.rs:88-99 is spawned) -/
  bridged : Bool
  /-- the request was handed to the HTTP/1 client on the stream (`send_request`, http.rs:119-121) -/
  forwarded : Bool
  deriving DecidableEq, Repr

/-- `str::strip_suffix(c)` on bytes. -/
def stripSuffix (c : UInt8) (h : Bytes) : Option Bytes :=
  if h.getLast? = some c then some h.dropLast else none

/-- `host.strip_prefix('[').and_then(|h| h.strip_suffix(']')).unwrap_or(host)` (http.rs:53-56).
    The two characters are ASCII, so the byte view and the `str` view agree. -/
def stripBrackets (h : Bytes) : Bytes :=
  match h with
  | [] => h
  | c :: t =>
    if c = UInt8.ofNat httpBracketOpen then (stripSuffix (UInt8.ofNat httpBracketClose) t).getD h else h

/-- The host the tunnel is requested for (http.rs:52-58). -/
def targetHost (h : Bytes) : Bytes :=
  if httpStripsBrackets then stripBrackets h else h

/-- http.rs:72-76. -/
def defaultPort (https : Bool) : Nat :=
  if https then httpDefaultPortHttps else httpDefaultPort

/-- The port the tunnel is requested for; `none`: the request is refused (http.rs:59-78). -/
def targetPort (p : PortIn) (https : Bool) : Option Nat :=
  match p with
  | .num n => some n
  | .absent => some (defaultPort https)
  | .invalid => if httpRejectsInvalidPort then none else some (defaultPort https)

def refuse (status : Nat) (body : Bytes) (tunnels : List (Bytes × Nat)) : Outcome :=
  { answer := .fixed status body, tunnels := tunnels, bridged := false, forwarded := false }

/-- `do_proxy_request` (http.rs:30-131). -/
def proxy (r : Req) (env : Env) : Outcome :=
  -- http.rs:36-41
  if !env.reserveOk then refuse httpStatusShuttingDown httpBodyShuttingDown [] else
  -- http.rs:44-49
  match r.authority with
  | none => refuse httpStatusNoAuthority httpBodyNoAuthority []
  | some a =>
    let host := targetHost a.host
    match targetPort a.port r.schemeHttps with
    -- http.rs:66-71
    | none => refuse httpStatusInvalidPort httpBodyInvalidPort []
    | some port =>
      -- http.rs:80-85: the command has been sent; the main loop dropped the sender
      if !env.channelOk then refuse httpStatusNoChannel httpBodyNoChannel [(host, port)] else
      match r.method with
      -- http.rs:86-100
      | .connect =>
        { answer := .fixed httpStatusConnectOk httpBodyConnectOk, tunnels := [(host, port)], bridged := true, forwarded := false }
      | .other =>
        -- http.rs:105-111
        if !env.handshakeOk then refuse httpStatusHandshakeFailed httpBodyHandshakeFailed [(host, port)]
        -- http.rs:119-130
        else if !env.sendOk then
          { answer := .fixed httpStatusSendFailed httpBodySendFailed, tunnels := [(host, port)], bridged := false, forwarded := true }
        else
          { answer := .upstream, tunnels := [(host, port)], bridged := false, forwarded := true }

end Penguin.HttpProxy
