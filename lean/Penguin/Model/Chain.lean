/-
Model of the `cow-bytes` crate: `CowBytes` (`cow-bytes/src/lib.rs`, `macros.rs`) as `Seg`, and
`LongChain` (`cow-bytes/src/pbuf.rs`) as `Chain`, function by function, branch by branch.

* A `Chain` keeps the segment list and, separately, the cached total (`total_remaining_len`) exactly
  as `LongChain` does, so a cache that disagrees with the contents is a value of the model.
* A `&mut self` method is a function returning `Res σ α = Except (Panic σ) (σ × α)`: the new receiver
  and the returned value, or a panic together with the receiver as the unwind leaves it
  (`Panic.left`; observable by a caller that catches the unwind).
* `while` loops are recursive functions (`splitScan`, `truncScan`, `advLoop`).
* The provided `Buf` methods (`copy_to_bytes`, `copy_to_slice`, `get_u8/16/32`, `has_remaining`,
  `chunks_vectored`) are the `bytes` crate's default bodies over `remaining` / `chunk` / `advance`
  (`BufImpl`), instantiated for both types.
* Lengths are `Nat`; `a - b` is truncated subtraction.  The Rust `usize` subtractions on the cached
  total (`pbuf.rs` pop/remove/split_off/advance) cannot underflow when the cache equals the contents
  (`Penguin.C20.Inv`, proved to hold of every reachable chain); for other values the model and the
  code (which would wrap in a release build) are not claimed to agree.
* The slice / `Bytes` primitives differ out of range and are modelled per variant:
  `<[u8]>::split_at(n)`, `&s[..n]`, `<&[u8] as Buf>::advance(n)` panic when `n > len`;
  `Bytes::split_to/split_off/advance` panic when `n > len`; `Bytes::truncate(n)` is a no-op when
  `n >= len` (bytes 1.x `bytes.rs`).
* The model follows the repaired `pbuf.rs` (`/verif/fixes/C20-*.diff`): `truncate` ignores a
  length that is not smaller than the cached total (the pinned code stored it as the new total),
  `push` / `insert` do not store an empty `CowBytes` (the pinned code did, so `chunk()` could be
  empty while bytes remain), and `insert` counts the bytes only after `Vec::insert` succeeded (the
  pinned code counted them first, so a caught out-of-bounds panic left a wrong total).
Core Lean only.
-/
import Penguin.Basic.Bytes

namespace Penguin

/-- `CowBytes::Temporary(&[u8])` / `CowBytes::Static(Bytes)`, lib.rs:32-37. -/
inductive Tag where
  | temporary | static
deriving DecidableEq, Repr

/-- A `CowBytes` value: its variant and the bytes it refers to. -/
structure Seg where
  tag : Tag
  bytes : Bytes
deriving DecidableEq, Repr

/-- A panic of a `&mut self` method; `left` is what the receiver holds when the unwind starts. -/
structure Panic (σ : Type) where
  left : σ
deriving DecidableEq, Repr

abbrev Res (σ α : Type) := Except (Panic σ) (σ × α)

namespace Seg

/-- `len`, lib.rs:143-145 (`impl_by_delegate!`: `data.len()` / `bytes.len()`). -/
def len (s : Seg) : Nat :=
  match s.tag with
  | .temporary => s.bytes.length
  | .static => s.bytes.length

/-- `is_empty`, lib.rs:147-149. -/
def isEmpty (s : Seg) : Bool :=
  match s.tag with
  | .temporary => s.bytes.isEmpty
  | .static => s.bytes.isEmpty

/-- `AsRef<[u8]>::as_ref`, lib.rs:81-83 (also `Deref`, lib.rs:91-95, and `Borrow`, lib.rs:52-54). -/
def asRef (s : Seg) : Bytes :=
  match s.tag with
  | .temporary => s.bytes
  | .static => s.bytes

/-- `Buf::chunk`, lib.rs:87. -/
def chunk (s : Seg) : Bytes :=
  match s.tag with
  | .temporary => s.bytes
  | .static => s.bytes

/-- `Buf::remaining`, lib.rs:86. -/
def remaining (s : Seg) : Nat :=
  match s.tag with
  | .temporary => s.bytes.length
  | .static => s.bytes.length

/-- `into_static`, lib.rs:135-140: the bytes of the resulting `Bytes`. -/
def intoStatic (s : Seg) : Bytes :=
  match s.tag with
  | .temporary => s.bytes          -- `Bytes::from(data.to_vec())`
  | .static => s.bytes

/-- `split_to`, lib.rs:157-166: the receiver keeps `[n, len)`, `[0, n)` is returned. -/
def splitTo (s : Seg) (n : Nat) : Res Seg Seg :=
  match s.tag with
  | .temporary =>                                        -- `data.split_at(at)`
    if n > s.bytes.length then .error ⟨s⟩
    else .ok (⟨.temporary, s.bytes.drop n⟩, ⟨.temporary, s.bytes.take n⟩)
  | .static =>                                           -- `bytes.split_to(at)`
    if n > s.bytes.length then .error ⟨s⟩
    else .ok (⟨.static, s.bytes.drop n⟩, ⟨.static, s.bytes.take n⟩)

/-- `split_off`, lib.rs:173-182: the receiver keeps `[0, n)`, `[n, len)` is returned. -/
def splitOff (s : Seg) (n : Nat) : Res Seg Seg :=
  match s.tag with
  | .temporary =>                                        -- `data.split_at(at)`
    if n > s.bytes.length then .error ⟨s⟩
    else .ok (⟨.temporary, s.bytes.take n⟩, ⟨.temporary, s.bytes.drop n⟩)
  | .static =>                                           -- `bytes.split_off(at)`
    if n > s.bytes.length then .error ⟨s⟩
    else .ok (⟨.static, s.bytes.take n⟩, ⟨.static, s.bytes.drop n⟩)

/-- `truncate`, lib.rs:186-191.  The two variants differ out of range: `&data[..len]` panics,
    `Bytes::truncate` ignores a `len` that is not smaller than the current length. -/
def truncate (s : Seg) (n : Nat) : Res Seg Unit :=
  match s.tag with
  | .temporary =>                                        -- `&data[..len]`
    if n > s.bytes.length then .error ⟨s⟩
    else .ok (⟨.temporary, s.bytes.take n⟩, ())
  | .static =>                                           -- `bytes.truncate(len)`
    if n < s.bytes.length then .ok (⟨.static, s.bytes.take n⟩, ())
    else .ok (s, ())

/-- `Buf::advance`, lib.rs:85. -/
def advance (s : Seg) (n : Nat) : Res Seg Unit :=
  match s.tag with
  | .temporary =>                                        -- `<&[u8] as Buf>::advance`
    if n > s.bytes.length then .error ⟨s⟩
    else .ok (⟨.temporary, s.bytes.drop n⟩, ())
  | .static =>                                           -- `<Bytes as Buf>::advance`
    if n > s.bytes.length then .error ⟨s⟩
    else .ok (⟨.static, s.bytes.drop n⟩, ())

end Seg

/-- Lexicographic comparison of byte strings (`<[u8] as Ord>::cmp`). -/
def cmpBytes : Bytes → Bytes → Ordering
  | [], [] => .eq
  | [], _ :: _ => .lt
  | _ :: _, [] => .gt
  | a :: as, b :: bs => if a < b then .lt else if b < a then .gt else cmpBytes as bs

/-- Little-endian 8-byte encoding (`usize::to_ne_bytes` on the 64-bit little-endian targets). -/
def le64 (n : Nat) : Bytes :=
  [UInt8.ofNat (n % 256), UInt8.ofNat (n / 256 % 256), UInt8.ofNat (n / 65536 % 256),
   UInt8.ofNat (n / 16777216 % 256), UInt8.ofNat (n / 4294967296 % 256),
   UInt8.ofNat (n / 1099511627776 % 256), UInt8.ofNat (n / 281474976710656 % 256),
   UInt8.ofNat (n / 72057594037927936 % 256)]

namespace Seg

/-- `PartialEq for CowBytes`, lib.rs:40-42 (`impl_by_as_ref!`: `self.as_ref().eq(other.as_ref())`). -/
def beq (s t : Seg) : Bool := s.asRef == t.asRef

/-- `PartialOrd for CowBytes`, lib.rs:43-45. -/
def partialCmp (s t : Seg) : Option Ordering := some (cmpBytes s.asRef t.asRef)

/-- What `Hash for CowBytes` (lib.rs:55-57, `self.as_ref().hash(state)`) feeds to the hasher:
    the length prefix of `<[u8] as Hash>::hash`, then the bytes. -/
def hashInput (s : Seg) : Bytes := le64 s.asRef.length ++ s.asRef

end Seg

/-- `LongChain`, pbuf.rs:12-15: `data` and `total_remaining_len`. -/
structure Chain where
  segs : List Seg
  cachedLen : Nat
deriving DecidableEq, Repr

namespace Chain

/-- `new` / `with_capacity` / `Default`, pbuf.rs:21-38. -/
def new : Chain := ⟨[], 0⟩

/-- `len`, pbuf.rs:52-56: the cached total. -/
def len (c : Chain) : Nat := c.cachedLen

/-- `is_empty`, pbuf.rs:61-65. -/
def isEmpty (c : Chain) : Bool := c.cachedLen == 0

/-- `Buf::remaining`, pbuf.rs:229-233. -/
def remaining (c : Chain) : Nat := c.cachedLen

/-- `Buf::chunk`, pbuf.rs:235-239: `self.data.first().map_or(&[], CowBytes::chunk)`. -/
def chunk (c : Chain) : Bytes :=
  match c.segs with
  | [] => []
  | s :: _ => s.chunk

/-- `AsRef<[CowBytes]>`, pbuf.rs:222-226. -/
def asRef (c : Chain) : List Seg := c.segs

/-- `clear`, pbuf.rs:42-47. -/
def clear (_ : Chain) : Res Chain Unit := .ok (⟨[], 0⟩, ())

/-- `push`, pbuf.rs:119-128: an empty `CowBytes` is not stored. -/
def push (c : Chain) (s : Seg) : Res Chain Unit :=
  if s.isEmpty then .ok (c, ())
  else .ok (⟨c.segs ++ [s], c.cachedLen + s.len⟩, ())

/-- `insert`, pbuf.rs:90-101: an empty `CowBytes` is not stored; `Vec::insert` panics when
    `index > len`, before the bytes are counted. -/
def insert (c : Chain) (i : Nat) (s : Seg) : Res Chain Unit :=
  if s.isEmpty then .ok (c, ())
  else if i > c.segs.length then .error ⟨c⟩
  else .ok (⟨c.segs.take i ++ s :: c.segs.drop i, c.cachedLen + s.len⟩, ())

/-- `pop`, pbuf.rs:105-113. -/
def pop (c : Chain) : Res Chain (Option Seg) :=
  match c.segs.getLast? with
  | none => .ok (c, none)
  | some s => .ok (⟨c.segs.dropLast, c.cachedLen - s.len⟩, some s)

/-- `remove`, pbuf.rs:134-140: `Vec::remove` panics when `index >= len`. -/
def remove (c : Chain) (i : Nat) : Res Chain Seg :=
  match c.segs[i]? with
  | none => .error ⟨c⟩
  | some s => .ok (⟨c.segs.eraseIdx i, c.cachedLen - s.len⟩, s)

/-- The `while` loop of `split_off`, pbuf.rs:165-172: the segments before `split_index`, those from
    `split_index` on, and what is left of `remaining`. -/
def splitScan : List Seg → Nat → List Seg × List Seg × Nat
  | [], r => ([], [], r)
  | s :: rest, r =>
    if r < s.len then ([], s :: rest, r)
    else
      match splitScan rest (r - s.len) with
      | (f, b, r') => (s :: f, b, r')

/-- `split_off`, pbuf.rs:160-188: the receiver keeps `[0, n)`, `[n, len)` is returned. -/
def splitOff (c : Chain) (n : Nat) : Res Chain Chain :=
  match splitScan c.segs n with
  | (front, back, rem) =>
    if rem = 0 then
      .ok (⟨front, n⟩, ⟨back, c.cachedLen - n⟩)           -- `self.data.split_off(split_index)`
    else
      match back with
      | [] => .error ⟨c⟩                                   -- `self.data[split_index]` out of bounds
      | s :: rest =>
        match s.splitOff rem with
        | .error _ => .error ⟨c⟩
        | .ok (s', right) => .ok (⟨front ++ [s'], n⟩, ⟨right :: rest, c.cachedLen - n⟩)

/-- `split_to`, pbuf.rs:146-150: `split_off` then `mem::swap`. -/
def splitTo (c : Chain) (n : Nat) : Res Chain Chain :=
  match c.splitOff n with
  | .error p => .error p
  | .ok (front, back) => .ok (back, front)

/-- The `while` loop of `truncate`, pbuf.rs:204-217 (`none`: a `CowBytes::truncate` panicked). -/
def truncScan : List Seg → Nat → Option (List Seg)
  | [], _ => some []
  | s :: rest, r =>
    if r = 0 then some []                                  -- `self.data.truncate(truncate_index)`
    else if r < s.len then
      match s.truncate r with
      | .error _ => none
      | .ok (s', _) => some [s']                           -- `self.data.truncate(truncate_index + 1)`
    else (truncScan rest (r - s.len)).map (s :: ·)

/-- `truncate`, pbuf.rs:195-219: a `len` that is not smaller than the cached total is ignored. -/
def truncate (c : Chain) (n : Nat) : Res Chain Unit :=
  if n ≥ c.cachedLen then .ok (c, ())
  else
    match truncScan c.segs n with
    | none => .error ⟨c⟩
    | some segs => .ok (⟨segs, n⟩, ())

set_option linter.unusedVariables false in
/-- The `while cnt > 0` loop of `advance`, pbuf.rs:248-259, on (`data`, `cnt`, `total_remaining_len`). -/
def advLoop (segs : List Seg) (cnt len : Nat) : Except (Panic Chain) Chain :=
  match segs, cnt with
  | segs, 0 => .ok ⟨segs, len⟩
  | [], _ + 1 => .error ⟨⟨[], len⟩⟩                        -- `unreachable!()`
  | s :: rest, c + 1 =>
    let by_ := min s.remaining (c + 1)
    match h : s.advance by_ with
    | .error _ => .error ⟨⟨s :: rest, len⟩⟩
    | .ok (s', _) =>
      if h0 : s'.remaining = 0 then advLoop rest (c + 1 - by_) (len - by_)   -- `self.data.remove(0)`
      else advLoop (s' :: rest) (c + 1 - by_) (len - by_)
termination_by segs.length + cnt
decreasing_by
  · simp only [List.length_cons]; omega
  · simp only [List.length_cons]
    have hb : by_ ≠ 0 := by
      intro hz
      apply h0
      have hs : s.remaining = 0 := by
        have : min s.remaining (c + 1) = 0 := hz
        omega
      rw [hz] at h
      cases s with
      | mk tag bytes =>
        cases tag <;> simp [Seg.advance, Seg.remaining] at h hs ⊢ <;>
          (obtain ⟨rfl, _⟩ := h; simp [hs])
    have hdef : by_ = min s.remaining (c + 1) := rfl
    omega

/-- `Buf::advance`, pbuf.rs:241-260: `assert!(cnt <= self.total_remaining_len)`, then the loop. -/
def advance (c : Chain) (cnt : Nat) : Res Chain Unit :=
  if cnt > c.cachedLen then .error ⟨c⟩
  else
    match advLoop c.segs cnt c.cachedLen with
    | .error p => .error p
    | .ok c' => .ok (c', ())

end Chain

/-! ### The provided methods of `bytes::Buf`

`LongChain` (pbuf.rs:228-261) and `CowBytes` (lib.rs:84-88) implement only the three required
methods `remaining` / `chunk` / `advance`; every other `Buf` method a caller uses on them
(`copy_to_bytes`, `copy_to_slice`, `get_u8`, `get_u16`, `get_u32`, `has_remaining`,
`chunks_vectored`, …) is the default body of the `bytes` crate (bytes 1.12.1, `src/buf/buf_impl.rs`),
which is generic in the implementor and reaches it only through the three required methods.  They are
modelled the same way: once, over a record of the three required methods (`BufImpl`), following the
default bodies statement by statement, and then instantiated for `Chain` and `Seg`.  (If one of the
two types gets an override of a provided method, its instantiation below is what has to be replaced
by a model of the override.)

The two copying loops of the crate (`try_copy_to_slice`, `BytesMut::put`) do not terminate when
`chunk()` is empty while `remaining() > 0` (a `Buf` that breaks its contract).  A total function
cannot say that; the modelled loops stop with a panic there (`stuck`).  This cannot happen when the
cached total equals the contents and no segment is empty (`Penguin.C20.Inv`, proved of every
reachable chain); for other values the model and the code are not claimed to agree. -/

/-- The required methods of `bytes::Buf` (buf_impl.rs:148, 181, 255) as an implementor supplies them. -/
structure BufImpl (σ : Type) where
  remaining : σ → Nat
  chunk : σ → Bytes
  advance : σ → Nat → Res σ Unit

namespace BufImpl

variable {σ : Type} (B : BufImpl σ)

/-- `has_remaining`, buf_impl.rs:274-276: `self.remaining() > 0`. -/
def hasRemaining (s : σ) : Bool := decide (B.remaining s > 0)

/-- `chunks_vectored`, buf_impl.rs:212-223, for a `dst` of `k` slots: the slices written to `dst`
    (the returned count is their number).  At most the first chunk is offered. -/
def chunksVectored (s : σ) (k : Nat) : List Bytes :=
  if k = 0 then []                                         -- `dst.is_empty()`
  else if B.hasRemaining s then [B.chunk s]                -- `dst[0] = IoSlice::new(self.chunk()); 1`
  else []

set_option linter.unusedVariables false in
/-- The `while !dst.is_empty()` loop of `try_copy_to_slice`, buf_impl.rs:1174-1182; `need` is
    `dst.len()`, `acc` what has been written to the caller's slice so far. -/
def copyLoop (s : σ) (need : Nat) (acc : Bytes) : Except (Panic σ) (σ × Bytes) :=
  if h0 : need = 0 then .ok (s, acc)
  else
    let src := B.chunk s
    let cnt := min src.length need                         -- `usize::min(src.len(), dst.len())`
    if hc : cnt = 0 then .error ⟨s⟩                        -- stuck (see above)
    else
      match B.advance s cnt with                           -- `self.advance(cnt)`
      | .error p => .error p
      | .ok (s', _) => copyLoop s' (need - cnt) (acc ++ src.take cnt)
termination_by need
decreasing_by
  have hdef : cnt = min (B.chunk s).length need := rfl
  omega

/-- `copy_to_slice`, buf_impl.rs:299-302, with a `dst` of `n` bytes: `try_copy_to_slice`
    (buf_impl.rs:1166-1184) and `panic_advance` on its `Err`.  Returns what `dst` holds afterwards. -/
def copyToSlice (s : σ) (n : Nat) : Res σ Bytes :=
  if B.remaining s < n then .error ⟨s⟩                     -- `Err(TryGetError { .. })` → `panic_advance`
  else B.copyLoop s n []

set_option linter.unusedVariables false in
/-- The loop of `BytesMut::put(src)` (bytes_mut.rs:1295-1320: `if !src.has_remaining() { return }`,
    then `while src.has_remaining() { let s = src.chunk(); extend_from_slice(s); src.advance(s.len()) }`)
    for `src = Take { inner: &mut self, limit }` (take.rs: `remaining = min(inner.remaining(), limit)`,
    `chunk = &inner.chunk()[..min(len, limit)]`, `advance(cnt) = inner.advance(cnt); limit -= cnt`).
    `acc` is the content of the `BytesMut`. -/
def takeLoop (s : σ) (limit : Nat) (acc : Bytes) : Except (Panic σ) (σ × Bytes) :=
  if h0 : min (B.remaining s) limit = 0 then .ok (s, acc)  -- `!src.has_remaining()`
  else
    let bytes := B.chunk s
    let l := min bytes.length limit
    if hl : l = 0 then .error ⟨s⟩                          -- stuck (see above)
    else
      match B.advance s l with
      | .error p => .error p
      | .ok (s', _) => takeLoop s' (limit - l) (acc ++ bytes.take l)
termination_by limit
decreasing_by
  have hdef : l = min (B.chunk s).length limit := rfl
  omega

/-- `copy_to_bytes`, buf_impl.rs:2363-2376: `panic_advance` when `self.remaining() < len`, then
    `BytesMut::with_capacity(len)`, `ret.put(self.take(len))`, `ret.freeze()`. -/
def copyToBytes (s : σ) (n : Nat) : Res σ Bytes :=
  if B.remaining s < n then .error ⟨s⟩
  else B.takeLoop s n []

/-- `get_u8`, buf_impl.rs:320-330. -/
def getU8 (s : σ) : Res σ UInt8 :=
  if B.remaining s < 1 then .error ⟨s⟩                     -- `panic_advance`
  else
    match (B.chunk s)[0]? with                             -- `self.chunk()[0]`
    | none => .error ⟨s⟩                                   -- index out of bounds
    | some b =>
      match B.advance s 1 with
      | .error p => .error p
      | .ok (s', _) => .ok (s', b)

/-- `buf_get_impl!(self, uN::from_be_bytes)`, buf_impl.rs:13-42 and 72-76, with `SIZE = size`: the
    `SIZE` bytes that are handed to `from_be_bytes`.  Taken from the first chunk when it is long
    enough (`chunk().get(..SIZE)`), through `copy_to_slice` into a temporary otherwise. -/
def getFixed (s : σ) (size : Nat) : Res σ Bytes :=
  if B.remaining s < size then .error ⟨s⟩                  -- `Err(TryGetError { .. })` → `panic_advance`
  else if size ≤ (B.chunk s).length then
    match B.advance s size with                            -- `$this.advance(SIZE)`
    | .error p => .error p
    | .ok (s', _) => .ok (s', (B.chunk s).take size)
  else B.copyToSlice s size                                -- `$this.copy_to_slice(&mut buf)`

end BufImpl

/-- `uN::from_be_bytes` as a number: the first byte is the most significant one. -/
def fromBe (bs : Bytes) : Nat := bs.foldl (fun a b => a * 256 + b.toNat) 0

namespace BufImpl

variable {σ : Type} (B : BufImpl σ)

/-- `get_u16`, buf_impl.rs:376-378. -/
def getU16 (s : σ) : Res σ UInt16 :=
  (B.getFixed s 2).map fun (s', bs) => (s', UInt16.ofNat (fromBe bs))

/-- `get_u32`, buf_impl.rs:502-504. -/
def getU32 (s : σ) : Res σ UInt32 :=
  (B.getFixed s 4).map fun (s', bs) => (s', UInt32.ofNat (fromBe bs))

end BufImpl

/-- `impl Buf for CowBytes`, lib.rs:84-88 (`impl_by_delegate!`: `advance`, `remaining`, `chunk` only). -/
def Seg.buf : BufImpl Seg := ⟨Seg.remaining, Seg.chunk, Seg.advance⟩

/-- `impl Buf for LongChain`, pbuf.rs:228-261 (`remaining`, `chunk`, `advance` only). -/
def Chain.buf : BufImpl Chain := ⟨Chain.remaining, Chain.chunk, Chain.advance⟩

namespace Seg

def hasRemaining (s : Seg) : Bool := Seg.buf.hasRemaining s
def chunksVectored (s : Seg) (k : Nat) : List Bytes := Seg.buf.chunksVectored s k
def copyToBytes (s : Seg) (n : Nat) : Res Seg Bytes := Seg.buf.copyToBytes s n
def copyToSlice (s : Seg) (n : Nat) : Res Seg Bytes := Seg.buf.copyToSlice s n
def getU8 (s : Seg) : Res Seg UInt8 := Seg.buf.getU8 s
def getU16 (s : Seg) : Res Seg UInt16 := Seg.buf.getU16 s
def getU32 (s : Seg) : Res Seg UInt32 := Seg.buf.getU32 s

end Seg

namespace Chain

def hasRemaining (c : Chain) : Bool := Chain.buf.hasRemaining c
def chunksVectored (c : Chain) (k : Nat) : List Bytes := Chain.buf.chunksVectored c k
def copyToBytes (c : Chain) (n : Nat) : Res Chain Bytes := Chain.buf.copyToBytes c n
def copyToSlice (c : Chain) (n : Nat) : Res Chain Bytes := Chain.buf.copyToSlice c n
def getU8 (c : Chain) : Res Chain UInt8 := Chain.buf.getU8 c
def getU16 (c : Chain) : Res Chain UInt16 := Chain.buf.getU16 c
def getU32 (c : Chain) : Res Chain UInt32 := Chain.buf.getU32 c

end Chain

/-- The mutating operations of `LongChain`: its own methods and the consuming `Buf` methods. -/
inductive Op where
  | push (s : Seg)
  | insert (i : Nat) (s : Seg)
  | pop
  | remove (i : Nat)
  | splitTo (n : Nat)
  | splitOff (n : Nat)
  | truncate (n : Nat)
  | advance (n : Nat)
  | clear
  | copyToBytes (n : Nat)
  | copyToSlice (n : Nat)
  | getU8
  | getU16
  | getU32
deriving DecidableEq, Repr

/-- What an operation returns. -/
inductive Out where
  | unit
  | popped (s : Option Seg)
  | removed (s : Seg)
  | part (c : Chain)
  | copied (b : Bytes)
  | u8 (v : UInt8)
  | u16 (v : UInt16)
  | u32 (v : UInt32)
deriving DecidableEq, Repr

namespace Chain

def step (c : Chain) : Op → Res Chain Out
  | .push s => (c.push s).map fun (c', _) => (c', .unit)
  | .insert i s => (c.insert i s).map fun (c', _) => (c', .unit)
  | .pop => c.pop.map fun (c', s) => (c', .popped s)
  | .remove i => (c.remove i).map fun (c', s) => (c', .removed s)
  | .splitTo n => (c.splitTo n).map fun (c', p) => (c', .part p)
  | .splitOff n => (c.splitOff n).map fun (c', p) => (c', .part p)
  | .truncate n => (c.truncate n).map fun (c', _) => (c', .unit)
  | .advance n => (c.advance n).map fun (c', _) => (c', .unit)
  | .clear => c.clear.map fun (c', _) => (c', .unit)
  | .copyToBytes n => (c.copyToBytes n).map fun (c', b) => (c', .copied b)
  | .copyToSlice n => (c.copyToSlice n).map fun (c', b) => (c', .copied b)
  | .getU8 => c.getU8.map fun (c', v) => (c', .u8 v)
  | .getU16 => c.getU16.map fun (c', v) => (c', .u16 v)
  | .getU32 => c.getU32.map fun (c', v) => (c', .u32 v)

/-- An operation sequence on one chain; it ends at the first panic (with the values returned so far). -/
def run (c : Chain) : List Op → Except (Panic Chain × List Out) (Chain × List Out)
  | [] => .ok (c, [])
  | op :: ops =>
    match c.step op with
    | .error p => .error (p, [])
    | .ok (c', o) =>
      match run c' ops with
      | .error (p, os) => .error (p, o :: os)
      | .ok (c'', os) => .ok (c'', o :: os)

end Chain

end Penguin
