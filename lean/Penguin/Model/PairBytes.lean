/-
The pair model over BYTE wires: what really travels between two penguin endpoints.  Each element of
a wire is one WebSocket message; a frame travels as one Binary message holding `encode f`
(`Vec::<u8>::from(&Frame)`, frame.rs:537-591), and the receiving task decodes it
(`Frame::try_from`, frame.rs:437-485) before `process_frame` sees it (task.rs:360-381).  A Binary
message that does not decode ends the connection (`Error::InvalidFrame`) — outside the
running-phase fragment, exactly like the other ways out of it in `Penguin.Pair`.

A thin wrapper around `Penguin.Pair`: the endpoints, the ghosts and every application-side action
are `Pair.stepL`'s own; only `xmit` (encodes) and `recv` (decodes) are restated.
`Lemmas/PairBytes.lean` proves that this system and `Penguin.Pair` move in lock step.
Core Lean only.
-/
import Penguin.Model.Pair

namespace Penguin.Pair
open Penguin.Mux

/-- The ranges the Rust types give the application's arguments: the port of `new_stream_channel`
    is a `u16`; a `Datagram`'s flow id is a `u32` and its port a `u16`. -/
def Act.inRange : Act → Prop
  | .open _ _ port => port < 65536
  | .sendDgram d => d.fid < 4294967296 ∧ d.port < 65536
  | .bindReq _ _ _ port => port < 65536
  | _ => True

instance (a : Act) : Decidable (Act.inRange a) := by
  cases a <;> unfold Act.inRange <;> infer_instance

end Penguin.Pair

namespace Penguin.PairBytes
open Penguin.Mux Penguin.Pair

/-- One WebSocket message on the wire (`ws::Message`). -/
inductive WireMsg where
  | bin (bs : Bytes)
  | ping
  | pong
  | close
deriving Repr, DecidableEq

/-- What the sender's sink puts on the wire for a queued message. -/
def encMsg : Msg → WireMsg
  | .frame f => .bin (encode f)
  | .ping => .ping
  | .pong => .pong
  | .close => .close

/-- What the receiver's source yields for a message on the wire (the driver's `parseIn`). -/
def decMsg : WireMsg → WsIn
  | .bin bs =>
    match decode bs with
    | .ok f => .msg (.frame f)
    | .error e => .bad e
  | .ping => .msg .ping
  | .pong => .msg .pong
  | .close => .msg .close

/-- The messages a wire holds, decoded (what does not decode is not a message). -/
def decWire : List WireMsg → List Msg
  | [] => []
  | w :: rest =>
    match decMsg w with
    | .msg m => m :: decWire rest
    | _ => decWire rest

/-- The byte-wire pair: as `Pair.PS`, with wires of WebSocket messages. -/
structure PSb where
  a : EP
  b : EP
  ab : List WireMsg := []
  ba : List WireMsg := []
  ga : Ghost := {}
  gb : Ghost := {}
  linked : List Nat := []

def PSb.swap (p : PSb) : PSb :=
  { a := p.b, b := p.a, ab := p.ba, ba := p.ab, ga := p.gb, gb := p.ga, linked := p.linked }

/-- The frame-level reading of a byte-level state: same endpoints and ghosts, wires decoded. -/
def PSb.view (p : PSb) : PS :=
  { a := p.a, b := p.b, ab := decWire p.ab, ba := decWire p.ba, ga := p.ga, gb := p.gb, linked := p.linked }

/-- One action of the left endpoint; `none` = not enabled. -/
def stepLb (p : PSb) : Act → Option PSb
  | .xmit =>
    -- the send loop hands one message to the sink, which writes its encoding
    match p.a.outq with
    | [] => none
    | m :: rest => some { p with a := { p.a with outq := rest }, ab := p.ab ++ [encMsg m] }
  | .recv =>
    -- the receive loop takes one message from the source and decodes it
    if p.a.park.isSome then none
    else match p.ba with
      | [] => none
      | w :: rest =>
        match decMsg w with
        | .msg (.frame f) =>
          match processFrame p.a f false with
          | (e, _, none) =>
            some { p with a := e, ba := rest,
                          linked := match completes p.view f with | some x => x :: p.linked | none => p.linked }
          | _ => none
        | _ => none                                  -- control messages, and `.bad`: the connection ends
  | act =>
    -- everything else does not touch the wires: it is `Pair.stepL`'s step on the endpoint and ghost
    (stepL p.view act).map fun q => { p with a := q.a, ga := q.ga }

/-- One action of the byte-wire pair. -/
def stepb (p : PSb) (s : Side) (a : Act) : Option PSb :=
  match s with
  | .A => stepLb p a
  | .B => (stepLb p.swap a).map PSb.swap

/-- A run: actions that are not enabled are skipped. -/
def runb (p : PSb) : List (Side × Act) → PSb
  | [] => p
  | (s, a) :: rest => runb ((stepb p s a).getD p) rest

def initb (oa ob : Opts) (ra rb : List Nat) : PSb :=
  { a := { opts := oa, rng := ra }, b := { opts := ob, rng := rb } }

/-- The next `recv` of the left endpoint would meet a Binary message that does not decode. -/
def undecodableHead (p : PSb) : Prop :=
  match p.ba with
  | w :: _ => ∃ e, decMsg w = .bad e
  | [] => False

end Penguin.PairBytes
