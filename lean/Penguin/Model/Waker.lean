/-
Model/Waker — the writer / connection-task race on flow-control credit (C12).

A small-step interleaving model, sequentially consistent, ONE STEP = ONE ATOMIC OPERATION of the
Rust code (plus the local "hand the frame to the task" step of the writer), of

* the writer: `MuxStream::poll_write_push` → `poll_obtain_write_permission`
  (`penguin-mux/src/stream.rs:123-129`, `:163-216`; line numbers as of the repaired tree),
* the connection task's flow-slot side: `EstablishedStreamData::acknowledge`
  (`penguin-mux/src/lib.rs:461-470`: `fetch_add` then `wake`) and
  `EstablishedStreamData::disallow_write` (`lib.rs:475-488`: `swap(true)` then `wake`),
* `AtomicWaker` as one cell `registered : Option waker` with atomic `register` (overwrite) and
  `wake` (take, then call the waker).  This register / wake contract is trusted, not modelled
  further (futures-util's `AtomicWaker`; `loom::future::AtomicWaker` under loom).

A scenario is an initial credit, a number of writer polls and a list of actors, each of which is
one `acknowledge(n)` or one `disallow_write()` running on its own thread.  The writer's polls are
sequential and UNCONDITIONAL: poll `k+1` starts when poll `k` has returned, whatever it returned
(a spurious re-poll is always legal for a future; "re-poll only after the wake" is the subset of
these interleavings in which the wake has been delivered before the next poll starts).  Each poll
has its own waker, named by the poll's index, so "waker `k` was woken" can only be a wake-up
delivered after poll `k` registered it.

`stepGen true` is the code as repaired (register, then re-check the closed flag and the credit);
`stepGen false` is the pinned code (`stream.rs:172-181` of the pinned tree: check credit → register →
return `Pending`), kept for the documented witness of the lost wake-up and for replays.

Not modelled: `u32` wrap-around of `fetch_add` (credit is a `Nat`; the protocol keeps the sum of
grants below the receive window), memory orderings weaker than SC (covered, partially, by loom on
the real code).
-/
namespace Penguin.Waker

/-- Result of one `poll_write_push` / `poll_obtain_write_permission`. -/
inductive PollResult
  | some      -- `Poll::Ready(Some(()))`: a unit of credit was obtained (and the frame queued)
  | none      -- `Poll::Ready(None)`: the stream is closed (`BrokenPipe`)
  | pending   -- `Poll::Pending`
  deriving DecidableEq, Repr, Hashable

inductive ActorKind
  | ack (n : Nat)   -- `acknowledge(n)`
  | close           -- `disallow_write()`
  deriving DecidableEq, Repr, Hashable

/-- Program counter of an acknowledger / closer thread. -/
inductive APc
  | write   -- next: `fetch_add(n)` resp. `swap(true)`
  | wake    -- next: `writer_waker.wake()`
  | done
  deriving DecidableEq, Repr, Hashable

structure Actor where
  kind : ActorKind
  pc : APc
  deriving DecidableEq, Repr, Hashable

/-- Program counter of the writer thread inside one poll. -/
inductive WPc
  | loadFin                -- `finish_sent.load()`                       stream.rs:169
  | loadCredit             -- `psh_send_remaining.load()`                stream.rs:177
  | register               -- `writer_waker.register(cx.waker())`        stream.rs:182
  | reloadFin              -- re-check `finish_sent.load()` after register        stream.rs:190
  | reloadCredit           -- re-check `psh_send_remaining.load()` after register stream.rs:194
  | cas (orig : Nat)       -- `compare_exchange_weak(orig, orig - 1)`     stream.rs:205-208
  | send                   -- `tx_msg_tx.send(frame)` in `poll_write_push` stream.rs:127-128
  | finished               -- all polls of the scenario have returned
  deriving DecidableEq, Repr, Hashable

structure Scenario where
  credit : Nat
  polls : Nat
  actors : List ActorKind
  deriving DecidableEq, Repr

structure State where
  /-- `psh_send_remaining` -/
  credit : Nat
  /-- `finish_sent` -/
  closed : Bool
  /-- content of the `AtomicWaker`: the waker of poll `k` -/
  registered : Option Nat
  /-- wakers woken so far (newest first); the per-waker wake counter is the multiplicity -/
  wakeLog : List Nat
  actors : List Actor
  pc : WPc
  /-- index of the poll in progress (of the last poll once `finished`) -/
  cur : Nat
  /-- polls still to be started after the current one -/
  pollsLeft : Nat
  /-- ghost: value of `finish_sent` when the current poll performed its first operation -/
  curStartClosed : Bool
  /-- ghost: the current poll has executed `register` (its waker has been handed out) -/
  curRegistered : Bool
  /-- ghost: the polls that have returned, newest first: (closed at start, result) -/
  log : List (Bool × PollResult)
  /-- ghost: sum of the `fetch_add` amounts performed -/
  grants : Nat
  /-- ghost: the values from which a CAS succeeded in taking one unit (newest first) -/
  takes : List Nat
  /-- ghost: `Push` frames handed to the connection task -/
  sent : Nat
  deriving DecidableEq, Repr, Hashable

inductive Label
  | writer          -- the writer thread performs its next operation
  | casSpurious     -- `compare_exchange_weak` fails spuriously (writer at `cas`)
  | actor (i : Nat) -- actor thread `i` performs its next operation
  deriving DecidableEq, Repr, Hashable

def init (sc : Scenario) : State where
  credit := sc.credit
  closed := false
  registered := none
  wakeLog := []
  actors := sc.actors.map (⟨·, .write⟩)
  pc := if sc.polls = 0 then .finished else .loadFin
  cur := 0
  pollsLeft := sc.polls - 1
  curStartClosed := false
  curRegistered := false
  log := []
  grants := 0
  takes := []
  sent := 0

/-- The current poll returns `r`; the next poll (if any) starts at `loadFin`. -/
def finishPoll (s : State) (r : PollResult) : State :=
  match s.pollsLeft with
  | 0 => { s with log := (s.curStartClosed, r) :: s.log, pc := .finished }
  | n + 1 => { s with log := (s.curStartClosed, r) :: s.log, pc := .loadFin, cur := s.cur + 1,
                      pollsLeft := n, curRegistered := false }

/-- `AtomicWaker::wake`: take the registered waker, if any, and call it. -/
def doWake (s : State) : State :=
  match s.registered with
  | some k => { s with registered := none, wakeLog := k :: s.wakeLog }
  | none => s

/-- One operation of the writer.  `recheck = true`: the repaired code. -/
def writerStep (recheck : Bool) (s : State) : State :=
  match s.pc with
  | .loadFin =>
    -- stream.rs:169  `if self.finish_sent.load(Relaxed) { return Poll::Ready(None) }`
    if s.closed then finishPoll { s with curStartClosed := true } .none
    else { s with curStartClosed := false, pc := .loadCredit }
  | .loadCredit =>
    -- stream.rs:177  `let mut original = self.psh_send_remaining.load(Acquire); if original == 0 {..}`
    if s.credit = 0 then { s with pc := .register } else { s with pc := .cas s.credit }
  | .register =>
    -- stream.rs:182  `self.writer_waker.register(cx.waker())`
    let s1 := { s with registered := some s.cur, curRegistered := true }
    if recheck then { s1 with pc := .reloadFin }
    else finishPoll s1 .pending     -- pinned code: `return Poll::Pending` right away
  | .reloadFin =>
    -- stream.rs:190 (repaired code)  `if self.finish_sent.load(Relaxed) { return Poll::Ready(None) }`
    if s.closed then finishPoll s .none else { s with pc := .reloadCredit }
  | .reloadCredit =>
    -- stream.rs:194 (repaired code)  `original = self.psh_send_remaining.load(Acquire); if original == 0 { return Pending }`
    if s.credit = 0 then finishPoll s .pending else { s with pc := .cas s.credit }
  | .cas orig =>
    -- `compare_exchange_weak(original, original - 1, AcqRel, Relaxed)`; on failure: loop
    if s.credit = orig then { s with credit := orig - 1, takes := orig :: s.takes, pc := .send }
    else { s with pc := .loadCredit }
  | .send =>
    -- stream.rs:127-128: the `Push` frame goes to the task's queue, `Ready(Some(()))`
    finishPoll { s with sent := s.sent + 1 } .some
  | .finished => s

/-- One operation of actor `i`. -/
def actorStep (s : State) (i : Nat) : State :=
  match s.actors[i]? with
  | none => s
  | some a =>
    match a.pc with
    | .write =>
      match a.kind with
      -- lib.rs:467  `self.psh_send_remaining.fetch_add(acknowledged, Relaxed)`
      | .ack n => { s with credit := s.credit + n, grants := s.grants + n,
                           actors := s.actors.set i { a with pc := .wake } }
      -- lib.rs:483  `self.finish_sent.swap(true, AcqRel)`
      | .close => { s with closed := true, actors := s.actors.set i { a with pc := .wake } }
    -- lib.rs:469 / :486  `self.writer_waker.wake()`
    | .wake => doWake { s with actors := s.actors.set i { a with pc := .done } }
    | .done => s

/-- The step function; a label that is not enabled leaves the state unchanged. -/
def stepGen (recheck : Bool) (s : State) : Label → State
  | .writer => writerStep recheck s
  | .casSpurious =>
    match s.pc with
    | .cas _ => { s with pc := .loadCredit }
    | _ => s
  | .actor i => actorStep s i

/-- The code as repaired. -/
def step : State → Label → State := stepGen true
/-- The pinned code (no re-check after `register`). -/
def stepPinned : State → Label → State := stepGen false

def runGen (recheck : Bool) (sc : Scenario) (ls : List Label) : State :=
  ls.foldl (stepGen recheck) (init sc)

/-- Every reachable state of scenario `sc` is `run sc ls` for some schedule `ls`. -/
def run (sc : Scenario) (ls : List Label) : State := ls.foldl step (init sc)
def runPinned (sc : Scenario) (ls : List Label) : State := ls.foldl stepPinned (init sc)

def enabled (s : State) : Label → Bool
  | .writer => s.pc != .finished
  | .casSpurious => match s.pc with | .cas _ => true | _ => false
  | .actor i => match s.actors[i]? with | some a => a.pc != .done | none => false

/-! ### Observations used by the theorems and by the driver -/

def Actor.isCloser (a : Actor) : Bool :=
  match a.kind with | .close => true | .ack _ => false

/-- The writer has returned from its last poll with `Pending`: it sleeps until woken. -/
def parked (s : State) : Bool :=
  s.pc == .finished &&
    match s.log.head? with
    | some (_, .pending) => true
    | _ => false

/-- Some acknowledge / close has done its write and has its `wake()` as the next operation. -/
def wakePending (s : State) : Bool := s.actors.any (·.pc == .wake)

def allActorsDone (s : State) : Bool := s.actors.all (·.pc == .done)

/-- The waker of the writer's last poll was woken (necessarily after it was registered). -/
def woken (s : State) : Bool := s.wakeLog.contains s.cur

/-- Poll results in program order. -/
def results (s : State) : List PollResult := (s.log.map (·.2)).reverse

def wakesOf (s : State) (k : Nat) : Nat := s.wakeLog.count k

end Penguin.Waker
