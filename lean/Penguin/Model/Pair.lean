/-
Two endpoint models (`Penguin.Mux.EP`) joined by two FIFO wires: the running phase of a connection
between two conforming penguin endpoints, at the granularity of ONE application call, ONE message
handed to the transport, ONE frame processed by a task, ONE dropped-handle notification — every
interleaving of those is a run of this system.  Every component function is the endpoint model's own
(`appWrite`, `appRead`, `processFrame`, `closeFlow`, `openRound`, …), i.e. exactly the functions the
correspondence harness compares with the real `Multiplexor`; nothing is re-modelled here.

Bind requests travel on the same connection: `request_bind`, `next_bind_request`, `BindRequest::reply`
and the drop of a `BindRequest` are actions (the endpoint model's `appBindReq`, `appBindNext`,
`appBindReply`, `appBindDrop`), the receive loop processes `Bind` frames like any other frame, and a
hand-over parked on a full bind queue completes with `unpark` (the receive loop stays parked until
then).  `Lemmas/PairBind.lean` shows that the flow id of a bind request stays apart from every stream
for the rest of the run (part `Binds` of the invariant `Pair.Inv`).  What the bind calls resolve to is
the subject of `Model/BindPair` (connections with bind traffic only; no ghost record of bind outcomes
is kept here).

Outside this fragment (covered by the endpoint model's own theorems, C08/C10/C15): connection
teardown (Close, transport errors, dropping the `Multiplexor`), malformed peers, sink
back-pressure (here the sink takes one message per `xmit` action, in any interleaving, which subsumes
every back-pressure pattern).  The stimulus level at the end of this file (`stimL`, `deliverL`)
covers the bind calls and deliveries of `Bind` frames too.

Ghost components (`wlog`, `rlog`, `dropped`) record what the applications observed: the bytes
accepted by successful writes and returned by reads per stream object, and which handles were
dropped.  They never influence the endpoints.
Core Lean only.
-/
import Penguin.Model.Mux

namespace Penguin.Pair
open Penguin.Mux

/-- What the application on one side has observed, per stream object of that side. -/
structure Ghost where
  wlog : Nat → Bytes := fun _ => []     -- bytes accepted by successful writes on the object
  rlog : Nat → Bytes := fun _ => []     -- bytes returned by reads on the object
  eof : Nat → Bool := fun _ => false    -- a read on the object returned end-of-stream
  dropped : List Nat := []              -- handles the application has dropped
  dsent : List Dgram := []              -- datagrams accepted by `send_datagram`, in order
  drecv : List Dgram := []              -- datagrams returned by `get_datagram`, in order

def Ghost.addW (g : Ghost) (i : Nat) (d : Bytes) : Ghost :=
  { g with wlog := fun k => if k = i then g.wlog i ++ d else g.wlog k }
def Ghost.addR (g : Ghost) (i : Nat) (d : Bytes) : Ghost :=
  { g with rlog := fun k => if k = i then g.rlog i ++ d else g.rlog k }
def Ghost.setEof (g : Ghost) (i : Nat) : Ghost :=
  { g with eof := fun k => if k = i then true else g.eof k }

/-- A read on object `i` returned end-of-stream: recorded if the object's receiving half was still
    open before the read (or end-of-stream had been recorded already).  For an object that is read
    through a live handle this is always the case — the receiving half is closed only by the read
    that returns end-of-stream, by dropping the handle, or at creation for a stream nobody waits for. -/
def Ghost.noteEof (g : Ghost) (e : EP) (i : Nat) : Ghost :=
  match e.objs[i]? with
  | some o => if o.rxOpen || g.eof i then g.setEof i else g
  | none => g

/-- The pair: endpoint `a`, endpoint `b`, the messages in transit `a → b` (`ab`, oldest first) and
    `b → a` (`ba`). -/
structure PS where
  a : EP
  b : EP
  ab : List Msg := []
  ba : List Msg := []
  ga : Ghost := {}
  gb : Ghost := {}
  linked : List Nat := []   -- ghost: the flow ids that have been established on BOTH endpoints (history)

/-- Exchange the roles of the two endpoints. -/
def PS.swap (p : PS) : PS :=
  { a := p.b, b := p.a, ab := p.ba, ba := p.ab, ga := p.gb, gb := p.ga, linked := p.linked }

/-- A `Reset` of flow `x` is among the messages. -/
def hasReset (x : Nat) (l : List Msg) : Bool := l.any (fun m => m == .frame (.reset x))

/-- The handshake of flow `x` completes with this `Acknowledge`: this side requested it, the peer
    holds it established, and no `Reset` for it is in flight either way. -/
def completes (p : PS) (f : Frame) : Option Nat :=
  match f with
  | .acknowledge x _ =>
    match lookup p.a.flows x, lookup p.b.flows x with
    | some (.requested _), some (.established _) =>
      if hasReset x (p.ab ++ p.a.outq) || hasReset x (p.ba ++ p.b.outq) then none else some x
    | _, _ => none
  | _ => none

/-- The actions of one side. -/
inductive Act where
  | open (req : Nat) (host : Bytes) (port : Nat)   -- `new_stream_channel` is called
  | cancelOpen (req : Nat)                          -- … and its future is dropped
  | accept                                          -- `accept_stream_channel`, one poll
  | write (h : Nat) (d : Bytes)                     -- `poll_write` / `poll_write_vectored`, one poll
  | read (h n : Nat)                                -- `poll_read` with room for `n` bytes, one poll
  | shutdown (h : Nat)                              -- `poll_shutdown`
  | dropStream (h : Nat)                            -- the `MuxStream` is dropped
  | sendDgram (d : Dgram)
  | recvDgram
  | xmit                                            -- the send loop hands one message to the transport
  | recv                                            -- the receive loop processes one message
  | notif                                           -- the task handles one dropped-handle notification
  | unpark                                          -- a parked hand-over to the accept queue completes
  | runDone                                         -- answered `new_stream_channel` futures return
  | runRetries                                      -- rejected `new_stream_channel` futures try again
  | bindReq (req : Nat) (bt : BindType) (host : Bytes) (port : Nat)   -- `request_bind` is called
  | bindNext                                        -- `next_bind_request`, one poll
  | bindReply (k : Nat) (accept : Bool)             -- `BindRequest::reply` on the `k`-th request handed out
  | bindDrop (k : Nat)                              -- that `BindRequest` is dropped
deriving Repr

/-- A live handle: one the application got and has not dropped. -/
def liveHandle (e : EP) (g : Ghost) (h : Nat) : Bool := decide (h < e.handles.length) && !g.dropped.contains h

/-- One action of the left endpoint (`p.a`); `none` = not enabled. -/
def stepL (p : PS) : Act → Option PS
  | .open req host port =>
    if p.a.opens.any (·.req == req) then none
    else
      let e := (appOpen p.a req host port).1
      -- ids come from the script (the fallback generator of the harness is outside this fragment)
      if e.rng.isEmpty then none else some { p with a := e }
  | .cancelOpen req => some { p with a := { p.a with opens := p.a.opens.filter (·.req ≠ req) } }
  | .accept => some { p with a := (appAccept p.a).1 }
  | .write h d =>
    if !liveHandle p.a p.ga h then none
    else
      let r := appWrite p.a h d
      let g := match r.2, p.a.handles[h]? with
        | .wrote _, some i => p.ga.addW i d
        | _, _ => p.ga
      some { p with a := r.1, ga := g }
  | .read h n =>
    if !liveHandle p.a p.ga h then none
    else
      let r := appRead p.a h n
      let g := match r.2, p.a.handles[h]? with
        | .data bs, some i => p.ga.addR i bs
        | .eof, some i => p.ga.noteEof p.a i
        | _, _ => p.ga
      some { p with a := r.1, ga := g }
  | .shutdown h =>
    if !liveHandle p.a p.ga h then none else some { p with a := (appShutdown p.a h).1 }
  | .dropStream h =>
    if !liveHandle p.a p.ga h then none
    else some { p with a := (appDropStream p.a h).1, ga := { p.ga with dropped := h :: p.ga.dropped } }
  | .sendDgram d =>
    let r := appSendDgram p.a d
    some { p with a := r.1, ga := match r.2 with | .unit => { p.ga with dsent := p.ga.dsent ++ [d] } | _ => p.ga }
  | .recvDgram =>
    let r := appRecvDgram p.a
    some { p with a := r.1, ga := match r.2 with | .dgram d => { p.ga with drecv := p.ga.drecv ++ [d] } | _ => p.ga }
  | .xmit =>
    match p.a.outq with
    | [] => none
    | m :: rest => some { p with a := { p.a with outq := rest }, ab := p.ab ++ [m] }
  | .recv =>
    if p.a.park.isSome then none
    else match p.ba with
      | .frame f :: rest =>
        match processFrame p.a f false with
        | (e, _, none) =>
          some { p with a := e, ba := rest,
                        linked := match completes p f with | some x => x :: p.linked | none => p.linked }
        | _ => none
      | _ => none
  | .notif =>
    match p.a.droppedq with
    | fid :: rest => if fid = 0 then none else some { p with a := (closeFlow { p.a with droppedq := rest } fid false).1 }
    | [] => none
  | .unpark => some { p with a := Mux.unpark p.a }
  | .runDone => some { p with a := (Mux.runDone { p.a with doneq := [] } (p.a.doneq.foldr insertDone [])).1 }
  | .runRetries =>
    let e := (Mux.runRetries { p.a with retryq := [] } (sortNat p.a.retryq)).1
    if e.rng.isEmpty then none else some { p with a := e }
  | .bindReq req bt host port =>
    let e := (appBindReq p.a req bt host port).1
    -- ids come from the script, as for `open`
    if e.rng.isEmpty then none else some { p with a := e }
  | .bindNext => some { p with a := (appBindNext p.a).1 }
  | .bindReply k accept => some { p with a := (appBindReply p.a k accept).1 }
  | .bindDrop k => some { p with a := (appBindDrop p.a k).1 }

inductive Side where
  | A | B
deriving DecidableEq, Repr

/-- One action of the pair. -/
def step (p : PS) (s : Side) (a : Act) : Option PS :=
  match s with
  | .A => stepL p a
  | .B => (stepL p.swap a).map PS.swap

/-- A run: actions that are not enabled are skipped. -/
def run (p : PS) : List (Side × Act) → PS
  | [] => p
  | (s, a) :: rest => run ((step p s a).getD p) rest

/-- Two freshly created endpoints with their options and flow-id scripts, nothing in transit. -/
def init (oa ob : Opts) (ra rb : List Nat) : PS :=
  { a := { opts := oa, rng := ra }, b := { opts := ob, rng := rb } }

end Penguin.Pair

namespace Penguin.Pair
open Penguin.Mux

/-! ### The stimulus level

The correspondence harness drives each real endpoint one *stimulus* at a time — one application
call, or one message moved from the wire into the endpoint — and then lets the connection task (and
the pending `new_stream_channel` futures) run until nothing is left to do; that is `Mux.applyOp`
(`opStep` followed by `settle`), the function the harness compares with the real code.  `stimL` is
that step on the pair: the messages the endpoint hands to its sink go onto the wire.
`Lemmas/PairSettle.lean` proves that every such stimulus is a run of the fine-grained actions above,
so everything proved for all fine-grained runs holds for what the harness validates. -/

/-- The messages handed to the sink, in order. -/
def wiresOf : List Ev → List Msg
  | [] => []
  | .wire m :: rest => m :: wiresOf rest
  | _ :: rest => wiresOf rest

/-- The ghost update of an application call (what the application observed). -/
def ghostOf (e : EP) (g : Ghost) (op : Mux.Op) (res : Res) : Ghost :=
  match op, res with
  | .write h d, .wrote _ => match e.handles[h]? with | some i => g.addW i d | none => g
  | .read h _, .data bs => match e.handles[h]? with | some i => g.addR i bs | none => g
  | .read h _, .eof => match e.handles[h]? with | some i => g.noteEof e i | none => g
  | .dropStream h, _ => { g with dropped := h :: g.dropped }
  | .sendDgram d, .unit => { g with dsent := g.dsent ++ [d] }
  | .recvDgram, .dgram d => { g with drecv := g.drecv ++ [d] }
  | _, _ => g

/-- One application-call stimulus at the left endpoint. -/
def stimL (p : PS) (op : Mux.Op) : PS :=
  let r := applyOp p.a op
  { p with a := r.1, ab := p.ab ++ wiresOf r.2.2, ga := ghostOf p.a p.ga op r.2.1 }

/-- One delivery stimulus at the left endpoint: the oldest message in transit is handed to it. -/
def deliverL (p : PS) : Option PS :=
  match p.ba with
  | .frame f :: rest =>
    let r := applyOp p.a (.deliver (.msg (.frame f)))
    some { p with a := r.1, ba := rest, ab := p.ab ++ wiresOf r.2.2,
                  linked := match completes { p with a := unpark p.a } f with | some x => x :: p.linked | none => p.linked }
  | _ => none

end Penguin.Pair

namespace Penguin.Pair
open Penguin.Mux

/-- A stimulus of the correspondence harness at one endpoint. -/
inductive Stim where
  | call (op : Mux.Op)        -- an application call (`open`, `accept`, `write`, `read`, `shutdown`, …)
  | deliver                   -- the oldest message in transit to this endpoint is handed to it
deriving Repr

end Penguin.Pair

