/-
The datagram path between two endpoints: the sender's accepted datagrams, the FIFO transport, the
receiver's bounded queue (full ⇒ the datagram is dropped, `task.rs` `try_send`), the receiving
application. Each action is an endpoint-model function (`appSendDgram`, `processFrame` of a
`Datagram`, `appRecvDgram`), see `Props/C11.lean`.
-/
import Penguin.Basic.Bytes

namespace Penguin.DgSys

structure St (α : Type) where
  cap : Nat
  sent : List α := []      -- accepted by `send_datagram`, in order (ghost)
  wire : List α := []
  q : List α := []
  got : List α := []       -- returned by `get_datagram`, in order (ghost)

inductive Act (α : Type) where
  | send (d : α)
  | deliver
  | recv

def step {α : Type} (s : St α) : Act α → St α
  | .send d => { s with sent := s.sent ++ [d], wire := s.wire ++ [d] }
  | .deliver =>
    match s.wire with
    | [] => s
    | d :: rest => if s.q.length < s.cap then { s with wire := rest, q := s.q ++ [d] } else { s with wire := rest }
  | .recv =>
    match s.q with
    | [] => s
    | d :: rest => { s with q := rest, got := s.got ++ [d] }

def run {α : Type} (s : St α) (as : List (Act α)) : St α := as.foldl step s

end Penguin.DgSys
