/-
The client's two UDP maps (`penguin/src/client/mod.rs:121-234`) as association lists, with the
operations the code performs on them, and the server's side of a UDP exchange
(`server/websocket.rs:60-93`: one forwarder per flow id; `server/forwarder.rs:93-160`: the reply
`Datagram` carries the flow id of the forwarder's first datagram).

A socket address is a `Nat` (the harness encodes `ip:port` injectively), a socket (`Arc<UdpSocket>`)
is a `Nat` identity, time is `Nat` milliseconds (`tokio::time::Instant`).  The random key generator
(`HashMapLike::next_available_key` / `next_available_nonzero_key`, `penguin-mux/src/hashmap.rs`) is a
script of successive `u32` draws.  Which generator the code calls, the prune timeout and the stdio
sentinel come from `Penguin.Gen.UdpMap`, regenerated from the source on every run.
-/
import Penguin.Basic.Bytes
import Penguin.Gen.UdpMap

namespace Penguin.UdpMap
open Penguin.Constants

/-! ### Association lists (a `HashMap` is a finite function; iteration order is not modelled) -/

def get {κ ν : Type} [DecidableEq κ] (l : List (κ × ν)) (k : κ) : Option ν :=
  match l with
  | [] => none
  | (k', v) :: rest => if k' = k then some v else get rest k

/-- `HashMap::remove` -/
def del {κ ν : Type} [DecidableEq κ] (l : List (κ × ν)) (k : κ) : List (κ × ν) :=
  l.filter (fun p => !decide (p.1 = k))

/-- `HashMap::insert` (replaces an existing binding) -/
def put {κ ν : Type} [DecidableEq κ] (l : List (κ × ν)) (k : κ) (v : ν) : List (κ × ν) :=
  (k, v) :: del l k

abbrev Addr := Nat
abbrev SockId := Nat

/-- `ClientIdMapEntry` (mod.rs:236-250) -/
structure Entry where
  peer : Addr          -- the local client's address
  our : Addr           -- the address of the socket it sent to (`socket.local_addr()`)
  sock : SockId        -- the socket replies are sent from
  socks5 : Bool        -- replies get a SOCKS5 UDP header
  expires : Nat
deriving DecidableEq, Repr

def Entry.tuple (e : Entry) : Addr × Addr := (e.peer, e.our)

/-- `ClientIdMaps` (mod.rs:185-194) plus the clock -/
structure Maps where
  idMap : List (Nat × Entry) := []              -- client_id_map
  addrMap : List ((Addr × Addr) × Nat) := []    -- client_addr_map
  now : Nat := 0
deriving Repr

inductive Out where
  | id (n : Nat)                                        -- add_udp_client returned this client id
  | target (sock : SockId) (peer : Addr) (socks5 : Bool) -- send_datagram_reply sends from `sock` to `peer`
  | stdio                                               -- send_datagram_reply writes to stdout (id 0)
  | unknown                                             -- send_datagram_reply: `None` (datagram dropped)
  | pruned (ids : List Nat)
  | panic                                               -- `.expect("… inconsistent (this is a bug)")`
  | rngExhausted                                        -- model artefact: the draw script was too short
  | none
deriving DecidableEq, Repr

/-- `next_available_key` / `next_available_nonzero_key`: draw until the key is free (and, for the
    non-zero variant, not 0).  `none` when the script ends first. -/
def nextKey (idMap : List (Nat × Entry)) (nonzero : Bool) : List Nat → Option Nat
  | [] => none
  | k :: rest =>
    if (nonzero && decide (k = 0)) || (get idMap k).isSome then nextKey idMap nonzero rest else some k

/-- `entry.refresh()` -/
def refresh (e : Entry) (now : Nat) : Entry := { e with expires := now + udpPruneTimeoutMs }

/-- `HandlerResources::add_udp_client` (mod.rs:121-156) -/
def add (m : Maps) (peer our : Addr) (sock : SockId) (socks5 : Bool) (rng : List Nat) : Maps × Out :=
  match get m.addrMap (peer, our) with
  | some cid =>
    -- the client already exists: refresh the entry (the socket and the flag of the first call stay)
    match get m.idMap cid with
    | some e => ({ m with idMap := put m.idMap cid (refresh e m.now) }, .id cid)
    | none => (m, .panic)
  | none =>
    match nextKey m.idMap udpClientIdNonzero rng with
    | none => (m, .rngExhausted)
    | some cid =>
      let e : Entry := { peer := peer, our := our, sock := sock, socks5 := socks5,
                         expires := m.now + udpPruneTimeoutMs }
      ({ m with idMap := put m.idMap cid e, addrMap := put m.addrMap (peer, our) cid }, .id cid)

/-- `ClientIdMaps::send_datagram_reply` (mod.rs:206-233): where a `Datagram` frame with flow id
    `cid` coming back from the server is sent. -/
def reply (m : Maps) (cid : Nat) : Maps × Out :=
  if cid = udpStdioClientId then (m, .stdio)
  else match get m.idMap cid with
    | none => (m, .unknown)
    | some e => ({ m with idMap := put m.idMap cid (refresh e m.now) }, .target e.sock e.peer e.socks5)

/-- The `retain` of `prune_udp_clients` (mod.rs:159-181): an entry is kept iff `expires > now`; a
    dropped entry takes its tuple out of the address map (`expect`: it must be there). -/
def pruneGo (now : Nat) : List (Nat × Entry) → List ((Addr × Addr) × Nat) →
    Option (List (Nat × Entry) × List ((Addr × Addr) × Nat))
  | [], am => some ([], am)
  | (cid, e) :: rest, am =>
    if e.expires > now then
      match pruneGo now rest am with
      | some (l, am') => some ((cid, e) :: l, am')
      | none => none
    else
      match get am e.tuple with
      | none => none
      | some _ => pruneGo now rest (del am e.tuple)

def prune (m : Maps) : Maps × Out :=
  match pruneGo m.now m.idMap m.addrMap with
  | none => (m, .panic)
  | some (l, am) =>
    ({ m with idMap := l, addrMap := am },
     .pruned ((m.idMap.filter (fun p => !decide (p.2.expires > m.now))).map (·.1)))

inductive Op where
  | add (peer our : Addr) (sock : SockId) (socks5 : Bool) (rng : List Nat)
  | reply (cid : Nat)
  | prune
  | tick (dt : Nat)
deriving Repr

def step (m : Maps) : Op → Maps × Out
  | .add p o s f rng => add m p o s f rng
  | .reply cid => reply m cid
  | .prune => prune m
  | .tick dt => ({ m with now := m.now + dt }, .none)

def run (m : Maps) (ops : List Op) : Maps := ops.foldl (fun m op => (step m op).1) m

/-! ### The server's side (`websocket.rs`, `forwarder.rs`) -/

structure Dgram where
  flowId : Nat
  host : Bytes
  port : Nat
  data : Bytes
deriving DecidableEq, Repr

/-- One `udp_forward_on` task: it remembers the flow id and target of its first datagram. -/
structure Fwd where
  flowId : Nat
  host : Bytes
  port : Nat
  alive : Bool := true
deriving DecidableEq, Repr

structure Srv where
  clients : List (Nat × Nat) := []   -- `udp_clients`: flow id ↦ forwarder (index into `fwds`)
  fwds : List Fwd := []
deriving Repr

inductive SOp where
  | fromClient (d : Dgram)                 -- `mux.get_datagram()` in `handle_websocket`
  | fromTarget (i : Nat) (payload : Bytes) -- forwarder `i`'s socket received a datagram
  | expire (i : Nat)                       -- forwarder `i` ends (idle for UDP_PRUNE_TIMEOUT, or an error)
deriving DecidableEq, Repr

inductive SOut where
  | toTarget (i : Nat) (host : Bytes) (port : Nat) (data : Bytes)  -- `socket.send_to(data, (host, port))`
  | toClient (d : Dgram)                                           -- reply `Datagram` frame
  | dropped
  | none
deriving DecidableEq, Repr

def Srv.spawn (s : Srv) (d : Dgram) : Srv × SOut :=
  ({ clients := put s.clients d.flowId s.fwds.length,
     fwds := s.fwds ++ [{ flowId := d.flowId, host := d.host, port := d.port }] },
   .toTarget s.fwds.length d.host d.port d.data)

def sstep (s : Srv) : SOp → Srv × SOut
  | .fromClient d =>
    match get s.clients d.flowId with
    | some i =>
      match s.fwds[i]? with
      | some f =>
        if f.alive then (s, .toTarget i d.host d.port d.data)   -- forwarder.rs:143-151: to the frame's own target
        else if serverRespawnsFinishedForwarder then
          Srv.spawn { s with clients := del s.clients d.flowId } d
        else ({ s with clients := del s.clients d.flowId }, .dropped)
      | none => (s, .dropped)
    | none => Srv.spawn s d
  | .fromTarget i payload =>
    match s.fwds[i]? with
    | some f =>
      if f.alive then
        -- forwarder.rs:123-128: `Datagram { target_host: rhost.clone(), target_port: rport, flow_id, data }`
        (s, .toClient { flowId := f.flowId, host := f.host, port := f.port, data := payload })
      else (s, .none)
    | none => (s, .none)
  | .expire i =>
    match s.fwds[i]? with
    | some f => ({ s with fwds := s.fwds.set i { f with alive := false } }, .none)
    | none => (s, .none)

/-- State and trace (operation, what it emitted), oldest first. -/
def srun (s : Srv) (ops : List SOp) : Srv × List (SOp × SOut) :=
  ops.foldl (fun (acc : Srv × List (SOp × SOut)) op =>
    let r := sstep acc.1 op
    (r.1, acc.2 ++ [(op, r.2)])) (s, [])

/-! ### The SOCKS5 UDP relay loop of one association (`client/handle_remote/socks.rs`)

`handle_udp_relay_header` receives one datagram on the association's relay socket and parses it with
`v5::parse_udp_relay_header`; the relay loop forwards what it returns, goes on after `Ok(None)` and
ends (taking the association and its TCP control connection down) on an error.  Which outcome each
kind of parse failure has is regenerated from the source (`socksRelayDropsFragmented`,
`socksRelayDropsMalformed`). -/

inductive RelayIn where
  | request (dst : Bytes) (port : Nat) (data : Bytes)   -- a well-formed RFC 1928 UDP request
  | fragmented                                            -- FRAG ≠ 0
  | malformed                                             -- anything else the parser rejects
deriving DecidableEq, Repr

inductive RelayOut where
  | forwarded (dst : Bytes) (port : Nat) (data : Bytes)
  | dropped
  | ended
deriving DecidableEq, Repr

/-- One datagram at the relay; the state is "the association is alive". -/
def relayStep (alive : Bool) (i : RelayIn) : Bool × RelayOut :=
  if !alive then (false, .ended)
  else match i with
    | .request d p x => (true, .forwarded d p x)
    | .fragmented => if socksRelayDropsFragmented then (true, .dropped) else (false, .ended)
    | .malformed => if socksRelayDropsMalformed then (true, .dropped) else (false, .ended)

def relayRun (alive : Bool) : List RelayIn → List RelayOut
  | [] => []
  | i :: rest => (relayStep alive i).2 :: relayRun (relayStep alive i).1 rest

end Penguin.UdpMap
