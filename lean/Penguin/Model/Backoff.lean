/-
Model of `penguin_mux::timing::Backoff` (/repo/penguin-mux/src/timing.rs:13-62), the exponential
back-off generator used by the client's retry loop (client/mod.rs:320-325).

Durations are natural numbers of milliseconds.  The Rust type is `core::time::Duration`
(seconds : u64, nanoseconds : u32).  `min` and multiplication by a `u32` keep whole milliseconds
whole, so for generators created from whole-millisecond values (the client uses
`Duration::from_millis`) the millisecond model is exact.  The only place where `Duration` differs
from `Nat` is overflow: `Duration * u32` PANICS ("overflow when multiplying duration by scalar")
when the product exceeds `Duration::MAX` = (2^64 - 1) s + 999 999 999 ns, i.e. for whole
milliseconds when the product exceeds `durationMaxMs`.  `advanceChecked` makes that explicit;
`advance` is the overflow-free function and `Props/C19.client_backoff_never_overflows` shows that
the client's generator (200 ms, max = a `u64` of milliseconds, x2) can never reach the panic.

`count` is a `u32` in Rust.  With `max_count ≠ 0` it never exceeds `max_count`, so it cannot
overflow.  With `max_count = 0` it is incremented for ever and would wrap (release profile,
overflow checks off) after 2^32 advances, but then it is never read (`max_count != 0 && …`
short-circuits), see `advance_count_irrelevant_unlimited`; the model keeps it in `Nat`.
-/
namespace Penguin

structure Backoff where
  /-- `initial`: first delay (ms). -/
  initial : Nat
  /-- `max`: every delay is clamped to this (ms). -/
  max : Nat
  /-- `mult`: multiplier (`u32`). -/
  mult : Nat
  /-- `max_count`: number of delays handed out before `advance` answers `None`; `0` = unlimited. -/
  maxCount : Nat
  /-- `current`: the next (unclamped) delay. -/
  current : Nat
  /-- `count`: delays handed out since creation / the last `reset`. -/
  count : Nat
  deriving DecidableEq, Repr

namespace Backoff

/-- timing.rs:34-43 `Backoff::new`. -/
def new (initial max mult maxCount : Nat) : Backoff :=
  { initial, max, mult, maxCount, current := initial, count := 0 }

/-- timing.rs:46-55 `Backoff::advance`: `None` once `max_count` delays were handed out
    (`max_count = 0`: never); else `old = current.min(max); current = old * mult; Some(old)`. -/
def advance (b : Backoff) : Backoff × Option Nat :=
  if b.maxCount ≠ 0 ∧ b.count ≥ b.maxCount then (b, none)
  else
    let old := Nat.min b.current b.max
    ({ b with count := b.count + 1, current := old * b.mult }, some old)

/-- timing.rs:58-61 `Backoff::reset`. -/
def reset (b : Backoff) : Backoff := { b with current := b.initial, count := 0 }

/-- Largest whole number of milliseconds a `Duration` can hold:
    `Duration::MAX` = 18446744073709551615 s + 999 999 999 ns. -/
def durationMaxMs : Nat := 18446744073709551616 * 1000 - 1

/-- Does this call of `advance` panic in Rust (`old * self.mult` overflows `Duration`)? -/
def advanceOverflows (b : Backoff) : Bool :=
  !(b.maxCount ≠ 0 ∧ b.count ≥ b.maxCount) && decide (Nat.min b.current b.max * b.mult > durationMaxMs)

/-- `advance` with the panic made explicit (`none` = panic). -/
def advanceChecked (b : Backoff) : Option (Backoff × Option Nat) :=
  if b.advanceOverflows then none else some b.advance

/-- `n` consecutive calls of `advance`, results discarded. -/
def advanceN (b : Backoff) : Nat → Backoff
  | 0 => b
  | n + 1 => advanceN b.advance.1 n

/-- The delays of `n` consecutive calls of `advance` (`none` = refused). -/
def delays (b : Backoff) : Nat → List (Option Nat)
  | 0 => []
  | n + 1 => b.advance.2 :: delays b.advance.1 n

/-- Operations for op-sequence runs (driver, correspondence). -/
inductive Op | advance | reset
  deriving DecidableEq, Repr

/-- The results of the `advance` calls of an operation sequence (overflow-free reading). -/
def outputs (b : Backoff) : List Op → List (Option Nat)
  | [] => []
  | .reset :: ops => outputs b.reset ops
  | .advance :: ops => b.advance.2 :: outputs b.advance.1 ops

/-- What one `advance` call is observed to do. -/
inductive Out | delay (ms : Nat) | refused | panic
  deriving DecidableEq, Repr

def Out.ofOption : Option Nat → Out
  | some d => .delay d
  | none => .refused

/-- Run a sequence of operations; the observations of the `advance` calls in order.
    The run stops at the first panicking call (the generator is unusable afterwards). -/
def runOps (b : Backoff) : List Op → List Out
  | [] => []
  | .reset :: ops => runOps b.reset ops
  | .advance :: ops =>
    match b.advanceChecked with
    | none => [.panic]
    | some (b', some d) => .delay d :: runOps b' ops
    | some (b', none) => .refused :: runOps b' ops

end Backoff
end Penguin
