/-
Model/WakerN — SEVERAL writers polling the write side of ONE stream (C12, C03).

`MuxStream::poll_write_push` and `poll_obtain_write_permission` take `&self` and `MuxStream` is
`Sync`, so safe code can poll the write side of one stream from several tasks at once (for example
through an `Arc<MuxStream>`; `AsyncWrite::poll_write` cannot, it needs `Pin<&mut Self>`).  This file is
the small-step model of `Model/Waker` (sequentially consistent, ONE STEP = ONE ATOMIC OPERATION of the
repaired code, `penguin-mux/src/stream.rs:163-216` and `:123-129`, `penguin-mux/src/lib.rs:461-488`)
with a LIST of writer threads instead of one:

* every writer thread has its own program counter (`Waker.WPc`, the same locations as in the
  single-writer model), its own number of sequential, unconditional polls and its own ghost log;
* all writers share `credit` (`psh_send_remaining`), `closed` (`finish_sent`) and the ONE
  `AtomicWaker` cell `registered`.  A waker is named by the writer thread and the index of that
  writer's poll (`WakerId`); a `register` overwrites whatever the cell holds — with one slot a later
  registration replaces an earlier one, also one of another task; `wake()` takes the content of the
  cell and calls it;
* the acknowledge / close actors — the operations of the CONNECTION TASK on the flow slot — are those
  of `Model/Waker` (`fetch_add` resp. `swap(true)`, then `wake()`);
* FOREIGN SHUTDOWNS: `MuxStream::do_shutdown(&self)` (`stream.rs:226-240`, also behind
  `AsyncWrite::poll_shutdown`) is public and can be called through another handle of the stream while
  a writer is parked.  It performs `finish_sent.swap(true)`, queues a `Finish` frame (not a `Push`:
  irrelevant for the credit) and wakes NOBODY.  It is an operation of an application thread, not of
  the connection task, so it is not one of the `actors`: a scenario has `shutdowns` such threads, each
  of which performs exactly that one atomic operation (label `shutdown`; the threads are
  indistinguishable, so a counter stands for them).

Only the code as repaired is modelled here (register, then re-check the closed flag and the credit);
the pinned code and its witness stay in `Model/Waker`.  With one writer thread this model is the
single-writer model (`Lemmas/WakerNSim.lean`).

Ghosts (never read by a step): `lastReg`, the waker of the most recent `register` operation of the run
(a `wake()` does not clear it); per writer `regMark`, the number of wake-ups that had been delivered
(to any waker) when that writer last executed `register`; the logs and counters of `Model/Waker`, per
writer.

Not modelled: as in `Model/Waker` (`u32` wrap-around, orderings weaker than SC).
-/
import Penguin.Model.Waker

namespace Penguin.WakerN
open Penguin.Waker (PollResult ActorKind APc Actor WPc)

/-- A waker: (writer thread, index of that writer's poll). -/
abbrev WakerId := Nat × Nat

/-- One writer thread. -/
structure Writer where
  pc : WPc
  /-- index of the poll in progress (of the last poll once `finished`) -/
  cur : Nat
  /-- polls still to be started after the current one -/
  pollsLeft : Nat
  /-- ghost: value of `finish_sent` when the current poll performed its first operation -/
  curStartClosed : Bool
  /-- ghost: the current poll has executed `register` -/
  curRegistered : Bool
  /-- ghost: number of wake-ups delivered so far (to any waker) when this writer last executed `register` -/
  regMark : Nat
  /-- ghost: this writer's polls that have returned, newest first: (closed at start, result) -/
  log : List (Bool × PollResult)
  /-- ghost: the values from which a CAS of this writer succeeded in taking one unit (newest first) -/
  takes : List Nat
  /-- ghost: `Push` frames this writer handed to the connection task -/
  sent : Nat
  deriving DecidableEq, Repr, Hashable

structure Scenario where
  credit : Nat
  /-- one entry per writer thread: its number of polls -/
  writers : List Nat
  actors : List ActorKind
  /-- number of threads that call `do_shutdown()` on the stream once (through another handle) -/
  shutdowns : Nat
  deriving DecidableEq, Repr

structure State where
  /-- `psh_send_remaining` -/
  credit : Nat
  /-- `finish_sent` -/
  closed : Bool
  /-- content of the one `AtomicWaker` -/
  registered : Option WakerId
  /-- ghost: the waker of the most recent `register` operation (not cleared by `wake()`) -/
  lastReg : Option WakerId
  /-- wakers woken so far (newest first) -/
  wakeLog : List WakerId
  actors : List Actor
  writers : List Writer
  /-- ghost: sum of the `fetch_add` amounts performed -/
  grants : Nat
  /-- `do_shutdown()` threads that have not run yet -/
  shutdownsLeft : Nat
  /-- ghost: `do_shutdown()` calls performed -/
  shutdownsDone : Nat
  deriving DecidableEq, Repr, Hashable

inductive Label
  | writer (w : Nat)        -- writer thread `w` performs its next operation
  | casSpurious (w : Nat)   -- `compare_exchange_weak` of writer `w` fails spuriously (writer at `cas`)
  | actor (i : Nat)         -- actor thread `i` performs its next operation
  | shutdown                -- one of the `do_shutdown()` threads performs its `swap(true)`
  deriving DecidableEq, Repr, Hashable

def initWriter (polls : Nat) : Writer where
  pc := if polls = 0 then .finished else .loadFin
  cur := 0
  pollsLeft := polls - 1
  curStartClosed := false
  curRegistered := false
  regMark := 0
  log := []
  takes := []
  sent := 0

def init (sc : Scenario) : State where
  credit := sc.credit
  closed := false
  registered := none
  lastReg := none
  wakeLog := []
  actors := sc.actors.map (⟨·, .write⟩)
  writers := sc.writers.map initWriter
  grants := 0
  shutdownsLeft := sc.shutdowns
  shutdownsDone := 0

/-- The current poll of the writer returns `r`; its next poll (if any) starts at `loadFin`. -/
def Writer.finishPoll (w : Writer) (r : PollResult) : Writer :=
  match w.pollsLeft with
  | 0 => { w with log := (w.curStartClosed, r) :: w.log, pc := .finished }
  | n + 1 => { w with log := (w.curStartClosed, r) :: w.log, pc := .loadFin, cur := w.cur + 1,
                      pollsLeft := n, curRegistered := false }

/-- The writer's own (thread-local and ghost) state after its next operation, given what the
    operation reads: `closed` = `finish_sent`, `credit` = `psh_send_remaining`, `wakes` = number of
    wake-ups delivered so far (ghost, for `regMark`). -/
def Writer.next (closed : Bool) (credit wakes : Nat) (w : Writer) : Writer :=
  match w.pc with
  | .loadFin =>
    -- stream.rs:169  `if self.finish_sent.load(Relaxed) { return Poll::Ready(None) }`
    if closed then ({ w with curStartClosed := true } : Writer).finishPoll .none
    else { w with curStartClosed := false, pc := .loadCredit }
  | .loadCredit =>
    -- stream.rs:177  `let mut original = self.psh_send_remaining.load(Acquire); if original == 0 {..}`
    if credit = 0 then { w with pc := .register } else { w with pc := .cas credit }
  | .register =>
    -- stream.rs:182  `self.writer_waker.register(cx.waker())` (the effect on the cell: `writerStep`)
    { w with curRegistered := true, regMark := wakes, pc := .reloadFin }
  | .reloadFin =>
    -- stream.rs:190  `if self.finish_sent.load(Relaxed) { return Poll::Ready(None) }`
    if closed then w.finishPoll .none else { w with pc := .reloadCredit }
  | .reloadCredit =>
    -- stream.rs:194  `original = self.psh_send_remaining.load(Acquire); if original == 0 { return Pending }`
    if credit = 0 then w.finishPoll .pending else { w with pc := .cas credit }
  | .cas orig =>
    -- stream.rs:205-208  `compare_exchange_weak(original, original - 1, AcqRel, Relaxed)`; on failure: loop
    if credit = orig then { w with takes := orig :: w.takes, pc := .send } else { w with pc := .loadCredit }
  | .send =>
    -- stream.rs:127-128: the `Push` frame goes to the task's queue, `Ready(Some(()))`
    ({ w with sent := w.sent + 1 } : Writer).finishPoll .some
  | .finished => w

/-- One operation of writer thread `i`: its own state moves by `Writer.next`; the shared cells change
    at `register` (the cell now holds this poll's waker, whatever it held before) and at a successful
    `compare_exchange` (one unit taken, atomically with the comparison). -/
def writerStep (s : State) (i : Nat) : State :=
  match s.writers[i]? with
  | none => s
  | some w =>
    let ws := s.writers.set i (w.next s.closed s.credit s.wakeLog.length)
    match w.pc with
    | .register => { s with registered := some (i, w.cur), lastReg := some (i, w.cur), writers := ws }
    | .cas orig => if s.credit = orig then { s with credit := orig - 1, writers := ws } else { s with writers := ws }
    | _ => { s with writers := ws }

/-- `AtomicWaker::wake`: take the registered waker, if any, and call it. -/
def doWake (s : State) : State :=
  match s.registered with
  | some k => { s with registered := none, wakeLog := k :: s.wakeLog }
  | none => s

/-- One operation of actor `i` (as in `Model/Waker`). -/
def actorStep (s : State) (i : Nat) : State :=
  match s.actors[i]? with
  | none => s
  | some a =>
    match a.pc with
    | .write =>
      match a.kind with
      -- lib.rs:467  `self.psh_send_remaining.fetch_add(acknowledged, Relaxed)`
      | .ack n => { s with credit := s.credit + n, grants := s.grants + n,
                           actors := s.actors.set i { a with pc := .wake } }
      -- lib.rs:483  `self.finish_sent.swap(true, AcqRel)`
      | .close => { s with closed := true, actors := s.actors.set i { a with pc := .wake } }
    -- lib.rs:469 / :486  `self.writer_waker.wake()`
    | .wake => doWake { s with actors := s.actors.set i { a with pc := .done } }
    | .done => s

/-- A spurious failure of writer `i`'s `compare_exchange_weak`. -/
def spuriousStep (s : State) (i : Nat) : State :=
  match s.writers[i]? with
  | none => s
  | some w =>
    match w.pc with
    | .cas _ => { s with writers := s.writers.set i { w with pc := .loadCredit } }
    | _ => s

/-- `MuxStream::do_shutdown` through another handle: stream.rs:233 `self.finish_sent.swap(true, AcqRel)`
    (then the `Finish` frame to the task's queue if the flag was clear) — and NO `wake()`. -/
def shutdownStep (s : State) : State :=
  match s.shutdownsLeft with
  | 0 => s
  | n + 1 => { s with closed := true, shutdownsLeft := n, shutdownsDone := s.shutdownsDone + 1 }

/-- The step function; a label that is not enabled leaves the state unchanged. -/
def step (s : State) : Label → State
  | .writer i => writerStep s i
  | .casSpurious i => spuriousStep s i
  | .actor i => actorStep s i
  | .shutdown => shutdownStep s

/-- Every reachable state of scenario `sc` is `run sc ls` for some schedule `ls`. -/
def run (sc : Scenario) (ls : List Label) : State := ls.foldl step (init sc)

def enabled (s : State) : Label → Bool
  | .writer i => match s.writers[i]? with | some w => w.pc != .finished | none => false
  | .casSpurious i => match s.writers[i]? with | some w => (match w.pc with | .cas _ => true | _ => false) | none => false
  | .actor i => match s.actors[i]? with | some a => a.pc != .done | none => false
  | .shutdown => s.shutdownsLeft != 0

/-! ### Observations used by the theorems and by the driver -/

/-- The writer has returned from its last poll with `Pending`: it sleeps until woken. -/
def Writer.parked (w : Writer) : Bool :=
  w.pc == .finished &&
    match w.log.head? with
    | some (_, .pending) => true
    | _ => false

/-- This writer's poll results in program order. -/
def Writer.results (w : Writer) : List PollResult := (w.log.map (·.2)).reverse

/-- Some acknowledge / close has done its write and has its `wake()` as the next operation. -/
def wakePending (s : State) : Bool := s.actors.any (·.pc == .wake)

def allActorsDone (s : State) : Bool := s.actors.all (·.pc == .done)

/-- The CONNECTION TASK has closed the stream for writing: some `disallow_write()` has performed its
    `swap` (whether or not its `wake()` has run yet).  Without foreign shutdowns this is `closed`. -/
def taskClosed (s : State) : Bool := s.actors.any fun a => a.isCloser && a.pc != .write

/-- Some `disallow_write()` has completed: `swap` and `wake()` both done. -/
def taskCloseCompleted (s : State) : Bool := s.actors.any fun a => a.isCloser && a.pc == .done

def allWritersFinished (s : State) : Bool := s.writers.all (·.pc == .finished)

/-- The waker of the last poll of writer `i` (state `w`) was woken. -/
def wokenW (s : State) (i : Nat) (w : Writer) : Bool := s.wakeLog.contains (i, w.cur)

/-- Wake-ups delivered, to any waker, since writer `w` last executed `register`. -/
def wakesSinceReg (s : State) (w : Writer) : Nat := s.wakeLog.length - w.regMark

/-- Writer `i`'s latest registration is not the latest registration on the stream: another `register`
    (of another writer thread) came after it and replaced it in the cell, or took the place of it. -/
def replacedW (s : State) (i : Nat) (w : Writer) : Bool := s.lastReg != some (i, w.cur)

def wakesOf (s : State) (k : WakerId) : Nat := s.wakeLog.count k

/-- `Push` frames handed to the task by all writers. -/
def totalSent (s : State) : Nat := (s.writers.map (·.sent)).sum

/-- Successful decrements of all writers. -/
def totalTakes (s : State) : Nat := (s.writers.map (·.takes.length)).sum

/-- Writers that hold a unit (their CAS succeeded) and have the `send` as their next operation. -/
def inFlight (s : State) : Nat := s.writers.countP (·.pc == .send)

/-- The amount an actor adds to the credit. -/
def ackAmount : ActorKind → Nat
  | .ack n => n
  | .close => 0

/-- Everything the scenario's acknowledgers will ever grant. -/
def Scenario.ackTotal (sc : Scenario) : Nat := (sc.actors.map ackAmount).sum

/-- What an actor thread will still add to the credit: the amount of an `acknowledge(n)` that has not
    performed its `fetch_add` yet. -/
def grantToCome (a : Actor) : Nat := if a.pc = .write then ackAmount a.kind else 0

/-- The grants still to come from all actor threads. -/
def grantsToCome (s : State) : Nat := (s.actors.map grantToCome).sum

/-- `Ready(Some(()))` polls of all writers. -/
def totalSome (s : State) : Nat := (s.writers.map fun w => w.results.count .some).sum

end Penguin.WakerN
