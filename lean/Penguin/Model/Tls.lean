/-
Model of the TLS *configuration / decision* logic (C17).

Sources mirrored (pinned tree):
* `penguin/src/tls/rustls.rs:22-77`   `make_server_config`, `make_server_config_from_mem`
* `penguin/src/tls/rustls.rs:94-133`  `make_client_config` (verifier selection, 4-arm match)
* `penguin/src/tls/rustls.rs:136-171` `generate_rustls_rootcertstore`
* `penguin/src/tls/rustls.rs:174-199` `try_load_certificate`
* `penguin/src/tls/rustls.rs:202-250` `EmptyVerifier`
* `penguin/src/tls/mod.rs:109-141`    `tls_connect`
* `penguin/src/tls/mod.rs:143-185`    `make_tls_identity`, `reload_tls_identity` (`ArcSwap::store`)
* `penguin/src/server/mod.rs:154-173, 196-252` SIGUSR1 reload task, `run_listener` (`load_full` per
  accepted connection), `serve_connection_tls`
* `penguin/src/client/ws_connect.rs:26-66` which name is handed to `tls_connect`

WHAT IS MODELLED AND WHAT IS NOT.  X.509 path validation (signatures, validity period, key usage,
chain building), subject-name matching, and the TLS handshake itself are NOT verified here: they are
rustls / rustls-webpki code and are *trusted*.  They appear only as the uninterpreted, decidable
functions of an abstract PKI (`Pki.issuedBy`, `Pki.nameOk`).  The Lean content is what penguin's own
code decides: which verifier a client gets for `(skip_verify, custom CA?, client cert?)`, which root
store it is given, whether the server requests / requires a client certificate for `tls_ca`, which
server name is checked, and which identity an accepted connection is served with across reloads.
The tie between the abstract PKI and real certificates is the exhaustive 72-case handshake matrix of
`harness-full/src/bin/tls.rs`.

Core Lean only (the driver links against this file).
-/
import Penguin.Basic.Bytes
import Penguin.Gen.Tls

namespace Penguin.Tls
open Penguin.Constants

/-- The abstract PKI.  `Cert` = a certificate chain as presented by a peer (leaf first), `Ca` = a
    root store (the content of a `--tls-ca` file / the built-in roots), `Name` = a parsed
    `rustls::pki_types::ServerName`.

    * `issuedBy c ca` — webpki builds and verifies a path from `c` to an anchor in `ca`
      (`WebPkiServerVerifier::verify_server_cert` / `WebPkiClientVerifier::verify_client_cert`). MODELLED.
    * `nameOk c n` — webpki `verify_is_valid_for_subject_name`. MODELLED.
    * `storeEmpty ca` — `RootCertStore::is_empty` after `add_parsable_certificates`.
    * `systemRoots` — what `generate_rustls_rootcertstore(None)` yields: the union selected by the
      cargo features `system-roots` / `webpki-roots` / `dn42-roots` (empty in a build without them).
    * `empty_issues_nothing` — the only law assumed: nothing chains to an empty store. -/
structure Pki (Cert Ca Name : Type) where
  issuedBy : Cert → Ca → Bool
  nameOk : Cert → Name → Bool
  storeEmpty : Ca → Bool
  systemRoots : Ca
  empty_issues_nothing : ∀ c ca, storeEmpty ca = true → issuedBy c ca = false

variable {Cert Ca Name : Type}

/-! ### Client side -/

/-- The arguments `tls_connect` passes to `make_client_config` (`tls/mod.rs:121-122`), i.e. the
    client's `--tls-cert`, `--tls-key`, `--tls-ca`, `--tls-skip-verify`.  `tlsCert` is the chain in
    the file; for the key only its presence matters to the decision logic (a key that does not match
    the certificate is a rustls configuration error outside this model). -/
structure ClientArgs (Cert Ca : Type) where
  tlsCert : Option Cert
  tlsKey : Bool
  tlsCa : Option Ca
  skipVerify : Bool

/-- `ClientArgs` plus the (already parsed) server name handed to `tls_connect`. -/
structure ConnectArgs (Cert Ca Name : Type) extends ClientArgs Cert Ca where
  serverName : Name

/-- `rustls.rs:105-131`: the two verifiers a client config can end up with. -/
inductive ServerVerifier (Ca : Type) where
  /-- `EmptyVerifier` (`rustls.rs:202-250`): `verify_server_cert` returns `Ok` unconditionally. -/
  | empty
  /-- `with_root_certificates(roots)`: rustls' `WebPkiServerVerifier` over `roots`. -/
  | webpki (roots : Ca)
  deriving DecidableEq, Repr

/-- The part of `rustls::ClientConfig` that the decision logic determines. -/
structure ClientConfig (Cert Ca : Type) where
  verifier : ServerVerifier Ca
  /-- `with_client_auth_cert` (some) / `with_no_client_auth` (none). -/
  clientAuth : Option Cert
  deriving DecidableEq, Repr

/-- `generate_rustls_rootcertstore` (`rustls.rs:136-171`): a custom CA file *replaces* the built-in
    roots, it is not added to them. -/
def rootStore (pki : Pki Cert Ca Name) : Option Ca → Ca
  | some ca => ca
  | none => pki.systemRoots

/-- `try_load_certificate` (`rustls.rs:174-199`): a certificate is loaded only when *both* paths are
    given; one without the other is silently `None`. -/
def tryLoadCertificate : Bool → Option Cert → Option Cert
  | true, some c => some c
  | _, _ => none

/-- The root store the client verifies against unless told to skip (`rustls.rs:110`). -/
def ClientArgs.roots (pki : Pki Cert Ca Name) (a : ClientArgs Cert Ca) : Ca := rootStore pki a.tlsCa

/-- The client certificate that will be offered if the server asks (`rustls.rs:111`). -/
def ClientArgs.loadedCert (a : ClientArgs Cert Ca) : Option Cert := tryLoadCertificate a.tlsKey a.tlsCert

/-- The verifier an arm of the match installs: `EmptyVerifier` or webpki over `roots`.  Which of the
    two each arm uses is re-extracted from `rustls.rs` on every run (`Penguin.Gen.Tls`). -/
def verifierOf (roots : Ca) (emptyVerifier : Bool) : ServerVerifier Ca :=
  if emptyVerifier then .empty else .webpki roots

/-- `with_client_auth_cert(chain, key)` or `with_no_client_auth()`. -/
def authOf (chain : Cert) (withClientAuthCert : Bool) : Option Cert :=
  if withClientAuthCert then some chain else none

/-- `make_client_config`, the 4-arm match of `rustls.rs:113-127`, arm by arm; the content of each
    arm (verifier, client-auth choice) comes from the extracted constants. -/
def makeClientConfig (pki : Pki Cert Ca Name) (a : ClientArgs Cert Ca) : ClientConfig Cert Ca :=
  let roots := rootStore pki a.tlsCa
  match a.skipVerify, tryLoadCertificate a.tlsKey a.tlsCert with
  | true, some chain =>
    { verifier := verifierOf roots tlsArmSkipCertEmptyVerifier, clientAuth := authOf chain tlsArmSkipCertClientAuth }
  | true, none => { verifier := verifierOf roots tlsArmSkipNoCertEmptyVerifier, clientAuth := none }
  | false, some chain =>
    { verifier := verifierOf roots tlsArmVerifyCertEmptyVerifier, clientAuth := authOf chain tlsArmVerifyCertClientAuth }
  | false, none => { verifier := verifierOf roots tlsArmVerifyNoCertEmptyVerifier, clientAuth := none }

/-- What the selected verifier answers for the server's chain and the requested name. -/
def verifyServerCert (pki : Pki Cert Ca Name) : ServerVerifier Ca → Cert → Name → Bool
  | .empty, _, _ => true
  | .webpki roots, c, n => pki.issuedBy c roots && pki.nameOk c n

/-- Does a client configured with `a`, asking for `a.serverName`, accept a server presenting `srv`? -/
def clientAccepts (pki : Pki Cert Ca Name) (a : ConnectArgs Cert Ca Name) (srv : Cert) : Bool :=
  verifyServerCert pki (makeClientConfig pki a.toClientArgs).verifier srv a.serverName

/-! ### Server side -/

/-- The server's `--tls-cert`/`--tls-key` (the chain it presents) and `--tls-ca`. -/
structure ServerArgs (Cert Ca : Type) where
  cert : Cert
  clientCa : Option Ca

/-- `rustls.rs:66-72`. -/
inductive ClientAuth (Ca : Type) where
  /-- `with_no_client_auth()`: no `CertificateRequest` is ever sent. -/
  | noClientAuth
  /-- `WebPkiClientVerifier::builder(store).build()`: a certificate is requested; it is `mandatory`
      unless the builder is given `allow_unauthenticated()` (it is not — extracted constant
      `tlsClientAuthMandatory`). -/
  | webpki (roots : Ca) (mandatory : Bool)
  deriving DecidableEq, Repr

/-- The part of `rustls::ServerConfig` (= `TlsIdentityInner`) that the decision logic determines. -/
structure ServerConfig (Cert Ca : Type) where
  cert : Cert
  clientAuth : ClientAuth Ca
  deriving DecidableEq, Repr

inductive ConfigErr where
  /-- `VerifierBuilderError::NoRootAnchors` → `Error::Verifier`: the CA file had no usable certificate. -/
  | noRootAnchors
  deriving DecidableEq, Repr

/-- `make_server_config_from_mem` (`rustls.rs:58-77`). -/
def makeServerConfig (pki : Pki Cert Ca Name) (a : ServerArgs Cert Ca) :
    Except ConfigErr (ServerConfig Cert Ca) :=
  match a.clientCa with
  | some ca =>
    if pki.storeEmpty ca then .error .noRootAnchors
    else .ok { cert := a.cert, clientAuth := .webpki ca tlsClientAuthMandatory }
  | none => .ok { cert := a.cert, clientAuth := .noClientAuth }

/-- Does this server send a `CertificateRequest` (`ClientCertVerifier::offer_client_auth`)? -/
def offersClientAuth : ServerConfig Cert Ca → Bool
  | ⟨_, .noClientAuth⟩ => false
  | ⟨_, .webpki _ _⟩ => true

/-- What reaches the server's verifier: the client's certificate if it was asked for, else nothing
    (rustls' `AlwaysResolvesClientCert` answers every request, whatever the CA hints say). -/
def presented (cc : ClientConfig Cert Ca) (sc : ServerConfig Cert Ca) : Option Cert :=
  if offersClientAuth sc then cc.clientAuth else none

/-- Server-side verdict on what the client presented. -/
def verifyClient (pki : Pki Cert Ca Name) : ServerConfig Cert Ca → Option Cert → Bool
  | ⟨_, .noClientAuth⟩, _ => true
  | ⟨_, .webpki _ mandatory⟩, none => !mandatory
  | ⟨_, .webpki roots _⟩, some c => pki.issuedBy c roots

/-- Does a server configured with `a` complete the handshake with a client whose configured
    certificate is `cli`?  (`false` when the configuration itself cannot be built.) -/
def serverAccepts (pki : Pki Cert Ca Name) (a : ServerArgs Cert Ca) (cli : Option Cert) : Bool :=
  match makeServerConfig pki a with
  | .error _ => false
  | .ok sc => verifyClient pki sc (if offersClientAuth sc then cli else none)

/-- Does a server configured with `a` ever ask for a client certificate? -/
def serverAsks (pki : Pki Cert Ca Name) (a : ServerArgs Cert Ca) : Bool :=
  match makeServerConfig pki a with
  | .error _ => false
  | .ok sc => offersClientAuth sc

/-! ### A handshake -/

inductive Outcome where
  | ok
  /-- The client's verifier refuses the server's chain (it is checked first: the client only sends
      its own certificate after accepting the server's). -/
  | clientRejects
  /-- The server's verifier refuses what the client presented (or the absence of it). -/
  | serverRejects
  deriving DecidableEq, Repr

/-- One handshake between a built client config (asking for `name`) and a built server config. -/
def handshakeWith (pki : Pki Cert Ca Name) (cc : ClientConfig Cert Ca) (name : Name)
    (sc : ServerConfig Cert Ca) : Outcome :=
  if !verifyServerCert pki cc.verifier sc.cert name then .clientRejects
  else if !verifyClient pki sc (presented cc sc) then .serverRejects
  else .ok

/-- Both sides' arguments. -/
structure Cfg (Cert Ca Name : Type) where
  client : ConnectArgs Cert Ca Name
  server : ServerArgs Cert Ca

def handshake (pki : Pki Cert Ca Name) (cfg : Cfg Cert Ca Name) : Except ConfigErr Outcome :=
  match makeServerConfig pki cfg.server with
  | .error e => .error e
  | .ok sc => .ok (handshakeWith pki (makeClientConfig pki cfg.client.toClientArgs) cfg.client.serverName sc)

def handshakeOk (pki : Pki Cert Ca Name) (cfg : Cfg Cert Ca Name) : Bool :=
  match handshake pki cfg with
  | .ok .ok => true
  | _ => false

/-- `tls_connect` (`tls/mod.rs:109-141`) receives the server name as text.  `parsed = none` stands
    for `ServerName::try_from` failing (`Error::DnsName`): no handshake is attempted, whatever
    `--tls-skip-verify` says. -/
inductive ConnectResult where
  | dnsName
  | done (o : Outcome)
  deriving DecidableEq, Repr

def tlsConnect (pki : Pki Cert Ca Name) (a : ClientArgs Cert Ca) (parsed : Option Name)
    (sc : ServerConfig Cert Ca) : ConnectResult :=
  match parsed with
  | none => .dnsName
  | some n => .done (handshakeWith pki (makeClientConfig pki a) n sc)

/-! ### Which server name is checked (`ws_connect.rs:26-66`) -/

inductive NameErr where
  /-- `hostname.to_str()` failed (`Error::InvalidDomainName`). -/
  | invalidDomainName
  deriving DecidableEq, Repr

/-- `urlHost` = host of the server URL (brackets removed); `hostname` = `--hostname`
    (`none` not given, `some none` given but not visible ASCII, `some (some h)` given);
    `sni` = `--tls-server-name`.  Statement order as in the source: the `--hostname` conversion (and
    its error) comes before `--tls-server-name` is looked at. -/
def chooseServerName {N : Type} (urlHost : N) (hostname : Option (Option N)) (sni : Option N) :
    Except NameErr N :=
  let afterHostname : Except NameErr N :=
    match hostname with
    | none => .ok urlHost
    | some none => .error .invalidDomainName
    | some (some h) => .ok h
  match afterHostname with
  | .error e => .error e
  | .ok n =>
    match sni with
    | some s => .ok s
    | none => .ok n

/-! ### Identity reload (`tls/mod.rs:143-185`, `server/mod.rs:154-173, 196-252`)

`TlsIdentity = Arc<ArcSwap<TlsIdentityInner>>`.  `run_listener` calls `tls_config.load_full()` once
per accepted TCP connection and moves that `Arc` into the connection's task; `reload_tls_identity`
builds a new config and `store`s it.  `Id` is the identity type (`ServerConfig` in the handshake
model; a label in the driver). -/

structure Listener (Id : Type) where
  /-- Content of the `ArcSwap`. -/
  current : Id
  /-- One entry per accepted connection, in accept order: the `Arc` it was given. -/
  sessions : List Id

inductive Ev (Id : Type) where
  /-- `reload_tls_identity`; `none` = `make_server_config` failed, the `?` returns before `store`. -/
  | reload (new : Option Id)
  /-- A TCP connection is accepted: `load_full()`. -/
  | accept

def Listener.step {Id : Type} (l : Listener Id) : Ev Id → Listener Id
  | .reload (some n) => { l with current := n }
  | .reload none => l
  | .accept => { l with sessions := l.sessions ++ [l.current] }

def Listener.run {Id : Type} (l : Listener Id) (evs : List (Ev Id)) : Listener Id :=
  evs.foldl Listener.step l

/-- `make_tls_identity`. -/
def Listener.init {Id : Type} (i : Id) : Listener Id := { current := i, sessions := [] }

/-! ### Returning clients: the session cache belongs to the configuration

`make_server_config_from_mem` (`rustls.rs:58-77`) builds every `ServerConfig` with
`ServerConfig::builder_with_provider(..)`, which gives it a **fresh** `session_storage`
(`ServerSessionMemoryCache`), and penguin never touches that field: `reload_tls_identity` is
`make_server_config(..)?` followed by `identity.store(Arc::new(new))` (`tls/mod.rs:167-177`, shape
pinned by the extractor).  So every stored identity owns its own cache.  A client that keeps its
`ClientConfig` (session store) across connections offers the ticket it got last; rustls resumes —
no `CertificateRequest`, the client verifier is not consulted, the peer certificate the client sees
is the one of the cached session — exactly when the ticket names a session in the cache of the
configuration serving *this* connection (TRUSTED: rustls `server::tls13` / `tls12`), otherwise it
falls back to a full handshake under that configuration.

Caches are numbered in build order (`make_tls_identity` builds number 0); a ticket is the number of
the cache holding the session. -/

inductive HsKind where
  /-- full handshake: both verifiers run as configured -/
  | full
  /-- resumption of a session found in the serving configuration's cache -/
  | resumed
  deriving DecidableEq, Repr

structure RListener (Id : Type) where
  /-- Content of the `ArcSwap`. -/
  current : Id
  /-- The session cache owned by that configuration. -/
  cache : Nat
  /-- Number of configurations built so far (= number of the next fresh cache). -/
  built : Nat
  /-- One entry per accepted connection: the identity it is served with and the handshake kind. -/
  sessions : List (Id × HsKind)

inductive REv (Id : Type) where
  /-- `reload_tls_identity`; `none` = `make_server_config` failed (returns before `store`). -/
  | reload (new : Option Id)
  /-- A connection is accepted (`load_full()`); the client offers `ticket` (`none`: a client without
      a remembered session). -/
  | accept (ticket : Option Nat)

/-- `make_tls_identity`. -/
def RListener.init {Id : Type} (i : Id) : RListener Id :=
  { current := i, cache := 0, built := 1, sessions := [] }

/-- Is the offered ticket found in the cache of the configuration in the `ArcSwap`? -/
def RListener.kindFor {Id : Type} (l : RListener Id) (ticket : Option Nat) : HsKind :=
  if ticket = some l.cache then .resumed else .full

def RListener.step {Id : Type} (l : RListener Id) : REv Id → RListener Id
  | .reload (some n) => { l with current := n, cache := l.built, built := l.built + 1 }
  | .reload none => l
  | .accept t => { l with sessions := l.sessions ++ [(l.current, l.kindFor t)] }

def RListener.run {Id : Type} (l : RListener Id) (evs : List (REv Id)) : RListener Id :=
  evs.foldl RListener.step l

/-- Forgetting the caches gives the listener model above. -/
def RListener.toListener {Id : Type} (l : RListener Id) : Listener Id :=
  { current := l.current, sessions := l.sessions.map (·.1) }

def REv.forget {Id : Type} : REv Id → Ev Id
  | .reload n => .reload n
  | .accept _ => .accept

/-- Every configuration in the `ArcSwap` was built (its cache number is below `built`). -/
def RListener.WF {Id : Type} (l : RListener Id) : Prop := l.cache < l.built

/-- Outcome of a connection accepted now from a client built as `cc`, asking for `name`, offering
    `ticket`: a resumed session completes without either verifier running again; a full handshake
    is `handshakeWith` against the configuration in force. -/
def RListener.acceptOutcome (pki : Pki Cert Ca Name) (l : RListener (ServerConfig Cert Ca))
    (cc : ClientConfig Cert Ca) (name : Name) (ticket : Option Nat) : Outcome :=
  match l.kindFor ticket with
  | .resumed => .ok
  | .full => handshakeWith pki cc name l.current

end Penguin.Tls

/-! ### A concrete finite PKI (used by the driver `drv_tls` and by the non-vacuity examples)

A certificate is its issuer's label and the names it is valid for; a root store is a list of issuer
labels; a self-signed certificate has a label of its own (so it is trusted exactly by the stores that
contain that very label, as with webpki when the certificate itself is given as `--tls-ca`). -/
namespace Penguin.Tls.Concrete

structure Cert where
  issuer : Nat
  names : List String
  deriving DecidableEq, Repr

abbrev Ca := List Nat

def pki (systemRoots : Ca) : Pki Cert Ca String where
  issuedBy c ca := ca.contains c.issuer
  nameOk c n := c.names.contains n
  storeEmpty ca := ca.isEmpty
  systemRoots := systemRoots
  empty_issues_nothing := by
    intro c ca h
    cases ca with
    | nil => rfl
    | cons _ _ => simp at h

end Penguin.Tls.Concrete
