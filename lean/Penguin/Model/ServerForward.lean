/-
The SERVER's TCP forwarder, as it is (`penguin/src/server/forwarder.rs`):

 * `resolve_and_try` (`forwarder.rs:25-44`) with the closure of `bind_tcp_for_target`
   (`forwarder.rs:71-88`): `lookup_host((rhost, rport))`, then the resolved addresses in the
   resolver's order; per candidate a socket of the candidate's family is created and bound to
   `outgoing_from_v4` (candidate `is_ipv4()`) or `outgoing_from_v6` (otherwise); the first candidate
   whose bind succeeds is returned with its socket, a failure is recorded in `last_err` and the loop
   goes on; when no candidate is left the last error, or `InvalidInput` for an empty resolution
   (`tryCandidates`, `bindForTarget`);
 * `tcp_forwarder_on_channel` (`forwarder.rs:178-199`): the stream's `dest_host` must be UTF-8, bind,
   ONE `socket.connect(target)` to the chosen candidate, `peer_addr()`, bridge; every `?` returns and
   thereby drops the `MuxStream` (`tcpForwarder`, an effect trace).

The resolver and the OS are parameters (`Env`): nothing is assumed about what they answer.

What the client sees of a dropped stream is not repeated here: dropping a `MuxStream` that has not
seen both ends finish sends `Reset` (C05 `drop_emits_terminal_frame`, C02), the client's bridge then
ends and closes the local connection (C13; `Penguin.C01.tunnel_composition` for the byte stream of a
stream that was bridged).

The statements of the three functions are regenerated from the source on every run
(`Gen/ServerForward.lean`); `Penguin.C01.server_forward_shape_as_in_source` stops the build when one
is added, removed, re-ordered or rewritten.  The texts the model was transcribed from are at the end.

Not modelled (assumed): `socket.local_addr()` of a bound socket is `Ok` (the `expect` of
`forwarder.rs:189-191`); a pending `lookup_host` / `connect` (nothing happens until the mux closes
the stream; the task keeps waiting).  Core Lean only.
-/
import Penguin.Basic.Bytes
import Penguin.Gen.ServerForward

namespace Penguin.ServerForward
open Penguin

inductive Family where
  | v4 | v6
deriving DecidableEq, Repr

/-- A `SocketAddr`: family, the address itself (opaque) and the port. -/
structure Addr where
  family : Family
  ip : Nat
  port : Nat
deriving DecidableEq, Repr

/-- The error classes `tcp_forwarder_on_channel` returns (`Error::Host` / `Error::Io`, forwarder.rs:16-22). -/
inductive Err where
  /-- `std::str::from_utf8(&channel.dest_host)?` (:183) -/
  | invalidHost
  /-- `lookup_host(host).await?` (:31) with the resolver's error -/
  | resolve (code : Nat)
  /-- the resolver answered with no address: `InvalidInput` (:38-43) -/
  | noAddress
  /-- `last_err` (:35, :38): the bind (`TcpSocket::new_v*()?` / `socket.bind(..)?`, :79-83) of the LAST candidate
      failed, on the outgoing address of this family -/
  | bind (outgoing : Family)
  /-- `socket.connect(target).await?` (:193) -/
  | connect
  /-- `rstream.peer_addr()?` (:195) -/
  | peerAddr
  /-- `channel.into_copy_bidirectional(rstream).await?` (:196) -/
  | bridge
deriving DecidableEq, Repr

/-- The resolver and the OS. -/
structure Env where
  /-- `std::str::from_utf8` accepts the bytes (a black box) -/
  utf8Ok : Bytes → Bool
  /-- `lookup_host((rhost, rport))` (:31): the addresses in the order the iterator yields them -/
  resolve : Bytes → Nat → Except Nat (List Addr)
  /-- creating a socket of this family and binding it to the configured outgoing address of this family
      succeeds (:79-80 / :82-83) -/
  bindOk : Family → Bool
  /-- `socket.connect(target)` succeeds (:193) -/
  connectOk : Addr → Bool
  /-- `rstream.peer_addr()` succeeds (:195; "unlikely" otherwise, :194) -/
  peerAddrOk : Addr → Bool
  /-- the bridge ends with `Ok` (:196) -/
  bridgeOk : Bool

/-- An effect visible outside the forwarder, in the order of occurrence. -/
inductive Event where
  /-- `lookup_host` was asked for exactly this (host, port) and answered with these addresses (:31) -/
  | resolved (host : Bytes) (port : Nat) (addrs : List Addr)
  /-- the bind for this candidate failed on the outgoing address of family `outgoing`; recorded in `last_err` (:35) -/
  | bindFailed (outgoing : Family) (cand : Addr)
  /-- a socket was bound to the outgoing address of family `outgoing` for this candidate: `return Ok(..)` (:34, :85) -/
  | bound (outgoing : Family) (cand : Addr)
  /-- `socket.connect(a)` was called (:193) -/
  | connectTried (a : Addr)
  /-- … and succeeded -/
  | connected (a : Addr)
  /-- `channel.into_copy_bidirectional(rstream)` ran (:196) -/
  | bridged (a : Addr)
  /-- the function returned `Err(e)`: the `MuxStream` is dropped here -/
  | dropped (e : Err)
  /-- the bridge ended with `Ok`; `Ok(())` (:198) -/
  | finished
deriving DecidableEq, Repr

/-- Which of the two configured outgoing addresses a candidate is bound on (:78-84): `outgoing_from_v4` when
    `sock_addr.is_ipv4()`, else `outgoing_from_v6`. -/
def outgoingFor (a : Addr) : Family :=
  if a.family = .v4 then .v4 else .v6

/-- The loop of `resolve_and_try` (:32-37) with the closure of `bind_tcp_for_target` (:76-86) as `f`, then
    the tail (:38-43).  `last` is `last_err`. -/
def tryCandidates (bindOk : Family → Bool) : List Addr → Option Err → List Event × Except Err (Family × Addr)
  | [], last => ([], .error (last.getD .noAddress))                                  -- :38-43
  | a :: rest, _last =>
    if bindOk (outgoingFor a) then ([.bound (outgoingFor a) a], .ok (outgoingFor a, a))   -- Ok(r) => return Ok(r)
    else
      let r := tryCandidates bindOk rest (some (.bind (outgoingFor a)))              -- Err(e) => last_err = Some(e)
      (.bindFailed (outgoingFor a) a :: r.1, r.2)

/-- `bind_tcp_for_target((rhost, rport), outgoing_from_v4, outgoing_from_v6)` (:71-88, :25-44). -/
def bindForTarget (env : Env) (host : Bytes) (port : Nat) : List Event × Except Err (Family × Addr) :=
  match env.resolve host port with
  | .error c => ([], .error (.resolve c))                                            -- :31
  | .ok addrs =>
    let r := tryCandidates env.bindOk addrs none                                     -- :30, :32-43
    (.resolved host port addrs :: r.1, r.2)

/-- After the bind (:188-198): ONE `socket.connect(target)`, `peer_addr()`, the bridge. -/
def connectAndBridge (env : Env) (target : Addr) : List Event :=
  if !env.connectOk target then [.connectTried target, .dropped .connect]            -- :193
  else if !env.peerAddrOk target then
    [.connectTried target, .connected target, .dropped .peerAddr]                    -- :195
  else if !env.bridgeOk then
    [.connectTried target, .connected target, .bridged target, .dropped .bridge]     -- :196
  else [.connectTried target, .connected target, .bridged target, .finished]         -- :198

/-- `tcp_forwarder_on_channel(channel, …)` (:178-199) for a stream with `dest_host = host`,
    `dest_port = port`: the trace, ending in `dropped e` (returned `Err(e)`) or `finished` (`Ok(())`). -/
def tcpForwarder (env : Env) (host : Bytes) (port : Nat) : List Event :=
  if !env.utf8Ok host then [.dropped .invalidHost]                                   -- :183
  else
    match bindForTarget env host port with                                           -- :186-187
    | (evs, .error e) => evs ++ [.dropped e]
    | (evs, .ok (_, target)) => evs ++ connectAndBridge env target

def Event.isConnectTry : Event → Bool
  | .connectTried _ => true
  | _ => false

def Event.isBridged : Event → Bool
  | .bridged _ => true
  | _ => false

/-! ### The source texts the definitions above were transcribed from -/

def fwdParamsTexts : List String :=
  ["channel: MuxStream, outgoing_from_v4: Ipv4Addr, outgoing_from_v6: Ipv6Addr"]

/-- `tcp_forwarder_on_channel`: host and port are the stream's own; ONE bind call for exactly (rhost, rport); ONE
    connect, to the `target` that call returned, on the socket it returned. -/
def fwdBodyTexts : List String :=
  ["let rhost = std::str::from_utf8(&channel.dest_host)?",
   "let rport = channel.dest_port",
   "let (socket, target) = bind_tcp_for_target((rhost, rport), outgoing_from_v4, outgoing_from_v6).await?",
   "let local_addr = socket.local_addr().expect(\"Failed to get local address of TCP socket (this is a bug)\")",
   "let rstream = socket.connect(target).await?",
   "debug!(\"TCP forwarding to {}\", rstream.peer_addr()?)",
   "channel.into_copy_bidirectional(rstream).await?",
   "Ok(())"]

def bindParamsTexts : List String :=
  ["target: T, outgoing_from_v4: Ipv4Addr, outgoing_from_v6: Ipv6Addr"]

def bindCallTexts : List String := ["resolve_and_try(target, async move |sock_addr: SocketAddr| {…}).await"]
def bindPreludeTexts : List String := ["let socket"]
def bindCondTexts : List String := ["sock_addr.is_ipv4()"]
def bindThenTexts : List String := ["socket = TcpSocket::new_v4()?", "socket.bind((outgoing_from_v4, 0).into())?"]
def bindElseTexts : List String := ["socket = TcpSocket::new_v6()?", "socket.bind((outgoing_from_v6, 0).into())?"]
def bindTailTexts : List String := ["Ok((socket, sock_addr))"]

def resolvePreludeTexts : List String := ["let mut last_err = None", "let sock_addrs = lookup_host(host).await?"]
def loopHeadTexts : List String := ["for sock_addr in sock_addrs"]
def loopMatchTexts : List String := ["f(sock_addr).await"]
def loopArmsTexts : List String := ["Ok(r) => return Ok(r)", "Err(e) => last_err = Some(e)"]
def resolveTailTexts : List String :=
  ["Err(last_err.unwrap_or_else(|| { io::Error::new(io::ErrorKind::InvalidInput, \"could not resolve to any address\") }))"]

end Penguin.ServerForward
