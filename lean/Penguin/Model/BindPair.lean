/-
Bind requests between two endpoint models (`Penguin.Mux.EP`) joined by two FIFO wires — the fragment
of a running connection that `Model/Pair` leaves out.  Every component function is the endpoint
model's own (`appBindReq`, `appBindNext`, `appBindReply`, `appBindDrop`, `processFrame`, `unpark`),
i.e. exactly the functions the correspondence harness compares with the real `Multiplexor`; nothing
is re-modelled here.  One action = ONE application call, ONE message handed to the transport, ONE
frame processed by a task, ONE completed hand-over to a full bind queue; every interleaving of those
on the two sides is a run of this system.

Fragment: connections on which only bind requests travel (both sides may ask and answer, any
number at a time, any queue sizes, binds enabled or not on either side).  Stream traffic on the same
connection is the endpoint model's subject (`Props/C15`: `bystanders`, `each_bind_request_answered_
at_most_once`); teardown likewise (`C08`).

Ghost components record what the two applications did and saw; they never influence the endpoints.
Core Lean only.
-/
import Penguin.Model.Mux

namespace Penguin.BindPair
open Penguin.Mux

/-- A request as the asking application made it, with the flow id the endpoint drew for it. -/
structure Asked where
  req : Nat
  fid : Nat
  bt : BindType
  host : Bytes
  port : Nat
deriving Repr, DecidableEq

/-- What the application on one side did and saw. -/
structure Ghost where
  asked : List Asked := []               -- `request_bind` calls that went on the wire, oldest first
  results : List (Nat × BindRes) := []   -- how `request_bind` calls resolved: (req, outcome)
  accepted : List Nat := []              -- numbers of the `BindRequest`s answered with `reply(true)`
  rejected : List Nat := []              -- … answered with `reply(false)`, or dropped unanswered
  links : List (Nat × Nat) := []         -- (request of the PEER, number of the `BindRequest` it became here)

/-- The `bindDone` events among the effects of a step. -/
def resultsOf : List Ev → List (Nat × BindRes)
  | [] => []
  | .bindDone req r :: rest => (req, r) :: resultsOf rest
  | _ :: rest => resultsOf rest

structure PS where
  a : EP
  b : EP
  ab : List Msg := []
  ba : List Msg := []
  ga : Ghost := {}
  gb : Ghost := {}

def PS.swap (p : PS) : PS := { a := p.b, b := p.a, ab := p.ba, ba := p.ab, ga := p.gb, gb := p.ga }

/-- The request of `e` that owns flow id `x`, if `x` is a bind-requested slot. -/
def owner (e : EP) (x : Nat) : Option Nat :=
  match lookup e.flows x with
  | some (.bindRequested req) => some req
  | _ => none

/-- The actions of one side. -/
inductive Act where
  | bindReq (req : Nat) (bt : BindType) (host : Bytes) (port : Nat)   -- `request_bind` is called
  | bindNext                                                           -- `next_bind_request`, one poll
  | bindReply (k : Nat) (accept : Bool)                                -- `BindRequest::reply`
  | bindDrop (k : Nat)                                                 -- the `BindRequest` is dropped
  | xmit                                                               -- one message to the transport
  | recv                                                               -- the receive loop processes one frame
  | unpark                                                             -- a parked hand-over completes
deriving Repr

/-- One action of the left endpoint (`p.a`); `none` = not enabled. -/
def stepL (p : PS) : Act → Option PS
  | .bindReq req bt host port =>
    -- request numbers are the harness's names for the calls: never reused
    if p.ga.asked.any (·.req == req) || p.ga.results.any (·.1 == req) then none
    else
      let r := appBindReq p.a req bt host port
      let asked := match drawId p.a.flows p.a.rng p.a.fallback 64 with
        | some (fid, _, _) => if p.a.outClosed then p.ga.asked
                               else p.ga.asked ++ [{ req := req, fid := fid, bt := bt, host := host, port := port }]
        | none => p.ga.asked
      some { p with a := r.1, ga := { p.ga with asked := asked, results := p.ga.results ++ resultsOf r.2 } }
  | .bindNext =>
    let r := appBindNext p.a
    let g := match r.2 with
      | .bindReq k fid _ _ _ =>
        match owner p.b fid with
        | some req => { p.ga with links := p.ga.links ++ [(req, k)] }
        | none => p.ga
      | _ => p.ga
    some { p with a := r.1, ga := g }
  | .bindReply k accept =>
    -- `reply` consumes the `BindRequest`: possible once, on a request the application still holds
    match p.a.held[k]? with
    | none => none
    | some b =>
      if !b.alive || b.replied then none
      else
        let r := appBindReply p.a k accept
        let g := match r.2 with
          | .unit => if accept then { p.ga with accepted := p.ga.accepted ++ [k] }
                     else { p.ga with rejected := p.ga.rejected ++ [k] }
          | _ => p.ga
        some { p with a := r.1, ga := g }
  | .bindDrop k =>
    match p.a.held[k]? with
    | none => none
    | some b =>
      if !b.alive then none
      else
        let r := appBindDrop p.a k
        some { p with a := r.1,
                      ga := if b.replied then p.ga else { p.ga with rejected := p.ga.rejected ++ [k] } }
  | .xmit =>
    match p.a.outq with
    | [] => none
    | m :: rest => some { p with a := { p.a with outq := rest }, ab := p.ab ++ [m] }
  | .recv =>
    if p.a.park.isSome then none
    else match p.ba with
      | .frame f :: rest =>
        match processFrame p.a f false with
        | (e, evs, none) =>
          some { p with a := e, ba := rest, ga := { p.ga with results := p.ga.results ++ resultsOf evs } }
        | _ => none
      | _ => none
  | .unpark => some { p with a := Mux.unpark p.a }

inductive Side where
  | A | B
deriving DecidableEq, Repr

def step (p : PS) (s : Side) (a : Act) : Option PS :=
  match s with
  | .A => stepL p a
  | .B => (stepL p.swap a).map PS.swap

/-- A run: actions that are not enabled are skipped. -/
def run (p : PS) : List (Side × Act) → PS
  | [] => p
  | (s, a) :: rest => run ((step p s a).getD p) rest

/-- Two freshly created endpoints with their options and flow-id scripts, nothing in transit. -/
def init (oa ob : Opts) (ra rb : List Nat) : PS :=
  { a := { opts := oa, rng := ra }, b := { opts := ob, rng := rb } }

end Penguin.BindPair
