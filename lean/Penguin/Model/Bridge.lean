/-
Model/Bridge — `CopyBidirectional`, the stream-to-socket bridge (C13).

Mirrors `penguin-mux/src/stream_tools/copy_bidirectional.rs` branch by branch (line numbers as of
the repaired tree):

* `pollRead`  = `poll_read_us`  (`:59-102`), mux → local, with its loop `readLoop` (`:64-89`);
* `pollWrite` = `poll_write_us` (`:105-179`), local → mux, with the frame-coalescing loop
  `coalesce` (`:137-158`);
* `poll`      = `Future::poll` (`:190-194`): `poll_read_us(cx)?`, then `poll_write_us(cx)?`, then
  `Ready(Ok((ready!(r), ready!(w))))` — an error of either direction aborts the poll, the write
  direction is polled even when the read direction is pending.

THE LOCAL SIDE IS A SCRIPT, one list of answers per operation kind, consumed in call order:
`lfill` answers `poll_fill_buf`, `lwrite` answers `poll_write`, `lflush` answers `poll_flush`,
`lshut` answers `poll_shutdown`; each answer is `ready v | pending wakeLater | err code`.
`poll_fill_buf` behaves like a buffered reader (`tokio::io::BufReader`): while bytes it handed out
are not consumed (`lbuf ≠ []`) it returns them again without consulting the script; `consume n`
drops `n` bytes of `lbuf`.  `ready []` of `lfill` is end-of-file.  `ready n` of `lwrite` accepts
`min n len` bytes of the `len` offered (`ready 0` is the degenerate "write zero").  An exhausted
script answers co-operatively: `lfill` → end-of-file, `lwrite` → everything accepted, `lflush` and
`lshut` → `Ok(())`.  `pending b` means the operation returned `Poll::Pending` and (by the
`AsyncRead`/`AsyncWrite` contract) kept `cx.waker()`; `b` says whether the local side will wake it
later (used by the correspondence harness only, the bridge cannot see it).

THE MUX SIDE is what the `MuxStream` operations answer (`penguin-mux/src/stream.rs`):
* `muxFill` = `poll_fill_buf` (`:362-376`): the unconsumed `buf` if there is one, else
  `poll_for_push` (`:84-112`) = the next answers of `rx_frame_rx.poll_recv`, script `mrecv`:
  `frame d` (an empty frame is skipped, `:104-108`), `eof` (sender gone: `Ready(Ok(&[]))`),
  `pending` (registers the task waker in the channel);  exhausted script → `pending`;
* `muxConsume` = `consume` (`:379-382`);
* `muxCredit` = `poll_obtain_write_permission` (`:163-216`), script `mcredit`:
  `granted` (one unit of credit taken) | `pending` (registers `writer_waker`) | `closed`
  (`finish_sent`, becomes `BrokenPipe`);  exhausted → `pending`;
* `muxSend` = `tx_msg_tx.send(frame)`, script `msend`: `ok | closed` (task gone, `BrokenPipe`);
  exhausted → `ok`;
* `finishMux` = `do_shutdown()` (`:226-240`), result ignored by the bridge.
Nothing links the mux scripts to each other or to the local scripts: the theorems hold for EVERY
combination, in particular for those a real `MuxStream` can produce (`MuxEnv` below, used by the
driver, produces them from the stream's queue / credit / closed flags).

EFFECTS are recorded in ghost fields: `muxGot` (bytes taken out of the stream's channel), `toLocal`
(bytes accepted by local `poll_write`), `localGot` (bytes handed out by the local reader),
`fromLocal` (bytes consumed from it), `frames` (payloads of the `Push` frames sent), `lost` (bytes
consumed whose frame could not be sent), `credits`, `failedSends`, `finishes` (`do_shutdown` calls),
`lshutOk`; and `calls`, the operations of the current poll in call order with their answers, from
which "which waker was registered where" is read off (`Call.pendingSite`).

`Fix` selects the pinned or the repaired code: `fillErr` = the coalescing loop reports a
`Ready(Err(e))` of `poll_fill_buf` (pinned: `while let Poll::Ready(Ok(..))` drops it and the
function returns `Pending` with no waker), `writeZero` = a local `poll_write` that accepts 0 bytes
of a non-empty buffer is reported as `WriteZero` (pinned: the loop retries for ever).
-/
import Penguin.Basic.Bytes

namespace Penguin.Bridge
open Penguin

inductive Err where
  | brokenPipe
  | writeZero
  | localErr (code : Nat)
  deriving DecidableEq, Repr, Inhabited

/-- One scripted answer of a local operation. -/
inductive Ans (α : Type) where
  | ready (v : α)
  | pending (wakeLater : Bool)
  | err (code : Nat)
  deriving DecidableEq, Repr

inductive MRecv where
  | frame (d : Bytes)
  | eof
  | pending
  deriving DecidableEq, Repr

inductive MCredit where
  | granted | pending | closed
  deriving DecidableEq, Repr

inductive MSend where
  | ok | closed
  deriving DecidableEq, Repr

/-- `ReadState` (`copy_bidirectional.rs:14-21`). -/
inductive ReadState where
  | transferring (n : Nat)
  | shuttingDown (n : Nat)
  | done (n : Nat)
  deriving DecidableEq, Repr

/-- `WriteState` (`copy_bidirectional.rs:24-29`). -/
inductive WriteState where
  | transferring (n : Nat)
  | done (n : Nat)
  deriving DecidableEq, Repr

def ReadState.count : ReadState → Nat
  | .transferring n | .shuttingDown n | .done n => n

def WriteState.count : WriteState → Nat
  | .transferring n | .done n => n

def ReadState.isDone : ReadState → Bool
  | .done _ => true | _ => false

def WriteState.isDone : WriteState → Bool
  | .done _ => true | _ => false

/-- One operation the bridge performed on either side, with its answer. -/
inductive Call where
  | mfill (r : Option Bytes)          -- `us.poll_fill_buf`: `none` = Pending, `some []` = EOF
  | mconsume (n : Nat)                -- `us.consume`
  | lwrite (len : Nat) (a : Ans Nat)  -- `other.poll_write` of `len` bytes
  | lshut (a : Ans Unit)              -- `other.poll_shutdown`
  | lfill (a : Ans Bytes)             -- `other.poll_fill_buf`
  | lconsume (n : Nat)                -- `other.consume`
  | lflush (a : Ans Unit)             -- `other.poll_flush`
  | credit (a : MCredit)              -- `us.poll_obtain_write_permission`
  | send (payload : Bytes) (a : MSend) -- `us.tx_msg_tx.send(Push payload)`
  | finish                            -- `us.do_shutdown()`
  deriving DecidableEq, Repr

/-- Where a waker can be registered. -/
inductive Site where
  | lfill | lwrite | lflush | lshut | mread | mcredit
  deriving DecidableEq, Repr

inductive Dir where
  | read   -- mux → local (`poll_read_us`)
  | write  -- local → mux (`poll_write_us`)
  deriving DecidableEq, Repr

def Call.dir : Call → Dir
  | .mfill _ | .mconsume _ | .lwrite _ _ | .lshut _ => .read
  | _ => .write

/-- The operation returned `Poll::Pending`, i.e. took the task's waker. -/
def Call.pendingSite : Call → Option Site
  | .mfill none => some .mread
  | .lwrite _ (.pending _) => some .lwrite
  | .lshut (.pending _) => some .lshut
  | .lfill (.pending _) => some .lfill
  | .lflush (.pending _) => some .lflush
  | .credit .pending => some .mcredit
  | _ => none

/-- The operation failed (a local `Err`, a closed stream / task, or a write of zero bytes of a
    non-empty buffer). -/
def Call.error : Call → Option Err
  | .lwrite _ (.err c) | .lshut (.err c) | .lfill (.err c) | .lflush (.err c) => some (.localErr c)
  | .lwrite len (.ready k) => if k = 0 ∧ len ≠ 0 then some .writeZero else none
  | .credit .closed => some .brokenPipe
  | .send _ .closed => some .brokenPipe
  | _ => none

structure Fix where
  fillErr : Bool
  writeZero : Bool
  deriving DecidableEq, Repr

/-- The repaired code (`fixes/C13-*.diff`). -/
def fixed : Fix := ⟨true, true⟩
/-- The pinned code. -/
def pinned : Fix := ⟨false, false⟩

structure St where
  rs : ReadState := .transferring 0
  ws : WriteState := .transferring 0
  -- local side: scripts and the reader's unconsumed buffer
  lfill : List (Ans Bytes) := []
  lwrite : List (Ans Nat) := []
  lflush : List (Ans Unit) := []
  lshut : List (Ans Unit) := []
  lbuf : Bytes := []
  -- mux side: scripts and `MuxStream.buf`
  mrecv : List MRecv := []
  mbuf : Bytes := []
  mcredit : List MCredit := []
  msend : List MSend := []
  -- ghost logs, cumulative over the polls
  muxGot : Bytes := []
  toLocal : Bytes := []
  localGot : Bytes := []
  fromLocal : Bytes := []
  frames : List Bytes := []
  lost : Bytes := []
  credits : Nat := 0
  failedSends : Nat := 0
  finishes : Nat := 0
  lshutOk : Nat := 0
  -- operations of the current poll
  calls : List Call := []
  deriving DecidableEq, Repr

/-- Result of a sub-poll (`Poll<io::Result<usize>>`); `diverged` = the model's fuel ran out
    (never happens: `Props/C13.poll_terminates`). -/
inductive P where
  | ready (n : Nat)
  | pending
  | err (e : Err)
  | diverged
  deriving DecidableEq, Repr

/-- Result of `Future::poll`. -/
inductive Res where
  | ok (r w : Nat)
  | pending
  | err (e : Err)
  | diverged
  deriving DecidableEq, Repr

/-! ### The local side -/

/-- `other.poll_fill_buf(cx)`. -/
def localFill (s : St) : Ans Bytes × St :=
  if s.lbuf ≠ [] then
    (.ready s.lbuf, { s with calls := s.calls ++ [.lfill (.ready s.lbuf)] })
  else
    match s.lfill with
    | [] => (.ready [], { s with calls := s.calls ++ [.lfill (.ready [])] })
    | .ready d :: rest =>
      (.ready d, { s with lfill := rest, lbuf := d, localGot := s.localGot ++ d,
                          calls := s.calls ++ [.lfill (.ready d)] })
    | .pending b :: rest => (.pending b, { s with lfill := rest, calls := s.calls ++ [.lfill (.pending b)] })
    | .err c :: rest => (.err c, { s with lfill := rest, calls := s.calls ++ [.lfill (.err c)] })

/-- `other.consume(n)`. -/
def localConsume (s : St) (n : Nat) : St :=
  { s with lbuf := s.lbuf.drop n, fromLocal := s.fromLocal ++ s.lbuf.take n,
           calls := s.calls ++ [.lconsume n] }

/-- `other.poll_write(cx, buf)`; the accepted count is clamped to the buffer length. -/
def localWrite (s : St) (buf : Bytes) : Ans Nat × St :=
  match s.lwrite with
  | [] =>
    (.ready buf.length, { s with toLocal := s.toLocal ++ buf,
                                 calls := s.calls ++ [.lwrite buf.length (.ready buf.length)] })
  | .ready n :: rest =>
    (.ready (min n buf.length),
      { s with lwrite := rest, toLocal := s.toLocal ++ buf.take (min n buf.length),
               calls := s.calls ++ [.lwrite buf.length (.ready (min n buf.length))] })
  | .pending b :: rest =>
    (.pending b, { s with lwrite := rest, calls := s.calls ++ [.lwrite buf.length (.pending b)] })
  | .err c :: rest =>
    (.err c, { s with lwrite := rest, calls := s.calls ++ [.lwrite buf.length (.err c)] })

/-- `other.poll_flush(cx)`. -/
def localFlush (s : St) : Ans Unit × St :=
  match s.lflush with
  | [] => (.ready (), { s with calls := s.calls ++ [.lflush (.ready ())] })
  | a :: rest => (a, { s with lflush := rest, calls := s.calls ++ [.lflush a] })

/-- `other.poll_shutdown(cx)`. -/
def localShutdown (s : St) : Ans Unit × St :=
  match s.lshut with
  | [] => (.ready (), { s with lshutOk := s.lshutOk + 1, calls := s.calls ++ [.lshut (.ready ())] })
  | .ready () :: rest =>
    (.ready (), { s with lshut := rest, lshutOk := s.lshutOk + 1, calls := s.calls ++ [.lshut (.ready ())] })
  | .pending b :: rest => (.pending b, { s with lshut := rest, calls := s.calls ++ [.lshut (.pending b)] })
  | .err c :: rest => (.err c, { s with lshut := rest, calls := s.calls ++ [.lshut (.err c)] })

/-! ### The mux side -/

/-- `poll_for_push` (`stream.rs:84-112`): answers of `rx_frame_rx.poll_recv`, empty frames skipped.
    `none` = Pending, `some []` = end of stream. -/
def muxRecv : List MRecv → Option Bytes × List MRecv
  | [] => (none, [])
  | .pending :: rest => (none, rest)
  | .eof :: rest => (some [], rest)
  | .frame d :: rest => if d = [] then muxRecv rest else (some d, rest)

/-- `us.poll_fill_buf(cx)` (`stream.rs:362-376`). -/
def muxFill (s : St) : Option Bytes × St :=
  if s.mbuf ≠ [] then
    (some s.mbuf, { s with calls := s.calls ++ [.mfill (some s.mbuf)] })
  else
    match muxRecv s.mrecv with
    | (none, rest) => (none, { s with mrecv := rest, calls := s.calls ++ [.mfill none] })
    | (some d, rest) =>
      (some d, { s with mrecv := rest, mbuf := d, muxGot := s.muxGot ++ d,
                        calls := s.calls ++ [.mfill (some d)] })

/-- `us.consume(n)` (`stream.rs:379-382`). -/
def muxConsume (s : St) (n : Nat) : St :=
  { s with mbuf := s.mbuf.drop n, calls := s.calls ++ [.mconsume n] }

/-- `us.poll_obtain_write_permission(cx)` (`stream.rs:163-216`). -/
def muxCredit (s : St) : MCredit × St :=
  match s.mcredit with
  | [] => (.pending, { s with calls := s.calls ++ [.credit .pending] })
  | .granted :: rest =>
    (.granted, { s with mcredit := rest, credits := s.credits + 1, calls := s.calls ++ [.credit .granted] })
  | a :: rest => (a, { s with mcredit := rest, calls := s.calls ++ [.credit a] })

/-- `us.tx_msg_tx.send(Message::Binary(msg_payload))` (`copy_bidirectional.rs:159-162`). -/
def muxSend (s : St) (payload : Bytes) : MSend × St :=
  match s.msend with
  | .closed :: rest =>
    (.closed, { s with msend := rest, lost := s.lost ++ payload, failedSends := s.failedSends + 1,
                       calls := s.calls ++ [.send payload .closed] })
  | .ok :: rest =>
    (.ok, { s with msend := rest, frames := s.frames ++ [payload], calls := s.calls ++ [.send payload .ok] })
  | [] => (.ok, { s with frames := s.frames ++ [payload], calls := s.calls ++ [.send payload .ok] })

/-- `us.do_shutdown()` followed by `*write_state = Done(n)` (`:123-124`, `:165-166`). -/
def finishMux (s : St) (n : Nat) : St :=
  { s with ws := .done n, finishes := s.finishes + 1, calls := s.calls ++ [.finish] }

/-! ### `poll_read_us` -/

/-- `ready!(other.poll_shutdown(cx))?; *read_state = Done(n); Ready(Ok(n))` (`:70-73`, `:94-96`). -/
def shutdownLocal (n : Nat) (s : St) : P × St :=
  match localShutdown s with
  | (.ready (), s) => (.ready n, { s with rs := .done n })
  | (.pending _, s) => (.pending, s)
  | (.err c, s) => (.err (.localErr c), s)

/-- The loop of `ReadState::Transferring` (`:64-89`); `n` is `read_amt`. -/
def readLoop (fx : Fix) : Nat → Nat → St → P × St
  | 0, _, s => (.diverged, s)
  | fuel + 1, n, s =>
    match muxFill s with
    | (none, s) => (.pending, s)                                   -- `ready!(poll_fill_buf)` :66
    | (some buf, s) =>
      if buf = [] then                                             -- our side EOF :67-74
        shutdownLocal n { s with rs := .shuttingDown n }
      else
        match localWrite s buf with                                -- :77
        | (.pending _, s) => (.pending, s)
        | (.err c, s) => (.err (.localErr c), s)
        | (.ready k, s) =>
          if fx.writeZero && k == 0 then (.err .writeZero, s)      -- :78-82 (repaired code only)
          else
            let s := muxConsume s k                                -- :83
            readLoop fx fuel (n + k) { s with rs := .transferring (n + k) }  -- :84-85

/-- Enough fuel for `readLoop` (`Props/C13.poll_terminates`). -/
def fuelR (s : St) : Nat := 2 * (s.lwrite.length + s.mrecv.length) + 2

def pollRead (fx : Fix) (s : St) : P × St :=
  match s.rs with
  | .transferring n => readLoop fx (fuelR s) n s
  | .shuttingDown n => shutdownLocal n s                           -- :91-97
  | .done n => (.ready n, s)                                       -- :100

/-! ### `poll_write_us` -/

/-- Why the coalescing loop stopped. -/
inductive Stop where
  | eof                 -- `should_shutdown = true`
  | pending             -- `poll_fill_buf` returned `Pending`
  | err (code : Nat)    -- `poll_fill_buf` returned `Ready(Err(e))`
  | diverged
  deriving DecidableEq, Repr

/-- The frame-coalescing loop (`:137-158`); `acc` is the payload gathered so far. -/
def coalesce : Nat → Bytes → St → Bytes × Stop × St
  | 0, acc, s => (acc, .diverged, s)
  | fuel + 1, acc, s =>
    match localFill s with
    | (.ready d, s) =>
      if d = [] then (acc, .eof, s)
      else coalesce fuel (acc ++ d) (localConsume s d.length)
    | (.pending _, s) => (acc, .pending, s)
    | (.err c, s) => (acc, .err c, s)

def fuelW (s : St) : Nat := s.lfill.length + 2

def pollWrite (fx : Fix) (s : St) : P × St :=
  match s.ws with
  | .done n => (.ready n, s)                                       -- :177
  | .transferring n =>
    match localFill s with                                         -- :113
    | (.pending _, s) =>
      match localFlush s with                                      -- :116
      | (.ready (), s) => (.pending, s)
      | (.pending _, s) => (.pending, s)
      | (.err c, s) => (.err (.localErr c), s)
    | (.err c, s) => (.err (.localErr c), s)                       -- `res?` :120
    | (.ready d, s) =>
      if d = [] then (.ready n, finishMux s n)                     -- :121-126
      else
        match muxCredit s with                                     -- :129
        | (.pending, s) => (.pending, s)
        | (.closed, s) => (.err .brokenPipe, s)
        | (.granted, s) =>
          let s := localConsume s d.length                         -- :133
          match coalesce (fuelW s) d s with
          | (_, .diverged, s) => (.diverged, s)
          | (payload, stop, s) =>
            match muxSend s payload with                           -- :159-162
            | (.closed, s) => (.err .brokenPipe, s)
            | (.ok, s) =>
              let n' := n + payload.length                         -- :163
              match stop with
              | .eof => (.ready n', finishMux s n')                -- :164-168
              | .err c =>
                if fx.fillErr then (.err (.localErr c), { s with ws := .transferring n' })  -- :169-172
                else (.pending, { s with ws := .transferring n' })  -- pinned: error dropped
              | _ => (.pending, { s with ws := .transferring n' })  -- :169, :175

/-! ### `Future::poll` -/

def poll (fx : Fix) (s : St) : Res × St :=
  match pollRead fx { s with calls := [] } with                    -- `poll_read_us(cx)?`
  | (.err e, s) => (.err e, s)
  | (.diverged, s) => (.diverged, s)
  | (r, s) =>
    match pollWrite fx s with                                      -- `poll_write_us(cx)?`
    | (.err e, s) => (.err e, s)
    | (.diverged, s) => (.diverged, s)
    | (w, s) =>
      match r, w with                                              -- `(ready!(r), ready!(w))`
      | .ready a, .ready b => (.ok a b, s)
      | _, _ => (.pending, s)

/-- The wakers registered during the poll that produced `calls`. -/
def wakers (calls : List Call) : List Site := calls.filterMap Call.pendingSite

/-- The errors operations returned during the poll that produced `calls`. -/
def errors (calls : List Call) : List Err := calls.filterMap Call.error

/-! ### A concrete mux side (used by the driver for the correspondence)

What a real `MuxStream` answers within ONE bridge poll is determined by its state when the poll
starts, because the connection task only runs between polls in the harness: the frames queued in
`rx_frame_rx` (then `eof` if the sender is gone, else `pending`), `psh_send_remaining` units of
credit (or `closed` once `finish_sent`), `send` failing iff the task is gone.  `rdSlot` / `crSlot`
say whether the channel's / `writer_waker`'s `AtomicWaker` currently holds the task's waker
(set by a `Pending` answer, taken by the next wake: a frame or the sender's drop for the channel,
`acknowledge` / `disallow_write` for the writer). -/
structure MuxEnv where
  rxq : List Bytes := []
  rxEnd : Bool := false
  credit : Nat := 0
  closed : Bool := false
  taskGone : Bool := false
  rdSlot : Bool := false
  crSlot : Bool := false
  deriving DecidableEq, Repr

inductive MuxEvent where
  | push (d : Bytes)   -- a `Push` frame reached the stream's channel
  | fin                -- the peer's `Finish`: sender dropped
  | rst                -- the peer's `Reset` (or the connection closed): sender dropped, writes disallowed
  | ack (n : Nat)      -- `Acknowledge(n)`
  | abort              -- the task future was dropped without teardown
  deriving DecidableEq, Repr

def MuxEnv.apply (m : MuxEnv) : MuxEvent → MuxEnv
  | .push d => if m.rxEnd then m else { m with rxq := m.rxq ++ [d], rdSlot := false }
  | .fin => { m with rxEnd := true, rdSlot := false }
  | .rst => { m with rxEnd := true, closed := true, rdSlot := false, crSlot := false }
  | .ack n => { m with credit := m.credit + n, crSlot := false }
  | .abort => { m with rxEnd := true, taskGone := true, rdSlot := false }

/-- Install the answers the stream gives during the next poll. -/
def MuxEnv.install (m : MuxEnv) (s : St) : St :=
  { s with
    mrecv := m.rxq.map .frame ++ (if m.rxEnd then [.eof] else []),
    mcredit := if m.closed then [.closed] else List.replicate m.credit .granted,
    msend := if m.taskGone then [.closed] else [] }

def countFrames : List MRecv → Nat
  | [] => 0
  | .frame _ :: rest => countFrames rest + 1
  | _ :: rest => countFrames rest

/-- The stream's state after the poll that turned `s0` (installed) into `s`. -/
def MuxEnv.after (m : MuxEnv) (s : St) : MuxEnv :=
  { m with
    rxq := m.rxq.drop (m.rxq.length - countFrames s.mrecv),
    credit := if m.closed then m.credit else s.mcredit.length,
    closed := m.closed || s.calls.contains .finish,
    rdSlot := m.rdSlot || (wakers s.calls).contains .mread,
    crSlot := m.crSlot || (wakers s.calls).contains .mcredit }

end Penguin.Bridge
