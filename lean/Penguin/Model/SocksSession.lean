/-
Model of the client's SOCKS session handler, `penguin/src/client/handle_remote/socks.rs`
(`on_socks_accept`, `socks4`, `socks5`, `handle_connect`, `handle_associate`; `udp_relay` is
`Model/UdpMap.lean`), as it is.

The handler is a *session script* (`Sess`): the sequence of calls it makes, in the order of the source
 * on the local client's stream: the reader scripts of `Model/Socks.lean` (`Sess.read` runs one of
   them on the input that is still unread, so the bytes a reader consumes are the reader's own), the
   writers, the one-byte read whose result is thrown away at the end of `handle_associate`;
 * on its environment: `stream_command_tx.reserve()`, `request_tcp_channel` (the `StreamCommand` sent
   with the permit, then the wait for the `MuxStream`), `UdpSocket::bind` / `local_addr`,
   `tokio::spawn(udp_relay)` / `abort`, and finally `into_copy_bidirectional_with_buf(stream)`, which
   receives the handler's `BufReader` — i.e. every byte of the input the readers did not consume.
The answers of the environment are the parameter `Env`.  A script is run on an input `(bytes, eof)`
exactly as the reader scripts are (`eof = false`: the stream stays open after `bytes`, a read that
needs more leaves the handler's future pending: `needMore`).

Not modelled (assumed): a write to the local client never fails (the client keeps its receiving side
open), `reserve()` never stays pending (the command channel is not full), the bridge itself (C13).
Core Lean only.
-/
import Penguin.Model.Socks
import Penguin.Gen.Socks

namespace Penguin.SocksSession
open Penguin Penguin.Socks Penguin.Constants

/-- What `UdpSocket::bind((local_addr, 0))` and then `socket.local_addr()` answer (socks.rs:216-235). -/
inductive UdpAnswer where
  | bound (a : SockAddr)
  | bindFails
  | localAddrFails
deriving DecidableEq, Repr

/-- The environment's answers to the handler's calls. -/
structure Env where
  /-- `hr.stream_command_tx.reserve().await` is `Ok` (fails only when the main loop has dropped the
      receiver, socks.rs:118-123 / 160-165) -/
  reserveOk : Bool
  /-- the oneshot of `request_tcp_channel` yields a `MuxStream` (`Err` when the main loop drops the
      sender, socks.rs:190-192) -/
  streamOk : Bool
  udp : UdpAnswer
deriving DecidableEq, Repr

/-- An effect of the handler that is visible outside it, in the order of occurrence. -/
inductive Event where
  /-- one `write_all` + `flush` on the local client's stream -/
  | wrote (bs : Bytes)
  /-- a permit of the command channel was obtained -/
  | reserved
  /-- `StreamCommand { tx, host, port }` was sent to the main loop (common.rs:22-28) -/
  | requested (host : Host) (port : Nat)
  /-- the main loop answered with a stream -/
  | gotStream
  /-- `tokio::spawn(udp_relay(hr, socket))` with the socket bound at `a` (socks.rs:237) -/
  | relayStarted (a : SockAddr)
  /-- `relay_task.abort()` (socks.rs:244) -/
  | relayAborted
deriving DecidableEq, Repr

/-- `penguin_socks::Error` as the handler returns it (through `Error::Socks`). -/
inductive SocksErr where
  /-- an error of a reader script: `ProcessSocksRequest(ctx, UnexpectedEof)`, `SocksVersion`,
      `AddressType` -/
  | reader (e : ErrKind)
  /-- `InvalidCommand(c)` (socks.rs:127, 173) -/
  | invalidCommand (c : UInt8)
  /-- `ProcessSocksRequest("bind udp socket", _)` (socks.rs:220-223) -/
  | bindUdp
  /-- `ProcessSocksRequest("get udp socket local addr", _)` (socks.rs:230-233) -/
  | udpLocalAddr
deriving DecidableEq, Repr

/-- `Error` of socks.rs:23-36, without `DataTransfer` (which only the bridge produces). -/
inductive Err where
  | socks (e : SocksErr)
  | otherAuth
  /-- `Fatal(FatalError::RequestStream)` -/
  | fatalRequestStream
  /-- `Fatal(FatalError::MainLoopExitWithoutSendingStream)` -/
  | fatalMainLoopExit
deriving DecidableEq, Repr

/-- How a run of the handler on an input ends. -/
inductive Res where
  /-- returned `Ok(())` -/
  | ok
  /-- returned `Err(e)` -/
  | err (e : Err)
  /-- reached `channel.into_copy_bidirectional_with_buf(stream)` (socks.rs:200-203); what the handler
      returns from here on is the bridge's result -/
  | bridge
  /-- pending in a read on the local client's stream -/
  | needMore
deriving DecidableEq, Repr

/-- The handler as a script. -/
inductive Sess : Type 1 where
  /-- `return r` -/
  | ret (r : Except Err Unit)
  | emit (e : Event) (k : Sess)
  /-- a reader of penguin-socks called with `?`: its error is the handler's error -/
  | read {α : Type} (s : Script α) (k : α → Sess)
  /-- `stream.read_exact(&mut [0; 1]).await.ok()`: one byte or the end of the stream, either ignored -/
  | readIgnored (k : Sess)
  /-- `channel.into_copy_bidirectional_with_buf(stream).await` -/
  | bridge

structure Outcome where
  /-- the effects so far, in order -/
  trace : List Event
  /-- how many bytes of the input the handler's own reads have consumed -/
  consumed : Nat
  /-- the bytes of the input that were behind the request ("optimistic data") and go to the tunnel
      through the bridge: non-empty only when `result = bridge` -/
  leftover : Bytes
  result : Res
deriving DecidableEq, Repr

/-- What a reader wrote before it returned (only the `REP = 08` reply of `read_address`). -/
def wroteIf (w : Bytes) : List Event := if w = [] then [] else [.wrote w]

/-- Run a session script on `inp`; `c` bytes were consumed and `tr` happened before. -/
def Sess.run : Sess → (inp : Bytes) → (eof : Bool) → (c : Nat) → (tr : List Event) → Outcome
  | .ret (.ok ()), _, _, c, tr => ⟨tr, c, [], .ok⟩
  | .ret (.error e), _, _, c, tr => ⟨tr, c, [], .err e⟩
  | .emit e k, inp, eof, c, tr => k.run inp eof c (tr ++ [e])
  | .read s k, inp, eof, c, tr =>
    match s.run inp eof 0 [] with
    | .done a n w => (k a).run (inp.drop n) eof (c + n) (tr ++ wroteIf w)
    | .needMore => ⟨tr, c, [], .needMore⟩
    | .error e w => ⟨tr ++ wroteIf w, c, [], .err (.socks (.reader e))⟩
  | .readIgnored k, inp, eof, c, tr =>
    match inp with
    | _ :: rest => k.run rest eof (c + 1) tr
    | [] => if eof then k.run [] eof c tr else ⟨tr, c, [], .needMore⟩
  | .bridge, inp, _, c, tr => ⟨tr, c, inp, .bridge⟩

/-! ### The handler -/

/-- `handle_connect`, socks.rs:179-205. -/
def handleConnect (env : Env) (host : Host) (port : Nat) (versionIs5 : Bool) : Sess :=
  -- request_tcp_channel (common.rs:16-30): the command goes out with the permit, then the wait
  .emit (.requested host port) <|
  if !env.streamOk then .ret (.error .fatalMainLoopExit) else   -- socks.rs:190-192
  .emit .gotStream <|
  -- socks.rs:194-198: the successful response, only now
  .emit (.wrote (if versionIs5 then writeResponseUnspecified (u8 socksRepSucc)
                 else writeResponse4 (u8 socksRepV4Succ))) <|
  .bridge                                                        -- socks.rs:200-203

/-- `hr.stream_command_tx.reserve().await.or(Err(FatalError::RequestStream))?`,
    socks.rs:119-123 and 161-165. -/
def reserveThen (env : Env) (k : Sess) : Sess :=
  if env.reserveOk then .emit .reserved k else .ret (.error .fatalRequestStream)

/-- `socks4` after `v4::read_request` has returned `q`, socks.rs:117-128. -/
def dispatch4 (env : Env) (q : Req) : Sess :=
  if q.cmd.toNat = socksCmdConnect then                          -- socks.rs:117
    reserveThen env (handleConnect env q.host q.port false)      -- socks.rs:119-124
  else
    .emit (.wrote (writeResponse4 (u8 socksRepV4Fail))) <|       -- socks.rs:126
    .ret (.error (.socks (.invalidCommand q.cmd)))               -- socks.rs:127

/-- `socks4`, socks.rs:108-129 (the version byte has been read). -/
def socks4 (env : Env) : Sess :=
  .read readRequest4 (dispatch4 env)                             -- socks.rs:112

/-- `handle_associate`, socks.rs:208-246. -/
def handleAssociate (env : Env) : Sess :=
  match env.udp with
  | .bindFails =>                                                -- socks.rs:218-224
    .emit (.wrote (writeResponseUnspecified (u8 socksRepGenfail))) <|
    .ret (.error (.socks .bindUdp))
  | .localAddrFails =>                                           -- socks.rs:228-234
    .emit (.wrote (writeResponseUnspecified (u8 socksRepGenfail))) <|
    .ret (.error (.socks .udpLocalAddr))
  | .bound a =>
    .emit (.relayStarted a) <|                                   -- socks.rs:237
    .emit (.wrote (writeResponse5 (u8 socksRepSucc) a)) <|       -- socks.rs:239
    .readIgnored <|                                              -- socks.rs:243
    .emit .relayAborted <|                                       -- socks.rs:244
    .ret (.ok ())

/-- `socks5` after `v5::read_request` has returned `q`, socks.rs:157-175. -/
def dispatch5 (env : Env) (q : Req) : Sess :=
  if q.cmd.toNat = socksCmdConnect then                          -- socks.rs:158
    reserveThen env (handleConnect env q.host q.port true)       -- socks.rs:161-166
  else if q.cmd.toNat = socksCmdAssoc then                       -- socks.rs:169
    handleAssociate env
  else                                                           -- socks.rs:171-174
    .emit (.wrote (writeResponseUnspecified (u8 socksRepCmdunsup))) <|
    .ret (.error (.socks (.invalidCommand q.cmd)))

/-- `socks5` from "Read the request" on, socks.rs:151-175. -/
def socks5Request (env : Env) : Sess :=
  .read readRequest5 (dispatch5 env)                             -- socks.rs:152

/-- `socks5`, socks.rs:132-176 (the version byte has been read). -/
def socks5 (env : Env) : Sess :=
  .read readAuthMethods fun methods =>                           -- socks.rs:141
  if !methods.contains (u8 socksAuthNoauth) then                 -- socks.rs:142
    .emit (.wrote (writeAuthMethod (u8 socksAuthNoaccept))) <|   -- socks.rs:146
    .ret (.error .otherAuth)                                     -- socks.rs:147
  else
  .emit (.wrote (writeAuthMethod (u8 socksAuthNoauth))) <|       -- socks.rs:150
  socks5Request env

/-- The `read_u8` of `on_socks_accept` (socks.rs:96-99, context "read version"). -/
def readVersion : Script UInt8 := readU8 .version fun v => .ret v

/-- `on_socks_accept`, socks.rs:88-105. -/
def onSocksAccept (env : Env) : Sess :=
  .read readVersion fun v =>
  if v.toNat = socksVer4 then socks4 env
  else if v.toNat = socksVer5 then socks5 env
  else .ret (.error (.socks (.reader (.version v))))             -- socks.rs:103

/-- What the local client sends: the bytes, and whether its sending side has ended after them. -/
structure Input where
  bytes : Bytes
  eof : Bool
deriving DecidableEq, Repr

/-- One connection accepted by the SOCKS listener. -/
def session (inp : Input) (env : Env) : Outcome :=
  (onSocksAccept env).run inp.bytes inp.eof 0 []

/-! ### Views of a trace -/

/-- The individual writes, in order. -/
def writes (tr : List Event) : List Bytes :=
  tr.filterMap fun | .wrote bs => some bs | _ => none

/-- Everything written to the local client. -/
def written (tr : List Event) : Bytes := (writes tr).flatten

/-- The tunnels requested from the main loop. -/
def requests (tr : List Event) : List (Host × Nat) :=
  tr.filterMap fun | .requested h p => some (h, p) | _ => none

/-- The UDP relays started. -/
def relays (tr : List Event) : List SockAddr :=
  tr.filterMap fun | .relayStarted a => some a | _ => none

/-- The events before the first tunnel request (all of them when there is none). -/
def beforeRequest : List Event → List Event
  | [] => []
  | .requested _ _ :: _ => []
  | e :: t => e :: beforeRequest t

def Outcome.written (o : Outcome) : Bytes := SocksSession.written o.trace
def Outcome.requests (o : Outcome) : List (Host × Nat) := SocksSession.requests o.trace
def Outcome.relays (o : Outcome) : List SockAddr := SocksSession.relays o.trace

end Penguin.SocksSession
