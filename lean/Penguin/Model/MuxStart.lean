/-
Additions to the endpoint model (`Penguin.Mux`) for two stimuli of the correspondence harness
(wave 9b): a transport whose OUTBOUND direction fails (`sinkfail`), and a connection task that has
been created but not polled yet (`new … unstarted`, `start`).  Nothing in `Model/Mux.lean` or
`Model/MuxExt.lean` is changed: the functions here are composed with `settle` by the driver
(`Drv/Mux.lean`), so the lemmas and property theorems over `opStep` / `applyOp` are untouched (they do
not speak about these stimuli; what they say about the end of a connection is compared with the code
by the correspondence run and by the monitors of the harness).  Core Lean only.
-/
import Penguin.Model.Mux
import Penguin.Model.MuxExt

namespace Penguin.Mux

/-- With a failed sink `poll_close` fails too: no Close ever reaches the wire. -/
def dropWireClose (evs : List Ev) : List Ev :=
  evs.filter fun ev => match ev with
    | .wireClose => false
    | _ => true

/-- One poll of the connection task whose sink reports an error (task.rs `start`: `select_biased!`
    polls the receive loop first, then `process_message_to_send_task`, whose `poll_ready` fails).

    * task finished, or inside the wind-down waiting for the peer to end the connection: the sink is
      not used any more, nothing happens;
    * inside the drain loop of the wind-down after a local drop (parked at `poll_ready`): the loop
      breaks on the error, the close fails, the rest of the wind-down follows (`windDownTail`, the
      result stays that of the drop);
    * running: the receive loop dispatches what has arrived until it parks on a full queue or ends by
      itself (then that end is the task's result; its wind-down cannot send the Close either);
      otherwise the send loop ends the task with the transport error: `wind_down(false, false)` —
      nothing queued is sent, what the source already holds is dispatched, every slot is ended.
      Notifications of dropped streams are not looked at any more (the wind-down discards them). -/
def taskPollSinkFailed (e : EP) : EP × List Ev :=
  if e.dead || e.closing.isSome then (e, [])
  else match e.draining with
    | some res =>
      let r := windDownTail { e with draining := none, outq := [] } [] e.srcEnded res
      (r.1, dropWireClose r.2)
    | none =>
      let r := settleLoop (2 * e.inbox.length + 2) { e with droppedq := [] } []
      if r.1.dead || r.1.closing.isSome then (r.1, dropWireClose r.2)
      else
        let t := windDownTail (windDownPrep r.1) [] r.1.srcEnded .wsError
        (t.1, r.2 ++ dropWireClose t.2)

/-- The stimulus `sinkfail` on an endpoint whose task is being polled: the poll above, then the
    futures of the application run (`settle`: answered and rejected stream requests). -/
def applySinkFail (e : EP) : EP × Res × List Ev :=
  let (e, evs) := taskPollSinkFailed e
  let (e, evs') := settle e
  (e, .unit, evs ++ evs')

/-- The stimulus `start`: the first poll of a task created unstarted. Until then every application
    call was `opStep` alone (the call itself: a slot inserted, a frame queued, a queue looked at) and
    every delivery stayed in the transport — exactly the calls of a `batch` (`MuxExt.applyBatch`);
    the first poll is the task's run to quiescence, with a sink that works (`settle`) or one that had
    already failed. -/
def applyStart (e : EP) (sinkFailed : Bool) : EP × Res × List Ev :=
  if sinkFailed then applySinkFail e
  else
    let (e, evs) := settle e
    (e, .unit, evs)

end Penguin.Mux
