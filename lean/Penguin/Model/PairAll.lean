/-
Two endpoint models (`Penguin.Mux.EP`) joined by two FIFO wires, at the STIMULUS level and for EVERY
history — connection end and faults included.

`Model/Pair.lean` covers the running phase only (no Close, no transport error, no dropped
`Multiplexor`, no invalid frame).  Here nothing is left out: a stimulus at either side is
 * `call op` — ANY stimulus of the endpoint model except a delivery (`Mux.Op`: `open`, `accept`, `write`,
   `read`, `shutdown`, `dropStream`, `sendDgram`, `recvDgram`, the bind calls, `dropMux`, `sinkRoom`,
   `cancelOpen`), executed with the endpoint model's own `applyOp` (the call, then the task and the open
   futures run to quiescence);
 * `deliver` — the OLDEST message on the wire to this side is handed to it
   (`applyOp e (.deliver (.msg m))`); a delivered `Close` ends the source after it (that is how the
   endpoint model reads a Close: `[close, eof]` enter the inbox), so the wire to this side is closed;
 * `cut eof` — the side's source fails (`.err`) or ends (`.eof`): `applyOp e (.deliver .err / .eof)`;
   whatever was still on the wire to this side is LOST, and the wire stays closed (later messages of
   the peer go nowhere).
What an endpoint hands to its sink (`Ev.wire m`, and a WebSocket Close for `Ev.wireClose`) is appended
to the wire to the other side, in order.  Messages are only ever taken from the head of a wire: FIFO, no
duplication, no reordering, loss only by a cut (or after a Close).  A run is any list of (side, stimulus).

Per side the ghost record of `Lemmas/MuxIntegrityHist.lean` is kept (`Mux.Ghost`, extended by
`Mux.stepG`): what the reads returned, what the writes accepted, which frames `process_frame` accepted
into which stream object, every event emitted.  Nothing of the endpoint model is re-modelled.

Flow ids come from the scripts; a stimulus after which the acting side's script is exhausted is not
enabled (the model's reading of "random 32-bit ids never collide", as in `Model/Pair.lean`).
Core Lean only.
-/
import Penguin.Lemmas.MuxIntegrityHist

namespace Penguin.PairAll
open Penguin.Mux

inductive Side where
  | A | B
deriving DecidableEq, Repr

/-- The pair: two endpoints with their ghost records, the messages in transit `a → b` (`ab`, oldest
    first) and `b → a` (`ba`), and whether each wire still carries anything. -/
structure PS where
  a : EP
  b : EP
  ga : Ghost := {}
  gb : Ghost := {}
  ab : List Msg := []
  ba : List Msg := []
  abOpen : Bool := true
  baOpen : Bool := true

/-- Exchange the roles of the two endpoints. -/
def PS.swap (p : PS) : PS :=
  { a := p.b, b := p.a, ga := p.gb, gb := p.ga, ab := p.ba, ba := p.ab, abOpen := p.baOpen, baOpen := p.abOpen }

/-- What an endpoint hands to the transport, in order: its messages, and a Close when it closes the sink. -/
def wireMsgs : List Ev → List Msg
  | [] => []
  | .wire m :: rest => m :: wireMsgs rest
  | .wireClose :: rest => .close :: wireMsgs rest
  | _ :: rest => wireMsgs rest

/-- A stimulus at one side. -/
inductive Stim where
  | call (op : Mux.Op)     -- an application call or a local event: every `Mux.Op` except `deliver`
  | deliver                -- the oldest message in transit to this side is handed to it
  | cut (eof : Bool)       -- this side's source ends (`eof = true`) or fails; the wire to it is lost
deriving Repr

/-- Everything except a delivery. -/
def isCall : Mux.Op → Bool
  | .deliver _ => false
  | _ => true

/-- Put what the endpoint sent on a wire, if the wire still leads anywhere. -/
def send (wire : List Msg) (wireOpen : Bool) (evs : List Ev) : List Msg :=
  if wireOpen then wire ++ wireMsgs evs else wire

/-- The endpoint stimulus `op` at the left endpoint: the endpoint and its ghost record move by `stepG`,
    what it sent goes onto the wire `a → b`. -/
def actL (p : PS) (op : Mux.Op) : PS :=
  { p with a := (stepG p.a p.ga op).1, ga := (stepG p.a p.ga op).2,
           ab := send p.ab p.abOpen (applyOp p.a op).2.2 }

/-- One stimulus at the left endpoint (`p.a`); `none` = not enabled. -/
def stimL (p : PS) : Stim → Option PS
  | .call op => if isCall op then some (actL p op) else none
  | .deliver =>
    match p.ba with
    | [] => none
    | m :: rest =>
      if m = .close then some { actL p (.deliver (.msg m)) with ba := [], baOpen := false }
      else some { actL p (.deliver (.msg m)) with ba := rest }
  | .cut eof => some { actL p (.deliver (if eof then .eof else .err)) with ba := [], baOpen := false }

/-- … enabled only if the acting side's id script has not run out. -/
def stepL (p : PS) (s : Stim) : Option PS :=
  match stimL p s with
  | some q => if q.a.rng.isEmpty then none else some q
  | none => none

/-- One stimulus of the pair. -/
def step (p : PS) (s : Side) (st : Stim) : Option PS :=
  match s with
  | .A => stepL p st
  | .B => (stepL p.swap st).map PS.swap

/-- A run: stimuli that are not enabled are skipped. -/
def run (p : PS) : List (Side × Stim) → PS
  | [] => p
  | (s, st) :: rest => run ((step p s st).getD p) rest

/-- Two freshly created endpoints with their options and flow-id scripts, nothing in transit. -/
def init (oa ob : Opts) (ra rb : List Nat) : PS :=
  { a := { opts := oa, rng := ra }, b := { opts := ob, rng := rb } }

/-- The id discipline: the two scripts together are duplicate-free (no id is ever drawn twice, on either
    side: a flow id names at most one stream per connection), and neither is empty to begin with.  (A zero in
    a script is skipped by the draw, as in the real code; it needs no hypothesis.) -/
structure Cfg (ra rb : List Nat) : Prop where
  nodup : (ra ++ rb).Nodup
  neA : ra ≠ []
  neB : rb ≠ []

/-- The bytes the successful writes of one side put on flow `x`, in order (`Ghost.wrote` holds
    (object, flow id, payload) per write that answered `wrote`). -/
def wroteOn (x : Nat) (w : List (Nat × Nat × Bytes)) : Bytes :=
  ((w.filter (fun t => t.2.1 == x)).map (fun t => t.2.2)).flatten

end Penguin.PairAll
