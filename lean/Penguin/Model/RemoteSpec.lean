/-
Model of the client's remote-specification parser (glue of C01): which entry point a remote
argument opens, where it listens, and which fixed target it forwards to.

Source mirrored (pinned tree), statement by statement: `penguin/src/arg/remote_spec.rs`
* `:9-24`    `default_host!` (the `default-is-ipv6` feature is OFF in the checked build)
* `:44-49`   `SOCKS_DEFAULT_PORT`, `HTTP_DEFAULT_PORT`, `TPROXY_DEFAULT_PORT`
* `:51-59`   `add_brackets!`
* `:61-83`   `Error`
* `:85-164`  `Remote`, `LocalSpec`, `RemoteSpec`, `Protocol` and their `Display`
* `:168-210` `tokenize_remote`
* `:212-412` `impl FromStr for Remote`
* `:414-424` `impl FromStr for Protocol`
and `u16::from_str` of the standard library (`core/src/num/mod.rs`, `from_ascii_radix`).

Strings are `List Char` everywhere.  The Rust code slices `&str` at byte indices found by
`find(']')`, `split_once(':')`, `rsplit_once('/')`, `starts_with("unix:")`: all delimiters are
single-byte ASCII, so the slices fall on character boundaries and a list of characters is a
faithful view.  The only place where a BYTE count matters is the fast-path test of `u16::from_str`
(`digits.len() <= 4`): `utf8Len` below.

TWO BLACK BOXES, parameters of the model (`Oracle`):
* `idna`  = `idna::domain_to_ascii` (UTS 46 processing; `none` = it returned `Err`),
* `lower` = `str::to_lowercase` (Unicode, not ASCII, lower-casing; used on the protocol suffix only).
Nothing is assumed about them unless a theorem says so.  The harness feeds the model the real
functions' answers for exactly the strings the model asks about.

The two `unreachable!()` of the Rust code (`:232`, `:370`) are explicit `Fail.panic` results, so
that "never reached" is a theorem.  The Rust `loop` of the tokenizer is unrolled with a fuel of
`remoteMaxSegments + 1` iterations; running out of fuel is a third `panic` value
(`PanicSite.loopBound`, a model artefact) which is proved unreachable as well, for this and every
larger fuel (`Lemmas/RemoteSpec.lean`: `tokLoop_fuel_irrelevant`).

Core Lean only (the driver links against this file).
-/
import Penguin.Basic.Bytes
import Penguin.Gen.RemoteSpec

namespace Penguin.RemoteSpec
open Penguin.Constants

abbrev Str := List Char

/-! ### Values (`remote_spec.rs:85-164`) -/

/-- `Protocol` (`:157-164`). -/
inductive Protocol where
  | tcp
  | udp
  deriving DecidableEq, Repr

/-- `LocalSpec` (`:98-110`).  `PathBuf::from(&str)` keeps the text as it is; the path is its text. -/
inductive LocalSpec where
  | inet (host : Str) (port : Nat)
  | stdio
  | domainSocket (path : Str)
  deriving DecidableEq, Repr

/-- `RemoteSpec` (`:125-140`). -/
inductive RemoteSpec where
  | inet (host : Str) (port : Nat)
  | socks
  | http
  | tproxy
  deriving DecidableEq, Repr

/-- `Remote` (`:85-96`).  Equality here is structural (the Rust `PartialEq` of the two address
    types compares hosts ignoring ASCII case and paths by components; the harness compares fields). -/
structure Remote where
  localAddr : LocalSpec
  remoteAddr : RemoteSpec
  protocol : Protocol
  deriving DecidableEq, Repr

/-- `std::num::IntErrorKind`. -/
inductive IntErrKind where
  | empty
  | invalidDigit
  | posOverflow
  | negOverflow
  | zero
  deriving DecidableEq, Repr

/-- The four `UnsupportedCombination(&'static str, &'static str)` values the code can build
    (`:276-279`, `:382`, `:392-395`, `:405-408`). -/
inductive Combo where
  | stdioTproxy
  | socksHttpUdp
  | unixUdp
  | unixTproxy
  deriving DecidableEq, Repr

/-- The two texts of each combination. -/
def Combo.texts : Combo → String × String
  | .stdioTproxy => ("stdio local", "tproxy remote")
  | .socksHttpUdp => ("socks or http local", "udp")
  | .unixUdp => ("unix domain socket local", "udp")
  | .unixTproxy => ("unix domain socket local", "tproxy remote")

/-- `Error` (`:61-83`). -/
inductive Error where
  | emptySegment
  | bracketMismatch
  | garbageAfterAddress (c : Char)
  | port (text : Str) (kind : IntErrKind)
  | protocol (text : Str)
  | unsupportedCombination (c : Combo)
  | tooManySegments
  | invalidDomain (text : Str)
  deriving DecidableEq, Repr

/-- Where the real code would panic. -/
inductive PanicSite where
  /-- `parse_remote_special!`: `_ => unreachable!()` (`:232`). -/
  | special
  /-- `match tokens[..] { … _ => unreachable!(..) }` (`:368-371`). -/
  | arms
  /-- Model artefact: the unrolled tokenizer loop ran out of iterations. -/
  | loopBound
  deriving DecidableEq, Repr

inductive Fail where
  | err (e : Error)
  | panic (p : PanicSite)
  deriving DecidableEq, Repr

/-- The two library functions the parser calls and this model does not look into. -/
structure Oracle where
  /-- `idna::domain_to_ascii(host).ok()`. -/
  idna : Str → Option Str
  /-- `str::to_lowercase`. -/
  lower : Str → Str

/-! ### Constants -/

def kwSocks : Str := "socks".toList
def kwHttp : Str := "http".toList
def kwTproxy : Str := "tproxy".toList
def kwStdio : Str := "stdio".toList
def kwTcp : Str := "tcp".toList
def kwUdp : Str := "udp".toList
/-- `"unix:"` (`:286`, `:296`, `:333`). -/
def unixPrefix : Str := remoteUnixPrefix.toList
/-- `default_host!(local)` (`:12-14`). -/
def defaultLocal : Str := remoteDefaultLocalHost.toList
/-- `default_host!(unspec)` (`:15-17`). -/
def defaultUnspec : Str := remoteDefaultUnspecHost.toList
/-- `u16::MAX`. -/
def u16Max : Nat := 65535

/-! ### `u16::from_str` (`core::num`, `from_ascii_radix` with radix 10, unsigned) -/

/-- `(c as char).to_digit(10)`. -/
def toDigit10 (c : Char) : Option Nat :=
  if c.isDigit then some (c.toNat - '0'.toNat) else none

/-- Length in bytes of the UTF-8 encoding (`<[u8]>::len` of `str::as_bytes`). -/
def utf8Len : Str → Nat
  | [] => 0
  | c :: cs => c.utf8Size + utf8Len cs

/-- `run_unchecked_loop!(+)`: taken when `can_not_overflow` (at most 4 bytes of digits for `u16`).
    A non-ASCII character is several bytes ≥ 0x80, the first of which is not a digit: same outcome
    as treating the character as a non-digit. -/
def uncheckedLoop : Nat → Str → Except IntErrKind Nat
  | acc, [] => .ok acc
  | acc, c :: rest =>
    match toDigit10 c with
    | none => .error .invalidDigit
    | some x => uncheckedLoop (acc * 10 + x) rest

/-- `run_checked_loop!(checked_add, PosOverflow)`: `mul = result.checked_mul(10)` is computed
    first, but the digit test of the current character is reported before the overflow of `mul`. -/
def checkedLoop : Nat → Str → Except IntErrKind Nat
  | acc, [] => .ok acc
  | acc, c :: rest =>
    match toDigit10 c with
    | none => .error .invalidDigit
    | some x =>
      if acc * 10 ≤ u16Max then
        if acc * 10 + x ≤ u16Max then checkedLoop (acc * 10 + x) rest
        else .error .posOverflow
      else .error .posOverflow

/-- `"<text>".parse::<u16>()`.  A single leading `+` is accepted; `-` is not a sign for an
    unsigned type (it is an invalid digit); no white space; the empty string is `Empty`. -/
def parseU16 (src : Str) : Except IntErrKind Nat :=
  if src = [] then .error .empty
  else if src = ['+'] ∨ src = ['-'] then .error .invalidDigit
  else
    let digits := match src with
      | c :: rest => if c = '+' then rest else src
      | [] => src
    if utf8Len digits ≤ 4 then uncheckedLoop 0 digits else checkedLoop 0 digits

/-! ### `tokenize_remote` (`:168-210`) -/

/-- `str::split_once(d)`: the text before the first `d` and the text after it. -/
def splitOnce (d : Char) : Str → Option (Str × Str)
  | [] => none
  | c :: cs =>
    if c = d then some ([], cs)
    else match splitOnce d cs with
      | none => none
      | some (a, b) => some (c :: a, b)

/-- `str::rsplit_once(d)`: the text before the LAST `d` and the text after it. -/
def rsplitOnce (d : Char) (s : Str) : Option (Str × Str) :=
  match splitOnce d s.reverse with
  | none => none
  | some (a, b) => some (b.reverse, a.reverse)

/-- One element of the `Vec<&str>`, plus (ghost, never read by the parser) whether it was written
    in brackets. -/
structure Tok where
  text : Str
  bracketed : Bool
  deriving DecidableEq, Repr

/-- `check_and_push!` (`:171-182`): the count check comes BEFORE the empty check. -/
def checkAndPush (tokens : List Tok) (t : Tok) : Except Fail (List Tok) :=
  if tokens.length ≥ remoteMaxSegments then .error (.err .tooManySegments)
  else if t.text = [] then .error (.err .emptySegment)
  else .ok (tokens ++ [t])

/-- The `loop` of `:183-209`, at most `fuel` iterations. -/
def tokLoop : Nat → List Tok → Str → Except Fail (List Tok)
  | 0, _, _ => .error (.panic .loopBound)
  | fuel + 1, tokens, stuff =>
    match stuff with
    | c :: body =>
      if c = '[' then
        -- `:185-201`
        match splitOnce ']' body with
        | none => .error (.err .bracketMismatch)
        | some (tok, after) =>
          match checkAndPush tokens ⟨tok, true⟩ with
          | .error e => .error e
          | .ok tokens' =>
            match after with
            | [] => .ok tokens'
            | ch :: rest =>
              if ch = ':' then tokLoop fuel tokens' rest
              else .error (.err (.garbageAfterAddress ch))
      else
        -- `:202-208`
        match splitOnce ':' stuff with
        | some (tok, rest) =>
          match checkAndPush tokens ⟨tok, false⟩ with
          | .error e => .error e
          | .ok tokens' => tokLoop fuel tokens' rest
        | none => checkAndPush tokens ⟨stuff, false⟩
    | [] =>
      -- `"".split_once(':')` is `None`: `check_and_push!("")`
      checkAndPush tokens ⟨[], false⟩

/-- `tokenize_remote(s)`. -/
def tokenize (s : Str) : Except Fail (List Tok) :=
  tokLoop (remoteMaxSegments + 1) [] s

/-! ### `impl FromStr for Protocol` (`:414-424`) and the protocol split (`:236-239`) -/

def parseProtocol (o : Oracle) (s : Str) : Except Fail Protocol :=
  let l := o.lower s
  if l = kwTcp then .ok .tcp
  else if l = kwUdp then .ok .udp
  else .error (.err (.protocol l))

/-- `match s.rsplit_once('/') { Some((rest, proto)) if !proto.contains(':') => (rest, proto.parse()?), _ => (s, Tcp) }` -/
def splitProto (o : Oracle) (s : Str) : Except Fail (Str × Protocol) :=
  match rsplitOnce '/' s with
  | some (rest, proto) =>
    if ':' ∈ proto then .ok (s, .tcp)
    else match parseProtocol o proto with
      | .ok p => .ok (rest, p)
      | .error e => .error e
  | none => .ok (s, .tcp)

/-! ### `match tokens[..]` (`:241-372`) -/

/-- `"socks" | "http" | "tproxy"`. -/
def isSpecial (t : Str) : Bool := t = kwSocks || t = kwHttp || t = kwTproxy

/-- `uds_path.starts_with("unix:")`. -/
def isUnix (t : Str) : Bool := unixPrefix.isPrefixOf t

/-- `&uds_path[5..]`. -/
def udsPath (t : Str) : Str := t.drop unixPrefix.length

/-- The arms, in source order. -/
inductive Arm where
  | socks1 | http1 | tproxy1 | port1
  | stdioSpecial2 | stdioTproxy2 | stdioPort2 | unixSpecial2 | portSpecial2 | unixPort2 | hostPort2
  | stdio3 | special3 | unix3 | port3
  | full4
  | wildcard
  deriving DecidableEq, Repr

def Arm.all : List Arm :=
  [.socks1, .http1, .tproxy1, .port1, .stdioSpecial2, .stdioTproxy2, .stdioPort2, .unixSpecial2,
   .portSpecial2, .unixPort2, .hostPort2, .stdio3, .special3, .unix3, .port3, .full4, .wildcard]

/-- The pattern of each arm as written in the source. -/
def Arm.pattern : Arm → String
  | .socks1 => "[\"socks\"]"
  | .http1 => "[\"http\"]"
  | .tproxy1 => "[\"tproxy\"]"
  | .port1 => "[port]"
  | .stdioSpecial2 => "[\"stdio\", \"socks\" | \"http\"]"
  | .stdioTproxy2 => "[\"stdio\", \"tproxy\"]"
  | .stdioPort2 => "[\"stdio\", port]"
  | .unixSpecial2 => "[uds_path, \"socks\" | \"http\" | \"tproxy\"] if uds_path.starts_with(\"unix:\")"
  | .portSpecial2 => "[port, \"socks\" | \"http\" | \"tproxy\"]"
  | .unixPort2 => "[uds_path, port] if uds_path.starts_with(\"unix:\")"
  | .hostPort2 => "[host, port]"
  | .stdio3 => "[\"stdio\", remote_host, remote_port]"
  | .special3 => "[local_host, local_port, \"socks\" | \"http\" | \"tproxy\"]"
  | .unix3 => "[uds_path, remote_host, remote_port] if uds_path.starts_with(\"unix:\")"
  | .port3 => "[local_port, remote_host, remote_port]"
  | .full4 => "[local_host, local_port, remote_host, remote_port]"
  | .wildcard => "_"

/-- Source-shape tie: the arms of `match tokens[..]` regenerated from the source are these patterns
    in this order.  (A re-ordered, added or removed arm stops the build here.) -/
theorem arms_as_in_source : remoteMatchArms = Arm.all.map Arm.pattern := by decide

/-- Source-shape tie for the post-checks (`:373-409`) and the `stdio`+`tproxy` arm: order and texts. -/
theorem post_checks_as_in_source :
    remotePostChecks.map (·.2) = [Combo.socksHttpUdp.texts, Combo.unixUdp.texts, Combo.unixTproxy.texts] ∧
    remoteStdioTproxyTexts = Combo.stdioTproxy.texts := by decide

/-- The arm that matched, with the sub-slices it bound. -/
inductive Matched where
  | socks1 | http1 | tproxy1
  | port1 (port : Str)
  | stdioSpecial2 (special : Str)
  | stdioTproxy2
  | stdioPort2 (port : Str)
  | unixSpecial2 (uds special : Str)
  | portSpecial2 (port special : Str)
  | unixPort2 (uds port : Str)
  | hostPort2 (host port : Str)
  | stdio3 (rhost rport : Str)
  | special3 (lhost lport special : Str)
  | unix3 (uds rhost rport : Str)
  | port3 (lport rhost rport : Str)
  | full4 (lhost lport rhost rport : Str)
  | wildcard
  deriving DecidableEq, Repr

def Matched.arm : Matched → Arm
  | .socks1 => .socks1 | .http1 => .http1 | .tproxy1 => .tproxy1 | .port1 _ => .port1
  | .stdioSpecial2 _ => .stdioSpecial2 | .stdioTproxy2 => .stdioTproxy2 | .stdioPort2 _ => .stdioPort2
  | .unixSpecial2 _ _ => .unixSpecial2 | .portSpecial2 _ _ => .portSpecial2 | .unixPort2 _ _ => .unixPort2
  | .hostPort2 _ _ => .hostPort2 | .stdio3 _ _ => .stdio3 | .special3 _ _ _ => .special3
  | .unix3 _ _ _ => .unix3 | .port3 _ _ _ => .port3 | .full4 _ _ _ _ => .full4 | .wildcard => .wildcard

/-- Which arm of `match tokens[..]` is taken: slice patterns are tried top to bottom, the first
    one that matches wins. -/
def selectArm : List Str → Matched
  | [t0] =>
    if t0 = kwSocks then .socks1
    else if t0 = kwHttp then .http1
    else if t0 = kwTproxy then .tproxy1
    else .port1 t0
  | [t0, t1] =>
    if t0 = kwStdio ∧ (t1 = kwSocks ∨ t1 = kwHttp) then .stdioSpecial2 t1
    else if t0 = kwStdio ∧ t1 = kwTproxy then .stdioTproxy2
    else if t0 = kwStdio then .stdioPort2 t1
    else if isSpecial t1 ∧ isUnix t0 then .unixSpecial2 t0 t1
    else if isSpecial t1 then .portSpecial2 t0 t1
    else if isUnix t0 then .unixPort2 t0 t1
    else .hostPort2 t0 t1
  | [t0, t1, t2] =>
    if t0 = kwStdio then .stdio3 t1 t2
    else if isSpecial t2 then .special3 t0 t1 t2
    else if isUnix t0 then .unix3 t0 t1 t2
    else .port3 t0 t1 t2
  | [t0, t1, t2, t3] => .full4 t0 t1 t2 t3
  | _ => .wildcard

/-- `parse_port_or_bail!` (`:218-224`). -/
def portOrBail (t : Str) : Except Fail Nat :=
  match parseU16 t with
  | .ok n => .ok n
  | .error k => .error (.err (.port t k))

/-- `parse_remote_special!` (`:225-235`). -/
def remoteSpecial (t : Str) : Except Fail RemoteSpec :=
  if t = kwSocks then .ok .socks
  else if t = kwHttp then .ok .http
  else if t = kwTproxy then .ok .tproxy
  else .error (.panic .special)

/-- `idna::domain_to_ascii(host).map_err(|_| Error::InvalidDomain(host.to_string()))?`. -/
def domainOrBail (o : Oracle) (t : Str) : Except Fail Str :=
  match o.idna t with
  | some a => .ok a
  | none => .error (.err (.invalidDomain t))

/-- The body of the arm taken.  Struct fields are evaluated in the order they are written
    (`local_addr`, then `remote_addr`), tuple elements left to right: this fixes which error is
    reported when several sub-strings are bad. -/
def evalArm (o : Oracle) (proto : Protocol) : Matched → Except Fail Remote
  | .socks1 => .ok ⟨.inet defaultLocal remoteSocksDefaultPort, .socks, proto⟩
  | .http1 => .ok ⟨.inet defaultLocal remoteHttpDefaultPort, .http, proto⟩
  | .tproxy1 => .ok ⟨.inet defaultLocal remoteTproxyDefaultPort, .tproxy, proto⟩
  | .port1 port => do
    let lp ← portOrBail port
    let rp ← portOrBail port
    .ok ⟨.inet defaultUnspec lp, .inet defaultLocal rp, proto⟩
  | .stdioSpecial2 special => do
    let r ← remoteSpecial special
    .ok ⟨.stdio, r, proto⟩
  | .stdioTproxy2 => .error (.err (.unsupportedCombination .stdioTproxy))
  | .stdioPort2 port => do
    let rp ← portOrBail port
    .ok ⟨.stdio, .inet defaultLocal rp, proto⟩
  | .unixSpecial2 uds special => do
    let r ← remoteSpecial special
    .ok ⟨.domainSocket (udsPath uds), r, proto⟩
  | .portSpecial2 port special => do
    let lp ← portOrBail port
    let r ← remoteSpecial special
    .ok ⟨.inet defaultLocal lp, r, proto⟩
  | .unixPort2 uds port => do
    let rp ← portOrBail port
    .ok ⟨.domainSocket (udsPath uds), .inet defaultLocal rp, proto⟩
  | .hostPort2 host port => do
    let lp ← portOrBail port
    let h ← domainOrBail o host
    let rp ← portOrBail port
    .ok ⟨.inet defaultUnspec lp, .inet h rp, proto⟩
  | .stdio3 rhost rport => do
    let h ← domainOrBail o rhost
    let rp ← portOrBail rport
    .ok ⟨.stdio, .inet h rp, proto⟩
  | .special3 lhost lport special => do
    let h ← domainOrBail o lhost
    let lp ← portOrBail lport
    let r ← remoteSpecial special
    .ok ⟨.inet h lp, r, proto⟩
  | .unix3 uds rhost rport => do
    let h ← domainOrBail o rhost
    let rp ← portOrBail rport
    .ok ⟨.domainSocket (udsPath uds), .inet h rp, proto⟩
  | .port3 lport rhost rport => do
    let lp ← portOrBail lport
    let h ← domainOrBail o rhost
    let rp ← portOrBail rport
    .ok ⟨.inet defaultUnspec lp, .inet h rp, proto⟩
  | .full4 lhost lport rhost rport => do
    let lh ← domainOrBail o lhost
    let lp ← portOrBail lport
    let rh ← domainOrBail o rhost
    let rp ← portOrBail rport
    .ok ⟨.inet lh lp, .inet rh rp, proto⟩
  | .wildcard => .error (.panic .arms)

/-- `matches!(.., LocalSpec::DomainSocket(_))`. -/
def LocalSpec.isDomainSocket : LocalSpec → Bool
  | .domainSocket _ => true
  | _ => false

/-- "Check for invalid cases" (`:373-410`), in source order. -/
def postChecks (r : Remote) : Except Fail Remote :=
  if (r.remoteAddr = .socks ∨ r.remoteAddr = .http) ∧ r.protocol = .udp then
    .error (.err (.unsupportedCombination .socksHttpUdp))
  else if r.localAddr.isDomainSocket ∧ r.protocol = .udp then
    .error (.err (.unsupportedCombination .unixUdp))
  else if r.localAddr.isDomainSocket ∧ r.remoteAddr = .tproxy then
    .error (.err (.unsupportedCombination .unixTproxy))
  else .ok r

/-- `Remote::from_str` (`:217-411`), also telling which arm was taken (for the harness' counts). -/
def parseArm (o : Oracle) (s : Str) : Option Arm × Except Fail Remote :=
  match splitProto o s with
  | .error e => (none, .error e)
  | .ok (rest, proto) =>
    match tokenize rest with
    | .error e => (none, .error e)
    | .ok tokens =>
      let m := selectArm (tokens.map (·.text))
      (some m.arm,
        match evalArm o proto m with
        | .error e => .error e
        | .ok r => postChecks r)

/-- `Remote::from_str`. -/
def parse (o : Oracle) (s : Str) : Except Fail Remote := (parseArm o s).2

/-! ### `Display` (`:86-164`) -/

/-- `add_brackets!` (`:51-59`). -/
def addBrackets (h : Str) : Str := if ':' ∈ h then '[' :: h ++ [']'] else h

/-- `u16`'s `Display`. -/
def showPort (n : Nat) : Str := Nat.toDigits 10 n

def Protocol.display : Protocol → Str
  | .tcp => kwTcp
  | .udp => kwUdp

def LocalSpec.display : LocalSpec → Str
  | .inet h p => addBrackets h ++ ':' :: showPort p
  | .stdio => kwStdio
  | .domainSocket path => '[' :: unixPrefix ++ path ++ [']']

def RemoteSpec.display : RemoteSpec → Str
  | .inet h p => addBrackets h ++ ':' :: showPort p
  | .socks => kwSocks
  | .http => kwHttp
  | .tproxy => kwTproxy

/-- `{local_addr}:{remote_addr}/{protocol}`. -/
def Remote.display (r : Remote) : Str :=
  r.localAddr.display ++ ':' :: r.remoteAddr.display ++ '/' :: r.protocol.display

end Penguin.RemoteSpec
