/-
Model of the server's request gate (C14): `penguin/src/server/service.rs`
  * `State::call`            (:399-430)  routing on `req.uri().path()`,
  * `State::ws_handler`      (:313-390)  the ordered checks before a WebSocket upgrade,
  * `header_matches!`        (:37-46),   `make_sec_websocket_accept` (:48-55),
  * `backend_or_404_handler` (:260-301), `not_found_handler` (:304-310).

Core Lean only.  SHA-1 (FIPS 180-4) and base64 (RFC 4648, standard alphabet, padded) are written
here as executable functions over `Nat` words so that the accept hash of the 101 response is part of
the model (and evaluates in the kernel for the RFC 6455 example).

What is abstracted:
  * a request is `(method, path, headers, onUpgrade)`: `path` is `http::Uri::path()` of the request
    target (for an origin-form target: everything before the first `?`, see `pathOfTarget`);
    `headers` is the list of `(name, value)` in arrival order with names as `http::HeaderName` keeps
    them (lower case); `HeaderMap::get` returns the first value of a name;
    `onUpgrade` says whether hyper attached an `OnUpgrade` extension to the request (it does so for
    HTTP/1.1 requests that carry an `Upgrade` header or use CONNECT; never for HTTP/2);
  * the backend is an arbitrary function from the forwarded request to a response (a proxy error
    answers the configured 404, which such a function can express as well).
-/
import Penguin.Basic.Bytes
import Penguin.Gen.Frame
import Penguin.Gen.Server

namespace Penguin.Gate
open Penguin Penguin.Constants

/-! ### SHA-1 over `Nat` words (all values kept below 2^32) -/

namespace Sha1

def mask32 : Nat := 4294967295

def add32 (a b : Nat) : Nat := (a + b) % 4294967296

def rotl (n x : Nat) : Nat := ((x <<< n) % 4294967296) ||| (x >>> (32 - n))

def not32 (x : Nat) : Nat := x ^^^ mask32

/-- Big-endian 64-bit length field. -/
def be64 (n : Nat) : Bytes := be32 (n / 4294967296) ++ be32 (n % 4294967296)

/-- Message padding: `0x80`, zeros up to 56 mod 64, bit length as 64-bit big endian. -/
def pad (msg : Bytes) : Bytes :=
  msg ++ [0x80] ++ List.replicate ((119 - msg.length % 64) % 64) 0 ++ be64 (msg.length * 8)

/-- Big-endian words of a byte list (a trailing group of fewer than four bytes is dropped; the
    padded message has none). -/
def words : Bytes → List Nat
  | a :: b :: c :: d :: rest => rd32 a b c d :: words rest
  | _ => []

/-- Message schedule: `rev` holds `w[t-1], w[t-2], …` (most recent first); extend by `n` words. -/
def extend : Nat → List Nat → List Nat
  | 0, rev => rev
  | n + 1, rev =>
    let w := rotl 1 (rev.getD 2 0 ^^^ rev.getD 7 0 ^^^ rev.getD 13 0 ^^^ rev.getD 15 0)
    extend n (w :: rev)

def schedule (block : List Nat) : List Nat := (extend 64 block.reverse).reverse

structure St where
  a : Nat
  b : Nat
  c : Nat
  d : Nat
  e : Nat
deriving DecidableEq, Repr

def f (t b c d : Nat) : Nat :=
  if t < 20 then (b &&& c) ||| (not32 b &&& d)
  else if t < 40 then b ^^^ c ^^^ d
  else if t < 60 then (b &&& c) ||| (b &&& d) ||| (c &&& d)
  else b ^^^ c ^^^ d

def k (t : Nat) : Nat :=
  if t < 20 then 0x5A827999 else if t < 40 then 0x6ED9EBA1 else if t < 60 then 0x8F1BBCDC else 0xCA62C1D6

def round (s : St) (t w : Nat) : St :=
  let temp := add32 (add32 (add32 (add32 (rotl 5 s.a) (f t s.b s.c s.d)) s.e) (k t)) w
  { a := temp, b := s.a, c := rotl 30 s.b, d := s.c, e := s.d }

def rounds : List Nat → Nat → St → St
  | [], _, s => s
  | w :: ws, t, s => rounds ws (t + 1) (round s t w)

def compress (h : St) (block : List Nat) : St :=
  let r := rounds (schedule block) 0 h
  { a := add32 h.a r.a, b := add32 h.b r.b, c := add32 h.c r.c, d := add32 h.d r.d, e := add32 h.e r.e }

/-- Process `n` blocks of 16 words. -/
def blocks : Nat → List Nat → St → St
  | 0, _, h => h
  | n + 1, ws, h => blocks n (ws.drop 16) (compress h (ws.take 16))

def init : St := { a := 0x67452301, b := 0xEFCDAB89, c := 0x98BADCFE, d := 0x10325476, e := 0xC3D2E1F0 }

def digest (msg : Bytes) : Bytes :=
  let ws := words (pad msg)
  let h := blocks (ws.length / 16) ws init
  be32 h.a ++ be32 h.b ++ be32 h.c ++ be32 h.d ++ be32 h.e

end Sha1

/-! ### base64 (standard alphabet, with padding) -/

def b64Char (n : Nat) : UInt8 :=
  if n < 26 then UInt8.ofNat (65 + n)
  else if n < 52 then UInt8.ofNat (97 + (n - 26))
  else if n < 62 then UInt8.ofNat (48 + (n - 52))
  else if n = 62 then 43 else 47

def base64 : Bytes → Bytes
  | a :: b :: c :: rest =>
    let n := a.toNat * 65536 + b.toNat * 256 + c.toNat
    b64Char (n / 262144) :: b64Char (n / 4096 % 64) :: b64Char (n / 64 % 64) :: b64Char (n % 64) :: base64 rest
  | [a, b] =>
    let n := a.toNat * 65536 + b.toNat * 256
    [b64Char (n / 262144), b64Char (n / 4096 % 64), b64Char (n / 64 % 64), 61]
  | [a] =>
    let n := a.toNat * 65536
    [b64Char (n / 262144), b64Char (n / 4096 % 64), 61, 61]
  | [] => []

/-! ### Requests, configuration, responses -/

/-- The bytes of an ASCII string (all extracted constants are ASCII, see `constants_ascii`). -/
def asciiBytes (s : String) : Bytes := s.toList.map (fun c => UInt8.ofNat c.toNat)

/-- `u8::to_ascii_lowercase`. -/
def asciiLower (b : UInt8) : UInt8 := if 65 ≤ b.toNat ∧ b.toNat ≤ 90 then UInt8.ofNat (b.toNat + 32) else b

/-- `<[u8]>::eq_ignore_ascii_case`: same length and pairwise equal after ASCII lower-casing. -/
def eqIgnoreAsciiCase : Bytes → Bytes → Bool
  | [], [] => true
  | a :: as, b :: bs => asciiLower a == asciiLower b && eqIgnoreAsciiCase as bs
  | _, _ => false

structure Request where
  /-- `http::Method::as_str` (GET is the standard method `GET`; `get` is an extension method). -/
  method : String
  /-- `req.uri().path()` -/
  path : String
  /-- `(name, value)` in arrival order, names lower-case -/
  headers : List (String × Bytes)
  /-- an `OnUpgrade` extension is attached to the request -/
  onUpgrade : Bool
deriving DecidableEq, Repr

/-- `HeaderMap::get`: the first value stored under the name. -/
def get (hs : List (String × Bytes)) (name : String) : Option Bytes :=
  match hs with
  | [] => none
  | (n, v) :: rest => if n = name then some v else get rest name

def Request.get (r : Request) (name : String) : Option Bytes := Gate.get r.headers name

/-- `Uri::path()` of an origin-form request target: up to the first `?`. -/
def pathOfTarget (target : String) : String := String.ofList (target.toList.takeWhile (· ≠ '?'))

structure Response where
  status : Nat
  headers : List (String × Bytes)
  body : Bytes
deriving DecidableEq, Repr

structure Config where
  /-- `--ws-psk` -/
  psk : Option Bytes
  /-- `--obfs` -/
  obfs : Bool
  /-- `--not-found-resp` -/
  notFound : Bytes
  /-- `--backend`: what the reverse proxy answers for a forwarded request -/
  backend : Option (Request → Response)

/-- Why `ws_handler` falls back (in the order the code tests; not observable in the response). -/
inductive Reason where
  | notGet | badPsk | noKey | badHeader | noOnUpgrade
deriving DecidableEq, Repr

inductive Decision where
  | health
  | version
  /-- 101 with this `sec-websocket-accept`; the tunnel task is spawned -/
  | upgrade (accept : Bytes)
  /-- `backend_or_404_handler` -/
  | fallback
deriving DecidableEq, Repr

/-- Header names of `http::header::{CONNECTION, UPGRADE, SEC_WEBSOCKET_*}`. -/
def hConnection : String := "connection"
def hUpgrade : String := "upgrade"
def hKey : String := "sec-websocket-key"
def hProtocol : String := "sec-websocket-protocol"
def hVersion : String := "sec-websocket-version"
def hAccept : String := "sec-websocket-accept"

/-- `Method::GET` -/
def methodGet : String := "GET"

/-- `header_matches!` (:37-46) -/
def headerMatches (given : Option Bytes) (wanted : String) : Bool :=
  match given with
  | some v => eqIgnoreAsciiCase v (asciiBytes wanted)
  | none => false

/-- `make_sec_websocket_accept` (:48-55) -/
def acceptOf (key : Bytes) : Bytes := base64 (Sha1.digest (key ++ asciiBytes wsAcceptGuid))

/-- `ws_handler` (:313-390): the checks in source order. -/
def wsCheck (cfg : Config) (req : Request) : Except Reason Bytes :=
  -- :329
  if req.method ≠ methodGet then .error .notGet
  -- :333  `self.ws_psk.is_some() && x_penguin_psk != self.ws_psk` (HeaderValue equality = bytes)
  else if cfg.psk.isSome ∧ req.get pskHeaderName ≠ cfg.psk then .error .badPsk
  else
    -- :337
    match req.get hKey with
    | none => .error .noKey
    | some key =>
      -- :341-347
      if !headerMatches (req.get hConnection) hdrUpgradeValue
          || !headerMatches (req.get hUpgrade) hdrWebsocketValue
          || !headerMatches (req.get hVersion) hdrWebsocketVersionValue
          || !headerMatches (req.get hProtocol) protocolName then .error .badHeader
      -- :348
      else if !req.onUpgrade then .error .noOnUpgrade
      -- :356
      else .ok (acceptOf key)

/-- `ws_handler` as a decision: every refusal goes to `backend_or_404_handler`. -/
def wsDecision (cfg : Config) (req : Request) : Decision :=
  match wsCheck cfg req with
  | .ok accept => .upgrade accept
  | .error _ => .fallback

/-- `State::call` (:399-430) -/
def route (cfg : Config) (req : Request) : Decision :=
  if req.path = pathHealth ∧ cfg.obfs = false then .health
  else if req.path = pathVersion ∧ cfg.obfs = false then .version
  else if req.path = pathWs then wsDecision cfg req
  else .fallback

/-- `not_found_handler` (:304-310) -/
def notFoundResponse (cfg : Config) : Response :=
  { status := statusNotFound, headers := [], body := cfg.notFound }

/-- `backend_or_404_handler` (:260-301): the handler of every path that is not special. -/
def fallbackResponse (cfg : Config) (req : Request) : Response :=
  match cfg.backend with
  | some b => b req
  | none => notFoundResponse cfg

/-- The 101 response (:383-389). -/
def upgradeResponse (accept : Bytes) : Response :=
  { status := statusSwitchingProtocols,
    headers := [(hConnection, asciiBytes hdrUpgradeValue), (hUpgrade, asciiBytes hdrWebsocketValue),
                (hProtocol, asciiBytes protocolName), (hAccept, accept)],
    body := [] }

def respond (cfg : Config) (req : Request) : Response :=
  match route cfg req with
  | .health => { status := 200, headers := [], body := asciiBytes healthBody }
  | .version => { status := 200, headers := [], body := asciiBytes pkgVersion }
  | .upgrade accept => upgradeResponse accept
  | .fallback => fallbackResponse cfg req

/-- The tunnel task (`tokio::spawn`, :358) is started exactly on the upgrade branch. -/
def startsTunnel (cfg : Config) (req : Request) : Bool :=
  match route cfg req with
  | .upgrade _ => true
  | _ => false

end Penguin.Gate
