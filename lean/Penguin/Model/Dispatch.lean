/-
Which handler the client starts for which remote: `handle_remote`
(penguin/src/client/handle_remote/mod.rs:73-133), the `match (&remote.local_addr, &remote.remote_addr,
remote.protocol)` with its fourteen arms in source order (first match wins).

The value matched on is the `Remote` that `impl FromStr for Remote` produced (`Model/RemoteSpec.lean`);
six arms ignore the protocol with the comment "The parser guarantees that the protocol is TCP", and the
last arm is `unreachable!("clap should have rejected this combination")`.  Both are claims about the
PARSER; `Props/C01` proves them from `remote_parse_result_invariants` instead of assuming them.

The arms (pattern text, handler called, listener constructor and arguments) are regenerated from the
source on every run (`Gen/Dispatch.lean`); `arms_as_in_source` stops the build when an arm is added,
removed, re-ordered or calls something else.  Core Lean only.
-/
import Penguin.Model.RemoteSpec
import Penguin.Gen.Dispatch

namespace Penguin.Dispatch
open Penguin.RemoteSpec Penguin.Constants

/-- What the handler listens on. -/
inductive Listener where
  /-- `bind_tcp(lhost, lport)` -/
  | tcp (host : Str) (port : Nat)
  /-- `bind_uds(path)` -/
  | uds (path : Str)
  /-- `ReusableListener::new_stdio()` -/
  | stdio
  deriving DecidableEq, Repr

/-- The handler started, with exactly the arguments the arm passes. -/
inductive Handler where
  /-- `handle_tcp(listener, rhost, rport, hr)`: every accepted connection is bridged to (rhost, rport) -/
  | tcpForward (l : Listener) (rhost : Str) (rport : Nat)
  /-- `handle_udp(lhost, lport, rhost, rport, hr)` -/
  | udpForward (lhost : Str) (lport : Nat) (rhost : Str) (rport : Nat)
  /-- `handle_udp_stdio(rhost, rport, hr)` -/
  | udpStdio (rhost : Str) (rport : Nat)
  /-- `handle_socks(listener, udp_bind_host, hr)`: the host UDP associations are bound on -/
  | socks (l : Listener) (udpBindHost : Str)
  /-- `handle_http(listener, hr)` -/
  | http (l : Listener)
  | tproxyTcp (lhost : Str) (lport : Nat)
  | tproxyUdp (lhost : Str) (lport : Nat)
  /-- the `unreachable!` arm -/
  | unreachable
  deriving DecidableEq, Repr

/-- The literal `"localhost"` the stdio / unix-socket SOCKS arms pass (`:103`, `:107`). -/
def localhostLit : Str := "localhost".toList

/-- `handle_remote` (`mod.rs:80-132`), arm by arm in source order. -/
def dispatch (r : Remote) : Handler :=
  match r.localAddr, r.remoteAddr, r.protocol with
  | .inet lh lp, .inet rh rp, .tcp => .tcpForward (.tcp lh lp) rh rp            -- :82-85
  | .inet lh lp, .inet rh rp, .udp => .udpForward lh lp rh rp                  -- :86-88
  | .domainSocket p, .inet rh rp, _ => .tcpForward (.uds p) rh rp              -- :89-92  protocol ignored
  | .stdio, .inet rh rp, .tcp => .tcpForward .stdio rh rp                      -- :93-95
  | .stdio, .inet rh rp, .udp => .udpStdio rh rp                               -- :96-98
  | .inet lh lp, .socks, _ => .socks (.tcp lh lp) lh                           -- :100-103 protocol ignored
  | .stdio, .socks, _ => .socks .stdio localhostLit                            -- :104-107 protocol ignored
  | .domainSocket p, .socks, _ => .socks (.uds p) localhostLit                 -- :108-111 protocol ignored
  | .inet lh lp, .http, _ => .http (.tcp lh lp)                                -- :113-116 protocol ignored
  | .stdio, .http, _ => .http .stdio                                           -- :117-120 protocol ignored
  | .domainSocket p, .http, _ => .http (.uds p)                                -- :121-124 protocol ignored
  | .inet lh lp, .tproxy, .tcp => .tproxyTcp lh lp                             -- :126-128
  | .inet lh lp, .tproxy, .udp => .tproxyUdp lh lp                             -- :129-131
  | .stdio, .tproxy, _ => .unreachable                                         -- :132-134
  | .domainSocket _, .tproxy, _ => .unreachable

/-- The arms as text, in the model's order: (pattern, handler, listener constructor | arguments). -/
def armTexts : List (String × String × String) :=
  [("LocalSpec::Inet((lhost, lport)), RemoteSpec::Inet((rhost, rport)), Protocol::Tcp", "handle_tcp", "bind_tcp|L, rhost, *rport, hr"),
   ("LocalSpec::Inet((lhost, lport)), RemoteSpec::Inet((rhost, rport)), Protocol::Udp", "handle_udp", "|lhost, *lport, rhost, *rport, hr"),
   ("LocalSpec::DomainSocket(path), RemoteSpec::Inet((rhost, rport)), _", "handle_tcp", "bind_uds|L, rhost, *rport, hr"),
   ("LocalSpec::Stdio, RemoteSpec::Inet((rhost, rport)), Protocol::Tcp", "handle_tcp", "ReusableListener::new_stdio|L, rhost, *rport, hr"),
   ("LocalSpec::Stdio, RemoteSpec::Inet((rhost, rport)), Protocol::Udp", "handle_udp_stdio", "|rhost, *rport, hr"),
   ("LocalSpec::Inet((lhost, lport)), RemoteSpec::Socks, _", "handle_socks", "bind_tcp|L, lhost, hr"),
   ("LocalSpec::Stdio, RemoteSpec::Socks, _", "handle_socks", "ReusableListener::new_stdio|L, \"localhost\", hr"),
   ("LocalSpec::DomainSocket(path), RemoteSpec::Socks, _", "handle_socks", "bind_uds|L, \"localhost\", hr"),
   ("LocalSpec::Inet((lhost, lport)), RemoteSpec::Http, _", "handle_http", "bind_tcp|L, hr"),
   ("LocalSpec::Stdio, RemoteSpec::Http, _", "handle_http", "ReusableListener::new_stdio|L, hr"),
   ("LocalSpec::DomainSocket(path), RemoteSpec::Http, _", "handle_http", "bind_uds|L, hr"),
   ("LocalSpec::Inet((lhost, lport)), RemoteSpec::Tproxy, Protocol::Tcp", "handle_tproxy_tcp", "|lhost, *lport, hr"),
   ("LocalSpec::Inet((lhost, lport)), RemoteSpec::Tproxy, Protocol::Udp", "handle_tproxy_udp", "|lhost, *lport, hr"),
   ("LocalSpec::Stdio | LocalSpec::DomainSocket(_), RemoteSpec::Tproxy, _", "unreachable", "")]

/-- Source-shape tie: the arms regenerated from `handle_remote/mod.rs` are these, in this order. -/
theorem arms_as_in_source : dispatchArms = armTexts := by decide

/-- Does the handler serve datagrams (UDP) rather than byte streams? -/
def Handler.isUdp : Handler → Bool
  | .udpForward .. | .udpStdio .. | .tproxyUdp .. => true
  | _ => false

/-- The local end a handler occupies: the listener, or the UDP socket address. -/
inductive LocalEnd where
  | stream (l : Listener)
  | dgram (host : Str) (port : Nat)
  | dgramStdio
  | none
  deriving DecidableEq, Repr

def Handler.localEnd : Handler → LocalEnd
  | .tcpForward l _ _ | .socks l _ | .http l => .stream l
  | .udpForward lh lp _ _ | .tproxyUdp lh lp => .dgram lh lp
  | .tproxyTcp lh lp => .stream (.tcp lh lp)
  | .udpStdio .. => .dgramStdio
  | .unreachable => .none

end Penguin.Dispatch
