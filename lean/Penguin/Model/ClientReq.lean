/-
Model of the upgrade request the CLIENT builds (the other half of C14's handshake):

  * `penguin/src/client/ws_connect.rs` `handshake_inner`
      :47      `args.server.0.clone().into_client_request()?`  (tungstenite, see below)
      :50-53   `req_headers.insert("sec-websocket-protocol", PROTOCOL_VERSION)`
      :55-57   `if let Some(ws_psk) = args.ws_psk   { req_headers.insert("x-penguin-psk", ..) }`
      :59-62   `if let Some(hostname) = args.hostname { req_headers.insert("host", ..); hostname.to_str()? }`
      :67-69   `for header in &args.header { req_headers.insert(&header.name, ..) }`
      :71      TCP connect, :96 `client_async(req, stream)`
  * `penguin/src/arg/server_url.rs` `ServerUrl::from_str` (:40-72): scheme mapping, default port, and the
    path: the user's path and query are KEPT as they are; only a URL without any gets `/`.  Nothing
    forces or appends `/ws` (the path the server routes to `ws_handler`, `service.rs:416`).
  * tungstenite 0.30.0 (vendored; the version `/repo/Cargo.lock` pins), read as a black box's source:
      `src/client.rs:223-246`  `impl IntoClientRequest for Uri`: `GET`, the URI, and
          `.header("Host", <authority after '@'>) .header("Connection","Upgrade") .header("Upgrade","websocket")
           .header("Sec-WebSocket-Version","13") .header("Sec-WebSocket-Key", generate_key())`,
      `src/handshake/client.rs:329-334` `generate_key`: base64 of 16 random bytes,
      `src/handshake/client.rs:42-77`   `ClientHandshake::start`: method GET, scheme `ws`/`wss`,
          `extract_subprotocols_from_request` (:201-207, `to_str` of `sec-websocket-protocol`),
          `generate_request` (:113-198): request line `GET <path_and_query> HTTP/1.1`, then the five
          headers above taken out of the map (`remove`: all values go, the first is written; each must
          pass `to_str`), then every other header of the map; nothing is written when a `to_str` fails.
  * `penguin/src/arg/mod.rs` `parse_ws_psk`: how the text of `--ws-psk` becomes the key (`parsePsk`).
  * http 1.x `HeaderMap::insert`: "If the map did have this key present, the new value is associated
    with the key and all previous values are removed"; the entry keeps its place.  `HeaderMap::get`:
    the first value.  `HeaderValue::to_str`: every byte is `0x20..=0x7e` or TAB.

Core Lean only.  Literals and the order of the inserts come from `Penguin.Gen.ClientReq`
(`bin/gen_constants.py ClientReq`).

What is abstracted: hosts and ports (a URL's authority is an opaque string; `urlHost` is what tungstenite
puts under `host`); the random key is a parameter; the header map is the `List (String × Bytes)` of
`Penguin.Gate` (entry order = insertion order of the names), names lower case as `http::HeaderName`
stores them; TLS and the TCP connection are not part of this model (C17 / C19).
-/
import Penguin.Model.Gate
import Penguin.Gen.ClientReq

namespace Penguin.ClientReq
open Penguin Penguin.Gate Penguin.Constants

abbrev Headers := List (String × Bytes)

/-- `HeaderMap::insert`: replace every value stored under `name` by the one new value (the entry keeps
    its place), or add a new entry at the end. -/
def insert : Headers → String → Bytes → Headers
  | [], n, v => [(n, v)]
  | (m, w) :: rest, n, v =>
    if m = n then (n, v) :: rest.filter (fun e => e.1 != n) else (m, w) :: insert rest n v

/-- The client's configuration as far as the request depends on it (`ClientArgs`). -/
structure ClientCfg where
  /-- `args.server.0.path_and_query()` as `ServerUrl::from_str` leaves it (see `normalizeUrl`) -/
  target : String
  /-- the URL's authority after any `@` (host and port): tungstenite's `Host` value -/
  urlHost : Bytes
  /-- `--ws-psk` -/
  psk : Option Bytes
  /-- `--hostname` -/
  hostname : Option Bytes
  /-- `--header name: value`, in command-line order; names lower case (`HeaderName::from_str`) -/
  custom : List (String × Bytes)
deriving DecidableEq, Repr

/-- tungstenite `IntoClientRequest for Uri` (`client.rs:235-243`): the builder's headers. -/
def baseHeaders (urlHost key : Bytes) : Headers :=
  tungBuilderHeaders.map fun e =>
    (e.1, if e.2 = "<host>" then urlHost else if e.2 = "<key>" then key else asciiBytes e.2)

/-- `for header in &args.header { req_headers.insert(..) }` (ws_connect.rs:67-69) -/
def insertAll (hs : Headers) (custom : List (String × Bytes)) : Headers :=
  custom.foldl (fun acc e => insert acc e.1 e.2) hs

/-- The header map `handshake_inner` hands to `client_async` (ws_connect.rs:47-69). -/
def buildHeaders (c : ClientCfg) (key : Bytes) : Headers :=
  -- :47
  let h0 := baseHeaders c.urlHost key
  -- :50-53
  let h1 := insert h0 clientProtocolHeader (asciiBytes protocolName)
  -- :55-57
  let h2 := match c.psk with
    | some p => insert h1 clientPskHeader p
    | none => h1
  -- :59-62
  let h3 := match c.hostname with
    | some h => insert h2 clientHostHeader h
    | none => h2
  -- :67-69
  insertAll h3 c.custom

/-- The request as the server's service would see it if it arrived unchanged: method and target from
    tungstenite (`GET`, the URL's path and query), the header map above; an HTTP/1.1 connection served
    by hyper with upgrades enabled attaches `OnUpgrade` (the request has an `upgrade` header). -/
def buildRequest (c : ClientCfg) (key : Bytes) : Gate.Request :=
  { method := tungMethod, path := pathOfTarget c.target, headers := buildHeaders c key, onUpgrade := true }

/-! ### What is put on the wire, and what arrives -/

/-- `HeaderValue::to_str` succeeds. -/
def toStrOk (v : Bytes) : Bool := v.all fun b => (32 ≤ b.toNat && b.toNat < 127) || b.toNat == 9

/-- Why no request is written. -/
inductive Unsent where
  /-- ws_connect.rs:61 `hostname.to_str()` fails: `InvalidDomainName`, before the TCP connect -/
  | hostnameNotText
  /-- tungstenite refuses the request (a value that has to be text is not): connected, nothing written -/
  | valueNotText (name : String)
deriving DecidableEq, Repr

/-- The request written to the connection, or why none is.  (tungstenite writes the five builder
    headers first and the others after them; every name has exactly one value, so the order of the
    lines carries no information for `HeaderMap::get` on the other side.) -/
def sent (c : ClientCfg) (key : Bytes) : Except Unsent Gate.Request :=
  if (c.hostname.map toStrOk).getD true = false then .error .hostnameNotText
  else
    let r := buildRequest c key
    -- handshake/client.rs:58 (subprotocols), :126-136 (the key), :146-161 (the five, in order)
    match (tungSubprotocolHeader :: hKey :: tungTextHeaders).find?
        (fun n => !(toStrOk ((Gate.get r.headers n).getD []))) with
    | some n => .error (.valueNotText n)
    | none => .ok r

def isOws (b : UInt8) : Bool := b == 32 || b == 9

/-- RFC 7230 3.2.4: a field value does not include leading or trailing optional white space (hyper's
    parser hands the service the trimmed value). -/
def trimOws (v : Bytes) : Bytes := ((v.dropWhile isOws).reverse.dropWhile isOws).reverse

/-- The request as an HTTP/1.1 server reads it off the wire: every value without its outer white space. -/
def received (r : Gate.Request) : Gate.Request :=
  { r with headers := r.headers.map fun e => (e.1, trimOws e.2) }

/-! ### The client's check of the answer (tungstenite, a black box: its source read, not verified) -/

/-- `str::split(',')` -/
def splitComma : Bytes → List Bytes
  | [] => [[]]
  | b :: rest =>
    match splitComma rest with
    | [] => [[b]]
    | w :: ws => if b = 44 then [] :: w :: ws else (b :: w) :: ws

/-- A response header is text and equals `wanted` up to ASCII case
    (`.and_then(|h| h.to_str().ok()).map(|h| h.eq_ignore_ascii_case(..))`). -/
def textIs (given : Option Bytes) (wanted : String) : Bool :=
  match given with
  | some v => toStrOk v && eqIgnoreAsciiCase v (asciiBytes wanted)
  | none => false

/-- tungstenite `VerifyData::verify_response` (`handshake/client.rs:220-295`) for the request headers
    `req` it was started with (`ClientHandshake::start`, :42-77: the accept key is derived from the
    request's `sec-websocket-key`, `derive_accept_key` = base64 of SHA-1 of key ++ GUID; the subprotocols
    are the comma-separated, trimmed items of the request's `sec-websocket-protocol`):
    status 101, `upgrade` is `websocket`, `connection` is `Upgrade` (both up to case), `sec-websocket-accept`
    is the derived key byte for byte, and the answer names a subprotocol iff the request did, one of the
    requested ones. -/
def clientAccepts (req : Headers) (resp : Gate.Response) : Bool :=
  let key := (Gate.get req hKey).getD []
  let subprotocols := (Gate.get req tungSubprotocolHeader).map fun v => (splitComma v).map trimOws
  resp.status == 101
  && textIs (Gate.get resp.headers hUpgrade) "websocket"
  && textIs (Gate.get resp.headers hConnection) "Upgrade"
  && Gate.get resp.headers hAccept == some (acceptOf key)
  && (match Gate.get resp.headers hProtocol, subprotocols with
      | none, none => true
      | none, some _ => false
      | some _, none => false
      | some p, some l => toStrOk p && l.contains p)

/-- `--ws-psk <text>` as clap hands it to `ClientArgs` and to `ServerArgs` (arg/mod.rs `parse_ws_psk`, the
    `value_parser` of both fields): the blanks around the text are not part of the key.  (On a tree
    without that parser the text is the key, `pskArgTrimsOws = false`.) -/
def parsePsk (text : Bytes) : Bytes := if pskArgTrimsOws then trimOws text else text

/-! ### `ServerUrl::from_str` (server_url.rs:40-72) over the parts `http::Uri` reports -/

/-- `Uri::into_parts` of the (IDN-converted, scheme-defaulted) URL text; `http::Uri` itself is a black box. -/
structure UrlParts where
  /-- `Scheme::as_ref()`: `http` / `https` whatever their case in the text (http's parser folds these
      two), any other scheme exactly as written -/
  scheme : String
  /-- `authority` (user info, host, port as written); `none`: `MissingHost` -/
  authority : Option String
  /-- `authority.port_u16().is_some()` -/
  hasPort : Bool
  pathAndQuery : Option String
deriving DecidableEq, Repr

inductive UrlError where
  | incorrectScheme | missingHost
deriving DecidableEq, Repr

structure ServerUrl where
  scheme : String
  /-- the authority as written, and the port appended to it when it had none -/
  authority : String
  addedPort : Option Nat
  /-- `path_and_query` -/
  target : String
deriving DecidableEq, Repr

/-- The scheme match (:46-50). -/
def schemeRow (s : String) : Option (String × Nat) :=
  (urlSchemeTable.find? fun row => row.1.contains s).map fun row => row.2

def normalizeUrl (u : UrlParts) : Except UrlError ServerUrl :=
  match schemeRow u.scheme with
  | none => .error .incorrectScheme
  | some (scheme, port) =>
    match u.authority with
    | none => .error .missingHost
    | some a =>
      .ok { scheme := scheme, authority := a, addedPort := if u.hasPort then none else some port,
            target := u.pathAndQuery.getD urlDefaultPathAndQuery }

/-- `convert_idn_with_default_scheme(url, "ws")` (url_common.rs:7-15): the scheme put in front of a text
    without `://`. -/
def defaultedScheme (written : Option String) : String := written.getD urlDefaultScheme

end Penguin.ClientReq
