/-
Histories of one endpoint that contain ALL the stimuli of the correspondence harness on the task's
life cycle: the stimuli of `Model/Mux.lean` (`Mux.Op`: one application call or delivery, then the
task runs to quiescence), a transport whose outbound direction fails (`sinkfail`,
`MuxStart.applySinkFail`), and a connection task that was created but has not been polled yet:
until its first poll (`start`, `MuxStart.applyStart`) every application call and every delivery is
the call ALONE (`opStep`, `MuxExt.deliverMany`) — exactly what the driver `Drv/Mux.lean` (`stepStart`)
does for an endpoint made by `new … unstarted`; a `sinkfail` before the first poll only marks the
sink as failed, which is the argument of `start`.

`runOpsX` does not restrict the order of the stimuli (a `pre` call after `start`, a second `start`, …
are histories too: a `start` on a started task is one more run of the task, a `pre` call is a call
whose task run comes with the next stimulus), so whatever is shown for every `runOpsX` history holds
for the well-shaped ones `pre* start (op | sinkfail)*` the harness produces.
Core Lean only.
-/
import Penguin.Model.Mux
import Penguin.Model.MuxExt
import Penguin.Model.MuxStart

namespace Penguin.Mux

/-- The stimuli of an endpoint's whole life. -/
inductive OpX where
  | op (o : Op)                    -- a stimulus on a started task: the call / delivery, then the task runs
  | sinkfail                       -- the sink fails and the task is polled
  | start (sinkFailed : Bool)      -- the first poll of a task created unstarted
  | pre (o : Op)                   -- a call (or delivery into the transport) before the first poll: `opStep` alone
  | preDeliver (ws : List WsIn)    -- several items handed to the transport before the first poll
deriving Repr

/-- One stimulus. -/
def applyOpX (e : EP) : OpX → EP × Res × List Ev
  | .op o => applyOp e o
  | .sinkfail => applySinkFail e
  | .start sf => applyStart e sf
  | .pre o => opStep e o
  | .preDeliver ws => (deliverMany e ws, .unit, [])

/-- The endpoint after a sequence of stimuli. -/
def runOpsX (e : EP) (ops : List OpX) : EP := ops.foldl (fun e op => (applyOpX e op).1) e

/-- The endpoint after a sequence of stimuli, with all the events it emitted. -/
def runOpsXEv (e : EP) : List OpX → EP × List Ev
  | [] => (e, [])
  | op :: rest => ((runOpsXEv (applyOpX e op).1 rest).1, (applyOpX e op).2.2 ++ (runOpsXEv (applyOpX e op).1 rest).2)

/-- A freshly created endpoint (options, scripted id draws). -/
def initX (o : Opts) (rng : List Nat) : EP := { opts := o, rng := rng }

end Penguin.Mux
