/-
Keepalive timing (C16), core Lean only.

* `OptionalDuration` and its order — /repo/penguin-mux/src/timing.rs:64-183.
* The `Options` builder — /repo/penguin-mux/src/config.rs (all eight setters, their asserts, and the
  keepalive clamp as it is after fixes/C16-keepalive-clamp-any-order.diff; the setter as it was at
  the pinned commit is kept as `Options.applyPinned` for the record).
* The ping loop of the multiplexor task — /repo/penguin-mux/src/task.rs `schedule_ping_task`
  (:197-228) and the `Pong` arm of `process_message` (:391-398), as a discrete-time machine.

Time is a natural number of milliseconds since the task started.  `last_pong_timestamp` is
initialised with `T::now()` when the multiplexor is created (lib.rs:245); the model assumes the task is
started at that same instant (time 0), as the harness does.

(The back-off generator of timing.rs lives in `Model/Backoff.lean`.)
-/
import Penguin.Gen.Config

namespace Penguin.Timing
open Penguin.Constants

/-! ## `OptionalDuration` (timing.rs:66) -/

/-- `OptionalDuration(Option<Duration>)` in whole milliseconds; `none` = `OptionalDuration::NONE`
    ("no timeout" / "never tick"). -/
abbrev OptionalDuration := Option Nat

namespace OptionalDuration

/-- `impl Ord for OptionalDuration` (timing.rs:173-182): `None` is the greatest element. -/
def cmp : OptionalDuration → OptionalDuration → Ordering
  | some a, some b => compare a b
  | none, none => .eq
  | some _, none => .lt
  | none, some _ => .gt

/-- `a <= b` in that order. -/
def le (a b : OptionalDuration) : Bool := cmp a b != .gt

/-- `Ord::max` (`max_by(self, other, cmp)`: `other` unless `self` is strictly greater). -/
def max (a b : OptionalDuration) : OptionalDuration :=
  if cmp a b == .gt then a else b

/-- `cmp_duration` (timing.rs:121): compare with a plain `Duration`; `None` is greater than any. -/
def cmpDuration : OptionalDuration → Nat → Ordering
  | none, _ => .gt
  | some d, other => compare d other

/-- `impl From<Duration> for OptionalDuration` (timing.rs:150-158): a zero duration means "none". -/
def ofDuration (ms : Nat) : OptionalDuration := if ms = 0 then none else some ms

/-- `impl FromStr for OptionalDuration` (timing.rs:127-139): seconds as `u64`; `0` means "none".
    `none` = `ParseIntError` (not a `u64`); the value is in milliseconds like everything here. -/
def ofSecsText (secs : Option Nat) : Option OptionalDuration :=
  match secs with
  | none => none
  | some v => if v = 0 then some none else some (some (v * 1000))

end OptionalDuration

/-! ## `config::Options` and its builder (config.rs) -/

structure Options where
  keepaliveInterval : OptionalDuration
  /-- the timeout in effect (what the task reads, lib.rs:250) -/
  keepaliveTimeout : OptionalDuration
  /-- the timeout as last passed to `keepalive_timeout()` -/
  keepaliveTimeoutRequested : OptionalDuration
  datagramBufferSize : Nat
  streamBufferSize : Nat
  bindBufferSize : Nat
  maxFlowIdRetries : Nat
  rwnd : Nat
  defaultRwndThreshold : Nat
  deriving DecidableEq, Repr

/-- One call of a builder method. -/
inductive Setter
  | keepaliveInterval (d : OptionalDuration)
  | keepaliveTimeout (d : OptionalDuration)
  | datagramBufferSize (n : Nat)
  | streamBufferSize (n : Nat)
  | bindBufferSize (n : Nat)
  | maxFlowIdRetries (n : Nat)
  | rwnd (n : Nat)
  | defaultRwndThreshold (n : Nat)
  deriving DecidableEq, Repr

def Setter.isTimeout : Setter → Bool
  | .keepaliveTimeout _ => true
  | _ => false

def Setter.isInterval : Setter → Bool
  | .keepaliveInterval _ => true
  | _ => false

namespace Options

/-- `Options::new()` (config.rs:33-57), non-test constants (extracted into `Penguin.Gen.Config`). -/
def new : Options :=
  { keepaliveInterval := none, keepaliveTimeout := none, keepaliveTimeoutRequested := none,
    datagramBufferSize := defaultDatagramBufferSize, streamBufferSize := defaultStreamBufferSize,
    bindBufferSize := defaultBindBufferSize, maxFlowIdRetries := defaultMaxFlowIdRetries,
    rwnd := Penguin.Constants.defaultRwnd,
    defaultRwndThreshold := Penguin.Constants.defaultRwndThreshold }

/-- `clamp_keepalive_timeout` (config.rs): the effective timeout is the requested one, raised to a
    *finite* interval if it is shorter.  (`NONE` is the greatest `OptionalDuration`, so clamping
    against a `NONE` interval would turn every timeout into "never".) -/
def clampKeepaliveTimeout (o : Options) : Options :=
  { o with keepaliveTimeout :=
      if o.keepaliveInterval.isSome then
        OptionalDuration.max o.keepaliveTimeoutRequested o.keepaliveInterval
      else o.keepaliveTimeoutRequested }

/-- One builder call; `none` = the method's `assert!` panics. -/
def apply (o : Options) : Setter → Option Options
  | .keepaliveInterval d => some (clampKeepaliveTimeout { o with keepaliveInterval := d })
  | .keepaliveTimeout d => some (clampKeepaliveTimeout { o with keepaliveTimeoutRequested := d })
  | .datagramBufferSize n => if 0 < n then some { o with datagramBufferSize := n } else none
  | .streamBufferSize n => if 0 < n then some { o with streamBufferSize := n } else none
  | .bindBufferSize n => some { o with bindBufferSize := n }
  | .maxFlowIdRetries n => if 0 < n then some { o with maxFlowIdRetries := n } else none
  | .rwnd n => if 0 < n then some { o with rwnd := n } else none
  | .defaultRwndThreshold n => if 0 < n then some { o with defaultRwndThreshold := n } else none

/-- A chain of builder calls starting from `o` (left fold; a panic ends it). -/
def buildFrom (o : Options) : List Setter → Option Options
  | [] => some o
  | c :: cs =>
    match apply o c with
    | some o' => buildFrom o' cs
    | none => none

/-- `Options::new().call₁(..).call₂(..)…` -/
def build (calls : List Setter) : Option Options := buildFrom new calls

/-- The two keepalive setters as they were at the pinned commit (config.rs:56-70 there):
    the interval setter did not clamp, the timeout setter clamped once, against the interval set so
    far, in the order where `NONE` is greatest. -/
def applyPinned (o : Options) : Setter → Option Options
  | .keepaliveInterval d => some { o with keepaliveInterval := d }
  | .keepaliveTimeout d =>
    some { o with keepaliveTimeout := OptionalDuration.max d o.keepaliveInterval, keepaliveTimeoutRequested := d }
  | c => apply o c

def buildFromPinned (o : Options) : List Setter → Option Options
  | [] => some o
  | c :: cs =>
    match applyPinned o c with
    | some o' => buildFromPinned o' cs
    | none => none

end Options

/-- The value last given to `keepalive_interval()` in a call list, `init` if it is never called. -/
def lastIntervalFrom (init : OptionalDuration) (calls : List Setter) : OptionalDuration :=
  calls.foldl (fun acc c => match c with | .keepaliveInterval d => d | _ => acc) init

/-- The value last given to `keepalive_timeout()`. -/
def lastTimeoutFrom (init : OptionalDuration) (calls : List Setter) : OptionalDuration :=
  calls.foldl (fun acc c => match c with | .keepaliveTimeout d => d | _ => acc) init

/-- … starting from `Options::new()`, where both are `NONE`. -/
def lastInterval (calls : List Setter) : OptionalDuration := lastIntervalFrom none calls
def lastTimeout (calls : List Setter) : OptionalDuration := lastTimeoutFrom none calls

/-- The documented clamp, as a function of the two requested values: a finite timeout shorter than a
    finite interval is raised to the interval; "never" stays "never"; with keepalive disabled there
    is nothing to clamp against. -/
def clampTo (requested interval : OptionalDuration) : OptionalDuration :=
  match requested, interval with
  | some t, some i => some (max t i)
  | r, _ => r

/-! ## The ping loop (task.rs `schedule_ping_task`) -/

/-- State of one endpoint's keepalive machinery. -/
structure PingLoop where
  /-- index of the next tick of the `tokio::time::interval` (it fires at `tick * I`: first tick at
      once, then every `I`; `MissedTickBehavior::Skip` never comes into play because the loop body
      does not block) -/
  tick : Nat
  /-- `last_pong_timestamp` -/
  lastPong : Nat
  /-- arrival times of `Pong`s that are on their way and have not been read yet -/
  inflight : List Nat
  /-- send time of every `Ping`, newest first -/
  pings : List Nat
  /-- `some t`: `schedule_ping_task` returned `Err(KeepaliveTimeout)` at time `t` -/
  dead : Option Nat
  deriving DecidableEq, Repr

/-- Start-up: `last_pong_timestamp = now`; `extra` = arrival times of unsolicited pongs. -/
def PingLoop.init (extra : List Nat) : PingLoop :=
  { tick := 0, lastPong := 0, inflight := extra, pings := [], dead := none }

/-- `last_pong_timestamp` after the pongs with the given arrival times have been read (each read
    stores its own arrival time; the clock is monotone, so the result is the latest of them). -/
def latest (lastPong : Nat) (arrived : List Nat) : Nat := arrived.foldl max lastPong

/-- One iteration of the `loop` in `schedule_ping_task`, at time `now = tick * I`.

    `process_ws_next` has priority in the task's `select_biased!` (task.rs:140-157), so every `Pong`
    that has arrived by `now` has been read first; each sets `last_pong_timestamp = now()` at its
    arrival (task.rs:392) and the clock is monotone, so the value seen here is the latest arrival.
    Then (task.rs:205-221): `elapsed = now - last_pong`; if `keepalive_timeout.cmp_duration(elapsed)
    == Less` (i.e. `T < elapsed`, strictly) return `KeepaliveTimeout` *without* sending a ping;
    otherwise send `Ping`.  `delay k = some d`: the peer's `Pong` for ping number `k` arrives `d` ms
    after that ping was sent; `none`: it is never answered. -/
def tickStep (I : Nat) (T : OptionalDuration) (delay : Nat → Option Nat) (s : PingLoop) : PingLoop :=
  match s.dead with
  | some _ => s
  | none =>
    let now := s.tick * I
    let lastPong := latest s.lastPong (s.inflight.filter (fun a => a ≤ now))
    let inflight := s.inflight.filter (fun a => ¬ a ≤ now)
    if OptionalDuration.cmpDuration T (now - lastPong) == .lt then
      { s with lastPong := lastPong, inflight := inflight, dead := some now }
    else
      { tick := s.tick + 1, lastPong := lastPong, pings := now :: s.pings, dead := none,
        inflight := match delay s.tick with
          | some d => inflight ++ [now + d]
          | none => inflight }

/-- The state after `n` ticks of the interval have been due (ticks `0 … n-1`). -/
def run (I : Nat) (T : OptionalDuration) (delay : Nat → Option Nat) (extra : List Nat) : Nat → PingLoop
  | 0 => PingLoop.init extra
  | n + 1 => tickStep I T delay (run I T delay extra n)

/-- What the keepalive part of a task configured with `o` has done by time `H` (inclusive). -/
inductive Outcome
  /-- `tokio::time::interval(Duration::ZERO)` panics ("`period` must be non-zero"); reachable with
      `OptionalDuration::from_secs(0)` (`From<Duration>` and `FromStr` map zero to `NONE`) -/
  | panic
  | ok (s : PingLoop)
  deriving DecidableEq, Repr

def keepalive (o : Options) (delay : Nat → Option Nat) (extra : List Nat) (H : Nat) : Outcome :=
  match o.keepaliveInterval with
  | none => .ok (PingLoop.init extra)   -- `OptionalInterval(None).tick()` never resolves (timing.rs:205)
  | some 0 => .panic
  | some I => .ok (run I o.keepaliveTimeout delay extra (H / I + 1))

/-- A peer script for the driver: delays for the first pings, then one delay for all later ones. -/
def scriptDelay (delays : List (Option Nat)) (rest : Option Nat) (k : Nat) : Option Nat :=
  match delays[k]? with
  | some d => d
  | none => rest

end Penguin.Timing
