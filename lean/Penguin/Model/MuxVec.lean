/-
`poll_write_vectored` (penguin-mux/src/stream.rs:318-349) as a function of its own.

`Model/Mux.appWrite` stands for both `poll_write` and `poll_write_vectored`, the latter "with the
concatenated payload".  The two are different code: the vectored entry point sums the slice lengths,
short-cuts on a total of 0 through `check_writable`, takes the write permission itself
(`poll_obtain_write_permission`) and builds a `Push` frame whose payload is a list of slices
(`Frame::new_push_vectored`, put on the wire as their concatenation, frame.rs `PushPayload::Vectored`).
This file mirrors that code path statement by statement; `Props/C02.vectored_write_is_write_of_concatenation`
proves it equal to `appWrite` on the concatenation, for every endpoint state and every slice list — empty
lists, empty slices among non-empty ones and totals of 0 included — which is what entitles the mux driver
to run a `writev` stimulus as `.write h ps.flatten`.
-/
import Penguin.Model.Mux

namespace Penguin.Mux

/-- `total_len` of the loop `for buf in bufs { total_len += buf.len(); slices.push(..) }` (stream.rs:324-329). -/
def totalLen (ds : List Bytes) : Nat := (ds.map List.length).sum

/-- `poll_write_vectored` (stream.rs:318-349), one poll, with the slices `ds`. -/
def appWriteV (e : EP) (h : Nat) (ds : List Bytes) : EP × Res :=
  match e.handleObj h with
  | none => (e, .badHandle)
  | some (i, o) =>
    if totalLen ds = 0 then
      -- `return Poll::Ready(self.check_writable().map(|()| 0))` :330-332
      if o.finishSent then (e.modObj i (fun o => { o with parked := false }), .brokenPipe)
      else (e.modObj i (fun o => { o with parked := false }), .wrote 0)
    else
      -- `poll_obtain_write_permission` :333 (stream.rs:161-215): closed → `None` → BrokenPipe;
      -- no credit → waker registered, Pending; else one unit of credit is taken
      if o.finishSent then (e.modObj i (fun o => { o with parked := false }), .brokenPipe)
      else if o.credit = 0 then (e.modObj i (fun o => { o with parked := true, woken := false }), .pending)
      else
        let e' := e.modObj i (fun o => { o with credit := o.credit - 1, parked := false })
        -- `tx_msg_tx.send(frame).map_err(BrokenPipe)?` :337-339, the frame being
        -- `Frame::new_push_vectored(self.flow_id, slices)`: on the wire the slices back to back
        if e.outClosed then (e', .brokenPipe)
        else (e'.enqFrame (.push o.fid ds.flatten), .wrote (totalLen ds))

end Penguin.Mux
