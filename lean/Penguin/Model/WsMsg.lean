/-
The mapping between the WebSocket library's messages and the multiplexor's own `Message`
(penguin-mux/src/ws.rs:81-111, feature `tungstenite`; an anchor file of C10): what the connection task
gets to see of whatever a peer sends at the WebSocket level, and what it puts on the wire.

* incoming (`impl From<tungstenite::Message> for Message`, :81-98): `Binary(data)` is handed on as it
  is; a `Text` message is logged and handed on as the `Binary` message of its bytes (so it is then
  decoded like any frame: a peer cannot crash the endpoint with a text message, it gets the error a
  binary message of those bytes would get); `Ping` / `Pong` / `Close` lose their payload;
  `Frame` (a raw frame, never produced by a reading socket) is `unreachable!` — a panic, explicit here;
* outgoing (`impl From<Message> for tungstenite::Message`, :100-111): `Ping` / `Pong` with an empty
  payload, `Close` without a close frame, `Binary` unchanged.
Core Lean only.
-/
import Penguin.Basic.Bytes

namespace Penguin.WsMsg

/-- `tungstenite::Message` (0.30): the payloads are bytes; a close frame is code + reason. -/
inductive TMsg where
  | text (b : Bytes)
  | binary (b : Bytes)
  | ping (b : Bytes)
  | pong (b : Bytes)
  | close (frame : Option (Nat × Bytes))
  | frame
  deriving DecidableEq, Repr

/-- `penguin_mux::ws::Message` (ws.rs:9-21). -/
inductive Msg where
  | binary (b : Bytes)
  | ping
  | pong
  | close
  deriving DecidableEq, Repr

/-- `From<tungstenite::Message>` (:81-98); `none` = the `unreachable!` panic. -/
def fromT : TMsg → Option Msg
  | .binary b => some (.binary b)
  | .text b => some (.binary b)
  | .ping _ => some .ping
  | .pong _ => some .pong
  | .close _ => some .close
  | .frame => none

/-- `From<Message> for tungstenite::Message` (:100-111). -/
def toT : Msg → TMsg
  | .binary b => .binary b
  | .ping => .ping []
  | .pong => .pong []
  | .close => .close none

end Penguin.WsMsg
