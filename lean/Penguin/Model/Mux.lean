/-
Model of one penguin-mux endpoint: `Multiplexor` + its task + the `MuxStream` handles
(penguin-mux/src/lib.rs, task.rs, stream.rs), at the granularity of one application call, one
received message, one dropped-handle notification.  See DESIGN.md appendix A for the semantics this
follows; source anchors are given per function.  Frames are structured (`Penguin.Frame`); the byte
codec is C09's subject and is composed in by the driver (`decode`) and by C11's theorems.
Core Lean only.
-/
import Penguin.Basic.Bytes
import Penguin.Model.Frame

namespace Penguin.Mux

/-- `config::Options` as far as the multiplexor uses them. -/
structure Opts where
  rwnd : Nat := 4
  threshold : Nat := 4          -- default_rwnd_threshold
  acceptCap : Nat := 16         -- stream_buffer_size
  dgramCap : Nat := 8           -- datagram_buffer_size
  bindCap : Nat := 0            -- bind_buffer_size; 0 = Bind requests not accepted
  maxRetries : Nat := 3         -- max_flow_id_retries
deriving Repr, DecidableEq

/-- What the `Arc`s and the mpsc channel share between a `MuxStream` handle and its flow slot
    (stream.rs:15-43, lib.rs:430-447), plus the handle's private fields. -/
structure Obj where
  fid : Nat
  rxq : List Bytes := []        -- contents of the bounded `rx_frame` channel
  cap : Nat                     -- its capacity = own rwnd (task.rs:583)
  senderAlive : Bool := true    -- the slot still holds the `Sender` (false after Finish / slot removal)
  rxOpen : Bool := true         -- the `Receiver` exists and was not closed (handle alive, no EOF seen)
  finishSent : Bool := false
  credit : Nat                  -- psh_send_remaining
  buf : Bytes := []
  recvdSince : Nat := 0         -- psh_recvd_since
  threshold : Nat               -- rwnd_threshold
  destHost : Bytes := []
  destPort : Nat := 0
  parked : Bool := false        -- a writer waker is registered (last write poll returned Pending)
  woken : Bool := false         -- … and it has been woken since
deriving Repr, DecidableEq

inductive Slot where
  | requested (req : Nat)       -- `FlowSlot::Requested`: open request `req` waits for Acknowledge
  | bindRequested (req : Nat)   -- `FlowSlot::BindRequested`
  | established (obj : Nat)     -- `FlowSlot::Established`: index into `objs`
deriving Repr, DecidableEq

/-- `ws::Message` with the binary payload already decoded. -/
inductive Msg where
  | frame (f : Frame)
  | ping
  | pong
  | close
deriving Repr, DecidableEq

/-- What `poll_next` of the transport can yield. -/
inductive WsIn where
  | msg (m : Msg)
  | bad (e : DecErr)            -- a Binary message that does not decode
  | err                         -- the source yields an error
  | eof                         -- the source ends
deriving Repr, DecidableEq

structure Dgram where
  fid : Nat
  host : Bytes
  port : Nat
  data : Bytes
deriving Repr, DecidableEq

/-- An incoming `Bind` request (lib.rs:551-560). `replied` is the fix for C15 (a reply was sent). -/
structure BindIn where
  fid : Nat
  bt : BindType
  host : Bytes
  port : Nat
  replied : Bool := false
  alive : Bool := true
deriving Repr, DecidableEq

/-- A pending `new_stream_channel` call (lib.rs:278-302). -/
structure OpenReq where
  req : Nat
  host : Bytes
  port : Nat
  retriesLeft : Nat
deriving Repr, DecidableEq

inductive OpenRes where
  | ok (handle : Nat)
  | closed
  | rejected
deriving Repr, DecidableEq

inductive BindRes where
  | accepted | refused | closed
deriving Repr, DecidableEq

inductive ExitRes where
  | ok | invalidFrame (e : DecErr) | wsError | closedErr | sendStream | connAckGone
deriving Repr, DecidableEq

/-- Observable effects of a step, in order. -/
inductive Ev where
  | wire (m : Msg)                          -- handed to the sink
  | wireClose                               -- the sink was closed (WebSocket Close sent)
  | openDone (req : Nat) (r : OpenRes)
  | bindDone (req : Nat) (r : BindRes)
  | exit (r : ExitRes)
deriving Repr, DecidableEq

/-- Result of an application call. -/
inductive Res where
  | unit
  | wrote (n : Nat)
  | data (bs : Bytes)
  | eof
  | pending
  | brokenPipe
  | closed
  | stream (handle : Nat) (host : Bytes) (port : Nat)
  | dgram (d : Dgram)
  | bindReq (k : Nat) (fid : Nat) (bt : BindType) (host : Bytes) (port : Nat)
  | tooLong
  | unsupported
  | started
  | badHandle
deriving Repr, DecidableEq

/-- The receive loop can be parked inside `process_frame` on a full bounded queue. -/
inductive Park where
  | accept (obj : Nat)          -- `con_recv_stream_tx.send(stream).await` (task.rs:659)
  | bind (b : BindIn)           -- `sender.send(request).await` (task.rs:543)
deriving Repr, DecidableEq

structure EP where
  opts : Opts
  flows : List (Nat × Slot) := []
  objs : List Obj := []
  handles : List Nat := []      -- handle number (position) ↦ obj index, in order of acquisition
  outq : List Msg := []         -- `tx_msg` FIFO
  outClosed : Bool := false
  inbox : List WsIn := []       -- delivered by the transport, not yet processed
  acceptq : List Nat := []
  dgramq : List Dgram := []
  bindq : List BindIn := []
  held : List BindIn := []      -- `BindRequest` objects handed to the application, by number
  droppedq : List Nat := []
  opens : List OpenReq := []
  rng : List Nat := []          -- scripted `next_u32` values
  fallback : Nat := 1311768467463790321  -- state of the fallback generator (0x123456789abcdef1)
  park : Option Park := none
  closing : Option ExitRes := none  -- winding down, waiting for the peer to end the connection
  srcEnded : Bool := false      -- the source has yielded `None` or an error
  retryq : List Nat := []       -- rejected open requests whose futures have not run again yet
  doneq : List (Nat × Nat) := [] -- answered open requests (req, obj) whose futures have not run yet
  sinkRoom : Option Nat := none -- how many more messages the transport's sink accepts (`none` = any number)
  draining : Option ExitRes := none  -- winding down after a drop, parked in the drain loop
  muxAlive : Bool := true       -- the `Multiplexor` handle exists
  dead : Bool := false          -- the task has finished
deriving Repr

/-! ### Small helpers -/

def lookup (m : List (Nat × Slot)) (k : Nat) : Option Slot :=
  match m with
  | [] => none
  | (k', v) :: rest => if k' = k then some v else lookup rest k

def erase (m : List (Nat × Slot)) (k : Nat) : List (Nat × Slot) :=
  m.filter (fun p => p.1 ≠ k)

def insert (m : List (Nat × Slot)) (k : Nat) (v : Slot) : List (Nat × Slot) :=
  (k, v) :: erase m k

def setObj (objs : List Obj) (i : Nat) (f : Obj → Obj) : List Obj :=
  objs.modify i f

def EP.obj? (e : EP) (i : Nat) : Option Obj := e.objs[i]?

def EP.modObj (e : EP) (i : Nat) (f : Obj → Obj) : EP := { e with objs := setObj e.objs i f }

/-- Enqueue on `tx_msg` (fails silently once the receiver was closed). -/
def EP.enq (e : EP) (m : Msg) : EP := if e.outClosed then e else { e with outq := e.outq ++ [m] }

def EP.enqFrame (e : EP) (f : Frame) : EP := e.enq (.frame f)

/-- Wake a parked writer (`AtomicWaker::wake`). -/
def Obj.wake (o : Obj) : Obj := if o.parked then { o with woken := true } else o

/-- `disallow_write` (lib.rs:473-486): returns the old flag. -/
def Obj.disallowWrite (o : Obj) : Obj := { o.wake with finishSent := true }

/-- The harness's fallback generator once the script is exhausted (a 64-bit LCG; see
    harness/src/simws.rs `ScriptRng`): returns the value drawn and the next state. -/
def fallbackNext (x : Nat) : Nat × Nat :=
  let x' := (x * 6364136223846793005 + 1442695040888963407) % 18446744073709551616
  ((x' / 8589934592) % 4294967296 ||| 1073741824, x')

/-- Scripted draws: the first value that is non-zero and not in the map (hashmap.rs:39-52). -/
def drawScript (flows : List (Nat × Slot)) : List Nat → Option (Nat × List Nat)
  | [] => none
  | k :: rest => if k ≠ 0 ∧ (lookup flows k).isNone then some (k, rest) else drawScript flows rest

/-- Draws from the fallback generator; `fuel` bounds their number (the real loop is unbounded and
    ends with probability 1). -/
def drawFallback (flows : List (Nat × Slot)) : Nat → Nat → Option (Nat × Nat)
  | _, 0 => none
  | fb, fuel + 1 =>
    let r := fallbackNext fb
    if r.1 ≠ 0 ∧ (lookup flows r.1).isNone then some r else drawFallback flows r.2 fuel

/-- Draw the next flow id: non-zero and not in the map. Values come from the script, then from the
    fallback generator. Returns the id, the remaining script and the generator state. -/
def drawId (flows : List (Nat × Slot)) (script : List Nat) (fb fuel : Nat) : Option (Nat × List Nat × Nat) :=
  match drawScript flows script with
  | some (k, rest) => some (k, rest, fb)
  | none => (drawFallback flows fb fuel).map fun r => (r.1, [], r.2)

/-- The acknowledgement threshold a new stream gets (task.rs:606). -/
def thresholdFor (o : Opts) (peerRwnd : Nat) : Nat := min (min o.threshold peerRwnd) o.rwnd

/-- `new_stream_shared` (task.rs:575-609). -/
def newObj (o : Opts) (fid peerRwnd : Nat) (host : Bytes) (port : Nat) : Obj :=
  { fid := fid, cap := o.rwnd, credit := peerRwnd, threshold := thresholdFor o peerRwnd,
    destHost := host, destPort := port }

/-! ### `close_flow_local` (task.rs:700-729) and the open-request continuation -/

/-- One round of `new_stream_channel`'s loop (lib.rs:281-300) for request `r`; emits the outcome
    if the call finishes at once. -/
def openRound (e : EP) (r : OpenReq) : EP × List Ev :=
  if r.retriesLeft = 0 then
    ({ e with opens := e.opens.filter (·.req ≠ r.req) }, [.openDone r.req .rejected])
  else
    match drawId e.flows e.rng e.fallback 64 with
    | none => ({ e with opens := e.opens.filter (·.req ≠ r.req) }, [.openDone r.req .rejected])
    | some (fid, rng', fb') =>
      let r' := { r with retriesLeft := r.retriesLeft - 1 }
      if e.outClosed then
        -- `tx_msg_tx.send` fails: the slot just inserted is removed again and the call returns
        -- `Closed` (lib.rs `new_stream_channel`; before the fix the slot stayed in the dead table)
        ({ e with rng := rng', fallback := fb', opens := e.opens.filter (·.req ≠ r.req) }, [.openDone r.req .closed])
      else
        let e := { e with rng := rng', fallback := fb', flows := insert e.flows fid (.requested r.req),
                          opens := r' :: e.opens.filter (·.req ≠ r.req) }
        (e.enqFrame (.connect fid e.opts.rwnd r.port r.host), [])

/-- The open future is told "rejected" (`stream_rx` yields `None`). The future is a separate task:
    it runs its next round (`runRetries`) only after the connection task has gone idle, so the
    request is queued here. While the task is tearing down (`final = true`) the answer is `Closed`. -/
def openRejected (e : EP) (req : Nat) (final : Bool) : EP × List Ev :=
  match e.opens.find? (·.req = req) with
  | none => (e, [])
  | some _ =>
    if final then ({ e with opens := e.opens.filter (·.req ≠ req) }, [.openDone req .closed])
    else ({ e with retryq := e.retryq ++ [req] }, [])

/-- `close_flow_local` on an already removed slot. -/
def closeLocal (e : EP) (s : Slot) (fid : Nat) (inhibitRst final : Bool) : EP × List Ev :=
  match s with
  | .established i =>
    match e.obj? i with
    | none => (e, [])
    | some o =>
      let e := e.modObj i (fun o => { o.disallowWrite with senderAlive := false })
      let e := if !o.finishSent && !inhibitRst then e.enqFrame (.reset fid) else e
      (e, [])
  | .requested req => openRejected e req final
  | .bindRequested req => (e, [.bindDone req .refused])

/-- `close_flow` (task.rs:688-696). -/
def closeFlow (e : EP) (fid : Nat) (inhibitRst : Bool) : EP × List Ev :=
  match lookup e.flows fid with
  | none => (e, [])
  | some s => closeLocal { e with flows := erase e.flows fid } s fid inhibitRst false

/-! ### `process_frame` (task.rs:401-572) -/

/-- Hand a new stream to the accept queue, or park the receive loop when it is full. -/
def offerAccept (e : EP) (i : Nat) : EP :=
  if e.acceptq.length < e.opts.acceptCap then { e with acceptq := e.acceptq ++ [i] }
  else { e with park := some (.accept i) }

def offerBind (e : EP) (b : BindIn) : EP :=
  if e.bindq.length < e.opts.bindCap then { e with bindq := e.bindq ++ [b] }
  else { e with park := some (.bind b) }

/-- Result of processing one frame: new state, events, and `some r` when the receive loop ends
    with that task result. `ignoreBind` is set during wind-down. -/
def processFrame (e : EP) (f : Frame) (ignoreBind : Bool) : EP × List Ev × Option ExitRes :=
  match f with
  | .connect fid rwnd port host =>
    -- con_recv_new_stream, task.rs:615-664
    if fid = 0 ∨ (lookup e.flows fid).isSome then (e.enqFrame (.reset fid), [], none)
    else
      let i := e.objs.length
      let e := { e with objs := e.objs ++ [newObj e.opts fid rwnd host port],
                        flows := insert e.flows fid (.established i) }
      if e.outClosed then (e, [], some .closedErr)
      else
        let e := e.enqFrame (.acknowledge fid e.opts.rwnd)
        if !e.muxAlive then
          -- nobody can accept any more: the stream is dropped (its handle notifies the task)
          ({ (e.modObj i (fun o => { o with rxOpen := false })) with droppedq := e.droppedq ++ [fid] }, [], none)
        else (offerAccept e i, [], none)
  | .acknowledge fid n =>
    match lookup e.flows fid with
    | some (.established i) => (e.modObj i (fun o => { o.wake with credit := (o.credit + n) % 4294967296 }), [], none)
    | some (.requested req) =>
      -- ack_recv_new_stream, task.rs:669-683
      let i := e.objs.length
      let e := { e with objs := e.objs ++ [newObj e.opts fid n [] 0],
                        flows := insert e.flows fid (.established i) }
      match e.opens.find? (·.req = req) with
      | some _ =>
        -- the oneshot is answered; the requesting future picks the stream up when it runs next
        -- (`runDone`, in the order the futures were spawned)
        ({ e with doneq := e.doneq ++ [(req, i)], opens := e.opens.filter (·.req ≠ req) }, [], none)
      | none =>
        -- the requester gave up: the stream is dropped at once (its handle notifies the task, which
        -- closes the flow again and resets it at the peer)
        ({ (e.modObj i (fun o => { o with rxOpen := false })) with droppedq := e.droppedq ++ [fid] }, [], none)
    | some (.bindRequested _) => (e.enqFrame (.reset fid), [], none)
    | none => (e.enqFrame (.reset fid), [], none)
  | .finish fid =>
    match lookup e.flows fid with
    | none => (e.enqFrame (.reset fid), [], none)
    | some (.bindRequested req) => ({ e with flows := erase e.flows fid }, [.bindDone req .accepted], none)
    | some (.requested req) =>
      -- the oneshot sender is dropped: the requester (if it has not given up) sees `Closed`
      (({ e with flows := erase e.flows fid, opens := e.opens.filter (·.req ≠ req) } : EP).enqFrame (.reset fid),
       if e.opens.any (·.req == req) then [.openDone req .closed] else [], none)
    | some (.established i) => (e.modObj i (fun o => { o with senderAlive := false }), [], none)
  | .reset fid =>
    let (e, evs) := closeFlow e fid true
    (e, evs, none)
  | .push fid d =>
    match lookup e.flows fid with
    | some (.established i) =>
      match e.obj? i with
      | none => (e, [], none)
      | some o =>
        if !o.senderAlive then (e.enqFrame (.reset fid), [], none)         -- `dispatch` = None
        else if !o.rxOpen then (e, [], none)                                 -- TrySendError::Closed
        else if o.rxq.length < o.cap then (e.modObj i (fun o => { o with rxq := o.rxq ++ [d] }), [], none)
        else
          let (e, evs) := closeFlow e fid false                              -- TrySendError::Full
          (e, evs, none)
    | _ => (e.enqFrame (.reset fid), [], none)
  | .bind fid bt port host =>
    if e.opts.bindCap = 0 then (e.enqFrame (.reset fid), [], none)
    else if ignoreBind then (e, [], none)
    else if !e.muxAlive then (e.enqFrame (.reset fid), [], none)             -- send fails: the `BindRequest` is dropped and rejects itself
    else (offerBind e { fid := fid, bt := bt, host := host, port := port }, [], none)
  | .datagram fid port host d =>
    if !e.muxAlive then (e, [], none)          -- receiver gone: the datagram is dropped
    else if e.dgramq.length < e.opts.dgramCap then
      ({ e with dgramq := e.dgramq ++ [{ fid := fid, host := host, port := port, data := d }] }, [], none)
    else (e, [], none)

/-- `process_message` (task.rs:360-381): `some r` = the receive loop ends. `Ok(true)` for Close. -/
def processIn (e : EP) (w : WsIn) (ignoreBind : Bool) : EP × List Ev × Option ExitRes :=
  match w with
  | .msg (.frame f) => processFrame e f ignoreBind
  | .msg .ping => (e, [], none)
  | .msg .pong => (e, [], none)
  | .msg .close => (e, [], some .ok)
  | .bad err => (e, [], some (.invalidFrame err))
  | .err => (e, [], some .wsError)
  | .eof => (e, [], some .ok)

/-! ### Wind-down (task.rs:293-354) -/

/-- Drain the flow table at the end of wind-down (task.rs:346-348). -/
def drainFlows (e : EP) : List (Nat × Slot) → EP × List Ev
  | [] => (e, [])
  | (fid, s) :: rest =>
    let (e, evs) := closeLocal e s fid true true
    let (e, evs') := drainFlows e rest
    (e, evs ++ evs')

/-- Last part of the wind-down (task.rs: drain of the flow table, discarding of notifications):
    every pending operation is resolved and the task future completes with `res`. -/
def windDownFinish (e : EP) (res : ExitRes) : EP × List Ev :=
  let (e, evs7) := drainFlows { e with flows := [] } e.flows
  let e := { e with droppedq := [], dead := true, closing := none, park := none }
  -- open requests that were never answered see `Closed`; those already told "rejected" run their
  -- next round afterwards (`runRetries`), where they fail with FlowIdRejected or Closed
  let leftover := (e.opens.filter (fun r => !e.retryq.contains r.req)).map (fun r => Ev.openDone r.req .closed)
  ({ e with opens := e.opens.filter (fun r => e.retryq.contains r.req) }, evs7 ++ leftover ++ [.exit res])

/-- Messages read from the source after the sink was closed: processed with binds ignored and
    processing errors ignored, until the source errs or ends (`some rest` = it did, wind-down
    finishes) or nothing more is buffered (`none`). -/
def windDownInbox (e : EP) : List WsIn → EP × List Ev × Bool
  | [] => (e, [], false)
  | .err :: _ => (e, [], true)
  | .eof :: _ => (e, [], true)
  | w :: rest =>
    let (e, evs, _) := processIn e w true
    let e := { e with park := none }
    let (e, evs', ended) := windDownInbox e rest
    (e, evs ++ evs', ended)

/-- `disallow_write` on every established flow (task.rs:301-305). -/
def disallowAll (e : EP) : List (Nat × Slot) → EP
  | [] => e
  | (_, .established i) :: rest => disallowAll (e.modObj i Obj.disallowWrite) rest
  | _ :: rest => disallowAll e rest

/-- Steps (1), (3), (5) of the wind-down: `disallow_write` everywhere, the outbound queue is closed
    (what it held is handed to the sink before, if draining — see `windDown`), a parked hand-over
    is abandoned. -/
def windDownPrep (e : EP) : EP :=
  { disallowAll e e.flows with outClosed := true, outq := [], park := none }

/-- The send path hands queued messages to the sink, in order, as long as the sink accepts them. -/
def sendSome (e : EP) : EP × List Ev :=
  match e.sinkRoom with
  | none => ({ e with outq := [] }, e.outq.map .wire)
  | some n => ({ e with outq := e.outq.drop n, sinkRoom := some (n - min n e.outq.length) }, (e.outq.take n).map .wire)

/-- Steps (1) and (3) of the wind-down after a drop: the queue keeps what is to be drained. -/
def dropPrep (e : EP) : EP :=
  { disallowAll e e.flows with outClosed := true, park := none }

/-- Steps (6)–(8) of the wind-down, after `flushed` went out and the sink was closed. After an error
    (`res ≠ ok`) or when the source has ended the peer is not waited for; otherwise the task keeps
    reading until the peer ends the connection (the close handshake; see `settleLoop`). -/
def windDownTail (e1 : EP) (flushed : List Ev) (srcEnded : Bool) (res : ExitRes) : EP × List Ev :=
  -- (6) what the source still has
  let r := windDownInbox e1 e1.inbox
  let e2 : EP := { r.1 with inbox := [] }
  -- `srcEnded`: the source yields nothing more (`poll_next` is `None` at once)
  if r.2.2 || srcEnded || res != .ok then
    ((windDownFinish e2 res).1, flushed ++ [.wireClose] ++ r.2.1 ++ (windDownFinish e2 res).2)
  else
    ({ e2 with closing := some res }, flushed ++ [.wireClose] ++ r.2.1)

/-- Wind-down (task.rs `wind_down`). `drain` = the Multiplexor was dropped (queued messages are
    still sent). After an error (`res ≠ ok`) the peer is not waited for: what the source has
    already delivered is processed and the task finishes. Otherwise the task keeps reading until the
    peer ends the connection (the close handshake); see `settleLoop` for that phase. -/
def windDown (e : EP) (drain : Bool) (res : ExitRes) : EP × List Ev :=
  if drain then
    -- (1), (3); then (4): the messages still queued are sent, as far as the sink accepts them
    let r := sendSome (dropPrep e)
    if r.1.outq.isEmpty then windDownTail r.1 r.2 e.srcEnded res
    else
      -- the drain loop is parked at `poll_ready` until the sink accepts again
      ({ r.1 with draining := some res }, r.2)
  else
    windDownTail (windDownPrep e) [] e.srcEnded res

/-! ### The task's run to quiescence after a stimulus -/

/-- Try to complete a parked hand-over. -/
def unpark (e : EP) : EP :=
  match e.park with
  | none => e
  | some (.accept i) =>
    if !e.muxAlive then
      -- the receiver is gone: the hand-over fails and the stream is dropped (its handle notifies the task)
      match e.objs[i]? with
      | some o => { (e.modObj i (fun o => { o with rxOpen := false })) with park := none, droppedq := e.droppedq ++ [o.fid] }
      | none => { e with park := none }
    else if e.acceptq.length < e.opts.acceptCap then { e with acceptq := e.acceptq ++ [i], park := none } else e
  | some (.bind b) =>
    if !e.muxAlive then
      -- the receiver is gone: the send fails, the `BindRequest` is dropped and rejects itself
      ({ e with park := none }).enqFrame (.reset b.fid)
    else if e.bindq.length < e.opts.bindCap then { e with bindq := e.bindq ++ [b], park := none } else e

/-- The drain loop of the wind-down (after a local drop) continues once the sink accepts messages
    again; when the queue is empty the rest of the wind-down follows. -/
def drainStep (e : EP) (res : ExitRes) : EP × List Ev :=
  if (sendSome e).1.outq.isEmpty then
    windDownTail { (sendSome e).1 with draining := none } (sendSome e).2 e.srcEnded res
  else sendSome e

/-- Close handshake: the task keeps reading until the source ends. -/
def closingStep (e : EP) (res : ExitRes) : EP × List Ev :=
  if (windDownInbox e e.inbox).2.2 then
    ((windDownFinish { (windDownInbox e e.inbox).1 with inbox := [] } res).1,
     (windDownInbox e e.inbox).2.1 ++ (windDownFinish { (windDownInbox e e.inbox).1 with inbox := [] } res).2)
  else ({ (windDownInbox e e.inbox).1 with inbox := [] }, (windDownInbox e e.inbox).2.1)

/-- The receive loop takes one item from the transport. -/
def recvOne (e : EP) (w : WsIn) (rest : List WsIn) : EP × List Ev × Option ExitRes :=
  processIn { (if w = .eof ∨ w = .err then { e with srcEnded := true } else e) with inbox := rest } w false

/-- Receive loop, then notification loop, then send loop (`select_biased`, task.rs:139-156), until
    nothing is left to do. `fuel` bounds the recursion; every iteration consumes an inbox item or a
    notification, and an inbox item adds at most one notification, so
    `2 * inbox.length + droppedq.length + 1` always suffices. -/
def settleLoop : Nat → EP → List Ev → EP × List Ev
  | 0, e, acc => (e, acc)
  | fuel + 1, e, acc =>
    if e.dead then (e, acc) else
    match e.draining with
    | some res => ((drainStep e res).1, acc ++ (drainStep e res).2)
    | none =>
    match e.closing with
    | some res => ((closingStep e res).1, acc ++ (closingStep e res).2)
    | none =>
    match (unpark e).park, (unpark e).inbox with
    | none, w :: rest =>
      match (recvOne (unpark e) w rest).2.2 with
      | some r =>
        ((windDown (recvOne (unpark e) w rest).1 false r).1,
         acc ++ (recvOne (unpark e) w rest).2.1 ++ (windDown (recvOne (unpark e) w rest).1 false r).2)
      | none => settleLoop fuel (recvOne (unpark e) w rest).1 (acc ++ (recvOne (unpark e) w rest).2.1)
    | _, _ =>
      match (unpark e).droppedq with
      | 0 :: rest =>
        ((windDown { unpark e with droppedq := rest } true .ok).1,
         acc ++ (windDown { unpark e with droppedq := rest } true .ok).2)
      | fid :: rest =>
        settleLoop fuel (closeFlow { unpark e with droppedq := rest } fid false).1
          (acc ++ (closeFlow { unpark e with droppedq := rest } fid false).2)
      | [] => (unpark e, acc)

/-- Insert into a list sorted ascending (requests are numbered in the order their futures were
    spawned, which is the order the executor polls them in). -/
def insertSorted (x : Nat) : List Nat → List Nat
  | [] => [x]
  | y :: ys => if x ≤ y then x :: y :: ys else y :: insertSorted x ys

def sortNat (l : List Nat) : List Nat := l.foldr insertSorted []

/-- The rejected open futures run their next round, in spawn order. -/
def runRetries (e : EP) : List Nat → EP × List Ev
  | [] => (e, [])
  | req :: rest =>
    match e.opens.find? (·.req = req) with
    | none => runRetries e rest
    | some r =>
      let (e, evs) := openRound e r
      let (e, evs') := runRetries e rest
      (e, evs ++ evs')

/-- Insert a (req, obj) pair into a list sorted by request number. -/
def insertDone (x : Nat × Nat) : List (Nat × Nat) → List (Nat × Nat)
  | [] => [x]
  | y :: ys => if x.1 ≤ y.1 then x :: y :: ys else y :: insertDone x ys

/-- The answered open futures return their streams, in spawn order: each gets the next handle. -/
def runDone (e : EP) : List (Nat × Nat) → EP × List Ev
  | [] => (e, [])
  | (req, i) :: rest =>
    let h := e.handles.length
    let (e, evs) := runDone { e with handles := e.handles ++ [i] } rest
    (e, Ev.openDone req (.ok h) :: evs)

/-- After any stimulus: run the task to quiescence and hand the outbound queue to the sink; then the
    open futures that were rejected run again, and the task sends what they queued. -/
def settle (e : EP) : EP × List Ev :=
  -- fuel: every inbox item is consumed once and can add at most one notification
  let (e, evs) := settleLoop (2 * e.inbox.length + e.droppedq.length + 2) e []
  -- the send loop hands the queue to the sink, unless the sink is not ready (or the task is
  -- gone / parked in the wind-down)
  let hold := e.dead || e.draining.isSome
  let s1 := if hold then (e, []) else sendSome e
  let wires1 := s1.2
  let e := s1.1
  let (e, evs0) := runDone { e with doneq := [] } (e.doneq.foldr insertDone [])
  let (e, evs2) := runRetries { e with retryq := [] } (sortNat e.retryq)
  let evs2 := evs0 ++ evs2
  let hold2 := e.dead || e.draining.isSome
  let s2 := if hold2 then (e, []) else sendSome e
  let wires2 := s2.2
  let e := s2.1
  (e, evs ++ wires1 ++ evs2 ++ wires2)

/-! ### Application calls -/

def EP.handleObj (e : EP) (h : Nat) : Option (Nat × Obj) :=
  match e.handles[h]? with
  | none => none
  | some i => match e.objs[i]? with
    | none => none
    | some o => if o.rxOpen ∨ true then some (i, o) else none

/-- `new_stream_channel` (lib.rs:278-302): start the request. -/
def appOpen (e : EP) (req : Nat) (host : Bytes) (port : Nat) : EP × List Ev :=
  openRound e { req := req, host := host, port := port, retriesLeft := e.opts.maxRetries }

/-- `accept_stream_channel`, one poll. -/
def appAccept (e : EP) : EP × Res :=
  match e.acceptq with
  | i :: rest =>
    match e.objs[i]? with
    | some o => ({ e with acceptq := rest, handles := e.handles ++ [i] }, .stream e.handles.length o.destHost o.destPort)
    | none => (e, .badHandle)
  | [] => if e.dead then (e, .closed) else (e, .pending)

/-- `poll_write` / `poll_write_vectored` (stream.rs:118-124, 158-196, 262-309), one poll. -/
def appWrite (e : EP) (h : Nat) (d : Bytes) : EP × Res :=
  match e.handleObj h with
  | none => (e, .badHandle)
  | some (i, o) =>
    -- a call that completes leaves no writer waiting (`parked` = a write call is pending)
    if o.finishSent then (e.modObj i (fun o => { o with parked := false }), .brokenPipe)
    else if d.isEmpty then (e.modObj i (fun o => { o with parked := false }), .wrote 0)
    else if o.credit = 0 then (e.modObj i (fun o => { o with parked := true, woken := false }), .pending)
    else if e.outClosed then (e.modObj i (fun o => { o with credit := o.credit - 1, parked := false }), .brokenPipe)
    else ((e.modObj i (fun o => { o with credit := o.credit - 1, parked := false })).enqFrame (.push o.fid d), .wrote d.length)

/-- `increment_psh_recvd_since` (stream.rs:130-147). -/
def ackStep (e : EP) (i : Nat) (o : Obj) : EP :=
  if o.recvdSince + 1 ≥ o.threshold then
    (e.modObj i (fun x => { x with recvdSince := 0 })).enqFrame (.acknowledge o.fid (o.recvdSince + 1))
  else e.modObj i (fun x => { x with recvdSince := o.recvdSince + 1 })

/-- `poll_fill_buf` (stream.rs:84-107, 322-336): make `buf` non-empty if possible. Empty frames are
    counted for acknowledgement and skipped. `fuel` = number of queued frames. -/
def fillBuf : Nat → EP → Nat → EP × Res
  | 0, e, _ => (e, .pending)
  | fuel + 1, e, i =>
    match e.objs[i]? with
    | none => (e, .badHandle)
    | some o =>
      if !o.buf.isEmpty then (e, .data o.buf)
      else match o.rxq with
        | f :: rest =>
          let e := e.modObj i (fun o => { o with rxq := rest, buf := f })
          let e := ackStep e i { o with rxq := rest, buf := f }
          if f.isEmpty then fillBuf fuel e i else (e, .data f)
        | [] =>
          if o.senderAlive then (e, .pending)
          else (e.modObj i (fun o => { o with rxOpen := false }), .eof)

/-- `poll_read` with a buffer of `n` bytes (stream.rs:243-253), one poll. -/
def appRead (e : EP) (h : Nat) (n : Nat) : EP × Res :=
  match e.handleObj h with
  | none => (e, .badHandle)
  | some (i, o) =>
    match fillBuf (o.rxq.length + 2) e i with
    | (e, .data b) => (e.modObj i (fun o => { o with buf := b.drop n }), .data (b.take n))
    | r => r

/-- `poll_shutdown` (stream.rs:206-220, 284-287). -/
def appShutdown (e : EP) (h : Nat) : EP × Res :=
  match e.handleObj h with
  | none => (e, .badHandle)
  | some (i, o) =>
    -- (a shutdown call that completes leaves no write call pending: `parked` is cleared)
    if o.finishSent then (e.modObj i (fun o => { o with parked := false }), .unit)
    else ((e.modObj i (fun o => { o with finishSent := true, parked := false })).enqFrame (.finish o.fid), .unit)

/-- Dropping a `MuxStream` (stream.rs:60-72): the receiver goes away, the task is notified. -/
def appDropStream (e : EP) (h : Nat) : EP × Res :=
  match e.handleObj h with
  | none => (e, .badHandle)
  | some (i, o) =>
    let e := e.modObj i (fun o => { o with rxOpen := false, rxq := [], parked := false })
    (if e.dead then e else { e with droppedq := e.droppedq ++ [o.fid] }, .unit)

/-- `send_datagram` (lib.rs:348-360). -/
def appSendDgram (e : EP) (d : Dgram) : EP × Res :=
  if d.host.length > 255 then (e, .tooLong)
  else if e.outClosed then (e, .closed)
  else (e.enqFrame (.datagram d.fid d.port d.host d.data), .unit)

/-- `get_datagram`, one poll. -/
def appRecvDgram (e : EP) : EP × Res :=
  match e.dgramq with
  | d :: rest => ({ e with dgramq := rest }, .dgram d)
  | [] => if e.dead then (e, .closed) else (e, .pending)

/-- `request_bind` (lib.rs:378-387): start the request. -/
def appBindReq (e : EP) (req : Nat) (bt : BindType) (host : Bytes) (port : Nat) : EP × List Ev :=
  match drawId e.flows e.rng e.fallback 64 with
  | none => (e, [.bindDone req .closed])
  | some (fid, rng', fb') =>
    if e.outClosed then
      -- `tx_msg_tx.send` fails: the slot just inserted is removed again and the call returns `Closed`
      -- (lib.rs `request_bind`)
      ({ e with rng := rng', fallback := fb' }, [.bindDone req .closed])
    else
      (({ e with rng := rng', fallback := fb', flows := insert e.flows fid (.bindRequested req) } : EP).enqFrame
        (.bind fid bt port host), [])

/-- `next_bind_request`, one poll. -/
def appBindNext (e : EP) : EP × Res :=
  if e.opts.bindCap = 0 then (e, .unsupported)
  else match e.bindq with
    | b :: rest => ({ e with bindq := rest, held := e.held ++ [b] }, .bindReq e.held.length b.fid b.bt b.host b.port)
    | [] => if e.dead then (e, .closed) else (e, .pending)

/-- `BindRequest::reply` (lib.rs:592-599). -/
def appBindReply (e : EP) (k : Nat) (accept : Bool) : EP × Res :=
  match e.held[k]? with
  | none => (e, .badHandle)
  | some b =>
    if !b.alive then (e, .badHandle)
    else if e.outClosed then (e, .closed)
    else ({ (e.enqFrame (if accept then .finish b.fid else .reset b.fid)) with
              held := e.held.modify k (fun b => { b with replied := true }) }, .unit)

/-- Dropping a `BindRequest` (lib.rs:614-619): rejects the request unless it was answered. -/
def appBindDrop (e : EP) (k : Nat) : EP × Res :=
  match e.held[k]? with
  | none => (e, .badHandle)
  | some b =>
    if !b.alive then (e, .badHandle)
    else
      let e := { e with held := e.held.modify k (fun b => { b with alive := false }) }
      (if b.replied then e else e.enqFrame (.reset b.fid), .unit)

/-- Dropping the `Multiplexor` (lib.rs:421-427). The application-side receivers disappear. -/
def appDropMux (e : EP) : EP × Res :=
  let e := { e with muxAlive := false, droppedq := if e.dead then e.droppedq else e.droppedq ++ [0] }
  -- the receivers are dropped with their contents: queued `BindRequest`s reject themselves on drop,
  -- queued `MuxStream`s notify the task (after the `0`, so those notifications are never read)
  let e := e.bindq.foldl (fun e b => e.enqFrame (.reset b.fid)) e
  ({ e with acceptq := [], dgramq := [], bindq := [] }, .unit)

/-! ### One stimulus = one operation followed by the task's run to quiescence -/

/-- The stimuli of the correspondence harness (harness/src/muxsim.rs `Sim::apply`). -/
inductive Op where
  | open (req : Nat) (host : Bytes) (port : Nat)
  | accept
  | write (h : Nat) (d : Bytes)            -- also vectored writes: `d` is the concatenation
  | read (h n : Nat)
  | shutdown (h : Nat)
  | dropStream (h : Nat)
  | sendDgram (d : Dgram)
  | recvDgram
  | bindReq (req : Nat) (bt : BindType) (host : Bytes) (port : Nat)
  | bindNext
  | bindReply (k : Nat) (accept : Bool)
  | bindDrop (k : Nat)
  | dropMux
  | deliver (w : WsIn)                      -- the transport hands one item to the task
  | sinkRoom (n : Option Nat)               -- the transport's sink accepts `n` more messages (`none`: any number)
  | cancelOpen (req : Nat)                  -- the application drops a pending `new_stream_channel` future
deriving Repr

/-- The application call (or delivery) itself, before the task runs. -/
def opStep (e : EP) : Op → EP × Res × List Ev
  | .open req host port =>
    if e.opens.any (·.req == req) then (e, .badHandle, [])     -- request numbers are unique
    else let (e, evs) := appOpen e req host port; (e, .started, evs)
  | .accept => let (e, r) := appAccept e; (e, r, [])
  | .write h d => let (e, r) := appWrite e h d; (e, r, [])
  | .read h n => let (e, r) := appRead e h n; (e, r, [])
  | .shutdown h => let (e, r) := appShutdown e h; (e, r, [])
  | .dropStream h => let (e, r) := appDropStream e h; (e, r, [])
  | .sendDgram d => let (e, r) := appSendDgram e d; (e, r, [])
  | .recvDgram => let (e, r) := appRecvDgram e; (e, r, [])
  | .bindReq req bt host port => let (e, evs) := appBindReq e req bt host port; (e, .started, evs)
  | .bindNext => let (e, r) := appBindNext e; (e, r, [])
  | .bindReply k a => let (e, r) := appBindReply e k a; (e, r, [])
  | .bindDrop k => let (e, r) := appBindDrop e k; (e, r, [])
  | .dropMux => let (e, r) := appDropMux e; (e, r, [])
  | .sinkRoom n => ({ e with sinkRoom := n }, .unit, [])
  | .cancelOpen req =>
    -- the future (and its oneshot receiver) is gone; the `Requested` slot stays in the flow table
    ({ e with opens := e.opens.filter (·.req ≠ req) }, .unit, [])
  | .deliver w =>
    -- nothing arrives any more once the source has ended or failed
    if e.srcEnded || e.inbox.any (fun x => x == .eof || x == .err) then (e, .unit, [])
    else match w with
      -- a peer that sends Close then closes the connection: the source ends after the Close
      | .msg .close => ({ e with inbox := e.inbox ++ [.msg .close, .eof] }, .unit, [])
      | w => ({ e with inbox := e.inbox ++ [w] }, .unit, [])

/-- One stimulus: the operation, then the task (and the open futures) run to quiescence. -/
def applyOp (e : EP) (op : Op) : EP × Res × List Ev :=
  let (e, r, evs) := opStep e op
  let (e, evs') := settle e
  (e, r, evs ++ evs')

/-- The endpoint after a sequence of stimuli. -/
def runOps (e : EP) (ops : List Op) : EP := ops.foldl (fun e op => (applyOp e op).1) e

end Penguin.Mux
