/-
Model of `penguin-mux/src/frame.rs`: the frame type, `From<&Frame> for Vec<u8>` (`encode`,
frame.rs:526-592) and `TryFrom<CowBytes> for Frame` (`decode`, frame.rs:433-486), check by check.
Opcode values, bind type codes and the decoder's minimum-length checks come from
`Penguin.Gen.Frame`, which is regenerated from the source on every run.
Core Lean only.
-/
import Penguin.Basic.Bytes
import Penguin.Gen.Frame

namespace Penguin
open Constants

inductive BindType where
  | stream | datagram
deriving DecidableEq, Repr

def BindType.code : BindType → Nat
  | .stream => bindStream
  | .datagram => bindDatagram

/-- `Payload` + `id` of frame.rs:171-237.  Numeric fields are `Nat`; `Frame.wf` gives the ranges
    the Rust types enforce (`u32`, `u16`) and the `Datagram` host bound that `encode` panics on. -/
inductive Frame where
  | connect (id rwnd port : Nat) (host : Bytes)
  | acknowledge (id n : Nat)
  | reset (id : Nat)
  | finish (id : Nat)
  | push (id : Nat) (data : Bytes)
  | bind (id : Nat) (bt : BindType) (port : Nat) (host : Bytes)
  | datagram (id port : Nat) (host data : Bytes)
deriving DecidableEq, Repr

def Frame.id : Frame → Nat
  | .connect id .. | .acknowledge id _ | .reset id | .finish id | .push id _
  | .bind id .. | .datagram id .. => id

def Frame.wf : Frame → Prop
  | .connect id rwnd port _ => id < 4294967296 ∧ rwnd < 4294967296 ∧ port < 65536
  | .acknowledge id n => id < 4294967296 ∧ n < 4294967296
  | .reset id | .finish id | .push id _ => id < 4294967296
  | .bind id _ port _ => id < 4294967296 ∧ port < 65536
  | .datagram id port host _ => id < 4294967296 ∧ port < 65536 ∧ host.length ≤ 255

instance (f : Frame) : Decidable f.wf := by
  cases f <;> unfold Frame.wf <;> infer_instance

/-- The opcode nibble of a frame (`OpCode::from(&Payload)`, frame.rs:213-226). -/
def Frame.opNibble : Frame → Nat
  | .connect .. => opConnect
  | .acknowledge .. => opAcknowledge
  | .reset .. => opReset
  | .finish .. => opFinish
  | .push .. => opPush
  | .bind .. => opBind
  | .datagram .. => opDatagram

/-- First byte: `op | PROTOCOL_VERSION_NUMBER << 4` (frame.rs:65-80). -/
def verOp (nib : Nat) : UInt8 := UInt8.ofNat (nib + protocolVersion * 16)

/-- `Vec::<u8>::from(&Frame)`, frame.rs:537-591.  For a `Datagram` whose host is longer than 255
    bytes the Rust code panics (`expect("Datagram target host too long")`); the model is only used
    under `Frame.wf`, and the panic itself is checked by the correspondence. -/
def encode : Frame → Bytes
  | .connect id rwnd port host => verOp opConnect :: be32 id ++ be32 rwnd ++ be16 port ++ host
  | .acknowledge id n => verOp opAcknowledge :: be32 id ++ be32 n
  | .reset id => verOp opReset :: be32 id
  | .finish id => verOp opFinish :: be32 id
  | .push id data => verOp opPush :: be32 id ++ data
  | .bind id bt port host =>
      verOp opBind :: be32 id ++ [UInt8.ofNat bt.code] ++ be16 port ++ host
  | .datagram id port host data =>
      verOp opDatagram :: be32 id ++ [UInt8.ofNat host.length] ++ be16 port ++ host ++ data

/-- A vectored `Push` (`PushPayload::Vectored`, frame.rs:560-564) encodes its pieces back to back. -/
def encodePushVectored (id : Nat) (pieces : List Bytes) : Bytes :=
  verOp opPush :: be32 id ++ pieces.flatten

inductive DecErr where
  | tooShort
  | version (n : Nat)
  | opcode (n : Nat)
  | bindType (n : Nat)
deriving DecidableEq, Repr

inductive Op where
  | connect | acknowledge | reset | finish | push | bind | datagram
deriving DecidableEq, Repr

/-- `OpCode::try_from(u8)`, frame.rs:87-102: version nibble 7 or (leniently) 0, then the table. -/
def decodeOp (b : UInt8) : Except DecErr Op :=
  let hi := b.toNat / 16
  let lo := b.toNat % 16
  if hi ≠ protocolVersion ∧ (hi ≠ 0 ∨ lenientVersionZero = false) then .error (.version hi)
  else if lo = decOpConnect then .ok .connect
  else if lo = decOpAcknowledge then .ok .acknowledge
  else if lo = decOpReset then .ok .reset
  else if lo = decOpFinish then .ok .finish
  else if lo = decOpPush then .ok .push
  else if lo = decOpBind then .ok .bind
  else if lo = decOpDatagram then .ok .datagram
  else .error (.opcode lo)

/-- `BindType::try_from(u8)`, frame.rs:52-58. -/
def decodeBindType (b : UInt8) : Except DecErr BindType :=
  if b.toNat = decBindStream then .ok .stream
  else if b.toNat = decBindDatagram then .ok .datagram
  else .error (.bindType b.toNat)

/-- `Frame::try_from(CowBytes)`, frame.rs:437-485.  Each `check_remaining!` is one length test with
    the constant extracted from the source. -/
def decode (bs : Bytes) : Except DecErr Frame :=
  if bs.length < minHeader then .error .tooShort else
  match bs with
  | b0 :: i0 :: i1 :: i2 :: i3 :: rest =>
    match decodeOp b0 with
    | .error e => .error e
    | .ok op =>
      let id := rd32 i0 i1 i2 i3
      match op with
      | .connect =>
        if rest.length < minConnect then .error .tooShort else
        match rest with
        | w0 :: w1 :: w2 :: w3 :: p0 :: p1 :: host =>
          .ok (.connect id (rd32 w0 w1 w2 w3) (rd16 p0 p1) host)
        | _ => .error .tooShort
      | .acknowledge =>
        if rest.length < minAcknowledge then .error .tooShort else
        match rest with
        | w0 :: w1 :: w2 :: w3 :: _ => .ok (.acknowledge id (rd32 w0 w1 w2 w3))
        | _ => .error .tooShort
      | .reset => .ok (.reset id)
      | .finish => .ok (.finish id)
      | .push => .ok (.push id rest)
      | .bind =>
        if rest.length < minBind then .error .tooShort else
        match rest with
        | t :: p0 :: p1 :: host =>
          match decodeBindType t with
          | .error e => .error e
          | .ok bt => .ok (.bind id bt (rd16 p0 p1) host)
        | _ => .error .tooShort
      | .datagram =>
        if rest.length < minDatagramFixed then .error .tooShort else
        match rest with
        | l :: after =>
          if after.length < l.toNat + minDatagramAfterLen then .error .tooShort else
          match after with
          | p0 :: p1 :: tail =>
            .ok (.datagram id (rd16 p0 p1) (tail.take l.toNat) (tail.drop l.toNat))
          | _ => .error .tooShort
        | _ => .error .tooShort
  | _ => .error .tooShort

/-- `append_push_data` (frame.rs:630-639): `none` = the Rust function panics. -/
def appendPushData (frame : Bytes) (data : Bytes) : Option Bytes :=
  match frame with
  | [] => none                                   -- `frame[0]` out of range
  | b0 :: _ =>
    -- `OpCode::try_from(frame[0] & 0x0F)`: the version nibble has been masked to 0
    match decodeOp (UInt8.ofNat (b0.toNat % 16)) with
    | .ok .push => some (frame ++ data)
    | _ => none

end Penguin
