/-
One direction of one established logical stream: the sending endpoint's stream object, the FIFO
path to the receiving endpoint (outbound queue + WebSocket), the receiving endpoint's stream object,
and the reverse path for `Acknowledge` frames.  Every action is the projection of one endpoint-model
function (`Penguin.Mux`) onto this stream; `Lemmas/LinkGlue.lean` proves that, action by action.

The state carries ghost logs (`accepted`, `delivered`, `consumed`, `acked`) so that the properties
are plain equalities.
-/
import Penguin.Basic.Bytes

namespace Penguin.Link

/-- What travels from sender to receiver on this flow. -/
inductive Item where
  | push (d : Bytes)
  | fin            -- `Finish` (clean shutdown of this direction)
  | rst            -- `Reset` (abort)
deriving DecidableEq, Repr

def Item.isPush : Item → Bool
  | .push _ => true
  | _ => false

structure St where
  W : Nat                    -- window the receiver advertised (its rwnd; capacity of its queue)
  th : Nat                   -- the receiver's acknowledgement threshold for this stream
  credit : Nat               -- sender: psh_send_remaining
  sFin : Bool := false       -- sender: finish_sent (shut down, aborted or closed)
  wire : List Item := []     -- sender's outbound queue ++ transport, FIFO
  rAlive : Bool := true      -- receiver: the slot still holds the channel sender (no Finish/Reset seen)
  rxq : List Bytes := []     -- receiver: rx_frame channel
  buf : Bytes := []          -- receiver handle: unread remainder of the current frame
  since : Nat := 0           -- receiver handle: psh_recvd_since
  acks : List Nat := []      -- Acknowledge counts on their way back, FIFO
  overrun : Bool := false    -- the receiver found its queue full (would reset the stream)
  eofSeen : Bool := false    -- a read returned end-of-stream
  -- ghost
  accepted : Bytes := []     -- concatenation of the payloads of successful writes
  delivered : Bytes := []    -- concatenation of what reads returned
  consumed : Nat := 0        -- frames the reader took out of its queue
  acked : Nat := 0           -- sum of all Acknowledge counts sent
  granted : Nat := 0         -- sum of all Acknowledge counts received by the sender
  sent : Nat := 0            -- Push frames put on the wire
deriving Repr

/-- Established by the Connect/Acknowledge handshake: the sender's credit is the advertised window. -/
def init (W th : Nat) : St := { W := W, th := th, credit := W }

inductive Act where
  | write (d : Bytes)        -- `poll_write` / `poll_write_vectored` with the concatenated payload `d`
  | shutdown                 -- `poll_shutdown`
  | abort                    -- the sender's handle is dropped without shutdown (task sends `Reset`)
  | deliver                  -- the head of the wire reaches the receiving task (`process_frame`)
  | read (n : Nat)           -- `poll_read` with room for `n` bytes
  | deliverAck               -- the head of the acknowledgement path reaches the sending task
deriving DecidableEq, Repr

inductive Out where
  | wrote (n : Nat)
  | pending
  | brokenPipe
  | data (bs : Bytes)
  | eof
  | none
deriving DecidableEq, Repr

/-- `increment_psh_recvd_since` (stream.rs): count the frame; acknowledge at the threshold. -/
def countFrame (s : St) : St :=
  if s.since + 1 ≥ s.th then
    { s with since := 0, acks := s.acks ++ [s.since + 1], consumed := s.consumed + 1, acked := s.acked + (s.since + 1) }
  else { s with since := s.since + 1, consumed := s.consumed + 1 }

/-- `poll_fill_buf`: take frames from the queue until one is non-empty (`fuel` = queue length). -/
def fill : Nat → St → St × Bool   -- (state, buffer is non-empty)
  | 0, s => (s, false)
  | fuel + 1, s =>
    if !s.buf.isEmpty then (s, true)
    else match s.rxq with
      | f :: rest =>
        let s := countFrame { s with rxq := rest, buf := f }
        if f.isEmpty then fill fuel s else (s, true)
      | [] => (s, false)

def step (s : St) : Act → St × Out
  | .write d =>
    if s.sFin then (s, .brokenPipe)
    else if d.isEmpty then (s, .wrote 0)
    else if s.credit = 0 then (s, .pending)
    else ({ s with credit := s.credit - 1, wire := s.wire ++ [.push d], accepted := s.accepted ++ d,
                   sent := s.sent + 1 }, .wrote d.length)
  | .shutdown =>
    if s.sFin then (s, .none) else ({ s with sFin := true, wire := s.wire ++ [.fin] }, .none)
  | .abort =>
    if s.sFin then (s, .none) else ({ s with sFin := true, wire := s.wire ++ [.rst] }, .none)
  | .deliver =>
    match s.wire with
    | [] => (s, .none)
    | .push d :: rest =>
      if !s.rAlive then ({ s with wire := rest }, .none)           -- answered with Reset; not this direction's data
      else if s.rxq.length < s.W then ({ s with wire := rest, rxq := s.rxq ++ [d] }, .none)
      else ({ s with wire := rest, overrun := true, rAlive := false }, .none)
    | .fin :: rest => ({ s with wire := rest, rAlive := false }, .none)
    | .rst :: rest => ({ s with wire := rest, rAlive := false }, .none)
  | .read n =>
    let (s, have_) := fill (s.rxq.length + 1) s
    if have_ then
      ({ s with buf := s.buf.drop n, delivered := s.delivered ++ s.buf.take n }, .data (s.buf.take n))
    else if s.rAlive then (s, .pending)
    else ({ s with eofSeen := true }, .eof)
  | .deliverAck =>
    match s.acks with
    | [] => (s, .none)
    | n :: rest => ({ s with acks := rest, credit := s.credit + n, granted := s.granted + n }, .none)

def run (s : St) (as : List Act) : St := as.foldl (fun s a => (step s a).1) s

end Penguin.Link
