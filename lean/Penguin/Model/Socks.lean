/-
Model of `penguin-socks` (`v4.rs`, `v5.rs`, `magics.rs`, `lib.rs`), as repaired by
`fixes/C18-*.diff`.

Readers are *scripts*: the sequence of `read_u8 / read_u16 / read_u32 / read_exact / read_until`
calls the Rust function makes, each with the `&'static str` context it attaches to an I/O error,
and the decisions taken on the bytes read.  A script is run on an input `(bytes, eof)`:
  * `eof = true`  — the stream ends after `bytes` (`read_exact` fails with `UnexpectedEof`;
                    `read_until` returns what it has and `read_nul_terminated` reports the missing
                    terminator as `UnexpectedEof`);
  * `eof = false` — the stream stays open after `bytes` (the future stays `Pending`).
The result is `done value consumed written | needMore | error kind written`.

Writers and the UDP relay header build / parse are plain byte functions.  Magic numbers come from
`Penguin.Gen.Socks` (regenerated from `magics.rs`, the length checks of `parse_udp_relay_header` and
the SOCKS4a marker test of `v4::read_request` on every run).  Core Lean only.
-/
import Penguin.Basic.Bytes
import Penguin.Gen.Socks

namespace Penguin.Socks
open Penguin Penguin.Constants

/-- The context string of `Error::ProcessSocksRequest(ctx, _)` at each read. -/
inductive Ctx where
  | version | command | reserved | addressType | address | domainLength | domainAddress | port
  | ip | userId | domain | numberOfMethods | methods
deriving DecidableEq, Repr

/-- The literal strings in the source (compared with the real errors by the correspondence). -/
def Ctx.text : Ctx → String
  | .version => "read version"            -- v5.rs:65
  | .command => "read command"            -- v5.rs:72, v4.rs:29
  | .reserved => "read reserved"          -- v5.rs:76
  | .addressType => "read address type"   -- v5.rs:97
  | .address => "read address"            -- v5.rs:105, 127
  | .domainLength => "read domain length" -- v5.rs:113
  | .domainAddress => "read domain address" -- v5.rs:118
  | .port => "read port"                  -- v5.rs:81, v4.rs:33
  | .ip => "read ip"                      -- v4.rs:37
  | .userId => "read user id"             -- v4.rs:38 (-> read_nul_terminated, v4.rs:53-71)
  | .domain => "read domain"              -- v4.rs:41
  | .numberOfMethods => "read number of methods" -- v5.rs:22
  | .methods => "read methods"            -- v5.rs:27

/-- `penguin_socks::Error` as far as the readers produce it (lib.rs:15-37). -/
inductive ErrKind where
  | eof (ctx : Ctx)          -- `ProcessSocksRequest(ctx, UnexpectedEof)`
  | version (v : UInt8)      -- `SocksVersion(v)`
  | atyp (t : UInt8)         -- `AddressType(t)`
deriving DecidableEq, Repr

inductive Result (α : Type) where
  | done (a : α) (consumed : Nat) (written : Bytes)
  | needMore
  | error (e : ErrKind) (written : Bytes)
deriving DecidableEq, Repr

/-- How the returned host bytes are to be read: the readers return IP addresses as text. -/
inductive AddrKind where
  | ipv4 | domain | ipv6
deriving DecidableEq, Repr

/-- The `ATYP` octet of each kind (magics.rs:20-24). -/
def AddrKind.atyp : AddrKind → Nat
  | .ipv4 => socksAtypIpv4
  | .domain => socksAtypDomain
  | .ipv6 => socksAtypIpv6

/-- A host as (address type, raw address bytes).  The Rust readers return
    `Ipv4Addr/Ipv6Addr::to_string()` of the raw bytes for the IP kinds, and the raw bytes for a
    domain; `Host.render` (below) is that function. -/
structure Host where
  kind : AddrKind
  raw : Bytes
deriving DecidableEq, Repr

/-- `(command, address, port)` as returned by `read_request`. -/
structure Req where
  cmd : UInt8
  host : Host
  port : Nat
deriving DecidableEq, Repr

/-- A reader: the calls it makes on the stream. -/
inductive Script (α : Type) where
  | ret (a : α)
  | fail (e : ErrKind)
  /-- `write_all(bs)` + `flush` on the stream -/
  | write (bs : Bytes) (k : Script α)
  /-- `read_exact` of `n` bytes (`read_u8`, `read_u16`, `read_u32` are `n = 1, 2, 4`) -/
  | readN (ctx : Ctx) (n : Nat) (k : Bytes → Script α)
  /-- `read_until(0, ..)` followed by the check that the last byte read is the NUL terminator
      (`read_nul_terminated`, v4.rs:53-71: `field.pop() != Some(0)` is an `UnexpectedEof` error with
      the caller's context); the continuation gets the field without the terminator -/
  | readUntilNul (ctx : Ctx) (k : Bytes → Script α)

/-- `read_exact`: the first `n` bytes and the rest, or `none` when fewer are available. -/
def splitAtN (n : Nat) (inp : Bytes) : Option (Bytes × Bytes) :=
  if n ≤ inp.length then some (inp.take n, inp.drop n) else none

/-- `read_until(0)`: the bytes before the first NUL and the bytes after it; `none` when there is
    no NUL in the input. -/
def splitNul : Bytes → Option (Bytes × Bytes)
  | [] => none
  | b :: bs =>
    if b = 0 then some ([], bs)
    else match splitNul bs with
      | some (f, r) => some (b :: f, r)
      | none => none

/-- Run a script on `inp`; `c` bytes were consumed and `w` was written before. -/
def Script.run {α : Type} : Script α → (inp : Bytes) → (eof : Bool) → (c : Nat) → (w : Bytes) → Result α
  | .ret a, _, _, c, w => .done a c w
  | .fail e, _, _, _, w => .error e w
  | .write bs k, inp, eof, c, w => k.run inp eof c (w ++ bs)
  | .readN ctx n k, inp, eof, c, w =>
    match splitAtN n inp with
    | some (a, rest) => (k a).run rest eof (c + n) w
    | none => if eof then .error (.eof ctx) w else .needMore
  | .readUntilNul ctx k, inp, eof, c, w =>
    match splitNul inp with
    | some (f, rest) => (k f).run rest eof (c + (f.length + 1)) w
    | none => if eof then .error (.eof ctx) w else .needMore

def readU8 {α : Type} (ctx : Ctx) (k : UInt8 → Script α) : Script α :=
  .readN ctx 1 fun bs => k (bs.getD 0 0)

def readU16 {α : Type} (ctx : Ctx) (k : Nat → Script α) : Script α :=
  .readN ctx 2 fun bs => k (rd16 (bs.getD 0 0) (bs.getD 1 0))

def readU32 {α : Type} (ctx : Ctx) (k : Nat → Script α) : Script α :=
  .readN ctx 4 fun bs => k (rd32 (bs.getD 0 0) (bs.getD 1 0) (bs.getD 2 0) (bs.getD 3 0))

def u8 (n : Nat) : UInt8 := UInt8.ofNat n

/-! ### SOCKS5 (v5.rs) -/

/-- `read_auth_methods`, v5.rs:15-29 (the version byte has been read by the caller). -/
def readAuthMethods : Script Bytes :=
  readU8 .numberOfMethods fun n =>
  .readN .methods n.toNat fun ms => .ret ms

/-- `write_auth_method`, v5.rs:36-49. -/
def writeAuthMethod (method : UInt8) : Bytes := [u8 socksVer5, method]

/-- The reply written for an unsupported address type, v5.rs:133-144. -/
def atypUnsupReply : Bytes :=
  [u8 socksVer5, u8 socksRepAtypunsup, u8 socksReserved, u8 socksAtypIpv4, 0, 0, 0, 0, 0, 0]

/-- `read_address`, v5.rs:90-154. -/
def readAddress5 {α : Type} (k : Host → Script α) : Script α :=
  readU8 .addressType fun t =>
  if t.toNat = socksAtypIpv4 then .readN .address 4 fun a => k ⟨.ipv4, a⟩
  else if t.toNat = socksAtypDomain then
    readU8 .domainLength fun len =>
    .readN .domainAddress len.toNat fun a => k ⟨.domain, a⟩
  else if t.toNat = socksAtypIpv6 then .readN .address 16 fun a => k ⟨.ipv6, a⟩
  else .write atypUnsupReply (.fail (.atyp t))

/-- `read_request`, v5.rs:58-83. -/
def readRequest5 : Script Req :=
  readU8 .version fun v =>
  if v.toNat ≠ socksVer5 then .fail (.version v) else
  readU8 .command fun c =>
  readU8 .reserved fun _ =>
  readAddress5 fun h =>
  readU16 .port fun p => .ret ⟨c, h, p⟩

/-- A socket address as the writers see it (`SocketAddr::V4/V6`: octets and port). -/
inductive SockAddr where
  | v4 (octets : Bytes) (port : Nat)
  | v6 (octets : Bytes) (port : Nat)
deriving DecidableEq, Repr

def SockAddr.wf : SockAddr → Prop
  | .v4 o p => o.length = 4 ∧ p < 65536
  | .v6 o p => o.length = 16 ∧ p < 65536

instance (a : SockAddr) : Decidable a.wf := by cases a <;> unfold SockAddr.wf <;> infer_instance

/-- `write_response`, v5.rs:161-198: a zeroed buffer of 4 + |addr| + 2 bytes, then
    `buf[3] = ATYP`, the octets at 4.., `buf[0..3] = VER, response, RESERVED`, the port in the last
    two bytes. -/
def writeResponse5 (response : UInt8) : SockAddr → Bytes
  | .v4 o p => [u8 socksVer5, response, u8 socksReserved, u8 socksAtypIpv4] ++ o ++ be16 p
  | .v6 o p => [u8 socksVer5, response, u8 socksReserved, u8 socksAtypIpv6] ++ o ++ be16 p

/-- `write_response_unspecified`, v5.rs:205-229. -/
def writeResponseUnspecified (response : UInt8) : Bytes :=
  [u8 socksVer5, response, u8 socksReserved, u8 socksAtypIpv4, 0, 0, 0, 0, 0, 0]

inductive UdpErr where
  | parseAssociate | fragmented | unknownAtyp (t : UInt8)
deriving DecidableEq, Repr

/-- `parse_udp_relay_header`, v5.rs:241-288; every `buf.remaining() < k` is one length test with the
    constant extracted from the source. -/
def parseUdpRelayHeader (buf : Bytes) : Except UdpErr (Host × Nat × Bytes) :=
  if buf.length < socksUdpMinHeader then .error .parseAssociate else
  match buf with
  | _ :: _ :: frag :: atyp :: rest =>
    if frag ≠ 0 then .error .fragmented
    else if atyp.toNat = socksAtypIpv4 then
      if rest.length < socksUdpMinV4 then .error .parseAssociate else
      match rest with
      | a :: b :: c :: d :: p0 :: p1 :: data => .ok (⟨.ipv4, be32 (rd32 a b c d)⟩, rd16 p0 p1, data)
      | _ => .error .parseAssociate
    else if atyp.toNat = socksAtypDomain then
      if rest.length < socksUdpMinDomainLen then .error .parseAssociate else
      match rest with
      | len :: after =>
        if after.length < len.toNat + socksUdpMinDomainAfterLen then .error .parseAssociate else
        match after.drop len.toNat with
        | p0 :: p1 :: data => .ok (⟨.domain, after.take len.toNat⟩, rd16 p0 p1, data)
        | _ => .error .parseAssociate
      | _ => .error .parseAssociate
    else if atyp.toNat = socksAtypIpv6 then
      if rest.length < socksUdpMinV6 then .error .parseAssociate else
      match rest.drop 16 with
      | p0 :: p1 :: data => .ok (⟨.ipv6, rest.take 16⟩, rd16 p0 p1, data)
      | _ => .error .parseAssociate
    else .error (.unknownAtyp atyp)
  | _ => .error .parseAssociate

/-- `udp_relay_response`, v5.rs:293-309 (after the fix: ATYP precedes the address). -/
def udpRelayResponse (target : SockAddr) (data : Bytes) : Bytes :=
  match target with
  | .v4 o p => [0, 0, 0] ++ [u8 socksAtypIpv4] ++ o ++ be16 p ++ data
  | .v6 o p => [0, 0, 0] ++ [u8 socksAtypIpv6] ++ o ++ be16 p ++ data

/-! ### SOCKS4 / SOCKS4a (v4.rs) -/

/-- The SOCKS4a test of v4.rs:40 on `DSTIP` read as a big-endian `u32`:
    `ip >> 8 == 0 && ip != 0`, i.e. `0.0.0.x` with `x ≠ 0`. -/
def is4aMarker (ip : Nat) : Bool :=
  ip / 2 ^ socks4aMarkerShift == 0 && (!socks4aMarkerNonzero || ip != 0)

/-- `read_request`, v4.rs:22-46 (the version byte has been read by the caller). -/
def readRequest4 : Script Req :=
  readU8 .command fun c =>
  readU16 .port fun p =>
  readU32 .ip fun ip =>
  .readUntilNul .userId fun _ =>
  if is4aMarker ip then .readUntilNul .domain fun d => .ret ⟨c, ⟨.domain, d⟩, p⟩
  else .ret ⟨c, ⟨.ipv4, be32 ip⟩, p⟩

/-- `write_response`, v4.rs:77-100 (`VN = VER_REP_4`, the code, six zero bytes). -/
def writeResponse4 (response : UInt8) : Bytes := [u8 socksVerRep4, response, 0, 0, 0, 0, 0, 0]

/-! ### Entry points used by the theorems and the driver -/

def read5 (inp : Bytes) (eof : Bool) : Result Req := readRequest5.run inp eof 0 []
def read4 (inp : Bytes) (eof : Bool) : Result Req := readRequest4.run inp eof 0 []
def readMethods (inp : Bytes) (eof : Bool) : Result Bytes := readAuthMethods.run inp eof 0 []

/-! ### Textual form of the returned host (`to_string()` of std; driver only, differentially tested) -/

def renderV4 (o : Bytes) : String :=
  ".".intercalate (o.map fun b => toString b.toNat)

def hexLower (n : Nat) : String := String.ofList (Nat.toDigits 16 n)

def segments : Bytes → List Nat
  | a :: b :: rest => (a.toNat * 256 + b.toNat) :: segments rest
  | _ => []

/-- Longest run of zero segments, the first one among equals: (start, length). -/
def longestZeroRun (segs : List Nat) : Nat × Nat :=
  let rec go (l : List Nat) (i : Nat) (cur best : Nat × Nat) : Nat × Nat :=
    match l with
    | [] => best
    | s :: t =>
      if s = 0 then
        let cur' := if cur.2 = 0 then (i, 1) else (cur.1, cur.2 + 1)
        go t (i + 1) cur' (if cur'.2 > best.2 then cur' else best)
      else go t (i + 1) (0, 0) best
  go segs 0 (0, 0) (0, 0)

def renderV6 (o : Bytes) : String :=
  let segs := segments o
  if segs.take 5 = [0, 0, 0, 0, 0] ∧ segs.getD 5 0 = 0xffff then
    "::ffff:" ++ renderV4 (o.drop 12)
  else
    let part (l : List Nat) : String := ":".intercalate (l.map hexLower)
    let (start, len) := longestZeroRun segs
    if len > 1 then part (segs.take start) ++ "::" ++ part (segs.drop (start + len))
    else part segs

/-- The bytes `read_request` / `parse_udp_relay_header` return for a host. -/
def Host.render (h : Host) : Bytes :=
  match h.kind with
  | .ipv4 => (renderV4 h.raw).toUTF8.toList
  | .domain => h.raw
  | .ipv6 => (renderV6 h.raw).toUTF8.toList

end Penguin.Socks
