/-
The two FIXED-TARGET entry points of the client, as they are:

 * `handle_tcp` (`penguin/src/client/handle_remote/tcp.rs:15-50`) with `request_tcp_channel`
   (`handle_remote/common.rs:17-30`): one iteration of the accept loop as an effect trace
   (`tcpSession`), and the loop over the environment's answers (`tcpListener`);
 * `handle_udp` (`handle_remote/udp.rs:17-60`): the listener loop folded over the sequence of
   `recv_from` results (`udpListener`); the flow id is whatever `add_udp_client` answers for THAT
   datagram's sender — the `add` of `Model/UdpMap.lean`, on the map as it is at that moment (other
   tasks — the prune task, replies, other listeners — use the same map between two iterations:
   `UIn.other`).

The statements of both functions (before the loop / inside the loop, in source order) are regenerated
from the source on every run (`Gen/FixedTarget.lean`); `Penguin.C01.fixed_target_shape_as_in_source`
stops the build when one is added, removed, re-ordered or rewritten.  The texts the model was
transcribed from are kept below (`udpLoopTexts`, …) next to the definitions.

Not modelled (assumed): `reserve()` / `accept()` / `recv_from` staying pending (nothing happens);
the bridge itself (`into_copy_bidirectional`: C13); a received datagram is the byte string
`recv_from` reports (`buf.truncate(len)`, at most `MAX_UDP_PACKET_SIZE` = 65536 bytes; no UDP
payload is longer).  Core Lean only.
-/
import Penguin.Model.UdpMap
import Penguin.Gen.FixedTarget

namespace Penguin.FixedTarget
open Penguin Penguin.UdpMap Penguin.Constants

/-! ### `handle_tcp` -/

/-- The environment's answers during one iteration of the accept loop. -/
structure TcpEnv where
  /-- `hr.stream_command_tx.reserve().await` is `Ok` (`Err` only when the main loop dropped the
      receiver, tcp.rs:27-32) -/
  reserveOk : Bool
  /-- `listener.accept().await` is `Ok` (tcp.rs:36) -/
  acceptOk : Bool
  /-- the oneshot of `request_tcp_channel` yields a `MuxStream` (`Err` when the main loop drops the
      sender without answering, common.rs:29 / tcp.rs:42) -/
  streamOk : Bool
  /-- the spawned `into_copy_bidirectional` ends with `Ok` (an `Err` is only logged, tcp.rs:43-48) -/
  bridgeOk : Bool
deriving DecidableEq, Repr

/-- An effect of the handler that is visible outside it, in the order of occurrence. -/
inductive Event where
  /-- a permit of the command channel was obtained (tcp.rs:28-32) -/
  | reserved
  /-- a local connection was accepted (tcp.rs:36) — only with a permit in hand -/
  | accepted
  /-- `StreamCommand { tx, host, port }` was sent to the main loop with the permit (common.rs:22-28) -/
  | requested (host : Bytes) (port : Nat)
  /-- the main loop answered with a stream (common.rs:29) -/
  | gotStream
  /-- `tokio::spawn(channel.into_copy_bidirectional(tcp_stream))` (tcp.rs:43) -/
  | bridged
  /-- the accepted connection is dropped (closed) without having been bridged (the `?` of tcp.rs:42) -/
  | dropped
  /-- `warn!("TCP forwarder failed: {e}")` (tcp.rs:45-47): a failing bridge ends nothing else -/
  | bridgeErrorLogged
deriving DecidableEq, Repr

def Event.isRequest : Event → Bool
  | .requested _ _ => true
  | _ => false

/-- The `FatalError`s `handle_tcp` / `handle_udp` return. -/
inductive Fatal where
  | requestStream                      -- tcp.rs:32
  | clientIo                           -- tcp.rs:36, udp.rs:27 / :40
  | mainLoopExitWithoutSendingStream   -- tcp.rs:42
  | sendDatagram                       -- udp.rs:58
deriving DecidableEq, Repr

/-- What one iteration did; `fatal = none`: the loop goes on with the next iteration. -/
structure Outcome where
  events : List Event
  fatal : Option Fatal
deriving DecidableEq, Repr

/-- One iteration of the loop of `handle_tcp(listener, rhost, rport, hr)` (tcp.rs:26-49):
    reserve → accept → `request_tcp_channel(permit, rhost, rport)` → spawn the bridge. -/
def tcpSession (rhost : Bytes) (rport : Nat) (env : TcpEnv) : Outcome :=
  if !env.reserveOk then ⟨[], some .requestStream⟩                                  -- :28-32
  else if !env.acceptOk then ⟨[.reserved], some .clientIo⟩                           -- :36
  else if !env.streamOk then                                                         -- :39-42
    ⟨[.reserved, .accepted, .requested rhost rport, .dropped], some .mainLoopExitWithoutSendingStream⟩
  else                                                                               -- :43-48
    ⟨[.reserved, .accepted, .requested rhost rport, .gotStream, .bridged] ++
      (if env.bridgeOk then [] else [.bridgeErrorLogged]), none⟩

/-- The loop: iterations until the first fatal error (the script of answers ending = the task is still
    waiting). -/
def tcpListener (rhost : Bytes) (rport : Nat) : List TcpEnv → Outcome
  | [] => ⟨[], none⟩
  | env :: rest =>
    let o := tcpSession rhost rport env
    match o.fatal with
    | some f => ⟨o.events, some f⟩
    | none => ⟨o.events ++ (tcpListener rhost rport rest).events, (tcpListener rhost rport rest).fatal⟩

/-! ### `handle_udp` -/

/-- What `handle_udp(lhost, lport, rhost, rport, hr)` fixed before its loop (udp.rs:25-33). -/
structure UdpCfg where
  /-- `socket.local_addr()` of the bound socket: the `our_addr` of `add_udp_client` (client/mod.rs:150-152) -/
  localAddr : Addr
  /-- the identity of the `Arc<UdpSocket>` (`socket.clone()`, udp.rs:45) -/
  sock : SockId
  rhost : Bytes
  rport : Nat
deriving DecidableEq, Repr

/-- What happens next, as seen from the listener task. -/
inductive UIn where
  /-- `recv_from` returned `data` from `peer` (udp.rs:37-41); `rng` is the script of draws the key
      generator makes if this sender is new; `txOk`: `hr.datagram_tx.send(frame).await` is `Ok`
      (`Err` only when the main loop has gone, udp.rs:54-58) -/
  | rx (peer : Addr) (data : Bytes) (rng : List Nat) (txOk : Bool)
  /-- another task operates on the shared maps between two iterations -/
  | other (op : Op)
deriving Repr

inductive UOut where
  /-- the frame handed to `datagram_tx` (udp.rs:48-58) -/
  | sent (d : Dgram)
  /-- not the listener's step: nothing sent -/
  | foreign
  | fatal (f : Fatal)
  /-- `add_udp_client` hit its `expect` (unreachable: `Penguin.C01.maps_never_panic`) -/
  | panic
  /-- model artefact: the draw script was too short -/
  | rngExhausted
deriving DecidableEq, Repr

/-- Does the listener end here? -/
def UOut.stops : UOut → Bool
  | .sent _ | .foreign => false
  | _ => true

/-- The map operation an input stands for. -/
def toOp (c : UdpCfg) : UIn → Op
  | .rx peer _ rng _ => .add peer c.localAddr c.sock false rng     -- udp.rs:43-47
  | .other op => op

/-- One iteration of the loop of `handle_udp` (udp.rs:34-59): `recv_from` → `add_udp_client(addr,
    socket.clone(), false)` → `Datagram { target_host: rhost, target_port: rport, flow_id: client_id,
    data: buf }` → `datagram_tx.send`. -/
def udpIter (c : UdpCfg) (m : Maps) : UIn → Maps × UOut
  | .other op => ((step m op).1, .foreign)
  | .rx peer data rng txOk =>
    let r := add m peer c.localAddr c.sock false rng               -- :43-47
    match r.2 with
    | .id cid =>
      (r.1, if txOk then .sent { flowId := cid, host := c.rhost, port := c.rport, data := data }   -- :48-53
            else .fatal .sendDatagram)                                                              -- :55-58
    | .rngExhausted => (r.1, .rngExhausted)
    | _ => (r.1, .panic)

/-- The listener loop over a sequence of inputs: the final maps and, per input, what the listener
    did, up to and including the first step that ends it. -/
def udpListener (c : UdpCfg) : Maps → List UIn → Maps × List UOut
  | m, [] => (m, [])
  | m, i :: rest =>
    let r := udpIter c m i
    if r.2.stops then (r.1, [r.2])
    else ((udpListener c r.1 rest).1, r.2 :: (udpListener c r.1 rest).2)

/-- The frames sent, in order. -/
def frames : List UOut → List Dgram
  | [] => []
  | .sent d :: rest => d :: frames rest
  | _ :: rest => frames rest

/-! ### The source texts the definitions above were transcribed from -/

def udpPreludeTexts : List String :=
  ["let socket = UdpSocket::bind((lhost, lport)).await.map_err(FatalError::ClientIo)?",
   "let socket = Arc::new(socket)",
   "let local_addr = socket.local_addr().expect(\"Failed to get local address of UDP socket (this is a bug)\")"]

/-- The loop body of `handle_udp`: ONE receive, the id asked for THAT `addr`, the frame built from
    that `client_id`, the function's own `rhost` / `rport` and the received `buf`, one send. -/
def udpLoopTexts : List String :=
  ["let mut buf = vec![0; config::MAX_UDP_PACKET_SIZE]",
   "let (len, addr) = socket.recv_from(&mut buf).await.map_err(FatalError::ClientIo)?",
   "buf.truncate(len)",
   "let client_id = hr.add_udp_client(addr, socket.clone(), false)",
   "let frame = Datagram { target_host: Bytes::from(rhost), target_port: rport, flow_id: client_id, data: Bytes::from(buf) }",
   "hr.datagram_tx.send(frame).await.or(Err(FatalError::SendDatagram))?"]

def udpFrameTexts : List (String × String) :=
  [("data", "Bytes::from(buf)"), ("flow_id", "client_id"), ("target_host", "Bytes::from(rhost)"), ("target_port", "rport")]

def tcpPreludeTexts : List String := ["let rhost = rhost.as_bytes()"]

def tcpLoopTexts : List String :=
  ["let stream_command_tx_permit = hr.stream_command_tx.reserve().await.or(Err(FatalError::RequestStream))?",
   "let tcp_stream = listener.accept().await.map_err(FatalError::ClientIo)?",
   "let channel = request_tcp_channel(stream_command_tx_permit, Bytes::from_static(rhost), rport).await.or(Err(FatalError::MainLoopExitWithoutSendingStream))?",
   "tokio::spawn(channel.into_copy_bidirectional(tcp_stream).inspect_err(|e| { warn!(\"TCP forwarder failed: {e}\"); }))"]

def requestParamsTexts : List String :=
  ["stream_command_tx_permit: mpsc::Permit<'_, StreamCommand>, dest_host: Bytes, dest_port: u16"]

def requestBodyTexts : List String :=
  ["let (tx, rx) = oneshot::channel()",
   "let stream_request = StreamCommand { tx, host: dest_host, port: dest_port }",
   "stream_command_tx_permit.send(stream_request)",
   "rx.await"]

end Penguin.FixedTarget
