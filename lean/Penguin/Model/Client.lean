/-
Model of the client's reconnect logic (/repo/penguin/src/client/mod.rs, maybe_retryable.rs,
ws_connect.rs), as the code is:

* the error types and the `retryable` classification (maybe_retryable.rs) — the lists of retryable
  variants are `Penguin.Constants.*` regenerated from the source; only the delegation structure
  (which variant wraps which error type) is written by hand;
* `retryStep` / `stepLoop` / `runLoop`: one turn / all turns of the retry loop of
  `client_main_inner` (mod.rs:329-368) over a script of per-attempt outcomes, mirroring exactly
  when `backoff.reset()` (mod.rs:341, only when `on_connected` returned `Err`) and
  `backoff.advance()` (mod.rs:354) are called;
* `getSendStreamChan`, `mainLoop`, `onConnected`: the connected main loop (mod.rs:387-493): which
  `select!` arm ends it with which result, and the parked ("failed") stream request;
* `clientRun`: both together, with the stream-command channel as a FIFO;
* `runScenario`: the scripted-server scenarios the correspondence harness runs against the real
  `client_main_inner` (harness-full/src/bin/client.rs).

Time is not part of this model except as the list of delays slept (milliseconds).
-/
import Penguin.Basic.Bytes
import Penguin.Gen.Client
import Penguin.Model.Backoff

namespace Penguin.Client
open Penguin.Constants

/-! ### Error types (leaf payloads dropped) -/

/-- `std::io::ErrorKind`: every kind maybe_retryable.rs mentions plus representatives of the rest. -/
inductive IoKind
  | addrNotAvailable | brokenPipe | connectionRefused | connectionReset | hostUnreachable
  | networkUnreachable | connectionAborted | notConnected | networkDown | timedOut | unexpectedEof
  | notFound | permissionDenied | invalidInput | invalidData | other
  deriving DecidableEq, Repr

def IoKind.name : IoKind → String
  | .addrNotAvailable => "AddrNotAvailable" | .brokenPipe => "BrokenPipe"
  | .connectionRefused => "ConnectionRefused" | .connectionReset => "ConnectionReset"
  | .hostUnreachable => "HostUnreachable" | .networkUnreachable => "NetworkUnreachable"
  | .connectionAborted => "ConnectionAborted" | .notConnected => "NotConnected"
  | .networkDown => "NetworkDown" | .timedOut => "TimedOut" | .unexpectedEof => "UnexpectedEof"
  | .notFound => "NotFound" | .permissionDenied => "PermissionDenied"
  | .invalidInput => "InvalidInput" | .invalidData => "InvalidData" | .other => "Other"

def IoKind.all : List IoKind :=
  [.addrNotAvailable, .brokenPipe, .connectionRefused, .connectionReset, .hostUnreachable,
   .networkUnreachable, .connectionAborted, .notConnected, .networkDown, .timedOut, .unexpectedEof,
   .notFound, .permissionDenied, .invalidInput, .invalidData, .other]

/-- `tungstenite::error::ProtocolError`: the variants maybe_retryable.rs mentions plus
    representatives of the others. -/
inductive WsProto
  | receivedAfterClosing | resetWithoutClosingHandshake | sendAfterClosing | handshakeIncomplete
  | wrongHttpMethod | invalidOpcode | other
  deriving DecidableEq, Repr

def WsProto.name : WsProto → String
  | .receivedAfterClosing => "ReceivedAfterClosing"
  | .resetWithoutClosingHandshake => "ResetWithoutClosingHandshake"
  | .sendAfterClosing => "SendAfterClosing" | .handshakeIncomplete => "HandshakeIncomplete"
  | .wrongHttpMethod => "WrongHttpMethod" | .invalidOpcode => "InvalidOpcode" | .other => "Other"

def WsProto.all : List WsProto :=
  [.receivedAfterClosing, .resetWithoutClosingHandshake, .sendAfterClosing, .handshakeIncomplete,
   .wrongHttpMethod, .invalidOpcode, .other]

/-- `tungstenite::Error` (0.30): all twelve variants. -/
inductive WsErr
  | connectionClosed | alreadyClosed | io (k : IoKind) | tls | capacity | protocol (p : WsProto)
  | writeBufferFull | utf8 | attackAttempt | url | http | httpFormat
  deriving DecidableEq, Repr

def WsErr.name : WsErr → String
  | .connectionClosed => "ConnectionClosed" | .alreadyClosed => "AlreadyClosed" | .io _ => "Io"
  | .tls => "Tls" | .capacity => "Capacity" | .protocol _ => "Protocol"
  | .writeBufferFull => "WriteBufferFull" | .utf8 => "Utf8" | .attackAttempt => "AttackAttempt"
  | .url => "Url" | .http => "Http" | .httpFormat => "HttpFormat"

/-- `penguin_mux::Error` (lib.rs:63-105). `webSocket none`: the boxed error is not a
    `tungstenite::Error` (the `downcast_ref` fails). -/
inductive MuxErr
  | sendStreamToClient | closed | peerUnsupportedOperation | unsupportedOperation | flowIdRejected
  | keepaliveTimeout | webSocket (e : Option WsErr) | datagramHostTooLong | invalidFrame
  | textMessage | connAckGone | channelClosed
  deriving DecidableEq, Repr

def MuxErr.name : MuxErr → String
  | .sendStreamToClient => "SendStreamToClient" | .closed => "Closed"
  | .peerUnsupportedOperation => "PeerUnsupportedOperation"
  | .unsupportedOperation => "UnsupportedOperation" | .flowIdRejected => "FlowIdRejected"
  | .keepaliveTimeout => "KeepaliveTimeout" | .webSocket _ => "WebSocket"
  | .datagramHostTooLong => "DatagramHostTooLong" | .invalidFrame => "InvalidFrame"
  | .textMessage => "TextMessage" | .connAckGone => "ConnAckGone" | .channelClosed => "ChannelClosed"

/-- One representative per variant, in declaration order (tied to `muxErrorVariants`). -/
def MuxErr.variants : List MuxErr :=
  [.sendStreamToClient, .closed, .peerUnsupportedOperation, .unsupportedOperation, .flowIdRejected,
   .keepaliveTimeout, .webSocket none, .datagramHostTooLong, .invalidFrame, .textMessage,
   .connAckGone, .channelClosed]

/-- `crate::tls::Error` (tls/mod.rs:48-74): `TcpConnect` and the rest. -/
inductive TlsErr
  | readCert | tcpConnect (k : IoKind) | rustls | dnsName | verifier | unsupportedFeature
  deriving DecidableEq, Repr

def TlsErr.name : TlsErr → String
  | .readCert => "ReadCert" | .tcpConnect _ => "TcpConnect" | .rustls => "Rustls"
  | .dnsName => "DnsName" | .verifier => "Verifier" | .unsupportedFeature => "UnsupportedFeature"

/-- `client::Error` (mod.rs:36-72). -/
inductive ClientErr
  | maxRetryCountReached (last : ClientErr) | remoteHandlerExited | invalidDomainName
  | tungstenite (e : WsErr) | tcpConnect (k : IoKind) | tls (e : TlsErr) | mux (e : MuxErr)
  | handshakeTimeout | cancelled | streamRequestTimeout | serverDisconnected
  deriving DecidableEq, Repr

def ClientErr.name : ClientErr → String
  | .maxRetryCountReached _ => "MaxRetryCountReached" | .remoteHandlerExited => "RemoteHandlerExited"
  | .invalidDomainName => "InvalidDomainName" | .tungstenite _ => "Tungstenite"
  | .tcpConnect _ => "TcpConnect" | .tls _ => "Tls" | .mux _ => "Mux"
  | .handshakeTimeout => "HandshakeTimeout" | .cancelled => "Cancelled"
  | .streamRequestTimeout => "StreamRequestTimeout" | .serverDisconnected => "ServerDisconnected"

/-- One representative per variant, in declaration order (tied to `clientErrorVariants`). -/
def ClientErr.variants : List ClientErr :=
  [.maxRetryCountReached .cancelled, .remoteHandlerExited, .invalidDomainName,
   .tungstenite .connectionClosed, .tcpConnect .other, .tls .rustls, .mux .closed,
   .handshakeTimeout, .cancelled, .streamRequestTimeout, .serverDisconnected]

/-! ### `retryable` (maybe_retryable.rs) -/

/-- maybe_retryable.rs:10-25: a `||`-chain of kind tests. -/
def IoKind.retryable (k : IoKind) : Bool := retryableIoKinds.contains k.name

/-- maybe_retryable.rs:27-38: `matches!(self, …)`. -/
def WsProto.retryable (p : WsProto) : Bool := retryableWsProtocol.contains p.name

/-- maybe_retryable.rs:40-54: `Io(e) => e.retryable()`, `AlreadyClosed | ConnectionClosed => true`,
    `Protocol(e) => e.retryable()`, `_ => false`. -/
def WsErr.retryable : WsErr → Bool
  | .io k => wsDelegating.contains "Io" && k.retryable
  | .protocol p => wsDelegating.contains "Protocol" && p.retryable
  | e => wsRetryableDirect.contains e.name

/-- maybe_retryable.rs:56-66: three variants, and `WebSocket(e)` iff `e` downcasts to a retryable
    `tungstenite::Error`. -/
def MuxErr.retryable : MuxErr → Bool
  | .webSocket (some e) => muxWebSocketDowncastsTungstenite && e.retryable
  | .webSocket none => false
  | e => muxRetryableDirect.contains e.name

/-- maybe_retryable.rs:68-75. -/
def TlsErr.retryable : TlsErr → Bool
  | .tcpConnect k => tlsDelegating.contains "TcpConnect" && k.retryable
  | e => tlsRetryableDirect.contains e.name

/-- maybe_retryable.rs:77-88. -/
def ClientErr.retryable : ClientErr → Bool
  | .tungstenite e => clientDelegating.contains "Tungstenite" && e.retryable
  | .tcpConnect k => clientDelegating.contains "TcpConnect" && k.retryable
  | .tls e => clientDelegating.contains "Tls" && e.retryable
  | .mux e => clientDelegating.contains "Mux" && e.retryable
  | e => clientRetryableDirect.contains e.name

/-! ### The retry loop of `client_main_inner` (mod.rs:318-369) -/

/-- What one pass through `handshake(args).and_then(on_connected …)` yields (mod.rs:330-343). -/
inductive Outcome
  /-- `ws_connect::handshake` returned `Err(e)` (connect refused, TLS failure, HTTP error,
      `HandshakeTimeout`, …): `on_connected` never ran, `backoff.reset()` is NOT called. -/
  | handshakeErr (e : ClientErr)
  /-- the handshake succeeded and `on_connected` returned `Err(e)`: `backoff.reset()` runs. -/
  | connectedErr (e : ClientErr)
  /-- `on_connected` returned `Ok(())` (the user pressed Ctrl-C). -/
  | connectedOk
  /-- the pass never returns (connection stays healthy, or the handshake stalls with no time-out). -/
  | never
  deriving DecidableEq, Repr

/-- How `client_main_inner`'s main future ends, or why the script run stopped. -/
inductive Final
  /-- `Ok(())` -/
  | ok
  /-- a non-retryable error is returned as it is (mod.rs:350) -/
  | fatal (e : ClientErr)
  /-- `Err(MaxRetryCountReached(last))` (mod.rs:354-357) -/
  | gaveUp (last : ClientErr)
  /-- `Err(Cancelled)`: Ctrl-C during the back-off sleep (mod.rs:359-365) -/
  | cancelled
  /-- mod.rs:347-349: an `Err(Cancelled)` reaching the loop is a `panic!` (`handshake` returns it
      when Ctrl-C arrives during the handshake, ws_connect.rs:111) -/
  | panicCancelled
  /-- the current pass never returns -/
  | stays
  /-- the script is exhausted and the loop would make another attempt -/
  | scriptEnd
  deriving DecidableEq, Repr

/-- mod.rs:344-367 for `r = Err(e)`, with `b` the back-off state after the optional reset:
    either the loop ends, or it sleeps `d` ms and goes round again with back-off state `b'`.
    `ctrlC`: the user presses Ctrl-C during this sleep. -/
def retryStep (b : Backoff) (e : ClientErr) (ctrlC : Bool) : Final ⊕ (Backoff × Nat) :=
  if e = .cancelled then .inl .panicCancelled
  else if e.retryable = false then .inl (.fatal e)
  else
    match b.advance with
    | (_, none) => .inl (.gaveUp e)
    | (b', some d) => if ctrlC then .inl .cancelled else .inr (b', d)

/-- One turn of the loop, mod.rs:330-367. -/
def stepLoop (b : Backoff) (o : Outcome) (ctrlC : Bool) : Final ⊕ (Backoff × Nat) :=
  match o with
  | .never => .inl .stays
  | .connectedOk => .inl .ok
  | .handshakeErr e => retryStep b e ctrlC
  | .connectedErr e => retryStep b.reset e ctrlC

/-- The retry loop over a script of outcomes (each with "Ctrl-C during the following sleep"):
    the delays slept, and how it ends. -/
def runLoop (b : Backoff) : List (Outcome × Bool) → List Nat × Final
  | [] => ([], .scriptEnd)
  | (o, c) :: rest =>
    match stepLoop b o c with
    | .inl f => ([], f)
    | .inr (b', d) => let r := runLoop b' rest; (d :: r.1, r.2)

/-- The generator `client_main_inner` creates (mod.rs:320-325). -/
def clientBackoff (maxRetryCount maxRetryInterval : Nat) : Backoff :=
  Backoff.new backoffInitialMs maxRetryInterval backoffMult maxRetryCount

/-! ### The connected main loop `on_connected` (mod.rs:387-455) and the parked request -/

/-- A stream command = one accepted local connection asking for a channel, by identity. -/
abbrev Req := Nat

/-- How one `get_send_stream_chan` call ends (mod.rs:460-493). -/
inductive StreamRes
  /-- the channel was opened and handed to the listener -/
  | ok
  /-- `channel_timeout` elapsed first -/
  | timeout
  /-- `new_stream_channel` failed (multiplexor closed, flow id rejected, …) -/
  | muxErr (e : MuxErr)
  /-- Ctrl-C; in the main loop the multiplexor task then ends with `task` (`none` = `Ok(())`) -/
  | cancelled (task : Option MuxErr)
  /-- neither answer nor time-out (no `channel_timeout` configured and a silent server) -/
  | never
  deriving DecidableEq, Repr

/-- The stream requests the client holds.  `served`, `dropped`, `lost` are ghost logs. -/
structure Reqs where
  /-- `failed_stream_request` (mod.rs:327) -/
  parked : Option Req := none
  /-- contents of the `stream_command` channel, oldest first -/
  queue : List Req := []
  /-- a request whose `get_send_stream_chan` call never returns -/
  inflight : Option Req := none
  /-- requests that got their channel, with the index of the attempt that served them -/
  served : List (Req × Nat) := []
  /-- requests dropped because the user cancelled -/
  dropped : List Req := []
  /-- requests overwritten in the parking slot (`Option::replace` drops the old value) -/
  lost : List Req := []
  /-- index of the current attempt (ghost) -/
  gen : Nat := 0
  deriving DecidableEq, Repr

def Reqs.enqueue (rs : Reqs) (rq : List Req) : Reqs := { rs with queue := rs.queue ++ rq }

/-- `failed_stream_request.replace(stream_command)` (mod.rs:473, 487). -/
def Reqs.park (rs : Reqs) (r : Req) : Reqs :=
  { rs with parked := some r, lost := rs.lost ++ rs.parked.toList }

/-- mod.rs:460-493 for request `r`. -/
def getSendStreamChan (rs : Reqs) (r : Req) : StreamRes → Reqs × Option (Except ClientErr Unit)
  | .ok => ({ rs with served := rs.served ++ [(r, rs.gen)] }, some (.ok ()))
  | .timeout => (rs.park r, some (.error .streamRequestTimeout))
  | .muxErr e => (rs.park r, some (.error (.mux e)))
  | .cancelled _ => ({ rs with dropped := rs.dropped ++ [r] }, some (.error .cancelled))
  | .never => ({ rs with inflight := some r }, none)

/-- What the environment / scheduler does while the client is connected. -/
inductive ConnEvent
  /-- a local listener accepted a connection and put a stream command into the channel -/
  | arrive (r : Req)
  /-- `select!` takes the `stream_command_rx.recv()` arm (possible only when the channel is not
      empty) and the `get_send_stream_chan` call ends as given -/
  | serveNext (res : StreamRes)
  /-- the multiplexor task ended: `none` = `Ok(())` (orderly close by the server), `some e` = `Err(e)` -/
  | muxEnded (r : Option MuxErr)
  /-- one of the two datagram arms ran -/
  | datagram
  /-- Ctrl-C; the multiplexor task then ends with `task` -/
  | ctrlC (task : Option MuxErr)
  /-- every `select!` branch is disabled (`else`, mod.rs:446) -/
  | allClosed
  deriving DecidableEq, Repr

/-- How `on_connected` ends: with a result, or not within the script. -/
inductive ConnOut
  | exit (r : Except ClientErr Unit)
  | running
  deriving DecidableEq, Repr

/-- mod.rs:449-454: after `break`, the multiplexor is dropped and its task awaited. -/
def windDown : Option MuxErr → Except ClientErr Unit
  | none => .ok ()
  | some e => .error (.mux e)

/-- Local listeners run independently of the main loop: arrivals scripted after the loop's exit
    still reach the channel. -/
def drainArrivals (rs : Reqs) : List ConnEvent → Reqs
  | [] => rs
  | .arrive r :: evs => drainArrivals (rs.enqueue [r]) evs
  | _ :: evs => drainArrivals rs evs

/-- The `loop { select! { … } }` of mod.rs:414-448. -/
def mainLoop (rs : Reqs) : List ConnEvent → Reqs × ConnOut
  | [] => (rs, .running)
  | .arrive r :: evs => mainLoop (rs.enqueue [r]) evs
  | .datagram :: evs => mainLoop rs evs
  | .serveNext res :: evs =>
    match rs.queue with
    | [] => mainLoop rs evs
    | r :: q =>
      match getSendStreamChan { rs with queue := q } r res with
      | (rs', some (.ok ())) => mainLoop rs' evs
      | (rs', some (.error .cancelled)) =>
        (drainArrivals rs' evs, .exit (windDown (match res with | .cancelled t => t | _ => none)))
      | (rs', some (.error e)) => (drainArrivals rs' evs, .exit (.error e))
      | (rs', none) => (drainArrivals rs' evs, .running)
  | .muxEnded (some e) :: evs => (drainArrivals rs evs, .exit (.error (.mux e)))
  | .muxEnded none :: evs =>
    -- mod.rs:416-418: `?` only leaves on `Err`; what follows the `?` is read by the extractor
    if muxTaskOkExits then (drainArrivals rs evs, .exit (.error .serverDisconnected))
    else mainLoop rs evs
  | .ctrlC t :: evs => (drainArrivals rs evs, .exit (windDown t))
  | .allClosed :: evs => (drainArrivals rs evs, .exit (.error .serverDisconnected))

/-- `on_connected` (mod.rs:387-455): the parked request first (mod.rs:401-412, `parkedRes` is how
    that call ends), then the main loop. -/
def onConnected (rs : Reqs) (parkedRes : StreamRes) (evs : List ConnEvent) : Reqs × ConnOut :=
  match rs.parked with
  | none => mainLoop rs evs
  | some r =>
    match getSendStreamChan { rs with parked := none } r parkedRes with
    | (rs', some (.ok ())) => mainLoop rs' evs
    | (rs', some (.error .cancelled)) => (drainArrivals rs' evs, .exit (.ok ()))
    | (rs', some (.error e)) => (drainArrivals rs' evs, .exit (.error e))
    | (rs', none) => (drainArrivals rs' evs, .running)

/-! ### Whole client: retry loop + connected loop + command channel -/

/-- One connection attempt as the environment scripts it. -/
inductive Attempt
  /-- the handshake fails with `e`; `arrivals` reach the command channel before the next attempt -/
  | down (e : ClientErr) (arrivals : List Req)
  /-- the handshake never returns -/
  | hang (arrivals : List Req)
  /-- the handshake succeeds; `on_connected` sees `parkedRes` (if a request is parked) and `evs` -/
  | up (parkedRes : StreamRes) (evs : List ConnEvent)
  deriving DecidableEq, Repr

def attemptOutcome (rs : Reqs) : Attempt → Reqs × Outcome
  | .down e arr => (rs.enqueue arr, .handshakeErr e)
  | .hang arr => (rs.enqueue arr, .never)
  | .up pr evs =>
    match onConnected rs pr evs with
    | (rs', .exit (.ok ())) => (rs', .connectedOk)
    | (rs', .exit (.error e)) => (rs', .connectedErr e)
    | (rs', .running) => (rs', .never)

structure Run where
  sleeps : List Nat
  final : Final
  reqs : Reqs
  /-- number of connection attempts started -/
  attempts : Nat
  deriving DecidableEq, Repr

/-- `client_main_inner`'s main future over a script of attempts (each with "Ctrl-C during the
    following sleep"). -/
def clientRun (b : Backoff) (rs : Reqs) : List (Attempt × Bool) → Run
  | [] => { sleeps := [], final := .scriptEnd, reqs := rs, attempts := 0 }
  | (a, c) :: rest =>
    let ro := attemptOutcome rs a
    match stepLoop b ro.2 c with
    | .inl f => { sleeps := [], final := f, reqs := ro.1, attempts := 1 }
    | .inr (b', d) =>
      let r := clientRun b' { ro.1 with gen := ro.1.gen + 1 } rest
      { r with sleeps := d :: r.sleeps, attempts := r.attempts + 1 }

/-- The outcomes of a script of attempts, each computed from the request state the previous ones
    left (used to relate `clientRun` to `runLoop`). -/
def outcomes (rs : Reqs) : List (Attempt × Bool) → List (Outcome × Bool)
  | [] => []
  | (a, c) :: rest =>
    let ro := attemptOutcome rs a
    (ro.2, c) :: outcomes { ro.1 with gen := ro.1.gen + 1 } rest

/-! ### Scripted-server scenarios (what harness-full/src/bin/client.rs runs for real) -/

/-- Scheme of the server URL (`ws_connect.rs:19-24`, `is_tls`): over `wss` the TCP connection is
    wrapped by `tls_connect` before the upgrade request is sent, so a connection that is closed or
    answered with nonsense before the upgrade is reported by that layer (`Error::Tls`) and not by
    tungstenite. The whole of `handshake_inner` — TCP connect, TLS handshake, upgrade — races against
    the one `handshake_timeout` (`ws_connect.rs:105-109`). -/
inductive Transport
  | ws | wss
  deriving DecidableEq, Repr

structure Config where
  maxRetryCount : Nat
  maxRetryInterval : Nat
  /-- `None` = no time-out -/
  handshakeTimeout : Option Nat
  channelTimeout : Option Nat
  transport : Transport := .ws
  deriving DecidableEq, Repr

/-- What the scripted server does with one accepted TCP connection. -/
inductive Behaviour
  /-- close at once: the WebSocket handshake fails with a transport error -/
  | refuse
  /-- accept and never answer: over `ws` the HTTP upgrade stalls, over `wss` the TLS handshake
      (nothing comes back for the ClientHello) -/
  | stall
  /-- (`wss`) the answer to the ClientHello stops after its first TLS record (the ServerHello): the
      TLS handshake stalls half-way -/
  | stallTls
  /-- complete the TLS handshake (if any), read the upgrade request, never answer it -/
  | stallUpgrade
  /-- a plain-HTTP port: whatever arrives first is answered with `HTTP/1.1 400` in clear text and
      the connection is closed. Over `ws` that is an HTTP error, over `wss` the bytes are not a TLS
      record: `rustls` fails, tokio-rustls wraps it in an `io::Error` of kind `InvalidData`, and
      `tls_connect` (tls/mod.rs:127-130) maps every error of the handshake to `tls::Error::TcpConnect` -/
  | plain400
  /-- answer the upgrade with `404` -/
  | reject
  /-- complete the handshake with the real server, cut the TCP connection after `d` ms -/
  | closeAbrupt (d : Nat)
  /-- complete the handshake, send a WebSocket Close after `d` ms, then close -/
  | closeOrderly (d : Nat)
  /-- complete the handshake, then swallow everything the client sends -/
  | mute
  /-- complete the handshake, swallow everything the client sends, cut the TCP connection after
      `d` ms (`d` below the channel time-out): a stream request in flight fails with
      `penguin_mux::Error::Closed` -/
  | muteCut (d : Nat)
  /-- complete the handshake and keep relaying -/
  | healthy
  deriving DecidableEq, Repr

/-- A script step: the behaviour for this attempt, and the local connections (identified by
    numbers, each on a listener of its own) that the harness opens during this attempt (for a failed
    handshake: before the next attempt), in the order their stream commands reach the channel. -/
structure Step where
  beh : Behaviour
  localReqs : List Req
  deriving DecidableEq, Repr

/-- `n` chances for the main loop to take a command from the channel, each answered. -/
def serveAll (n : Nat) : List ConnEvent := List.replicate n (.serveNext .ok)

/-- What tungstenite reports when the TCP connection under an established WebSocket is cut: over
    `ws` the protocol error, over `wss` the `io::Error` of the TLS stream that ended without
    `close_notify` (both retryable, both seen by the client as `Mux(WebSocket(_))`). -/
def cutErr : Transport → WsErr
  | .ws => .protocol .resetWithoutClosingHandshake
  | .wss => .io .unexpectedEof

/-- The attempt a step stands for; `n` bounds the number of requests that can be pending (the main
    loop gets that many chances to take a command from the channel). -/
def Step.attempt (cfg : Config) (n : Nat) (s : Step) : Attempt :=
  let arr := s.localReqs
  let arrE := arr.map ConnEvent.arrive
  match s.beh with
  | .refuse =>
    match cfg.transport with
    | .ws => .down (.tungstenite (.protocol .handshakeIncomplete)) arr
    -- end of file in the TLS handshake: `io::ErrorKind::UnexpectedEof` ("tls handshake eof")
    | .wss => .down (.tls (.tcpConnect .unexpectedEof)) arr
  | .reject => .down (.tungstenite .http) arr
  | .plain400 =>
    match cfg.transport with
    | .ws => .down (.tungstenite .http) arr
    | .wss => .down (.tls (.tcpConnect .invalidData)) arr
  | .stall | .stallTls | .stallUpgrade =>
    match cfg.handshakeTimeout with
    | some _ => .down .handshakeTimeout arr
    | none => .hang arr
  | .closeAbrupt _ =>
    .up .ok (arrE ++ serveAll n ++ [.muxEnded (some (.webSocket (some (cutErr cfg.transport))))])
  | .closeOrderly _ => .up .ok (arrE ++ serveAll n ++ [.muxEnded none])
  | .healthy => .up .ok (arrE ++ serveAll n)
  | .mute =>
    match cfg.channelTimeout with
    | some _ => .up .timeout (arrE ++ [.serveNext .timeout])
    | none => .up .never (arrE ++ [.serveNext .never])
  | .muteCut _ =>
    .up (.muxErr .closed) (arrE ++ [.serveNext (.muxErr .closed),
      .muxEnded (some (.webSocket (some (cutErr cfg.transport))))])

/-- Number of local connections in the whole script: no more than that many can ever be waiting. -/
def requestCount (steps : List Step) : Nat := (steps.map (·.localReqs.length)).sum

def runScenario (cfg : Config) (steps : List Step) : Run :=
  clientRun (clientBackoff cfg.maxRetryCount cfg.maxRetryInterval) {}
    (steps.map fun s => (s.attempt cfg (requestCount steps), false))

/-! ### Text forms for the driver -/

def parseOptMs (s : String) : Option (Option Nat) :=
  if s = "-" then some none else s.toNat?.map some

def parseBeh (s : String) : Option Behaviour :=
  match s.splitOn ":" with
  | ["refuse"] => some .refuse
  | ["stall"] => some .stall
  | ["tlsstall"] => some .stallTls
  | ["upstall"] => some .stallUpgrade
  | ["plain400"] => some .plain400
  | ["reject"] => some .reject
  | ["mute"] => some .mute
  | ["healthy"] => some .healthy
  | ["abrupt", d] => d.toNat?.map .closeAbrupt
  | ["orderly", d] => d.toNat?.map .closeOrderly
  | ["mutecut", d] => d.toNat?.map .muteCut
  | _ => none

/-- `ws`, or `wss-ca` / `wss-insecure` (how the client verifies the server does not matter here). -/
def parseTransport (s : String) : Option Transport :=
  if s = "ws" then some .ws else if s = "wss-ca" ∨ s = "wss-insecure" then some .wss else none

/-- `<behaviour>` followed by any number of `+<request number>`. -/
def parseStep (s : String) : Option Step :=
  match s.splitOn "+" with
  | b :: rs => do
    let b ← parseBeh b
    let rs ← rs.mapM String.toNat?
    pure { beh := b, localReqs := rs }
  | [] => none

def parseIo (s : String) : Option IoKind := IoKind.all.find? (·.name == s)
def parseProto (s : String) : Option WsProto := WsProto.all.find? (·.name == s)

def parseWs : List String → Option WsErr
  | ["Io", k] => (parseIo k).map .io
  | ["Protocol", p] => (parseProto p).map .protocol
  | [n] => [WsErr.connectionClosed, .alreadyClosed, .tls, .capacity, .writeBufferFull, .utf8,
            .attackAttempt, .url, .http, .httpFormat].find? (·.name == n)
  | _ => none

def parseMux : List String → Option MuxErr
  | ["WebSocket", "Opaque"] => some (.webSocket none)
  | "WebSocket" :: rest => (parseWs rest).map (.webSocket ∘ some)
  | [n] => MuxErr.variants.find? (fun e => e.name == n && n != "WebSocket")
  | _ => none

/-- Errors as `/`-separated paths of Rust variant names, e.g. `Mux/WebSocket/Io/ConnectionReset`,
    `Tungstenite/Http`, `HandshakeTimeout`, `Mux/WebSocket/Opaque` (boxed error of another type). -/
def parseErrPath : List String → Option ClientErr
  | "Tungstenite" :: rest => (parseWs rest).map .tungstenite
  | ["TcpConnect", k] => (parseIo k).map .tcpConnect
  | ["Tls", "TcpConnect", k] => (parseIo k).map (.tls ∘ .tcpConnect)
  | ["Tls", n] => [TlsErr.readCert, .rustls, .dnsName, .verifier, .unsupportedFeature].find? (·.name == n)
      |>.map .tls
  | "Mux" :: rest => (parseMux rest).map .mux
  | ["RemoteHandlerExited"] => some .remoteHandlerExited
  | ["InvalidDomainName"] => some .invalidDomainName
  | ["HandshakeTimeout"] => some .handshakeTimeout
  | ["Cancelled"] => some .cancelled
  | ["StreamRequestTimeout"] => some .streamRequestTimeout
  | ["ServerDisconnected"] => some .serverDisconnected
  | _ => none

def parseErr (s : String) : Option ClientErr := parseErrPath (s.splitOn "/")

/-- Coarse class of an error, as the harness can observe it on the real client. -/
def ClientErr.cls : ClientErr → String
  | .tungstenite .http => "http"
  | .tungstenite _ => "transport"
  | .tcpConnect _ => "transport"
  | .tls _ => "tls"
  | .mux _ => "mux"
  | .handshakeTimeout => "handshake-timeout"
  | .streamRequestTimeout => "stream-request-timeout"
  | .serverDisconnected => "server-disconnected"
  | .cancelled => "cancelled"
  | .maxRetryCountReached _ => "max-retry"
  | .remoteHandlerExited => "remote-handler-exited"
  | .invalidDomainName => "invalid-domain-name"

def showFinal : Final → String
  | .ok => "ok"
  | .fatal e => s!"fatal:{e.cls}"
  | .gaveUp e => s!"gaveup:{e.cls}"
  | .cancelled => "cancelled"
  | .panicCancelled => "panic"
  | .stays => "stays"
  | .scriptEnd => "script-end"

private def joinOrDash (xs : List String) : String :=
  if xs.isEmpty then "-" else ",".intercalate xs

def showScenario (r : Run) : String :=
  s!"sleeps={joinOrDash (r.sleeps.map toString)} attempts={r.attempts} final={showFinal r.final} " ++
  s!"served={joinOrDash (r.reqs.served.map fun (q, g) => s!"{q}@{g}")} " ++
  s!"parked={joinOrDash (r.reqs.parked.toList.map toString)} " ++
  s!"queued={joinOrDash ((r.reqs.inflight.toList ++ r.reqs.queue).map toString)} " ++
  s!"lost={joinOrDash ((r.reqs.lost ++ r.reqs.dropped).map toString)}"

end Penguin.Client
