/-
Additions to the endpoint model (`Penguin.Mux`) for stimuli the correspondence harness gained after
the proof development over `Model/Mux.lean` was written.  Nothing in `Model/Mux.lean` is changed:
the functions here are composed with `settle` by the driver (`Drv/Mux.lean`), so the lemmas and
property theorems over `opStep` / `applyOp` are untouched (they do not speak about these stimuli).
Core Lean only.
-/
import Penguin.Model.Mux

namespace Penguin.Mux

/-- `MuxStream::poll_write_push` (stream.rs:118-124), one poll: the frame-level writer. It is
    `poll_write` (`appWrite`) without the early return for an empty buffer: an empty payload costs one
    unit of the peer's window and travels as a zero-length `Push` (what a foreign implementation, or a
    penguin peer from before commit 99dee34, sends for an empty write). -/
def appWritePush (e : EP) (h : Nat) (d : Bytes) : EP × Res :=
  match e.handleObj h with
  | none => (e, .badHandle)
  | some (i, o) =>
    if o.finishSent then (e.modObj i (fun o => { o with parked := false }), .brokenPipe)
    else if o.credit = 0 then (e.modObj i (fun o => { o with parked := true, woken := false }), .pending)
    else if e.outClosed then (e.modObj i (fun o => { o with credit := o.credit - 1, parked := false }), .brokenPipe)
    else ((e.modObj i (fun o => { o with credit := o.credit - 1, parked := false })).enqFrame (.push o.fid d), .wrote d.length)

/-- The stimulus `wpush`: the call, then the task runs to quiescence. -/
def applyWritePush (e : EP) (h : Nat) (d : Bytes) : EP × Res × List Ev :=
  let (e, r) := appWritePush e h d
  let (e, evs) := settle e
  (e, r, evs)

/-- The transport makes several items available at once (same guard as `opStep (.deliver _)`:
    nothing arrives any more once the source has ended or failed). -/
def deliverMany (e : EP) (ws : List WsIn) : EP :=
  if e.srcEnded || e.inbox.any (fun x => x == .eof || x == .err) then e
  else { e with inbox := e.inbox ++ ws }

/-- The stimuli `deliver closeerr` (the peer sends Close and the connection is then reset: the source
    yields an error after the Close, not a clean end) and `deliver err2` (the source reports its failure
    twice). What the task does with them is what `settle` does with any inbox: task.rs `wind_down`
    stops reading at the first `Some(Err(_))` / `None` (`let Some(Ok(msg)) = item else { break }`) and
    goes on to end every slot — `windDownInbox` on `.err`. -/
def applyDeliverMany (e : EP) (ws : List WsIn) : EP × Res × List Ev :=
  let (e, evs) := settle (deliverMany e ws)
  (e, .unit, evs)

/-- The stimulus `dropmany`: several `MuxStream`s are dropped back to back before the connection task
    runs again (each posts its notification; handles that are not live are skipped), then the task
    runs to quiescence — its notification loop takes them one by one, in order. In the fine-grained
    pair model (`Model/Pair.lean`) this is `dropStream`, …, `dropStream`, `notif`, …, `notif`. -/
def applyDropMany (e : EP) (hs : List Nat) : EP × Res × List Ev :=
  let (e, evs) := settle (hs.foldl (fun e h => (appDropStream e h).1) e)
  (e, .unit, evs)

/-- The stimulus `batch`: several application calls made back to back before the connection task
    runs again (each is `opStep`, exactly as in a stimulus of its own), then the task and the open
    futures run to quiescence once. Results in call order. In the fine-grained pair model this is the
    calls, one action each, followed by the task's actions. -/
def applyBatch (e : EP) (ops : List Op) : EP × List Res × List Ev :=
  let acc := ops.foldl (fun (acc : EP × List Res × List Ev) op =>
    let r := opStep acc.1 op
    (r.1, acc.2.1 ++ [r.2.1], acc.2.2 ++ r.2.2)) (e, [], [])
  let s := settle acc.1
  (s.1, acc.2.1, acc.2.2 ++ s.2)

end Penguin.Mux
