/-
C08 — When the connection ends, everything resolves; a local drop still flushes.
Theorems over the endpoint model: for EVERY endpoint state in which a terminating event occurs
(peer Close, end of the source, transport error, invalid frame, Multiplexor dropped — keepalive
expiry takes the same error path, see C16), what the wind-down does and what later calls answer.

Known finding (not a theorem, see known_findings.txt): after a *local* drop of the Multiplexor the
task still waits for the peer to complete the close handshake; if the peer never does, streams the
application kept are not closed. The error paths and peer-initiated closes below do not wait.
("no open request is left pending" is stated as: those still listed have been told 'rejected' and
resolve in the same step, see `rejected_opens_resolve_after_end`.)
-/
import Penguin.Model.Mux
import Penguin.Lemmas.MuxBasic
import Penguin.Lemmas.MuxStep
import Penguin.Lemmas.LinkGlue
import Penguin.Lemmas.MuxReach
import Penguin.Lemmas.MuxWake
import Penguin.Lemmas.MuxMono
import Penguin.Lemmas.MuxEnd
import Penguin.Lemmas.PairAllDrop

namespace Penguin.C08
open Penguin Penguin.Mux

/-- Which events end the receive loop, and with which task result. -/
theorem terminating_events (e : EP) (ig : Bool) (err : DecErr) :
    (processIn e (.msg .close) ig).2.2 = some .ok ∧ (processIn e .eof ig).2.2 = some .ok ∧
    (processIn e .err ig).2.2 = some .wsError ∧ (processIn e (.bad err) ig).2.2 = some (.invalidFrame err) ∧
    (processIn e (.msg .ping) ig).2.2 = none ∧ (processIn e (.msg .pong) ig).2.2 = none :=
  ⟨rfl, rfl, rfl, rfl, rfl, rfl⟩

/-- After an error (transport failure, invalid frame, …; those paths never drain) the wind-down
    completes at once, whatever the peer does afterwards: the task is finished with that error, the
    flow table is empty and no open request is left pending — nothing waits for a silent peer. -/
theorem error_resolves_everything (e : EP) (res : ExitRes) (hres : res ≠ .ok) :
    let r := windDown e false res
    r.1.dead = true ∧ r.1.flows = [] ∧ (∀ q ∈ r.1.opens, q.req ∈ r.1.retryq) ∧ r.1.park = none ∧
    r.2.getLast? = some (.exit res) :=
  Mux.windDown_error_resolves e res hres

/-- The open requests still listed after the wind-down are exactly those that had already been told
    "rejected" by the peer; their futures run one more round right away (`runRetries` in `settle`),
    which with the outbound queue closed always resolves them — FlowIdRejected when no retry is left,
    `Closed` otherwise — and sends nothing. -/
theorem rejected_opens_resolve_after_end (e : EP) (r : OpenReq) (hoc : e.outClosed = true) :
    ((openRound e r).2 = [.openDone r.req .rejected] ∨ (openRound e r).2 = [.openDone r.req .closed]) ∧
    (openRound e r).1.outq = e.outq ∧ (∀ q ∈ (openRound e r).1.opens, q.req ≠ r.req) :=
  Mux.openRound_closed_resolves e r hoc

/-- The same once the source has ended (peer closed the connection or the transport is gone). -/
theorem source_end_resolves_everything (e : EP) (res : ExitRes) (hs : e.srcEnded = true) :
    let r := windDown e false res
    r.1.dead = true ∧ r.1.flows = [] ∧ (∀ q ∈ r.1.opens, q.req ∈ r.1.retryq) ∧ r.1.park = none ∧
    r.2.getLast? = some (.exit res) :=
  Mux.windDown_srcEnded_resolves e res hs

/-- Every established stream that was in the flow table when the final drain ran is closed in both
    directions (its object has `finishSent` and has lost its channel sender) … -/
theorem drain_closes_streams (e : EP) (l : List (Nat × Slot)) (fid i : Nat)
    (hm : (fid, Slot.established i) ∈ l) : closedAt (drainFlows e l).1 i :=
  Mux.drainFlows_closes e l fid i hm

/-- … so that a read on it returns the data already delivered and then end-of-stream, never pending, … -/
theorem closed_stream_read_resolves (e : EP) (h i : Nat) (o : Obj) (n : Nat)
    (hh : e.handles[h]? = some i) (ho : e.objs[i]? = some o) (hc : o.senderAlive = false) :
    (appRead e h n).2 ≠ .pending := by
  have hobj : e.handleObj h = some (i, o) := by simp [EP.handleObj, hh, ho]
  simp only [appRead, hobj]
  have := Mux.fillBuf_closed_not_pending (o.rxq.length + 2) e i o ho hc (by omega)
  split
  · simp
  · rename_i r hr
    intro hp
    apply this
    rw [← hp]

/-- … and a write fails with BrokenPipe without transmitting anything. -/
theorem closed_stream_write_fails (e : EP) (h i : Nat) (o : Obj) (d : Bytes)
    (hh : e.handles[h]? = some i) (ho : e.objs[i]? = some o) (hc : o.finishSent = true) :
    (appWrite e h d).2 = .brokenPipe ∧ (appWrite e h d).1.outq = e.outq ∧
    (appWrite e h d).1.objs[i]? = some { o with parked := false } :=
  (Mux.appWrite_glue e h i o d hh ho).1 hc

/-- Multiplexor calls after the task has finished: `Closed` (queued streams / datagrams / bind
    requests are still handed out first), a negative bind answer or `Closed` for new requests —
    and a new open or bind request leaves the flow table as it was (no slot stays behind for a
    request that could not be sent; C06 `open_on_ended_connection_leaves_no_slot`). -/
theorem calls_after_end (e : EP) (hd : e.dead = true) (hoc : e.outClosed = true) :
    (e.acceptq = [] → appAccept e = (e, .closed)) ∧
    (e.dgramq = [] → appRecvDgram e = (e, .closed)) ∧
    (e.opts.bindCap ≠ 0 → e.bindq = [] → appBindNext e = (e, .closed)) ∧
    (∀ d, d.host.length ≤ 255 → appSendDgram e d = (e, .closed)) ∧
    (∀ req host port, ∃ e', e'.flows = e.flows ∧ (appOpen e req host port = (e', [.openDone req .closed]) ∨
        appOpen e req host port = (e', [.openDone req .rejected]))) ∧
    (∀ req bt host port, (appBindReq e req bt host port).1.flows = e.flows ∧
        (appBindReq e req bt host port).2 = [.bindDone req .closed]) := by
  refine ⟨?_, ?_, ?_, ?_, ?_, ?_⟩
  · intro h; simp [appAccept, h, hd]
  · intro h; simp [appRecvDgram, h, hd]
  · intro hb h; simp [appBindNext, hb, h, hd]
  · intro d hl
    have : ¬ 255 < d.host.length := by omega
    simp [appSendDgram, this, hoc]
  · intro req host port
    simp only [appOpen, openRound]
    split
    · refine ⟨_, ?_, Or.inr rfl⟩; rfl
    · split
      · refine ⟨_, ?_, Or.inr rfl⟩; rfl
      · simp only [hoc, if_true]; refine ⟨_, ?_, Or.inl rfl⟩; rfl
  · intro req bt host port
    simp only [appBindReq]
    split
    · exact ⟨rfl, rfl⟩
    · simp [hoc]

/-- Pending open and bind requests in the flow table at teardown resolve: `Closed` for opens (never
    `FlowIdRejected`), `false` for binds. -/
theorem pending_requests_resolve (e : EP) (fid req : Nat) (r : OpenReq) (inh : Bool)
    (hw : e.opens.find? (·.req = req) = some r) :
    (closeLocal e (.requested req) fid inh true).2 = [.openDone req .closed] ∧
    (closeLocal e (.bindRequested req) fid inh true).2 = [.bindDone req .refused] := by
  simp [closeLocal, openRejected, hw]

/-- A local drop still flushes: when the Multiplexor is dropped, every message queued before the
    drop (data already written, Finish, Reset, datagrams) is handed to the transport, in order,
    before the WebSocket is closed … -/
theorem flush_on_drop (e : EP) (res : ExitRes) (hs : e.sinkRoom = none) :
    ∃ rest, (windDown e true res).2 = e.outq.map Ev.wire ++ Ev.wireClose :: rest :=
  Mux.windDown_drain_flushes e res hs

/-- … also under back-pressure: what the sink accepts goes out at once, in order; the remainder
    stays queued, in order (nothing is lost or reordered), and the wind-down waits in its drain
    loop; when nothing remains the sink is closed right after the last message. -/
theorem flush_on_drop_backpressure (e : EP) (res : ExitRes) :
    ∃ sent, sent ++ (sendSome (dropPrep e)).1.outq = e.outq ∧ (sendSome (dropPrep e)).2 = sent.map Ev.wire ∧
      (((sendSome (dropPrep e)).1.outq ≠ [] →
          (windDown e true res).2 = sent.map Ev.wire ∧ (windDown e true res).1.outq = (sendSome (dropPrep e)).1.outq ∧
          (windDown e true res).1.draining = some res) ∧
       ((sendSome (dropPrep e)).1.outq = [] →
          ∃ rest, (windDown e true res).2 = e.outq.map Ev.wire ++ Ev.wireClose :: rest)) :=
  Mux.windDown_drain_partial e res

/-- … until the sink accepts messages again: each time the task runs, the drain loop hands over the
    next messages of the queue, in order; while some remain it stays parked with exactly those, and
    once the queue is empty the sink is closed. -/
theorem drain_resumes (e : EP) (res : ExitRes) (fuel : Nat) (acc : List Ev)
    (hd : e.dead = false) (hdr : e.draining = some res) :
    settleLoop (fuel + 1) e acc = ((drainStep e res).1, acc ++ (drainStep e res).2) ∧
    ∃ sent, sent ++ (sendSome e).1.outq = e.outq ∧ (sendSome e).2 = sent.map Ev.wire ∧
      (((sendSome e).1.outq ≠ [] → drainStep e res = sendSome e) ∧
       ((sendSome e).1.outq = [] →
          ∃ rest, (drainStep e res).2 = e.outq.map Ev.wire ++ Ev.wireClose :: rest)) := by
  refine ⟨by simp [settleLoop, hd, hdr], ?_⟩
  obtain ⟨sent, hs1, hs2⟩ := Mux.sendSome_split e
  refine ⟨sent, hs2, hs1, ?_, ?_⟩
  · intro hne
    have hq : (sendSome e).1.outq.isEmpty = false := by
      cases h : (sendSome e).1.outq <;> simp_all
    simp [drainStep, hq]
  · intro hempty
    have hq : (sendSome e).1.outq.isEmpty = true := by simp [hempty]
    simp only [drainStep, hq, if_true]
    rw [hempty, List.append_nil] at hs2
    rw [← hs2, ← hs1]
    exact Mux.windDownTail_flushes _ _ _ _

/-- Dropping the Multiplexor makes the task wind down with drain (and without error). -/
theorem drop_triggers_drain (e : EP) (fuel : Nat) (acc : List Ev) (rest : List Nat)
    (hd : e.dead = false) (hdr : e.draining = none) (hc : e.closing = none) (hp : e.park = none) (hi : e.inbox = [])
    (hq : e.droppedq = 0 :: rest) :
    settleLoop (fuel + 1) e acc = ((windDown { e with droppedq := rest } true .ok).1,
                                    acc ++ (windDown { e with droppedq := rest } true .ok).2) := by
  have hu : unpark e = e := by simp [unpark, hp]
  simp [settleLoop, hd, hdr, hc, hu, hp, hi, hq]

/-- In EVERY state an endpoint can reach — any configuration, any sequence of application calls,
    deliveries, sink back-pressure changes and cancellations, of any length — once the connection
    task has finished, every stream object ever created is closed in both directions (its reader
    sees end-of-stream after the queued data, its writer fails), and no flow refers to a stream.
    (Induction over the stimulus sequence with the invariant `Inv2`, Lemmas/MuxWF + MuxReach.) -/
theorem every_stream_closed_after_end (o : Opts) (ops : List Mux.Op)
    (hd : (runOps { opts := o } ops).dead = true) :
    (∀ (i : Nat) (ob : Obj), (runOps { opts := o } ops).objs[i]? = some ob → ob.closed) ∧
    (∀ fid i, lookup (runOps { opts := o } ops).flows fid ≠ some (.established i)) :=
  ⟨reachable_dead_all_closed o ops hd, (reachable_inv o ops).2 hd⟩

/-- … and in every reachable state, finished or not, the flow table and the stream objects are
    consistent: established flows refer to distinct existing objects, and every object that is still
    open in some direction is reachable from a flow (so the wind-down, which walks the flow table,
    cannot miss it). -/
theorem reachable_wellformed (o : Opts) (ops : List Mux.Op) : WF (runOps { opts := o } ops) :=
  (reachable_inv o ops).1

/-- The end of the connection is acted on at once: a running endpoint whose receive loop is not
    waiting on a full accept / bind queue finishes its task within the very stimulus that delivers the
    peer's Close, the end of the source, a transport error or an undecodable message — whatever is
    pending is resolved then (`error_resolves_everything`, `source_end_resolves_everything`), without
    the application having to do anything. -/
theorem end_is_acted_on_at_once (e : EP) (w : WsIn)
    (hd : e.dead = false) (hdr : e.draining = none) (hc : e.closing = none) (hp : e.park = none)
    (hi : e.inbox = []) (hs : e.srcEnded = false)
    (hw : w = .msg .close ∨ w = .eof ∨ w = .err ∨ ∃ b, w = .bad b) :
    (applyOp e (.deliver w)).1.dead = true :=
  end_acted_on_at_once e w hd hdr hc hp hi hs hw

/-- "Every LATER operation completes": the end of the connection is final. Once the task has
    finished and the outbound queue is closed, they stay so through every further history of
    stimuli — application calls, late deliveries, anything — so `calls_after_end` (and
    `closed_stream_read_resolves` / `closed_stream_write_fails`, all streams being closed by
    `every_stream_closed_after_end`) apply at every later point, not only right after the wind-down. -/
theorem the_end_is_final (e : EP) (hd : e.dead = true) (hoc : e.outClosed = true) (ops : List Mux.Op) :
    (runOps e ops).dead = true ∧ (runOps e ops).outClosed = true :=
  ⟨(stays_finished e ops).dead hd, (stays_finished e ops).outClosed hoc⟩

/-- … and likewise a dropped `Multiplexor` handle never comes back. -/
theorem dropped_multiplexor_stays_dropped (e : EP) (hm : e.muxAlive = false) (ops : List Mux.Op) :
    (runOps e ops).muxAlive = false :=
  (stays_finished e ops).muxGone hm

/-- Nothing blocks forever, writers included: in every reachable state whose connection task has
    finished, every writer that was parked on flow-control credit has been woken (and, its stream
    being closed, its next poll fails with BrokenPipe — `closed_stream_write_fails`). -/
theorem parked_writers_woken_after_end (o : Opts) (ops : List Mux.Op)
    (hd : (runOps { opts := o } ops).dead = true) (i : Nat) (ob : Obj)
    (ho : (runOps { opts := o } ops).objs[i]? = some ob) (hp : ob.parked = true) : ob.woken = true := by
  cases hw : ob.woken with
  | true => rfl
  | false =>
    have h1 := (reachable_wakeOk o ops i ob ho hp hw).2
    have h2 := (reachable_dead_all_closed o ops hd i ob ho).1
    rw [h1] at h2; cases h2

/-! Non-vacuity -/
example : ((runOps { opts := {} } [.deliver (.msg (.frame (.connect 5 1 80 []))), .accept, .write 0 [1], .write 0 [2],
    .deliver .err]).objs[0]?.map (fun o => (o.parked, o.woken))) = some (true, true) ∧
    (runOps { opts := {} } [.deliver (.msg (.frame (.connect 5 1 80 []))), .accept, .write 0 [1], .write 0 [2],
    .deliver .err]).dead = true := by decide
example : (windDown { opts := {}, outq := [.ping], flows := [(3, .requested 1)],
                      opens := [{ req := 1, host := [], port := 1, retriesLeft := 0 }] } true .wsError).2
    = [.wire .ping, .wireClose, .openDone 1 .closed, .exit .wsError] := by decide

/-- A run that ends with a transport error while the application holds a stream it has written to. -/
def sampleRun : List Mux.Op :=
  [.deliver (.msg (.frame (.connect 5 4 80 [1]))), .accept, .write 0 [1, 2], .deliver .err]

example : (runOps { opts := {} } sampleRun).dead = true ∧
    (runOps { opts := {} } sampleRun).objs.length = 1 ∧ (runOps { opts := {} } sampleRun).handles = [0] := by
  decide

/-! ### Two endpoints, EVERY history: a local drop still flushes (`Model/PairAll.lean`)

`Penguin.PairAll` joins two endpoint models by FIFO wires at the stimulus level (see Props C02,
`pair_reads_are_prefix_of_peer_writes_every_history`).  The run below is `l1`, then side `a`'s application drops
its `Multiplexor`, then `l2` — ANY stimuli at either side: application calls, deliveries, sink back-pressure
(`sinkRoom`), transport faults (`cut`).  `PairAll.Running e`: the task is not finished, not winding down, has
processed everything delivered to it, and its outbound queue is open.  `PairAll.DDone e`: the drain is over (the
task has finished, or waits for the peer's Close after its own).  No hypothesis on the id scripts is needed for
the flush itself. -/

section PairAll
open Penguin.PairAll

/-- C08, "if the local multiplexor is dropped while the transport is healthy, every frame queued before the
    drop (data already written, Finish, Reset, datagrams) is still transmitted, in order, before the WebSocket
    is closed", for two endpoints and every history.  With `p1` the state at the drop and `pf` the final state:
    there are `Reset` frames `rs` (the rejections of the peer's bind requests that the drop leaves unanswered;
    nothing else is ever added) such that
    * once the drain is over (`DDone pf.a`), ALL messages `a`'s sink has taken (`wireMsgs pf.ga.evs`) are: what it
      had taken before the drop, then the whole queue of the moment of the drop, in order, then `rs`, then the
      Close — nothing of the queue is missing, nothing reordered, and the queue is empty;
    * as long as it is not over — the sink may be stalled (`sinkRoom (some 0)`) for any time — what the sink has
      taken followed by what is still queued is that same sequence (without the Close): nothing is lost on the way;
    * the wire is FIFO and loses nothing without a cut: the messages delivered to `b` followed by those still on
      the wire are a prefix of what `a`'s sink has taken, and ALL of it while the wire `a → b` is open (no `cut` at
      `b`, no Close delivered yet);
    * `a`'s application has written nothing since (writes fail once the queue is closed). -/
theorem pair_drop_flushes_everything_every_history (oa ob : Opts) (ra rb : List Nat)
    (l1 l2 : List (PairAll.Side × Stim)) (q : PS)
    (hr : Running (PairAll.run (PairAll.init oa ob ra rb) l1).a)
    (hs : PairAll.step (PairAll.run (PairAll.init oa ob ra rb) l1) .A (.call .dropMux) = some q) :
    let p1 := PairAll.run (PairAll.init oa ob ra rb) l1
    let l := l1 ++ (PairAll.Side.A, Stim.call .dropMux) :: l2
    let pf := PairAll.run (PairAll.init oa ob ra rb) l
    ∃ rs, allResets rs ∧
      (DDone pf.a → wireMsgs pf.ga.evs = wireMsgs p1.ga.evs ++ (p1.a.outq ++ rs) ++ [.close] ∧ pf.a.outq = []) ∧
      (¬ DDone pf.a → wireMsgs pf.ga.evs ++ pf.a.outq = wireMsgs p1.ga.evs ++ (p1.a.outq ++ rs)) ∧
      dlvMsgs (opsB (PairAll.init oa ob ra rb) l) ++ pf.ab <+: wireMsgs pf.ga.evs ∧
      (pf.abOpen = true → dlvMsgs (opsB (PairAll.init oa ob ra rb) l) ++ pf.ab = wireMsgs pf.ga.evs) ∧
      pf.ga.wrote = p1.ga.wrote :=
  drop_flushes oa ob ra rb l1 l2 q hr hs

/-- The application-level reading for streams (under `PairAll.Cfg`).  After a drop whose drain is over: for a
    stream object `j` of `b` carrying `x` that still accepts (`canAcc`: `b` holds the slot of `x` for `j`, it was
    not reset, the handle was not dropped) while the wire is intact, every frame `a`'s application had
    successfully written on `x` (`wroteX x pf.ga`: the payloads of its `write` calls that answered `wrote`, all
    of them before the drop) is accepted into `j`, or delivered and not yet processed, or still on the wire — in
    order, each once.  In particular, once `b` has processed everything up to the Close (no `Push x` left in its
    inbox or on the wire), the bytes accepted into `j` are exactly the bytes written. -/
theorem pair_drop_written_reaches_peer_every_history {ra rb : List Nat} (c : Cfg ra rb) (oa ob : Opts)
    (l1 l2 : List (PairAll.Side × Stim)) (q : PS)
    (hr : Running (PairAll.run (PairAll.init oa ob ra rb) l1).a)
    (hs : PairAll.step (PairAll.run (PairAll.init oa ob ra rb) l1) .A (.call .dropMux) = some q)
    (x j : Nat) (o : Obj) :
    let pf := PairAll.run (PairAll.init oa ob ra rb) (l1 ++ (PairAll.Side.A, Stim.call .dropMux) :: l2)
    pf.b.objs[j]? = some o → o.fid = x → canAcc x j pf.b = true → pf.abOpen = true → DDone pf.a →
    (Log.dataOf pf.gb.accepted j ++ pX x (inMsgs pf.b.inbox) ++ pX x pf.ab = wroteX x pf.ga) ∧
    (pX x (inMsgs pf.b.inbox) = [] → pX x pf.ab = [] → chunks pf.gb.accepted j = wroteOn x pf.ga.wrote) := by
  intro pf hj hx hcan hopen hdone
  have h := drop_written_reaches_peer c oa ob l1 l2 q hr hs x j o hj hx hcan hopen hdone
  refine ⟨h, fun h1 h2 => ?_⟩
  rw [h1, h2, List.append_nil, List.append_nil] at h
  rw [chunks_eq_flatten, h, wroteX_flatten]

/-! Non-vacuity (windows 2, threshold 1; scripts `[7, 8]`, `[9, 10]`): `a` opens flow 7, `b` accepts it; the sink of
    `a` stalls; `a` writes two frames and sends a datagram (all three stay queued), then drops its `Multiplexor`. -/
private def dcfg : Mux.Opts := { rwnd := 2, threshold := 1 }
private def dpre : List (PairAll.Side × Stim) :=
  [(.A, .call (.open 1 [104] 80)), (.B, .deliver), (.B, .call .accept), (.A, .deliver),
   (.A, .call (.sinkRoom (some 0))), (.A, .call (.write 0 [1, 2])), (.A, .call (.write 0 [3])),
   (.A, .call (.sendDgram { fid := 9, host := [104], port := 53, data := [7] }))]
/-- The sink resumes; the two frames and the datagram are delivered to `b`. -/
private def dmid : List (PairAll.Side × Stim) := [(.A, .call (.sinkRoom none)), (.B, .deliver), (.B, .deliver), (.B, .deliver)]
/-- Then the Close is delivered; `b` reads the data. -/
private def dpost : List (PairAll.Side × Stim) := dmid ++ [(.B, .deliver), (.B, .call (.read 0 9)), (.B, .call (.read 0 9))]
private def dfull (l2 : List (PairAll.Side × Stim)) : List (PairAll.Side × Stim) :=
  dpre ++ (PairAll.Side.A, Stim.call .dropMux) :: l2

example : Cfg [7, 8] [9, 10] := ⟨by decide, by decide, by decide⟩
/- The hypotheses: `a` is running with the three messages queued, and the drop is enabled. -/
set_option maxRecDepth 8192 in
example : let p1 := PairAll.run (PairAll.init dcfg dcfg [7, 8] [9, 10]) dpre
    (p1.a.dead = false ∧ p1.a.draining = none ∧ p1.a.closing = none ∧ p1.a.inbox = [] ∧ p1.a.droppedq = [] ∧
     p1.a.outClosed = false ∧
     p1.a.outq = [.frame (.push 7 [1, 2]), .frame (.push 7 [3]), .frame (.datagram 9 53 [104] [7])] ∧
     (PairAll.step p1 .A (.call .dropMux)).isSome = true) := by decide
/-- With the sink still stalled the drain is not over: nothing has gone out, everything is still queued. -/
example : let pf := PairAll.run (PairAll.init dcfg dcfg [7, 8] [9, 10]) (dfull [])
    (pf.a.draining.isSome = true ∧ pf.a.dead = false ∧ pf.a.outq.length = 3) := by decide
/-- After the sink resumed and `b` processed the three messages (Close still on the wire): the drain is over,
    the wire intact, object 0 of `b` still accepts — everything written is accepted (second theorem). -/
example : let pf := PairAll.run (PairAll.init dcfg dcfg [7, 8] [9, 10]) (dfull dmid)
    (pf.a.draining = none ∧ pf.ab = [.close] ∧ pf.abOpen = true ∧ canAcc 7 0 pf.b = true ∧ pf.b.inbox = [] ∧
     pf.b.objs.map (·.fid) = [7] ∧ chunks pf.gb.accepted 0 = [1, 2, 3] ∧ wroteOn 7 pf.ga.wrote = [1, 2, 3]) := by decide
/- At the end: the sink of `a` took the queue in order, then the Close; all of it was delivered to `b`, in order;
    `b` read the data, the next read gives end-of-stream, and the datagram is there. -/
set_option maxRecDepth 8192 in
example : let pf := PairAll.run (PairAll.init dcfg dcfg [7, 8] [9, 10]) (dfull dpost)
    (pf.a.draining = none ∧
     wireMsgs pf.ga.evs = [.frame (.connect 7 2 80 [104]), .frame (.push 7 [1, 2]), .frame (.push 7 [3]),
       .frame (.datagram 9 53 [104] [7]), .close] ∧
     dlvMsgs (opsB (PairAll.init dcfg dcfg [7, 8] [9, 10]) (dfull dpost)) = wireMsgs pf.ga.evs ∧ pf.ab = [] ∧
     chunks pf.gb.returned 0 = [1, 2, 3] ∧ (appRead pf.b 0 9).2 = .eof ∧
     (applyOp pf.b .recvDgram).2.1 = .dgram { fid := 9, host := [104], port := 53, data := [7] }) := by decide

end PairAll

end Penguin.C08
