/-
C12 — No lost wake-ups or credit races between writer threads and the connection task.

Every theorem is about EVERY reachable state `run sc ls` of EVERY scenario `sc` (any initial credit,
any number of writer polls, any number of `acknowledge(n)` / `disallow_write()` threads) under
EVERY schedule `ls` of the atomic operations — induction over the step relation
(`Lemmas/Waker.lean`), not enumeration.  The model is sequentially consistent; see
`Model/Waker.lean` for what one step is and what is trusted (`AtomicWaker`'s register / wake).

The first part is about ONE writer thread per stream (what `AsyncWrite` allows); the second part
("Several writers on one stream", theorems `…_n`, model `Model/WakerN.lean`) about any number of writer
threads polling one stream through the `&self` entry points `poll_write_push` /
`poll_obtain_write_permission`.
-/
import Penguin.Model.Waker
import Penguin.Model.WakerN
import Penguin.Lemmas.Waker
import Penguin.Lemmas.WakerNInv
import Penguin.Lemmas.WakerNId
import Penguin.Lemmas.WakerNSim
import Penguin.Lemmas.MuxWake

namespace Penguin.C12
open Penguin.Waker Penguin.Lemmas.Waker

/-- A writer that returned `Pending` from its last poll (it sleeps) is in one of three situations:
    there is nothing it could do (no credit and the stream is not closed); or the waker of that very
    poll has been woken (so the task is scheduled again); or an `acknowledge` / `disallow_write`
    has done its write and its `wake()` is that thread's next operation. -/
theorem no_lost_wakeup (sc : Scenario) (ls : List Label) :
    let s := run sc ls
    parked s = true →
      (s.credit = 0 ∧ s.closed = false) ∨ woken s = true ∨ wakePending s = true := by
  intro s hp
  have inv : Inv sc s := run_inv sc ls
  have hrw := inv.reg_or_woken (Or.inr (Or.inr hp))
  rcases hrw with hreg | hw
  · obtain ⟨hd, hc⟩ := inv.parked_ok hp hreg
    by_cases hcr : 0 < s.credit
    · right; right
      obtain ⟨a, ha, hpa⟩ := List.countP_pos_iff.mp (hc hcr)
      simp only [wakePending, List.any_eq_true]
      refine ⟨a, ha, ?_⟩
      simp [pAckerMid] at hpa
      simp [hpa.2]
    · by_cases hcl : s.closed = true
      · right; right
        have hpos := inv.closed_iff.mp hcl
        have hmid : 0 < s.actors.countP pCloserMid := by omega
        obtain ⟨a, ha, hpa⟩ := List.countP_pos_iff.mp hmid
        simp only [wakePending, List.any_eq_true]
        refine ⟨a, ha, ?_⟩
        simp [pCloserMid] at hpa
        simp [hpa.2]
      · left
        exact ⟨by omega, by simpa using hcl⟩
  · right; left
    simpa [woken] using hw

/-- "Woken" above means woken after registering: the waker of the writer's last poll can only have
    been woken once that poll had executed `register` (and no waker of a later poll exists). -/
theorem woken_only_after_register (sc : Scenario) (ls : List Label) :
    let s := run sc ls
    (woken s = true → s.curRegistered = true) ∧ (∀ j ∈ s.wakeLog, j ≤ s.cur) := by
  intro s
  have inv : Inv2 s := run_inv2 sc ls
  exact ⟨fun h => inv.woken_cur (by simpa [woken] using h), inv.woken_le⟩

/-- … so, once every other thread has finished, a sleeping writer has neither credit nor a closed
    stream to react to, or it has been woken after it registered: it never sleeps while it could
    proceed or should fail. -/
theorem no_lost_wakeup_quiescent (sc : Scenario) (ls : List Label) :
    let s := run sc ls
    parked s = true → allActorsDone s = true →
      (s.credit = 0 ∧ s.closed = false) ∨ woken s = true := by
  intro s hp hdone
  rcases no_lost_wakeup sc ls hp with h | h | h
  · exact Or.inl h
  · exact Or.inr h
  · exfalso
    simp only [wakePending, List.any_eq_true] at h
    obtain ⟨a, ha, hw⟩ := h
    simp only [allActorsDone, List.all_eq_true] at hdone
    have := hdone a ha
    cases hpc : a.pc <;> simp_all

/-- Credit grants racing with the writer taking credit: the credit finally (and at every moment)
    available plus the units taken equals the initial credit plus the units granted. -/
theorem credit_conservation (sc : Scenario) (ls : List Label) :
    let s := run sc ls
    s.credit + s.takes.length = sc.credit + s.grants :=
  (run_inv sc ls).conservation

/-- A writer never sends a frame without a unit of credit: the frames handed to the task never
    exceed the successful decrements, every decrement was from a positive value, and the polls that
    returned `Ready(Some(()))` are exactly the frames sent. -/
theorem no_frame_without_credit (sc : Scenario) (ls : List Label) :
    let s := run sc ls
    s.sent ≤ s.takes.length ∧ (∀ v ∈ s.takes, 0 < v) ∧
      (results s).count .some = s.sent := by
  intro s
  have inv : Inv sc s := run_inv sc ls
  refine ⟨?_, inv.takes_pos, ?_⟩
  · have := inv.sent_takes
    split at this <;> omega
  · have h := inv.log_some
    rw [← h]
    simp only [results, List.count_reverse]
    generalize s.log = l
    induction l with
    | nil => rfl
    | cons p l ih =>
      simp only [List.map_cons, List.count_cons, List.countP_cons, ih]

/-- A poll whose first operation comes after a close has completed its `swap` returns
    `Ready(None)`: every logged poll that found `finish_sent` set when it started failed. -/
theorem closed_writer_fails (sc : Scenario) (ls : List Label) :
    let s := run sc ls
    ∀ p ∈ s.log, p.1 = true → p.2 = .none :=
  (run_inv sc ls).log_closed

/-- The flag a starting poll looks at is set exactly when some `disallow_write()` has performed its
    `swap` (whether or not its `wake()` has run yet), so "started after close completed" above is
    about the closer threads, not about a ghost. -/
theorem closed_iff_some_close_swapped (sc : Scenario) (ls : List Label) :
    let s := run sc ls
    s.closed = true ↔ ∃ a ∈ s.actors, a.isCloser = true ∧ a.pc ≠ .write := by
  intro s
  have inv : Inv sc s := run_inv sc ls
  rw [inv.closed_iff]
  constructor
  · intro h
    have : 0 < s.actors.countP pCloserMid ∨ 0 < s.actors.countP pCloserDone := by omega
    rcases this with h | h <;> obtain ⟨a, ha, hp⟩ := List.countP_pos_iff.mp h
    · simp [pCloserMid] at hp
      exact ⟨a, ha, hp.1, by simp [hp.2]⟩
    · simp [pCloserDone] at hp
      exact ⟨a, ha, hp.1, by simp [hp.2]⟩
  · rintro ⟨a, ha, hc, hpc⟩
    cases hp : a.pc with
    | write => exact absurd hp hpc
    | wake =>
      have : 0 < s.actors.countP pCloserMid :=
        List.countP_pos_iff.mpr ⟨a, ha, by simp [pCloserMid, hc, hp]⟩
      omega
    | done =>
      have : 0 < s.actors.countP pCloserDone :=
        List.countP_pos_iff.mpr ⟨a, ha, by simp [pCloserDone, hc, hp]⟩
      omega

/-! ### The pinned code loses a wake-up (documented witness, regression)

`stepPinned` is the code before the repair: `register` is followed by `return Poll::Pending`
without looking at the credit or the closed flag again.  Scenario: no credit, one poll, one
`acknowledge(1)`.  Schedule: the writer loads `finish_sent` (false) and the credit (0); the
acknowledger adds 1 and calls `wake()` (nothing registered yet); the writer registers and parks.
All threads have finished, one unit of credit is available, nobody was woken: the writer sleeps
forever.  loom reaches the same outcome on the real pinned code (`corpus/C12/`). -/

def lostWakeupScenario : Scenario := ⟨0, 1, [.ack 1]⟩
def lostWakeupSchedule : List Label := [.writer, .writer, .actor 0, .actor 0, .writer]

theorem pinned_code_loses_wakeup :
    let s := runPinned lostWakeupScenario lostWakeupSchedule
    parked s = true ∧ allActorsDone s = true ∧ s.credit = 1 ∧ woken s = false ∧
      wakePending s = false := by
  decide

/-- The same for a close: the writer is never told that the stream was closed. -/
theorem pinned_code_loses_close_wakeup :
    let s := runPinned ⟨0, 1, [.close]⟩ [.writer, .writer, .actor 0, .actor 0, .writer]
    parked s = true ∧ allActorsDone s = true ∧ s.closed = true ∧ woken s = false := by
  decide

/-- On the repaired code the same schedule continues with the re-check and takes the credit. -/
example :
    let s := run lostWakeupScenario (lostWakeupSchedule ++ [.writer, .writer, .writer, .writer])
    results s = [.some] ∧ s.credit = 0 ∧ s.sent = 1 ∧ s.pc = .finished := by
  decide

/-! ### Non-vacuity: the hypotheses are met by reachable states -/

/-- parked with a wake delivered after the registration (`woken`) -/
example :
    let s := run ⟨0, 1, [.ack 1]⟩ [.writer, .writer, .writer, .writer, .writer, .actor 0, .actor 0]
    parked s = true ∧ allActorsDone s = true ∧ s.credit = 1 ∧ woken s = true := by
  decide

/-- parked while the acknowledger sits between `fetch_add` and `wake` (`wakePending`) -/
example :
    let s := run ⟨0, 1, [.ack 1]⟩ [.writer, .writer, .writer, .writer, .writer, .actor 0]
    parked s = true ∧ s.credit = 1 ∧ woken s = false ∧ wakePending s = true := by
  decide

/-- parked with nothing to do -/
example :
    let s := run ⟨0, 1, []⟩ [.writer, .writer, .writer, .writer, .writer]
    parked s = true ∧ allActorsDone s = true ∧ s.credit = 0 ∧ s.closed = false := by
  decide

/-- a poll that starts after the close has swapped fails; the close that lands during a poll
    which already registered makes the re-check fail it -/
example :
    let s := run ⟨1, 2, [.close]⟩ [.actor 0, .writer, .writer]
    s.log = [(true, .none), (true, .none)] := by
  decide

example :
    let s := run ⟨0, 1, [.close]⟩ [.writer, .writer, .writer, .actor 0, .writer]
    results s = [.none] ∧ s.log = [(false, .none)] := by
  decide

/-- a grant racing with the take: CAS fails once, is retried, conservation 0 + 1 = 0 + 1 … -/
example :
    let s := run ⟨1, 1, [.ack 2]⟩ [.writer, .writer, .actor 0, .writer, .writer, .writer, .writer]
    results s = [.some] ∧ s.credit = 2 ∧ s.takes = [3] ∧ s.grants = 2 ∧ s.sent = 1 := by
  decide

/-! ### The composite paths: the whole endpoint (`Lemmas/MuxWake.lean`)

The scenarios above race `acknowledge` / `disallow_write` with the writer.  Whether the task CALLS
them whenever it grants credit or closes a stream is a matter of `process_frame`, `close_flow` and
`wind_down`; the endpoint model (`Model/Mux`, the one the correspondence harness compares with the
real `Multiplexor`, whose wake flags are part of the comparison) covers those. -/

open Penguin.Mux in
/-- In every state an endpoint reaches — any sequence of application calls and deliveries, any peer,
    connection ends and wind-downs included — a writer that is parked and whose waker has not been
    woken has no credit, and its stream has not been closed for writing. -/
theorem endpoint_parked_writer_is_blocked (o : Opts) (ops : List Mux.Op) (i : Nat) (ob : Obj)
    (ho : (runOps { opts := o } ops).objs[i]? = some ob) (hp : ob.parked = true) (hw : ob.woken = false) :
    ob.credit = 0 ∧ ob.finishSent = false :=
  reachable_wakeOk o ops i ob ho hp hw

open Penguin.Mux in
/-- … so polling such a writer again returns `Pending` again: it never sleeps while it could
    proceed or should fail. -/
theorem endpoint_no_lost_wakeup (o : Opts) (ops : List Mux.Op) (h i : Nat) (ob : Obj) (d : Bytes)
    (hh : (runOps { opts := o } ops).handleObj h = some (i, ob)) (hp : ob.parked = true) (hw : ob.woken = false)
    (hd : d ≠ []) :
    (appWrite (runOps { opts := o } ops) h d).2 = .pending := by
  obtain ⟨hc, hf⟩ := reachable_wakeOk o ops i ob (handleObj_some hh) hp hw
  have hde : d.isEmpty = false := by cases d <;> simp_all
  simp [appWrite, hh, hf, hde, hc]

/-! Non-vacuity: a writer parked on an exhausted window of 1 (first example); the connection then
    ends (peer `Close`): the writer has been woken and its next poll fails (second example). -/
private def wops : List Mux.Op :=
  [.deliver (.msg (.frame (.connect 5 1 80 []))), .accept, .write 0 [1], .write 0 [2]]
example : ((Mux.runOps { opts := {} } wops).objs[0]?.map (fun o => (o.parked, o.woken, o.credit))) = some (true, false, 0) := by decide
example : ((Mux.runOps { opts := {} } (wops ++ [.deliver (.msg .close), .deliver .eof])).objs[0]?.map
    (fun o => (o.parked, o.woken, o.finishSent))) = some (true, true, true) := by decide

end Penguin.C12

/-! ## Several writers on one stream (`Model/WakerN`)

`poll_write_push` / `poll_obtain_write_permission` take `&self` and `MuxStream` is `Sync`: safe code can
poll the write side of ONE stream from several tasks at once.  The theorems below (suffix `_n`) are
about EVERY reachable state `run sc ls` of EVERY scenario `sc` of `Model/WakerN` — any initial credit,
any number of writer threads each with any number of polls, any number of `acknowledge(n)` /
`disallow_write()` threads (the connection task's operations), any number of threads calling
`do_shutdown()` through another handle of the stream (`sc.shutdowns`; `swap(true)` without any
`wake()`) — under EVERY schedule `ls` of the atomic operations; induction over the step relation
(`Lemmas/WakerN*.lean`).

What holds exactly as for one writer: the credit arithmetic (the `compare_exchange` makes the
decrement atomic with the check, so no unit is spent twice) and "closed writers fail".  What the ONE
`AtomicWaker` slot still gives for wake-ups, and what it does not, is stated in
`no_lost_wakeup_n` … `two_writers_one_slot_full_fails`. -/

namespace Penguin.C12
open Penguin.Waker (PollResult ActorKind APc Actor WPc)
open Penguin.WakerN Penguin.Lemmas.WakerN

/-- With ONE writer thread the model of this section IS the single-writer model of the theorems above:
    under every schedule the run of `Model/WakerN` with the writer list `[polls]` has one writer and,
    with the thread component of the waker names and the ghosts `lastReg` / `regMark` forgotten
    (`proj1`), is the run of `Model/Waker` under the same schedule. -/
theorem one_writer_is_single_writer_model (credit polls : Nat) (actors : List ActorKind) (ls : List Waker.Label) :
    ∃ w, (run ⟨credit, [polls], actors, 0⟩ (ls.map lift1)).writers = [w] ∧
      proj1 (run ⟨credit, [polls], actors, 0⟩ (ls.map lift1)) w = Waker.run ⟨credit, polls, actors⟩ ls :=
  run_one_writer credit polls actors ls

/-- Credit conservation with any number of writers racing each other and the acknowledgers: at every
    moment the credit available plus the units taken by all writers equals the initial credit plus
    the units granted; a unit taken is a frame sent or is held by a writer whose `send` is its next
    operation; so once every writer has returned, credit + frames sent = initial + grants. -/
theorem credit_conservation_n (sc : Scenario) (ls : List Label) :
    let s := run sc ls
    s.credit + totalTakes s = sc.credit + s.grants ∧
    s.credit + totalSent s + inFlight s = sc.credit + s.grants ∧
    (allWritersFinished s = true → s.credit + totalSent s = sc.credit + s.grants) := by
  intro s
  have inv : Inv sc s := run_inv sc ls
  have h1 := inv.conservation
  have h2 := totals inv
  refine ⟨h1, by omega, fun hf => ?_⟩
  have := finished_inFlight hf
  omega

/-- No writer ever sends a frame without a unit of credit: each writer's frames never exceed ITS OWN
    successful `compare_exchange`s, each of which was from a positive value, and its `Ready(Some(()))`
    polls are exactly its frames; so the frames sent by all writers together never exceed the initial
    credit plus the grants performed so far, which never exceed what the scenario's acknowledgers
    grant altogether. -/
theorem no_frame_without_credit_n (sc : Scenario) (ls : List Label) :
    let s := run sc ls
    (∀ w ∈ s.writers, w.sent ≤ w.takes.length ∧ (∀ v ∈ w.takes, 0 < v) ∧ w.results.count .some = w.sent) ∧
    totalSent s ≤ sc.credit + s.grants ∧ s.grants ≤ sc.ackTotal := by
  intro s
  have inv : Inv sc s := run_inv sc ls
  refine ⟨fun w hw => ?_, ?_, ?_⟩
  · have hwi := winv_of_mem inv hw
    refine ⟨?_, hwi.takes_pos, results_count_some w hwi⟩
    have := hwi.sent_takes
    split at this <;> omega
  · have h1 := inv.conservation
    have h2 := totals inv
    omega
  · have := inv.grants
    omega

/-- The last unit: whatever the number of writers racing for it, a scenario in which the initial
    credit and all acknowledgements together amount to ONE unit sees at most one frame (two writers
    that both loaded `1` and both try `compare_exchange(1, 0)`: one of them fails and starts over). -/
theorem last_unit_one_frame_n (sc : Scenario) (ls : List Label) (h1 : sc.credit + sc.ackTotal = 1) :
    totalSent (run sc ls) ≤ 1 ∧ totalSome (run sc ls) ≤ 1 := by
  have inv : Inv sc (run sc ls) := run_inv sc ls
  have h := no_frame_without_credit_n sc ls
  simp only [] at h
  rw [totalSome_eq_totalSent inv]
  omega

/-- The same from the middle of a run: in a reachable state with one unit of credit left, no writer
    holding a unit and no grant still to come, every continuation — with any number of writers
    anywhere between their load and their `compare_exchange` — sends at most one more frame. -/
theorem last_unit_one_more_frame_n (sc : Scenario) (ls ls' : List Label) :
    let s := run sc ls
    let s' := run sc (ls ++ ls')
    s.credit = 1 → inFlight s = 0 → grantsToCome s = 0 → totalSent s' ≤ totalSent s + 1 := by
  intro s s' hc hi hg
  have inv : Inv sc s := run_inv sc ls
  have inv' : Inv sc s' := run_inv sc (ls ++ ls')
  have a1 := inv.conservation
  have a2 := totals inv
  have a3 := inv.grants
  have b1 := inv'.conservation
  have b2 := totals inv'
  have b3 := inv'.grants
  omega

/-- A poll of any writer whose first operation comes after a close has completed its `swap` returns
    `Ready(None)`: every logged poll that found `finish_sent` set when it started failed. -/
theorem closed_writers_fail_n (sc : Scenario) (ls : List Label) :
    let s := run sc ls
    ∀ w ∈ s.writers, ∀ p ∈ w.log, p.1 = true → p.2 = .none := by
  intro s w hw
  exact (winv_of_mem (run_inv sc ls) hw).log_closed

/-- … and that flag is set exactly when some `disallow_write()` of the connection task has performed
    its `swap` (`taskClosed`) or some `do_shutdown()` was called through a handle of the stream
    (`Model/WakerN`, "foreign shutdowns"; at most as many as the scenario has such threads). -/
theorem closed_iff_close_or_foreign_shutdown_n (sc : Scenario) (ls : List Label) :
    let s := run sc ls
    (s.closed = true ↔ taskClosed s = true ∨ 0 < s.shutdownsDone) ∧ s.shutdownsDone ≤ sc.shutdowns := by
  intro s
  have inv : Inv sc s := run_inv sc ls
  have h6 := inv.shutdowns
  refine ⟨?_, by omega⟩
  rw [inv.closed_iff, taskClosed_iff]
  omega

/-- Without foreign shutdowns: the flag is set exactly when some `disallow_write()` has performed its
    `swap`. -/
theorem closed_iff_some_close_swapped_n (sc : Scenario) (ls : List Label) (hs : sc.shutdowns = 0) :
    let s := run sc ls
    s.closed = true ↔ ∃ a ∈ s.actors, a.isCloser = true ∧ a.pc ≠ .write := by
  intro s
  have inv : Inv sc s := run_inv sc ls
  rw [closed_eq_taskClosed inv hs]
  simp only [taskClosed, List.any_eq_true, Bool.and_eq_true, bne_iff_ne, ne_eq]

/-! ### Wake-ups with ONE waker slot and several waiting tasks

The stream has one `AtomicWaker`.  A `register` replaces whatever the cell holds, also the waker of
ANOTHER task; `wake()` wakes the waker that registered last.  So the guarantee of `no_lost_wakeup`
("a parked writer has nothing to do, or ITS waker was woken, or a wake is about to come") cannot hold
for every writer — `two_writers_one_slot_full_fails` — and what does hold is stated below, twice:

* for EVERY scenario, foreign `do_shutdown()` calls included (theorems `…_task_n`,
  `close_after_foreign_shutdown_wakes_n`, …): the guarantee is about what the CONNECTION TASK does —
  `acknowledge` and `disallow_write` always wake after they wrote — so "nothing to do" reads "no
  credit and the connection task has not closed the stream" (`taskClosed`).  A `do_shutdown()` through
  another handle sets the flag and wakes nobody (`foreign_shutdown_alone_wakes_nobody`: the behaviour
  of the code, C12 quantifies over the writer and the connection task); the connection task's later
  close wakes, whoever set the flag first;
* for scenarios WITHOUT foreign shutdowns (hypothesis `sc.shutdowns = 0`) in terms of the flag itself,
  exactly as for one writer (`no_lost_wakeup_slot_n` … `replacing_registration_served_n`). -/

/-- The stream-level guarantee, every scenario: a writer that returned `Pending` from its last poll
    has no credit to take and the connection task has not closed the stream, or a wake-up has been
    delivered to the stream's waker slot AFTER that writer registered (to its own waker or to one that
    registered later), or the `wake()` of an acknowledge / close that already wrote is still to come. -/
theorem no_lost_wakeup_slot_task_n (sc : Scenario) (ls : List Label) :
    let s := run sc ls
    ∀ w ∈ s.writers, w.parked = true →
      (s.credit = 0 ∧ taskClosed s = false) ∨ 0 < wakesSinceReg s w ∨ wakePending s = true := by
  intro s w hw hp
  have inv : Inv sc s := run_inv sc ls
  have hv := view_of_mem inv hw
  have hle := hv.mark_le
  by_cases hm : w.regMark = s.wakeLog.length
  · obtain ⟨hd, hc⟩ := hv.parked_ok hp hm
    by_cases hcr : 0 < s.credit
    · right; right
      obtain ⟨a, ha, hpa⟩ := List.countP_pos_iff.mp (hc hcr)
      simp only [wakePending, List.any_eq_true]
      refine ⟨a, ha, ?_⟩
      simp [Lemmas.Waker.pAckerMid] at hpa
      simp [hpa.2]
    · by_cases hcl : taskClosed s = true
      · right; right
        have hpos := (taskClosed_iff s).mp hcl
        have hmid : 0 < s.actors.countP Lemmas.Waker.pCloserMid := by omega
        obtain ⟨a, ha, hpa⟩ := List.countP_pos_iff.mp hmid
        simp only [wakePending, List.any_eq_true]
        refine ⟨a, ha, ?_⟩
        simp [Lemmas.Waker.pCloserMid] at hpa
        simp [hpa.2]
      · left
        exact ⟨by omega, by simpa using hcl⟩
  · right; left
    simp only [wakesSinceReg]; omega

/-- Who is woken: the cell only ever holds the waker of the LATEST `register` on the stream, so every
    wake-up goes to the task that registered last; and a waker is woken only after its own poll
    registered it (no wake-up is attributed to a poll that has not registered, or to a thread that is
    not a writer of the scenario). -/
theorem wakeups_go_to_latest_registration_n (sc : Scenario) (ls : List Label) :
    let s := run sc ls
    (∀ x, s.registered = some x → s.lastReg = some x) ∧
    (∀ i k, (i, k) ∈ s.wakeLog → ∃ w, s.writers[i]? = some w ∧ k ≤ w.cur ∧ (k = w.cur → w.curRegistered = true)) := by
  intro s
  have inv2 : Inv2 s := run_inv2 sc ls
  refine ⟨inv2.reg_last, fun i k hk => ?_⟩
  have hi := inv2.woken_bound i k hk
  refine ⟨s.writers[i], by simp [hi], ?_, ?_⟩
  · exact (inv2.wid i _ (by simp [hi])).woken_le k hk
  · intro e
    exact (inv2.wid i _ (by simp [hi])).woken_cur (e ▸ hk)

/-- A wake-up delivered after the registration of a parked writer whose registration is still the
    latest one on the stream went to that very writer. -/
theorem wakeup_after_latest_registration_is_own_n (sc : Scenario) (ls : List Label) :
    let s := run sc ls
    ∀ i w, s.writers[i]? = some w → w.parked = true → replacedW s i w = false →
      0 < wakesSinceReg s w → wokenW s i w = true := by
  intro s i w hw hp hr hpos
  have inv2 : Inv2 s := run_inv2 sc ls
  have hl : s.lastReg = some (i, w.cur) := by simpa [replacedW] using hr
  have hid := inv2.wid i w hw
  rcases hid.last_live (Or.inr (Or.inr hp)) hl with hreg | hwk
  · have hm := hid.reg_mark hreg
    simp only [wakesSinceReg] at hpos; omega
  · simpa [wokenW] using hwk

/-- The full per-writer guarantee holds, in every scenario, for the writer whose registration is the
    latest one on the stream (not replaced by a later `register`): if it is parked, it has no credit to
    take and the connection task has not closed the stream, or ITS waker has been woken, or a `wake()`
    is still to come. -/
theorem latest_registration_not_lost_task_n (sc : Scenario) (ls : List Label) :
    let s := run sc ls
    ∀ i w, s.writers[i]? = some w → w.parked = true → replacedW s i w = false →
      (s.credit = 0 ∧ taskClosed s = false) ∨ wokenW s i w = true ∨ wakePending s = true := by
  intro s i w hw hp hr
  have hslot : (s.credit = 0 ∧ taskClosed s = false) ∨ 0 < wakesSinceReg s w ∨ wakePending s = true :=
    no_lost_wakeup_slot_task_n sc ls w (List.mem_of_getElem? hw) hp
  rcases hslot with h | h | h
  · exact Or.inl h
  · exact Or.inr (Or.inl (wakeup_after_latest_registration_is_own_n sc ls i w hw hp hr h))
  · exact Or.inr (Or.inr h)

/-- Every parked writer, every scenario: it has no credit to take and the connection task has not
    closed the stream; or its own waker was woken; or its registration was REPLACED by a later
    `register` of another task and a wake-up has been delivered to the slot since (to that later
    registration, see `wakeups_go_to_latest_registration_n`); or a `wake()` is still to come.  The
    third case is the price of one slot: this writer itself may sleep on. -/
theorem no_lost_wakeup_task_n (sc : Scenario) (ls : List Label) :
    let s := run sc ls
    ∀ i w, s.writers[i]? = some w → w.parked = true →
      (s.credit = 0 ∧ taskClosed s = false) ∨ wokenW s i w = true ∨
        (replacedW s i w = true ∧ 0 < wakesSinceReg s w) ∨ wakePending s = true := by
  intro s i w hw hp
  by_cases hr : replacedW s i w = true
  · have hslot : (s.credit = 0 ∧ taskClosed s = false) ∨ 0 < wakesSinceReg s w ∨ wakePending s = true :=
      no_lost_wakeup_slot_task_n sc ls w (List.mem_of_getElem? hw) hp
    rcases hslot with h | h | h
    · exact Or.inl h
    · exact Or.inr (Or.inr (Or.inl ⟨hr, h⟩))
    · exact Or.inr (Or.inr (Or.inr h))
  · have hl : (s.credit = 0 ∧ taskClosed s = false) ∨ wokenW s i w = true ∨ wakePending s = true :=
      latest_registration_not_lost_task_n sc ls i w hw hp (by simpa using hr)
    rcases hl with h | h | h
    · exact Or.inl h
    · exact Or.inr (Or.inl h)
    · exact Or.inr (Or.inr (Or.inr h))

/-- The connection task's close ALWAYS wakes, whoever set the flag first.  In every scenario (any
    number of foreign `do_shutdown()` calls, before or after) and under every schedule: for a parked
    writer, once some `disallow_write()` has completed — `swap` and the unconditional `wake()` both
    done — a wake-up has been delivered to the stream's slot after that writer registered, and the
    writer's own waker has been woken unless its registration was replaced by a later one (to which
    the wake-up then went).  No quiescence is needed: a close that completed BEFORE the writer's re-check
    makes that poll return `Ready(None)`, so it is not parked. -/
theorem close_after_foreign_shutdown_wakes_n (sc : Scenario) (ls : List Label) :
    let s := run sc ls
    taskCloseCompleted s = true →
    ∀ i w, s.writers[i]? = some w → w.parked = true →
      0 < wakesSinceReg s w ∧ (wokenW s i w = true ∨ replacedW s i w = true) := by
  intro s hc i w hw hp
  have inv : Inv sc s := run_inv sc ls
  have hv := inv.wok i w hw
  have hcd := (taskCloseCompleted_iff s).mp hc
  have hle := hv.mark_le
  have hpos : 0 < wakesSinceReg s w := by
    by_cases hm : w.regMark = s.wakeLog.length
    · have := (hv.parked_ok hp hm).1; omega
    · simp only [wakesSinceReg]; omega
  refine ⟨hpos, ?_⟩
  by_cases hr : replacedW s i w = true
  · exact Or.inr hr
  · exact Or.inl (wakeup_after_latest_registration_is_own_n sc ls i w hw hp (by simpa using hr) hpos)

/-- … and while the close is between its `swap` and its `wake()`, the wake is still to come: a parked
    writer of a stream the connection task has closed (`swap` done) has been served as above, or some
    `wake()` is the next operation of an actor thread. -/
theorem close_in_progress_will_wake_n (sc : Scenario) (ls : List Label) :
    let s := run sc ls
    taskClosed s = true →
    ∀ i w, s.writers[i]? = some w → w.parked = true →
      wokenW s i w = true ∨ (replacedW s i w = true ∧ 0 < wakesSinceReg s w) ∨ wakePending s = true := by
  intro s hc i w hw hp
  have hn : (s.credit = 0 ∧ taskClosed s = false) ∨ wokenW s i w = true ∨
      (replacedW s i w = true ∧ 0 < wakesSinceReg s w) ∨ wakePending s = true :=
    no_lost_wakeup_task_n sc ls i w hw hp
  rcases hn with h | h | h | h
  · rw [hc] at h; exact absurd h.2 (by decide)
  · exact Or.inl h
  · exact Or.inr (Or.inl h)
  · exact Or.inr (Or.inr h)

/-- At quiescence of a scenario that contains at least one `disallow_write()` — the connection task
    closes every flow sooner or later: peer `Reset`, `Finish` exchange, wind-down —, whatever foreign
    shutdowns happened and whenever: no writer is left parked with its waker unwoken, except one whose
    registration was replaced by a later registration, to which the wake-up went. -/
theorem no_writer_left_unwoken_after_close_n (sc : Scenario) (ls : List Label) :
    let s := run sc ls
    allActorsDone s = true → (∃ a ∈ s.actors, a.isCloser = true) →
    ∀ i w, s.writers[i]? = some w → w.parked = true →
      wokenW s i w = true ∨ (replacedW s i w = true ∧ 0 < wakesSinceReg s w) := by
  intro s hdone ⟨a, ha, hcl⟩ i w hw hp
  have hc : taskCloseCompleted s = true := by
    simp only [taskCloseCompleted, List.any_eq_true]
    simp only [allActorsDone, List.all_eq_true] at hdone
    exact ⟨a, ha, by simp [hcl, hdone a ha]⟩
  have h : 0 < wakesSinceReg s w ∧ (wokenW s i w = true ∨ replacedW s i w = true) :=
    close_after_foreign_shutdown_wakes_n sc ls hc i w hw hp
  rcases h.2 with h2 | h2
  · exact Or.inl h2
  · exact Or.inr ⟨h2, h.1⟩

/-- … and the task that took the slot is served, every scenario: at quiescence, if credit is available
    or the connection task has closed the stream, the writer `j` of the latest registration `(j, k)`
    has been woken through that very waker, or it is not asleep (its last poll returned `Ready`). -/
theorem replacing_registration_served_task_n (sc : Scenario) (ls : List Label) :
    let s := run sc ls
    allActorsDone s = true → (0 < s.credit ∨ taskClosed s = true) →
    ∀ j k, s.lastReg = some (j, k) →
      ∃ v, s.writers[j]? = some v ∧ ((j, k) ∈ s.wakeLog ∨ v.parked = false) := by
  intro s hdone hcond j k hl
  have inv : Inv sc s := run_inv sc ls
  have inv2 : Inv2 s := run_inv2 sc ls
  have hj := inv2.last_bound j k hl
  have hv : s.writers[j]? = some s.writers[j] := by simp [hj]
  refine ⟨s.writers[j], hv, ?_⟩
  generalize s.writers[j] = v at hv
  by_cases hp : v.parked = true
  · left
    have hid := inv2.wid j v hv
    have hreg := (inv.winv j v hv).post_reg (Or.inr (Or.inr hp))
    have hk : k = v.cur := (hid.last_cur k hl).mpr hreg
    subst hk
    have hr : replacedW s j v = false := by simp [replacedW, hl]
    have hq : (s.credit = 0 ∧ taskClosed s = false) ∨ wokenW s j v = true ∨ wakePending s = true :=
      latest_registration_not_lost_task_n sc ls j v hv hp hr
    rcases hq with h | h | h
    · rcases hcond with c | c
      · omega
      · rw [h.2] at c; exact absurd c (by decide)
    · simpa [wokenW] using h
    · exfalso
      simp only [wakePending, List.any_eq_true] at h
      obtain ⟨a, ha, hwk⟩ := h
      simp only [allActorsDone, List.all_eq_true] at hdone
      have := hdone a ha
      cases hpc : a.pc <;> simp_all
  · right; simpa using hp

/-! #### Scenarios without foreign shutdowns: the same in terms of the flag `finish_sent` itself -/

/-- The stream-level guarantee: a writer that returned `Pending` from its last poll has nothing it
    could do, or a wake-up has been delivered to the stream's waker slot AFTER that writer registered
    (to its own waker or to one that registered later), or the `wake()` of an acknowledge / close
    that already wrote is still to come. -/
theorem no_lost_wakeup_slot_n (sc : Scenario) (ls : List Label) (hs : sc.shutdowns = 0) :
    let s := run sc ls
    ∀ w ∈ s.writers, w.parked = true →
      (s.credit = 0 ∧ s.closed = false) ∨ 0 < wakesSinceReg s w ∨ wakePending s = true := by
  intro s w hw hp
  rw [closed_eq_taskClosed (run_inv sc ls) hs]
  exact no_lost_wakeup_slot_task_n sc ls w hw hp

/-- The full per-writer guarantee holds for the writer whose registration is the latest one on the
    stream (not replaced by a later `register`): if it is parked, it has nothing to do, or ITS waker
    has been woken, or a `wake()` is still to come.  With one writer thread this is `no_lost_wakeup`. -/
theorem latest_registration_not_lost_n (sc : Scenario) (ls : List Label) (hs : sc.shutdowns = 0) :
    let s := run sc ls
    ∀ i w, s.writers[i]? = some w → w.parked = true → replacedW s i w = false →
      (s.credit = 0 ∧ s.closed = false) ∨ wokenW s i w = true ∨ wakePending s = true := by
  intro s i w hw hp hr
  rw [closed_eq_taskClosed (run_inv sc ls) hs]
  exact latest_registration_not_lost_task_n sc ls i w hw hp hr

/-- Every parked writer: it has nothing to do; or its own waker was woken; or its registration was
    REPLACED by a later `register` of another task and a wake-up has been delivered to the slot since
    (to that later registration, see `wakeups_go_to_latest_registration_n`); or a `wake()` is still to
    come.  The third case is the price of one slot: this writer itself may sleep on. -/
theorem no_lost_wakeup_n (sc : Scenario) (ls : List Label) (hs : sc.shutdowns = 0) :
    let s := run sc ls
    ∀ i w, s.writers[i]? = some w → w.parked = true →
      (s.credit = 0 ∧ s.closed = false) ∨ wokenW s i w = true ∨
        (replacedW s i w = true ∧ 0 < wakesSinceReg s w) ∨ wakePending s = true := by
  intro s i w hw hp
  rw [closed_eq_taskClosed (run_inv sc ls) hs]
  exact no_lost_wakeup_task_n sc ls i w hw hp

/-- At quiescence (every actor thread has finished): a sleeping writer that could proceed or should
    fail has been woken after it registered, or its registration was replaced and the wake-up went to
    the slot after that. -/
theorem no_lost_wakeup_quiescent_n (sc : Scenario) (ls : List Label) (hs : sc.shutdowns = 0) :
    let s := run sc ls
    allActorsDone s = true →
    ∀ i w, s.writers[i]? = some w → w.parked = true → (0 < s.credit ∨ s.closed = true) →
      wokenW s i w = true ∨ (replacedW s i w = true ∧ 0 < wakesSinceReg s w) := by
  intro s hdone i w hw hp hcond
  have hn : (s.credit = 0 ∧ s.closed = false) ∨ wokenW s i w = true ∨
      (replacedW s i w = true ∧ 0 < wakesSinceReg s w) ∨ wakePending s = true :=
    no_lost_wakeup_n sc ls hs i w hw hp
  rcases hn with h | h | h | h
  · rcases hcond with c | c
    · omega
    · rw [h.2] at c; exact absurd c (by decide)
  · exact Or.inl h
  · exact Or.inr h
  · exfalso
    simp only [wakePending, List.any_eq_true] at h
    obtain ⟨a, ha, hwk⟩ := h
    simp only [allActorsDone, List.all_eq_true] at hdone
    have := hdone a ha
    cases hpc : a.pc <;> simp_all

/-- … and the task that took the slot is served: at quiescence, if credit is available or the stream
    is closed, the writer `j` of the latest registration `(j, k)` has been woken through that very
    waker, or it is not asleep (its last poll returned `Ready`: it saw the condition). -/
theorem replacing_registration_served_n (sc : Scenario) (ls : List Label) (hs : sc.shutdowns = 0) :
    let s := run sc ls
    allActorsDone s = true → (0 < s.credit ∨ s.closed = true) →
    ∀ j k, s.lastReg = some (j, k) →
      ∃ v, s.writers[j]? = some v ∧ ((j, k) ∈ s.wakeLog ∨ v.parked = false) := by
  intro s hdone hcond j k hl
  rw [closed_eq_taskClosed (run_inv sc ls) hs] at hcond
  exact replacing_registration_served_task_n sc ls hdone hcond j k hl

/-! #### The negative witness: the per-writer guarantee is FALSE with one slot

No credit, two writer threads with one poll each, one `acknowledge(1)`.  Writer 0 polls: loads, finds
no credit, registers, re-checks, returns `Pending`.  Writer 1 does the same: its `register` REPLACES
writer 0's waker.  The acknowledger adds one unit and calls `wake()`: writer 1 is woken.  Everybody has
finished; one unit of credit is available; writer 0 sleeps and its waker was never woken.  (Writer 1's
task will be polled again and can use the unit; a unit it does not need stays unused until the next
acknowledgement although writer 0 waits for it.)  loom reaches the same outcome on the real code:
`res=P,P;credit=1;wakes=0,1;after=1,1;closed=0;frames=0` of scenario `c0-w2-a1`. -/

def oneSlotScenario : Scenario := ⟨0, [1, 1], [.ack 1], 0⟩
def oneSlotSchedule : List Label :=
  [.writer 0, .writer 0, .writer 0, .writer 0, .writer 0,
   .writer 1, .writer 1, .writer 1, .writer 1, .writer 1, .actor 0, .actor 0]

theorem two_writers_one_slot_witness :
    let s := run oneSlotScenario oneSlotSchedule
    allActorsDone s = true ∧ allWritersFinished s = true ∧ s.credit = 1 ∧
      s.writers.map (·.parked) = [true, true] ∧
      (s.writers[0]?.map fun w => (wokenW s 0 w, replacedW s 0 w, wakesSinceReg s w)) = some (false, true, 1) ∧
      (s.writers[1]?.map fun w => (wokenW s 1 w, replacedW s 1 w)) = some (true, false) := by
  decide

/-- The statement of `no_lost_wakeup_quiescent` for EVERY writer of a stream ("a parked writer has
    nothing to do or its own waker was woken") does not hold when two tasks wait on one stream —
    also without any foreign shutdown (`sc.shutdowns = 0`): it is the one slot that breaks it. -/
theorem two_writers_one_slot_full_fails :
    ¬ (∀ (sc : Scenario) (ls : List Label), sc.shutdowns = 0 →
        let s := run sc ls
        allActorsDone s = true →
        ∀ i w, s.writers[i]? = some w → w.parked = true →
          (s.credit = 0 ∧ s.closed = false) ∨ wokenW s i w = true) := by
  intro h
  have hw := h oneSlotScenario oneSlotSchedule rfl (by decide) 0
  cases e : (run oneSlotScenario oneSlotSchedule).writers[0]? with
  | none => exact absurd e (by decide)
  | some w =>
    have h1 : w.parked = true ∧ wokenW (run oneSlotScenario oneSlotSchedule) 0 w = false := by
      have : ((run oneSlotScenario oneSlotSchedule).writers[0]?.map fun w =>
          (w.parked, wokenW (run oneSlotScenario oneSlotSchedule) 0 w)) = some (true, false) := by decide
      rw [e] at this
      simpa using this
    rcases hw w e h1.1 with h2 | h2
    · exact absurd h2.1 (by decide)
    · rw [h1.2] at h2; exact absurd h2 (by decide)

/-! #### Non-vacuity of the `_n` theorems -/

/-- two writers that both loaded the last unit: one `compare_exchange` succeeds, the other fails,
    re-loads 0, registers, re-checks and parks — ONE frame, credit 0 -/
example :
    let s := run ⟨1, [1, 1], [], 0⟩ [.writer 0, .writer 1, .writer 0, .writer 1]
    s.credit = 1 ∧ s.writers.map (·.pc) = [.cas 1, .cas 1] ∧ inFlight s = 0 ∧ grantsToCome s = 0 := by
  decide

example :
    let s := run ⟨1, [1, 1], [], 0⟩ ([.writer 0, .writer 1, .writer 0, .writer 1] ++
      [.writer 1, .writer 0, .writer 0, .writer 0, .writer 0, .writer 0, .writer 1])
    allWritersFinished s = true ∧ s.writers.map (·.results) = [[.pending], [.some]] ∧ s.credit = 0 ∧
      totalSent s = 1 ∧ totalTakes s = 1 := by
  decide

/-- conservation with a grant racing two takes: 1 + 2 granted, two frames, one unit left -/
example :
    let s := run ⟨1, [1, 1], [.ack 2], 0⟩ [.writer 0, .writer 0, .actor 0, .writer 1, .writer 1, .writer 0,
      .writer 0, .writer 0, .writer 0, .writer 1, .writer 1, .writer 1, .writer 1, .actor 0]
    allWritersFinished s = true ∧ s.writers.map (·.results) = [[.some], [.some]] ∧ s.credit = 1 ∧
      s.grants = 2 ∧ totalSent s = 2 ∧ s.writers.map (·.takes) = [[3], [2]] := by
  decide

/-- a parked writer whose own waker was woken (it is the latest registration) -/
example :
    let s := run ⟨0, [1, 1], [.ack 1], 0⟩ [.writer 1, .writer 1, .writer 1, .writer 1, .writer 1, .actor 0, .actor 0]
    (s.writers[1]?.map fun w => (w.parked, replacedW s 1 w, wokenW s 1 w)) = some (true, false, true) ∧
      s.credit = 1 := by
  decide

/-- closed: a poll of writer 1 that starts after the `swap` fails; writer 0, parked before, is woken -/
example :
    let s := run ⟨0, [1, 1], [.close], 0⟩ [.writer 0, .writer 0, .writer 0, .writer 0, .writer 0, .actor 0,
      .writer 1, .actor 0]
    s.writers.map (·.log) = [[(false, .pending)], [(true, .none)]] ∧ s.closed = true ∧
      s.wakeLog = [(0, 0)] := by
  decide

/-- the latest registration belongs to a writer that is not asleep (it saw the credit in its re-check),
    while the replaced writer sleeps with one unit left: `replacing_registration_served_n`, second case -/
example :
    let s := run ⟨0, [1, 1], [.ack 2], 0⟩ [.writer 0, .writer 0, .writer 0, .writer 0, .writer 0,
      .writer 1, .writer 1, .writer 1, .actor 0, .writer 1, .writer 1, .writer 1, .writer 1, .actor 0]
    allActorsDone s = true ∧ allWritersFinished s = true ∧ s.credit = 1 ∧ s.lastReg = some (1, 0) ∧
      s.writers.map (·.results) = [[.pending], [.some]] ∧ s.wakeLog = [(1, 0)] := by
  decide

/-! #### Foreign shutdown: `do_shutdown()` through another handle of the stream

`MuxStream::do_shutdown(&self)` sets `finish_sent` and wakes nobody.  That is the behaviour of the code
and not a violation of C12, which is about the writer and the CONNECTION TASK: the witness below
documents it; `close_after_foreign_shutdown_wakes_n` / `no_writer_left_unwoken_after_close_n` above say
what the connection task's close then guarantees. -/

/-- No credit, one writer, one `do_shutdown()` thread, no operation of the connection task.  The writer
    polls (loads, registers, re-checks) and returns `Pending`; then the shutdown runs.  Everything has
    finished: the flag is set, the writer is parked, its waker is still in the cell and was never
    woken, no `wake()` is pending — although a re-poll would return `Ready(None)` (second conjunct: the
    same schedule with a writer of two polls, the second of which starts after the shutdown). -/
theorem foreign_shutdown_alone_wakes_nobody :
    (let s := run ⟨0, [1], [], 1⟩ [.writer 0, .writer 0, .writer 0, .writer 0, .writer 0, .shutdown]
     allWritersFinished s = true ∧ allActorsDone s = true ∧ s.shutdownsLeft = 0 ∧ s.closed = true ∧
       taskClosed s = false ∧ s.writers.map (·.parked) = [true] ∧ s.registered = some (0, 0) ∧
       s.wakeLog = [] ∧ wakePending s = false) ∧
    (let s := run ⟨0, [2], [], 1⟩ [.writer 0, .writer 0, .writer 0, .writer 0, .writer 0, .shutdown, .writer 0]
     s.writers.map (·.results) = [[.pending, .none]] ∧ s.wakeLog = []) := by
  decide

/-- the connection task's close after a foreign shutdown (flag already set by `do_shutdown`): the
    `swap` changes nothing, the unconditional `wake()` wakes the parked writer —
    `close_after_foreign_shutdown_wakes_n` / `no_writer_left_unwoken_after_close_n`, non-vacuity -/
example :
    let s := run ⟨0, [1], [.close], 1⟩ [.writer 0, .writer 0, .writer 0, .writer 0, .writer 0, .shutdown,
      .actor 0, .actor 0]
    allActorsDone s = true ∧ taskCloseCompleted s = true ∧ s.shutdownsDone = 1 ∧
      (s.writers[0]?.map fun w => (w.parked, wokenW s 0 w, wakesSinceReg s w)) = some (true, true, 1) := by
  decide

/-- the same with the close in progress: flag set twice, the `wake()` still to come
    (`close_in_progress_will_wake_n`, third case) -/
example :
    let s := run ⟨0, [1], [.close], 1⟩ [.writer 0, .writer 0, .writer 0, .writer 0, .writer 0, .shutdown, .actor 0]
    taskClosed s = true ∧ taskCloseCompleted s = false ∧ wakePending s = true ∧
      (s.writers[0]?.map fun w => (w.parked, wokenW s 0 w)) = some (true, false) := by
  decide

/-- two writers parked, foreign shutdown, then the close: the wake-up goes to the latest registration
    (writer 1); writer 0's registration was replaced — the second disjunct of
    `no_writer_left_unwoken_after_close_n` -/
example :
    let s := run ⟨0, [1, 1], [.close], 1⟩ [.writer 0, .writer 0, .writer 0, .writer 0, .writer 0,
      .writer 1, .writer 1, .writer 1, .writer 1, .writer 1, .shutdown, .actor 0, .actor 0]
    allActorsDone s = true ∧ s.writers.map (·.parked) = [true, true] ∧ s.wakeLog = [(1, 0)] ∧
      (s.writers[0]?.map fun w => (wokenW s 0 w, replacedW s 0 w, wakesSinceReg s w)) = some (false, true, 1) := by
  decide

/-- a poll that starts after a foreign shutdown fails like one that starts after a close
    (`closed_writers_fail_n`, `closed_iff_close_or_foreign_shutdown_n`) -/
example :
    let s := run ⟨1, [1], [], 1⟩ [.shutdown, .writer 0]
    s.writers.map (·.log) = [[(true, .none)]] ∧ s.closed = true ∧ taskClosed s = false ∧ s.credit = 1 := by
  decide

end Penguin.C12
