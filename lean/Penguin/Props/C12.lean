/-
C12 — No lost wake-ups or credit races between writer threads and the connection task.

Every theorem is about EVERY reachable state `run sc ls` of EVERY scenario `sc` (any initial credit,
any number of writer polls, any number of `acknowledge(n)` / `disallow_write()` threads) under
EVERY schedule `ls` of the atomic operations — induction over the step relation
(`Lemmas/Waker.lean`), not enumeration.  The model is sequentially consistent; see
`Model/Waker.lean` for what one step is and what is trusted (`AtomicWaker`'s register / wake).
-/
import Penguin.Model.Waker
import Penguin.Lemmas.Waker
import Penguin.Lemmas.MuxWake

namespace Penguin.C12
open Penguin.Waker Penguin.Lemmas.Waker

/-- A writer that returned `Pending` from its last poll (it sleeps) is in one of three situations:
    there is nothing it could do (no credit and the stream is not closed); or the waker of that very
    poll has been woken (so the task is scheduled again); or an `acknowledge` / `disallow_write`
    has done its write and its `wake()` is that thread's next operation. -/
theorem no_lost_wakeup (sc : Scenario) (ls : List Label) :
    let s := run sc ls
    parked s = true →
      (s.credit = 0 ∧ s.closed = false) ∨ woken s = true ∨ wakePending s = true := by
  intro s hp
  have inv : Inv sc s := run_inv sc ls
  have hrw := inv.reg_or_woken (Or.inr (Or.inr hp))
  rcases hrw with hreg | hw
  · obtain ⟨hd, hc⟩ := inv.parked_ok hp hreg
    by_cases hcr : 0 < s.credit
    · right; right
      obtain ⟨a, ha, hpa⟩ := List.countP_pos_iff.mp (hc hcr)
      simp only [wakePending, List.any_eq_true]
      refine ⟨a, ha, ?_⟩
      simp [pAckerMid] at hpa
      simp [hpa.2]
    · by_cases hcl : s.closed = true
      · right; right
        have hpos := inv.closed_iff.mp hcl
        have hmid : 0 < s.actors.countP pCloserMid := by omega
        obtain ⟨a, ha, hpa⟩ := List.countP_pos_iff.mp hmid
        simp only [wakePending, List.any_eq_true]
        refine ⟨a, ha, ?_⟩
        simp [pCloserMid] at hpa
        simp [hpa.2]
      · left
        exact ⟨by omega, by simpa using hcl⟩
  · right; left
    simpa [woken] using hw

/-- "Woken" above means woken after registering: the waker of the writer's last poll can only have
    been woken once that poll had executed `register` (and no waker of a later poll exists). -/
theorem woken_only_after_register (sc : Scenario) (ls : List Label) :
    let s := run sc ls
    (woken s = true → s.curRegistered = true) ∧ (∀ j ∈ s.wakeLog, j ≤ s.cur) := by
  intro s
  have inv : Inv2 s := run_inv2 sc ls
  exact ⟨fun h => inv.woken_cur (by simpa [woken] using h), inv.woken_le⟩

/-- … so, once every other thread has finished, a sleeping writer has neither credit nor a closed
    stream to react to, or it has been woken after it registered: it never sleeps while it could
    proceed or should fail. -/
theorem no_lost_wakeup_quiescent (sc : Scenario) (ls : List Label) :
    let s := run sc ls
    parked s = true → allActorsDone s = true →
      (s.credit = 0 ∧ s.closed = false) ∨ woken s = true := by
  intro s hp hdone
  rcases no_lost_wakeup sc ls hp with h | h | h
  · exact Or.inl h
  · exact Or.inr h
  · exfalso
    simp only [wakePending, List.any_eq_true] at h
    obtain ⟨a, ha, hw⟩ := h
    simp only [allActorsDone, List.all_eq_true] at hdone
    have := hdone a ha
    cases hpc : a.pc <;> simp_all

/-- Credit grants racing with the writer taking credit: the credit finally (and at every moment)
    available plus the units taken equals the initial credit plus the units granted. -/
theorem credit_conservation (sc : Scenario) (ls : List Label) :
    let s := run sc ls
    s.credit + s.takes.length = sc.credit + s.grants :=
  (run_inv sc ls).conservation

/-- A writer never sends a frame without a unit of credit: the frames handed to the task never
    exceed the successful decrements, every decrement was from a positive value, and the polls that
    returned `Ready(Some(()))` are exactly the frames sent. -/
theorem no_frame_without_credit (sc : Scenario) (ls : List Label) :
    let s := run sc ls
    s.sent ≤ s.takes.length ∧ (∀ v ∈ s.takes, 0 < v) ∧
      (results s).count .some = s.sent := by
  intro s
  have inv : Inv sc s := run_inv sc ls
  refine ⟨?_, inv.takes_pos, ?_⟩
  · have := inv.sent_takes
    split at this <;> omega
  · have h := inv.log_some
    rw [← h]
    simp only [results, List.count_reverse]
    generalize s.log = l
    induction l with
    | nil => rfl
    | cons p l ih =>
      simp only [List.map_cons, List.count_cons, List.countP_cons, ih]

/-- A poll whose first operation comes after a close has completed its `swap` returns
    `Ready(None)`: every logged poll that found `finish_sent` set when it started failed. -/
theorem closed_writer_fails (sc : Scenario) (ls : List Label) :
    let s := run sc ls
    ∀ p ∈ s.log, p.1 = true → p.2 = .none :=
  (run_inv sc ls).log_closed

/-- The flag a starting poll looks at is set exactly when some `disallow_write()` has performed its
    `swap` (whether or not its `wake()` has run yet), so "started after close completed" above is
    about the closer threads, not about a ghost. -/
theorem closed_iff_some_close_swapped (sc : Scenario) (ls : List Label) :
    let s := run sc ls
    s.closed = true ↔ ∃ a ∈ s.actors, a.isCloser = true ∧ a.pc ≠ .write := by
  intro s
  have inv : Inv sc s := run_inv sc ls
  rw [inv.closed_iff]
  constructor
  · intro h
    have : 0 < s.actors.countP pCloserMid ∨ 0 < s.actors.countP pCloserDone := by omega
    rcases this with h | h <;> obtain ⟨a, ha, hp⟩ := List.countP_pos_iff.mp h
    · simp [pCloserMid] at hp
      exact ⟨a, ha, hp.1, by simp [hp.2]⟩
    · simp [pCloserDone] at hp
      exact ⟨a, ha, hp.1, by simp [hp.2]⟩
  · rintro ⟨a, ha, hc, hpc⟩
    cases hp : a.pc with
    | write => exact absurd hp hpc
    | wake =>
      have : 0 < s.actors.countP pCloserMid :=
        List.countP_pos_iff.mpr ⟨a, ha, by simp [pCloserMid, hc, hp]⟩
      omega
    | done =>
      have : 0 < s.actors.countP pCloserDone :=
        List.countP_pos_iff.mpr ⟨a, ha, by simp [pCloserDone, hc, hp]⟩
      omega

/-! ### The pinned code loses a wake-up (documented witness, regression)

`stepPinned` is the code before the repair: `register` is followed by `return Poll::Pending`
without looking at the credit or the closed flag again.  Scenario: no credit, one poll, one
`acknowledge(1)`.  Schedule: the writer loads `finish_sent` (false) and the credit (0); the
acknowledger adds 1 and calls `wake()` (nothing registered yet); the writer registers and parks.
All threads have finished, one unit of credit is available, nobody was woken: the writer sleeps
forever.  loom reaches the same outcome on the real pinned code (`corpus/C12/`). -/

def lostWakeupScenario : Scenario := ⟨0, 1, [.ack 1]⟩
def lostWakeupSchedule : List Label := [.writer, .writer, .actor 0, .actor 0, .writer]

theorem pinned_code_loses_wakeup :
    let s := runPinned lostWakeupScenario lostWakeupSchedule
    parked s = true ∧ allActorsDone s = true ∧ s.credit = 1 ∧ woken s = false ∧
      wakePending s = false := by
  decide

/-- The same for a close: the writer is never told that the stream was closed. -/
theorem pinned_code_loses_close_wakeup :
    let s := runPinned ⟨0, 1, [.close]⟩ [.writer, .writer, .actor 0, .actor 0, .writer]
    parked s = true ∧ allActorsDone s = true ∧ s.closed = true ∧ woken s = false := by
  decide

/-- On the repaired code the same schedule continues with the re-check and takes the credit. -/
example :
    let s := run lostWakeupScenario (lostWakeupSchedule ++ [.writer, .writer, .writer, .writer])
    results s = [.some] ∧ s.credit = 0 ∧ s.sent = 1 ∧ s.pc = .finished := by
  decide

/-! ### Non-vacuity: the hypotheses are met by reachable states -/

/-- parked with a wake delivered after the registration (`woken`) -/
example :
    let s := run ⟨0, 1, [.ack 1]⟩ [.writer, .writer, .writer, .writer, .writer, .actor 0, .actor 0]
    parked s = true ∧ allActorsDone s = true ∧ s.credit = 1 ∧ woken s = true := by
  decide

/-- parked while the acknowledger sits between `fetch_add` and `wake` (`wakePending`) -/
example :
    let s := run ⟨0, 1, [.ack 1]⟩ [.writer, .writer, .writer, .writer, .writer, .actor 0]
    parked s = true ∧ s.credit = 1 ∧ woken s = false ∧ wakePending s = true := by
  decide

/-- parked with nothing to do -/
example :
    let s := run ⟨0, 1, []⟩ [.writer, .writer, .writer, .writer, .writer]
    parked s = true ∧ allActorsDone s = true ∧ s.credit = 0 ∧ s.closed = false := by
  decide

/-- a poll that starts after the close has swapped fails; the close that lands during a poll
    which already registered makes the re-check fail it -/
example :
    let s := run ⟨1, 2, [.close]⟩ [.actor 0, .writer, .writer]
    s.log = [(true, .none), (true, .none)] := by
  decide

example :
    let s := run ⟨0, 1, [.close]⟩ [.writer, .writer, .writer, .actor 0, .writer]
    results s = [.none] ∧ s.log = [(false, .none)] := by
  decide

/-- a grant racing with the take: CAS fails once, is retried, conservation 0 + 1 = 0 + 1 … -/
example :
    let s := run ⟨1, 1, [.ack 2]⟩ [.writer, .writer, .actor 0, .writer, .writer, .writer, .writer]
    results s = [.some] ∧ s.credit = 2 ∧ s.takes = [3] ∧ s.grants = 2 ∧ s.sent = 1 := by
  decide

/-! ### The composite paths: the whole endpoint (`Lemmas/MuxWake.lean`)

The scenarios above race `acknowledge` / `disallow_write` with the writer.  Whether the task CALLS
them whenever it grants credit or closes a stream is a matter of `process_frame`, `close_flow` and
`wind_down`; the endpoint model (`Model/Mux`, the one the correspondence harness compares with the
real `Multiplexor`, whose wake flags are part of the comparison) covers those. -/

open Penguin.Mux in
/-- In every state an endpoint reaches — any sequence of application calls and deliveries, any peer,
    connection ends and wind-downs included — a writer that is parked and whose waker has not been
    woken has no credit, and its stream has not been closed for writing. -/
theorem endpoint_parked_writer_is_blocked (o : Opts) (ops : List Mux.Op) (i : Nat) (ob : Obj)
    (ho : (runOps { opts := o } ops).objs[i]? = some ob) (hp : ob.parked = true) (hw : ob.woken = false) :
    ob.credit = 0 ∧ ob.finishSent = false :=
  reachable_wakeOk o ops i ob ho hp hw

open Penguin.Mux in
/-- … so polling such a writer again returns `Pending` again: it never sleeps while it could
    proceed or should fail. -/
theorem endpoint_no_lost_wakeup (o : Opts) (ops : List Mux.Op) (h i : Nat) (ob : Obj) (d : Bytes)
    (hh : (runOps { opts := o } ops).handleObj h = some (i, ob)) (hp : ob.parked = true) (hw : ob.woken = false)
    (hd : d ≠ []) :
    (appWrite (runOps { opts := o } ops) h d).2 = .pending := by
  obtain ⟨hc, hf⟩ := reachable_wakeOk o ops i ob (handleObj_some hh) hp hw
  have hde : d.isEmpty = false := by cases d <;> simp_all
  simp [appWrite, hh, hf, hde, hc]

/-! Non-vacuity: a writer parked on an exhausted window of 1 (first example); the connection then
    ends (peer `Close`): the writer has been woken and its next poll fails (second example). -/
private def wops : List Mux.Op :=
  [.deliver (.msg (.frame (.connect 5 1 80 []))), .accept, .write 0 [1], .write 0 [2]]
example : ((Mux.runOps { opts := {} } wops).objs[0]?.map (fun o => (o.parked, o.woken, o.credit))) = some (true, false, 0) := by decide
example : ((Mux.runOps { opts := {} } (wops ++ [.deliver (.msg .close), .deliver .eof])).objs[0]?.map
    (fun o => (o.parked, o.woken, o.finishSent))) = some (true, true, true) := by decide

end Penguin.C12
