/-
C15 — Bind requests resolve exactly once with the peer's decision.
Theorems over the endpoint model: the requester's slot life cycle, what the peer application is
shown, what each kind of answer (accept, reject, drop before/after answering) puts on the wire.
-/
import Penguin.Model.Mux
import Penguin.Lemmas.MuxBasic
import Penguin.Lemmas.MuxStep
import Penguin.Lemmas.MuxOnceB
import Penguin.Lemmas.BindPair
import Penguin.Lemmas.BindStim
import Penguin.Lemmas.PairCor
import Penguin.Lemmas.PairHarness
import Penguin.Lemmas.BindAllReach
import Penguin.Lemmas.BindAllReach3
import Penguin.Lemmas.BindAllConv
import Penguin.Lemmas.BindAllClosed
import Penguin.Lemmas.BindAllReach4

namespace Penguin.C15
open Penguin Penguin.Mux

/-- A bind request reserves a fresh non-zero flow id and sends exactly one `Bind` frame carrying the
    requested type, host bytes and port under that id. -/
theorem request_sends_bind (e : EP) (req : Nat) (bt : BindType) (host : Bytes) (port : Nat)
    (hoc : e.outClosed = false) :
    (∃ fid, fid ≠ 0 ∧ lookup e.flows fid = none ∧
      (appBindReq e req bt host port).1.outq = e.outq ++ [.frame (.bind fid bt port host)] ∧
      lookup (appBindReq e req bt host port).1.flows fid = some (.bindRequested req) ∧
      (appBindReq e req bt host port).2 = []) ∨
    appBindReq e req bt host port = (e, [.bindDone req .closed]) := by
  unfold appBindReq
  cases hd : drawId e.flows e.rng e.fallback 64 with
  | none => right; rfl
  | some r =>
    obtain ⟨fid, rng', fb'⟩ := r
    have hs := drawId_spec _ _ _ _ _ _ _ hd
    left
    exact ⟨fid, hs.1, hs.2, by simp [hoc, EP.enqFrame, enq_outq], by simp [hoc, EP.enqFrame, lookup_insert_self], by simp [hoc]⟩

/-- The peer application is shown exactly the requested bind type, host bytes and port under the
    flow id chosen by the requester (queued for `next_bind_request`, or held by the parked receive
    loop when that queue is full). -/
theorem peer_sees_request (e : EP) (fid : Nat) (bt : BindType) (port : Nat) (host : Bytes)
    (hen : e.opts.bindCap ≠ 0) (hm : e.muxAlive = true) :
    let b : BindIn := { fid := fid, bt := bt, host := host, port := port }
    let r := processFrame e (.bind fid bt port host) false
    (r.1.bindq = e.bindq ++ [b] ∨ r.1.park = some (.bind b)) ∧ r.1.outq = e.outq ∧ r.2.2 = none := by
  simp only [processFrame, hen, if_false, hm, Bool.not_true, Bool.false_eq_true]
  refine ⟨?_, offerBind_outq _ _, trivial⟩
  unfold offerBind
  split
  · left; rfl
  · right; rfl

theorem next_bind_request_shows_it (e : EP) (b : BindIn) (rest : List BindIn)
    (hen : e.opts.bindCap ≠ 0) (hq : e.bindq = b :: rest) :
    (appBindNext e).2 = .bindReq e.held.length b.fid b.bt b.host b.port := by
  simp [appBindNext, hen, hq]

/-- The peer's answers: accepting sends `Finish`, rejecting sends `Reset`; dropping an unanswered
    request rejects it; dropping an answered one sends nothing more. -/
theorem answers (e : EP) (k : Nat) (b : BindIn) (hk : e.held[k]? = some b) (ha : b.alive = true)
    (hoc : e.outClosed = false) :
    (appBindReply e k true).1.outq = e.outq ++ [.frame (.finish b.fid)] ∧
    (appBindReply e k false).1.outq = e.outq ++ [.frame (.reset b.fid)] ∧
    (b.replied = false → (appBindDrop e k).1.outq = e.outq ++ [.frame (.reset b.fid)]) ∧
    (b.replied = true → (appBindDrop e k).1.outq = e.outq) := by
  refine ⟨by simp [appBindReply, hk, ha, hoc, EP.enqFrame, enq_outq],
    by simp [appBindReply, hk, ha, hoc, EP.enqFrame, enq_outq], ?_, ?_⟩
  · intro hr; simp [appBindDrop, hk, ha, hr, EP.enqFrame, enq_outq, hoc]
  · intro hr; simp [appBindDrop, hk, ha, hr]

theorem reply_marks_answered (e : EP) (k : Nat) (b : BindIn) (acc : Bool) (hk : e.held[k]? = some b)
    (ha : b.alive = true) (hoc : e.outClosed = false) :
    (appBindReply e k acc).1.held[k]? = some { b with replied := true } := by
  simp [appBindReply, hk, ha, hoc, List.getElem?_modify]

/-- The requester's request resolves `true` exactly on the peer's `Finish`, `false` on its `Reset`;
    either way the flow id is released (free for reuse) in the same step, so no second resolution of
    that slot can follow. -/
theorem resolution (e : EP) (fid req : Nat) (ig : Bool) (hs : lookup e.flows fid = some (.bindRequested req)) :
    (processFrame e (.finish fid) ig).2.1 = [.bindDone req .accepted] ∧
    lookup (processFrame e (.finish fid) ig).1.flows fid = none ∧
    (processFrame e (.reset fid) ig).2.1 = [.bindDone req .refused] ∧
    lookup (processFrame e (.reset fid) ig).1.flows fid = none := by
  simp [processFrame, hs, closeFlow, closeLocal, lookup_erase_self]

/-- Nothing else resolves it: `Acknowledge`, `Push`, `Connect` on the id of a pending bind request
    are answered with `Reset` and the request stays pending. -/
theorem other_frames_keep_it_pending (e : EP) (fid req : Nat) (ig : Bool)
    (hs : lookup e.flows fid = some (.bindRequested req)) :
    (∀ n, processFrame e (.acknowledge fid n) ig = (e.enqFrame (.reset fid), [], none)) ∧
    (∀ d, processFrame e (.push fid d) ig = (e.enqFrame (.reset fid), [], none)) ∧
    (∀ w p h, processFrame e (.connect fid w p h) ig = (e.enqFrame (.reset fid), [], none)) := by
  simp [processFrame, hs]

/-- Requests are answered independently of one another: an answer for one id leaves every other
    pending request's slot as it is. -/
theorem independent_answers (e : EP) (f : Frame) (ig : Bool) (y req : Nat)
    (hy : lookup e.flows y = some (.bindRequested req)) (hne : ∀ fid, Msg.flow? (.frame f) = some fid → y ≠ fid) :
    lookup (processFrame e f ig).1.flows y = some (.bindRequested req) :=
  Mux.processFrame_other_slot e f ig y _ hy hne

/-- A peer that is not configured to accept binds answers `Reset` (the requester resolves `false`). -/
theorem binds_disabled (e : EP) (fid : Nat) (bt : BindType) (port : Nat) (host : Bytes) (ig : Bool)
    (h : e.opts.bindCap = 0) :
    processFrame e (.bind fid bt port host) ig = (e.enqFrame (.reset fid), [], none) := by
  simp [processFrame, h]

/-- If the connection ends first, a pending request resolves `false`. -/
theorem connection_end_resolves_false (e : EP) (req fid : Nat) (inh final : Bool) :
    (closeLocal e (.bindRequested req) fid inh final).2 = [.bindDone req .refused] := rfl

/-- Exactly once, the "at most" half for every history: over any history of stimuli of one endpoint
    (application calls, deliveries of anything a peer may send, faults, the wind-down) in which bind
    request numbers are not reused, no bind request is answered twice — accepted (the peer's `Finish`),
    refused (its `Reset`, or the connection ending first) or `Closed` — and only requests that were
    made are answered. (The "at least" half is C08: whatever is pending when the connection ends is
    answered by the wind-down, `connection_end_resolves_false`.) `Lemmas/MuxOnceB.lean`. -/
theorem each_bind_request_answered_at_most_once (o : Opts) (ops : List Mux.Op) (h : (bindsOf ops).Nodup) :
    (doneB (runOpsEv { opts := o } ops).2).Nodup ∧
    ∀ r, r ∈ doneB (runOpsEv { opts := o } ops).2 → r ∈ bindsOf ops :=
  binds_answered_at_most_once o ops h

/-! Non-vacuity: request 1 is accepted by the peer, request 2 refused, request 3 is still pending
    when the peer closes the connection (refused by the wind-down). -/
private def bops : List Mux.Op :=
  [.bindReq 1 .stream [97] 80, .bindReq 2 .datagram [98] 81, .deliver (.msg (.frame (.finish 7))),
   .deliver (.msg (.frame (.reset 8))), .bindReq 3 .stream [99] 82, .deliver (.msg .close)]
example : bindsOf bops = [1, 2, 3] := by decide
example : doneB (runOpsEv { opts := {}, rng := [7, 8, 9] } bops).2 = [1, 2, 3] := by decide

/-! Non-vacuity -/
example : (appBindReq { opts := {}, rng := [7] } 1 .stream [0x61] 80).1.outq = [.frame (.bind 7 .stream 80 [0x61])] := by decide

/-! ### Two endpoints: the answer IS the peer application's decision on that very request

`Model/BindPair`: two endpoint models joined by two FIFO wires, every interleaving of application
calls (`request_bind`, `next_bind_request`, `reply`, dropping a `BindRequest`), single messages handed
to the transport, single frames processed, completed hand-overs to a full bind queue; both sides ask
and answer, any number of requests at a time, any queue sizes, binds enabled or not.  The ghost
history records what the applications did and saw.  `Lemmas/BindDir`, `BindInj`, `BindPair`. -/

open Penguin.BindPair in
/-- What the resolution of request `req` of the asking side (`p.a`) means at the answering side
    (`p.b`, whose `bind_buffer_size` is `peerCap`). -/
def ResolvedAsDecided (peerCap : Nat) (p : BindPair.PS) (req : Nat) : Prop :=
  ((req, BindRes.accepted) ∈ p.ga.results →
      ∃ k b, (req, k) ∈ p.gb.links ∧ p.b.held[k]? = some b ∧ recOf req b ∈ p.ga.asked ∧
             k ∈ p.gb.accepted ∧ k ∉ p.gb.rejected) ∧
  ((req, BindRes.refused) ∈ p.ga.results →
      peerCap = 0 ∨ ∃ k b, (req, k) ∈ p.gb.links ∧ p.b.held[k]? = some b ∧ recOf req b ∈ p.ga.asked ∧
             k ∈ p.gb.rejected ∧ k ∉ p.gb.accepted)

/-- `true` iff the peer accepted that very request: in every reachable state of the pair, a request
    that resolved `true` was shown to the peer application as `BindRequest` number `k` with exactly
    the asked type, host bytes and port under the requester's flow id (`recOf req b` is the asked
    record), and the peer application answered THAT `BindRequest` with `reply(true)` and did not
    reject it; one that resolved `false` met a peer that takes no binds, or its `BindRequest` was
    rejected or dropped unanswered and not accepted.  In both directions. -/
theorem pair_bind_resolves_with_the_peers_decision (oa ob : Opts) (ra rb : List Nat)
    (acts : List (BindPair.Side × BindPair.Act)) (req : Nat) :
    ResolvedAsDecided ob.bindCap (BindPair.run (BindPair.init oa ob ra rb) acts) req ∧
    ResolvedAsDecided oa.bindCap (BindPair.run (BindPair.init oa ob ra rb) acts).swap req := by
  have h := BindPair.reachable_inv oa ob ra rb acts
  exact ⟨⟨BindPair.accepted_means_peer_accepted h req, BindPair.refused_means_peer_refused h req⟩,
         ⟨BindPair.accepted_means_peer_accepted h.swap req, BindPair.refused_means_peer_refused h.swap req⟩⟩

/-- The peer application is shown exactly what was asked: every `BindRequest` it ever receives is,
    field for field and under the requester's flow id, a request the other application made; the
    pairing of requests and `BindRequest`s is one-to-one (no request is shown twice, none is
    invented, none stands for two).  In both directions. -/
theorem pair_bind_peer_is_shown_exactly_the_requests (oa ob : Opts) (ra rb : List Nat)
    (acts : List (BindPair.Side × BindPair.Act)) :
    let p := BindPair.run (BindPair.init oa ob ra rb) acts
    (∀ (k : Nat) (b : BindIn), p.b.held[k]? = some b → ∃ req, (req, k) ∈ p.gb.links ∧ BindPair.recOf req b ∈ p.ga.asked) ∧
    (∀ (k : Nat) (b : BindIn), p.a.held[k]? = some b → ∃ req, (req, k) ∈ p.ga.links ∧ BindPair.recOf req b ∈ p.gb.asked) ∧
    (p.gb.links.map (·.1)).Nodup ∧ (p.gb.links.map (·.2)).Nodup ∧
    (p.ga.links.map (·.1)).Nodup ∧ (p.ga.links.map (·.2)).Nodup := by
  intro p
  have h := BindPair.reachable_inv oa ob ra rb acts
  exact ⟨BindPair.shown_is_asked h, BindPair.shown_is_asked h.swap,
         (BindPair.links_one_to_one h).1, (BindPair.links_one_to_one h).2,
         (BindPair.links_one_to_one h.swap).1, (BindPair.links_one_to_one h.swap).2⟩

/-- The flow id is free for reuse afterwards, on both endpoints: once the requester holds no slot
    for an id, no answer for it is queued or on the wire, the peer's bind queue has no request under
    it, and no `BindRequest` under it awaits the peer application's decision — a new request drawn
    with the same id starts clean. -/
theorem pair_bind_id_is_free_afterwards (oa ob : Opts) (ra rb : List Nat)
    (acts : List (BindPair.Side × BindPair.Act)) (x : Nat) :
    let p := BindPair.run (BindPair.init oa ob ra rb) acts
    lookup p.a.flows x = none →
      (.frame (.finish x)) ∉ p.ba ++ p.b.outq ∧ (.frame (.reset x)) ∉ p.ba ++ p.b.outq ∧
      (∀ c ∈ p.b.bindq, c.fid ≠ x) ∧
      (∀ (k : Nat) (b : BindIn), p.b.held[k]? = some b → b.pending = true → b.fid ≠ x) := by
  intro p hx
  exact BindPair.resolved_id_is_free (BindPair.reachable_inv oa ob ra rb acts) x hx

/-! Non-vacuity: A asks twice (ids 7 and 8); B's application takes both, answers the SECOND first
    (accept) and drops the first unanswered; both answers travel back: request 2 resolved `true`,
    request 1 `false`, and the links pair request 1 with `BindRequest` 0 and request 2 with 1. -/
private def pacts : List (BindPair.Side × BindPair.Act) :=
  [(.A, .bindReq 1 .stream [97] 80), (.A, .bindReq 2 .datagram [98] 81), (.A, .xmit), (.A, .xmit),
   (.B, .recv), (.B, .recv), (.B, .bindNext), (.B, .bindNext), (.B, .bindReply 1 true), (.B, .bindDrop 0),
   (.B, .xmit), (.B, .xmit), (.A, .recv), (.A, .recv)]
private def pfin : BindPair.PS := BindPair.run (BindPair.init {} { bindCap := 2 } [7, 8] []) pacts
example : pfin.ga.results = [(2, .accepted), (1, .refused)] := by decide
example : pfin.gb.links = [(1, 0), (2, 1)] ∧ pfin.gb.accepted = [1] ∧ pfin.gb.rejected = [0] := by decide
example : pfin.a.flows = [] ∧ pfin.ba = [] ∧ pfin.b.outq = [] := by decide

/-- What the correspondence harness executes is covered by the pair theorems: an application call of
    the harness at an endpoint (`request_bind`, `next_bind_request`, `reply`, dropping a
    `BindRequest` — each followed by the connection task's run to quiescence, `Mux.applyOp`, the
    function compared with the real `Multiplexor`) leaves the endpoint and the wire exactly as the
    run `call; unpark; xmit × n` of the pair does. -/
theorem harness_bind_call_is_a_run (oa ob : Opts) (ra rb : List Nat) (acts : List (BindPair.Side × BindPair.Act))
    (a : BindPair.Act) (op : Mux.Op) (q1 : BindPair.PS) (ho : BindPair.opOf a = some op)
    (hs : BindPair.stepL (BindPair.run (BindPair.init oa ob ra rb) acts) a = some q1) :
    let p := BindPair.run (BindPair.init oa ob ra rb) acts
    ∃ n q, BindPair.runL p (a :: .unpark :: List.replicate n .xmit) = some q ∧
      q.a = (applyOp p.a op).1 ∧ q.ab = p.ab ++ BindPair.wiresOf (applyOp p.a op).2.2 ∧ q.b = p.b ∧ q.ba = p.ba :=
  BindPair.call_is_a_run (BindPair.reachable_inv oa ob ra rb acts) ho hs

/-- … and a delivery of the harness (the oldest message in transit is handed to an endpoint whose
    receive loop is not parked, then the task runs to quiescence) leaves them as the run
    `recv; unpark; xmit × n` does; the delivery is always enabled (no frame of bind traffic ends the
    connection). -/
theorem harness_bind_delivery_is_a_run (oa ob : Opts) (ra rb : List Nat) (acts : List (BindPair.Side × BindPair.Act))
    (f : Frame) (rest : List Msg)
    (hba : (BindPair.run (BindPair.init oa ob ra rb) acts).ba = .frame f :: rest)
    (hp : (BindPair.run (BindPair.init oa ob ra rb) acts).a.park = none) :
    let p := BindPair.run (BindPair.init oa ob ra rb) acts
    ∃ n q, BindPair.runL p (.recv :: .unpark :: List.replicate n .xmit) = some q ∧
      q.a = (applyOp p.a (.deliver (.msg (.frame f)))).1 ∧
      q.ab = p.ab ++ BindPair.wiresOf (applyOp p.a (.deliver (.msg (.frame f)))).2.2 ∧ q.b = p.b ∧ q.ba = rest :=
  BindPair.deliver_is_a_run (BindPair.reachable_inv oa ob ra rb acts) f rest hba hp

/-! Non-vacuity: after A's two requests were transmitted, the first is in transit to B, whose receive
    loop is not parked; and `request_bind` is enabled at A in the initial state. -/
example : (BindPair.run (BindPair.init {} { bindCap := 2 } [7, 8] []) (pacts.take 4)).swap.ba =
    [.frame (.bind 7 .stream 80 [97]), .frame (.bind 8 .datagram 81 [98])] ∧
    (BindPair.run (BindPair.init {} { bindCap := 2 } [7, 8] []) (pacts.take 4)).swap.a.park = none := by decide
example : (BindPair.stepL (BindPair.init {} { bindCap := 2 } [7, 8] []) (.bindReq 1 .stream [97] 80)).isSome = true := by decide

/-! ### Bind requests and streams on ONE connection (`Model/Pair` with the bind actions)

The theorems above treat connections that carry bind traffic only.  `Model/Pair` is the running phase
of a connection with streams, datagrams AND bind requests: its actions include `request_bind`,
`next_bind_request`, `reply`, the drop of a `BindRequest`, and its receive loop processes `Bind` frames.
Its invariant (`Pair.Inv`, proved for every run in `Lemmas/PairMain.lean`) has two parts: the stream
part (every flow id is fresh, requested, half-open, linked or dead; `Props/C02`–`C07` read their
`pair_*` theorems off it), and `Pair.Binds`: the flow id of every bind request that is under way or
that an endpoint remembers belongs to no stream.  Since `C02`–`C07` quantify over ALL runs of
`Model/Pair`, they hold in runs with bind traffic; the first theorem below says so explicitly. -/

open Penguin.Pair in
/-- Streams are unaffected by concurrent bind requests.  In every reachable state of a connection on
    which streams, datagrams and bind requests travel in any interleaving (flow ids never drawn twice):
    (1) the invariant of the pair holds;
    (2) on every flow established on both endpoints, in both directions, what the reader's application
        has read ++ what its handle buffers ++ what its queue holds ++ what is in flight equals, in
        order, exactly what the writer's application wrote — whatever bind requests were made,
        queued, answered, rejected or dropped meanwhile;
    (3) the flow id of every bind request that is in transit or that an endpoint remembers (parked
        hand-over, bind queue, `BindRequest` handed to the application) is the id of no stream: it is
        in no script any more, no `Connect` carries it, no stream object carries it on either
        endpoint, neither endpoint has a stream slot for it, and it was never recorded as
        established. -/
theorem pair_streams_unaffected_by_bind_traffic {oa ob : Opts} {ra rb : List Nat} (c : Pair.Cfg oa ob ra rb)
    (as : List (Pair.Side × Pair.Act)) :
    let p := Pair.run (Pair.init oa ob ra rb) as
    Pair.Inv p ∧
    (∀ x i j, Pair.Established p x i j →
      (∃ oB, p.b.objs[j]? = some oB ∧
        p.gb.rlog j ++ oB.buf ++ oB.rxq.flatten ++ (pushesOf x (pathAB p)).flatten = p.ga.wlog i ∧
        p.gb.rlog j <+: p.ga.wlog i) ∧
      (∃ oA, p.a.objs[i]? = some oA ∧
        p.ga.rlog i ++ oA.buf ++ oA.rxq.flatten ++ (pushesOf x (pathBA p)).flatten = p.gb.wlog j ∧
        p.ga.rlog i <+: p.gb.wlog j)) ∧
    (∀ x, Pair.Marked x p → Pair.BoundAt x p ∧ x ∉ p.linked) := by
  intro p
  have h : Pair.Inv p := reach_inv c as
  refine ⟨h, ?_, ?_⟩
  · intro x i j e
    exact ⟨established_bytes h e, established_bytes h.swap e.swap⟩
  · intro x hm
    have b := h.binds x hm
    exact ⟨b, fun hx => b.not_linked (h.live x hx)⟩

open Penguin.Pair in
/-- A bind request never touches a stream (the footprint of bind traffic).  Whenever an endpoint —
    on either side, in ANY state of the pair, reachable or not — makes one of the bind calls
    (`request_bind`, `next_bind_request`, `reply`, dropping a `BindRequest`) or its receive loop
    processes a `Bind` frame, then on both endpoints every stream object, every handle, every stream
    slot (`Requested` or `Established`: the same ids hold the same slots before and after), the accept
    queue, the pending `new_stream_channel` calls and the dropped-handle notifications are unchanged,
    and so is everything the applications have observed on their streams (bytes written and read,
    end-of-stream, datagrams) and the record of established flows. -/
theorem bind_request_never_touches_a_stream (p p' : Pair.PS) (s : Pair.Side) (a : Pair.Act)
    (ha : a.isBindCall = true ∨
      (a = .recv ∧ ∃ (x : Nat) (bt : BindType) (port : Nat) (host : Bytes) (rest : List Msg),
        p.incoming s = .frame (.bind x bt port host) :: rest))
    (hs : Pair.step p s a = some p') : Pair.StreamsSame p p' := by
  cases s with
  | A =>
    rcases ha with ha | ⟨rfl, x, bt, port, host, rest, hba⟩
    · exact stepL_bindCall_same a ha hs
    · exact stepL_recvBind_same x bt port host rest hba hs
  | B =>
    simp only [Pair.step, Option.map_eq_some_iff] at hs
    obtain ⟨q, hq, rfl⟩ := hs
    rcases ha with ha | ⟨rfl, x, bt, port, host, rest, hba⟩
    · exact (stepL_bindCall_same a ha hq).unswap
    · exact (stepL_recvBind_same (p := p.swap) x bt port host rest hba hq).unswap

/-! Non-vacuity: a run of the pair (windows 2, threshold 1; `b` takes up to two bind requests) in
    which `a` opens a stream (flow id 7), makes a bind request (flow id 8), writes three bytes; `b`
    receives the `Bind` frame and the data, takes the request, accepts it, reads the data; `a` receives
    the answer.  At the end the stream is established on both sides with all three bytes read, the
    bind request is resolved (its slot is gone), and `b` still remembers id 8 — which is bound. -/
private def mcfgA : Mux.Opts := { rwnd := 2, threshold := 1 }
private def mcfgB : Mux.Opts := { rwnd := 2, threshold := 1, bindCap := 2 }
private def macts : List (Pair.Side × Pair.Act) :=
  [(.A, .open 1 [104] 80), (.A, .xmit), (.B, .recv), (.B, .xmit), (.A, .recv), (.A, .runDone), (.B, .accept),
   (.A, .bindReq 5 .stream [97] 81), (.A, .write 0 [1, 2, 3]), (.A, .xmit), (.A, .xmit),
   (.B, .recv), (.B, .recv), (.B, .bindNext), (.B, .bindReply 0 true), (.B, .xmit), (.B, .read 0 9), (.A, .recv)]
private def mfin : Pair.PS := Pair.run (Pair.init mcfgA mcfgB [7, 8, 11] [9, 10]) macts
example : Pair.Cfg mcfgA mcfgB [7, 8, 11] [9, 10] := ⟨by decide, by decide, by decide, by decide⟩
example : Pair.Established mfin 7 0 0 := ⟨by decide, by decide, by decide, by decide, by decide⟩
example : mfin.gb.rlog 0 = [1, 2, 3] ∧ mfin.ga.wlog 0 = [1, 2, 3] := by decide
-- the bind request went through: `b`'s application was handed it and accepted it, `a`'s slot is resolved
example : (mfin.b.held.map (fun r => (r.fid, r.replied))) = [(8, true)] ∧ lookup mfin.a.flows 8 = none := by decide
-- id 8 is marked (b remembers it) — so, by the theorem, bound
example : Pair.Marked 8 mfin := Or.inr (Or.inr (Or.inr (by decide)))
-- while the `Bind` frame is in transit (after the 11th action) it is marked as well, and the next
-- action is the receive loop of `b` processing it: the hypotheses of the footprint theorem are met
example : Pair.Marked 8 (Pair.run (Pair.init mcfgA mcfgB [7, 8, 11] [9, 10]) (macts.take 11)) :=
  Or.inl ⟨.frame (.bind 8 .stream 81 [97]), by decide, rfl⟩
example : (Pair.run (Pair.init mcfgA mcfgB [7, 8, 11] [9, 10]) (macts.take 11)).ab =
    [.frame (.bind 8 .stream 81 [97]), .frame (.push 7 [1, 2, 3])] := by decide
example : (Pair.step (Pair.run (Pair.init mcfgA mcfgB [7, 8, 11] [9, 10]) (macts.take 11)) .B .recv).isSome = true := by decide
example : (Pair.step (Pair.run (Pair.init mcfgA mcfgB [7, 8, 11] [9, 10]) (macts.take 7)) .A (.bindReq 5 .stream [97] 81)).isSome = true := by
  decide

open Penguin.Pair in
/-- The same at the level the correspondence harness works at.  A history of checked stimuli at
    either endpoint — application calls, now including `request_bind`, `next_bind_request`, `reply`
    and the drop of a `BindRequest`, and deliveries, now including deliveries of `Bind` frames, each
    followed by that endpoint's run to quiescence (`Mux.applyOp`) — is a run of the pair's fine-grained
    actions (`Pair.stimRun_is_run`); so after every such history the invariant holds, on every
    established flow every written byte is in exactly one place, and the flow id of every bind request
    under way or remembered is the id of no stream. -/
theorem harness_history_with_bind_traffic {oa ob : Opts} {ra rb : List Nat} (c : Pair.Cfg oa ob ra rb)
    (l : List (Pair.Side × Pair.Stim)) (q : Pair.PS) (h : Pair.stimRun (Pair.init oa ob ra rb) l = some q) :
    (∃ as : List (Pair.Side × Pair.Act), Pair.run (Pair.init oa ob ra rb) as = q) ∧
    Pair.Inv q ∧
    (∀ x i j, Pair.Established q x i j →
      ∃ oB, q.b.objs[j]? = some oB ∧
        q.gb.rlog j ++ oB.buf ++ oB.rxq.flatten ++ (pushesOf x (pathAB q)).flatten = q.ga.wlog i ∧
        q.gb.rlog j <+: q.ga.wlog i) ∧
    (∀ x, Pair.Marked x q → Pair.BoundAt x q ∧ x ∉ q.linked) := by
  have hi := stim_history_inv c l q h
  refine ⟨stimRun_is_run _ _ _ h, hi, fun x i j e => established_bytes hi e, ?_⟩
  intro x hm
  have b := hi.binds x hm
  exact ⟨b, fun hx => b.not_linked (hi.live x hx)⟩

/-! Non-vacuity: a stimulus-level history with a stream and a bind request on one connection is
    accepted by `stimRun` (every side condition holds at every step): `a` opens a stream, asks for a
    bind, writes; `b` is delivered the `Bind` frame and the data, takes the request, accepts it, reads;
    `a` is delivered the answer. -/
private def mhist : List (Pair.Side × Pair.Stim) :=
  [(.A, .call (.open 1 [104] 80)), (.B, .deliver), (.A, .deliver), (.B, .call .accept),
   (.A, .call (.bindReq 5 .stream [97] 81)), (.A, .call (.write 0 [1, 2, 3])), (.B, .deliver), (.B, .deliver),
   (.B, .call .bindNext), (.B, .call (.bindReply 0 true)), (.B, .call (.read 0 9)), (.A, .deliver)]
example : ((Pair.stimRun (Pair.init mcfgA mcfgB [7, 8, 11] [9, 10]) mhist).map
    (fun q => (q.gb.rlog 0, q.b.held.map (fun r => (r.fid, r.replied)), lookup q.a.flows 8))) =
    some ([1, 2, 3], [(8, true)], none) := by decide


/-! ### Two endpoints, EVERY history: stream and datagram traffic, faults and connection end included

`Model/PairAll.lean`: two endpoint models at the stimulus level — ANY `Mux.Op` call at either side (streams,
datagrams, bind calls, `dropMux`, dropped handles …), deliveries from the head of a wire, cuts, Close — under the
only hypothesis `PairAll.Cfg` (the two id scripts together are duplicate-free).  Beside `Mux.Ghost`, each side
has an OBSERVER of its bind traffic (`BindAll.runB`, `Lemmas/BindAllMain.lean`): the list of `BindAll.BEv`
events, in order, computed from the calls, their results and the emitted events —
`asked req fid bt host port` (a `request_bind` call number `req` queued its `Bind` frame; `fid` is the flow id
the call drew), `done req r` (`Ev.bindDone`), `shown k fid bt host port` (`next_bind_request` returned
`BindRequest` number `k`), `replied k acc` (`reply(acc)` on number `k` returned `Ok`), `dropped k`,
`muxDropped`.  `(runB q l).p = PairAll.run q.p l` (`BindAll.runB_p`): the run is the run of the pair model.

Proof (`Lemmas/BindAll*.lean`): a bind VIEW of an endpoint covering all flow ids (flow table, ids of the stream
objects, script, inbox, outbound queue, bind queue, parked hand-over, held `BindRequest`s …), 19 atomic view
changes labelled with the messages sent and the events recorded, a simulation of every function of the
endpoint model by those changes (`BSim`), and an invariant on the pair of views: the id discipline per flow
id (a numeric summary, `Num`), "every request under way, waiting or shown was asked with exactly these
fields", "every `Finish x` travelling back to the side that asked with `x` is backed by a shown and accepted
`BindRequest` of `x`". -/

open Penguin.BindAll Penguin.PairAll in
/-- `true` ONLY IF the peer application accepted that very request — in every history.  Whatever happens on
    the connection (streams opened, written, reset, handles dropped, datagrams, other bind requests, frames
    lost in a cut, either `Multiplexor` dropped, either task winding down): if a bind request number `req` of
    one side resolved `accepted`, then that side made a request number `req` which drew some flow id `x` and
    asked for `(bt, host, port)`, the OTHER application was shown a `BindRequest` (number `k`) with exactly
    that flow id, bind type, host bytes and port, and its `reply(true)` on that very `BindRequest` went through.
    Both directions.  (With request numbers that are not reused the asked record is the request; in any
    case a flow id names at most one request, see the next theorem.) -/
theorem pair_bind_true_only_if_peer_accepted_every_history (oa ob : Opts) {ra rb : List Nat} (cfg : PairAll.Cfg ra rb)
    (l : List (PairAll.Side × PairAll.Stim)) (req : Nat) :
    let q := runB { p := PairAll.init oa ob ra rb } l
    (BEv.done req .accepted ∈ q.ha →
      ∃ x bt host port k, BEv.asked req x bt host port ∈ q.ha ∧ BEv.shown k x bt host port ∈ q.hb ∧
        BEv.replied k true ∈ q.hb) ∧
    (BEv.done req .accepted ∈ q.hb →
      ∃ x bt host port k, BEv.asked req x bt host port ∈ q.hb ∧ BEv.shown k x bt host port ∈ q.ha ∧
        BEv.replied k true ∈ q.ha) := by
  intro q
  have h := reach_inv oa ob cfg l
  exact ⟨h.l.glob req, h.r.glob req⟩

open Penguin.BindAll Penguin.PairAll in
/-- The peer application is shown ONLY what was asked, at most once — in every history.  Every `BindRequest`
    an application is ever shown carries the flow id, bind type, host bytes and port of a request the other
    application made (nothing is invented, nothing altered, also not by stream or datagram traffic, faults
    or the connection ending); per flow id at most one `BindRequest` is ever shown, and a flow id names at
    most one request (so the asked record is unique, and no request is shown twice).  Both directions. -/
theorem pair_bind_shown_only_what_was_asked_every_history (oa ob : Opts) {ra rb : List Nat} (cfg : PairAll.Cfg ra rb)
    (l : List (PairAll.Side × PairAll.Stim)) :
    let q := runB { p := PairAll.init oa ob ra rb } l
    (∀ k x bt host port, BEv.shown k x bt host port ∈ q.hb → ∃ req, BEv.asked req x bt host port ∈ q.ha) ∧
    (∀ k x bt host port, BEv.shown k x bt host port ∈ q.ha → ∃ req, BEv.asked req x bt host port ∈ q.hb) ∧
    (∀ x, q.hb.countP (isShown x) ≤ 1 ∧ q.ha.countP (isShown x) ≤ 1) ∧
    (∀ x, q.ha.countP (isAsked x) ≤ 1 ∧ q.hb.countP (isAsked x) ≤ 1) := by
  intro q
  have h := reach_inv oa ob cfg l
  have hsh : ∀ (c : BC), (∀ x, Num (sm x c)) → ∀ x, c.gb.countP (isShown x) ≤ 1 ∧ c.ga.countP (isAsked x) ≤ 1 := by
    intro c hn x
    have h1 := (hn x).l.nobind
    have h2 := (hn x).l.binda
    simp only [sm] at h1 h2
    omega
  refine ⟨fun k x bt host port hs => h.l.asked x bt host port (Or.inr (Or.inr (Or.inr ⟨k, hs⟩))),
    fun k x bt host port hs => h.r.asked x bt host port (Or.inr (Or.inr (Or.inr ⟨k, hs⟩))), ?_, ?_⟩
  · intro x; exact ⟨(hsh _ h.num x).1, (hsh _ h.swap.num x).1⟩
  · intro x; exact ⟨(hsh _ h.num x).2, (hsh _ h.swap.num x).2⟩

open Penguin.BindAll Penguin.PairAll in
/-- The flow id of a bind request is never a stream's — in every history.  Once a `request_bind` call drew
    flow id `x`, then at every later moment: no stream object on either endpoint carries `x`, the answering
    endpoint has no slot for `x`, and the asking endpoint's slot for `x`, if any, is that of a pending bind
    request (so neither stream traffic nor a stale frame can stand for the answer: the `Finish x` that
    resolves the request can only come from `reply(true)`). -/
theorem pair_bind_id_carries_no_stream_every_history (oa ob : Opts) {ra rb : List Nat} (cfg : PairAll.Cfg ra rb)
    (l : List (PairAll.Side × PairAll.Stim)) (req x : Nat) (bt : BindType) (host : Bytes) (port : Nat) :
    let q := runB { p := PairAll.init oa ob ra rb } l
    BEv.asked req x bt host port ∈ q.ha →
      (∀ o ∈ q.p.a.objs, o.fid ≠ x) ∧ (∀ o ∈ q.p.b.objs, o.fid ≠ x) ∧ lookup q.p.b.flows x = none ∧
      (lookup q.p.a.flows x = none ∨ ∃ r, lookup q.p.a.flows x = some (.bindRequested r)) := by
  intro q ha
  have h : Inv (absB q) := reach_inv oa ob cfg l
  have hb := (h.num x).l.binda (one_le_asked ha)
  simp only [sm, absB, bview] at hb
  obtain ⟨_, _, _, hrq, hes, hbb, hrb, heb, hfa, hfb, _⟩ := hb
  have nofid : ∀ (objs : List Obj), (objs.map (·.fid)).count x = 0 → ∀ o ∈ objs, o.fid ≠ x := by
    intro objs h0 o ho he
    have : x ∈ objs.map (·.fid) := List.mem_map.mpr ⟨o, ho, he⟩
    exact absurd (List.count_pos_iff.mpr this) (by omega)
  refine ⟨nofid _ hfa, nofid _ hfb, ?_, ?_⟩
  · cases hl : lookup q.p.b.flows x with
    | none => rfl
    | some s =>
      have hm := lookup_mem _ _ _ hl
      cases s with
      | requested r => exact absurd (one_le_countP_of_mem hm (P := isRQ x) (by simp)) (by omega)
      | bindRequested r => exact absurd (one_le_countP_of_mem hm (P := isBR x) (by simp)) (by omega)
      | established i => exact absurd (one_le_countP_of_mem hm (P := isES x) (by simp)) (by omega)
  · cases hl : lookup q.p.a.flows x with
    | none => exact Or.inl rfl
    | some s =>
      have hm := lookup_mem _ _ _ hl
      cases s with
      | requested r => exact absurd (one_le_countP_of_mem hm (P := isRQ x) (by simp)) (by omega)
      | bindRequested r => exact Or.inr ⟨r, rfl⟩
      | established i => exact absurd (one_le_countP_of_mem hm (P := isES x) (by simp)) (by omega)

open Penguin.BindAll Penguin.PairAll in
/-- The records are those of the run of `Model/PairAll.lean`: the pair state after the run with records is
    the pair state after the run. -/
theorem bind_records_follow_the_pair_run (oa ob : Opts) (ra rb : List Nat) (l : List (PairAll.Side × PairAll.Stim)) :
    (runB { p := PairAll.init oa ob ra rb } l).p = PairAll.run (PairAll.init oa ob ra rb) l :=
  runB_p _ l

/-! Non-vacuity (the hypotheses of the implications above are met by concrete reachable states; `b` takes up
    to two bind requests, scripts `[7, 8, 11]` and `[9, 10]`). -/
private def allB : Mux.Opts := { bindCap := 2 }
example : PairAll.Cfg [7, 8, 11] [9, 10] := ⟨by decide, by decide, by decide⟩

open Penguin.BindAll Penguin.PairAll in
/-- (1) A bind request accepted while a stream transfers data: `a` opens a stream (flow 7), asks for a bind
    (flow 8) and writes three bytes; `b` is delivered the `Bind` frame and the data, takes the request, accepts
    it and reads the bytes; `a` is delivered the answer. -/
private def hist1 : List (PairAll.Side × PairAll.Stim) :=
  [(.A, .call (.open 1 [104] 80)), (.B, .deliver), (.A, .deliver), (.B, .call .accept),
   (.A, .call (.bindReq 5 .stream [97] 81)), (.A, .call (.write 0 [1, 2, 3])), (.B, .deliver), (.B, .deliver),
   (.B, .call .bindNext), (.B, .call (.bindReply 0 true)), (.B, .call (.read 0 9)), (.A, .deliver)]
open Penguin.BindAll Penguin.PairAll in
example :
    let q := runB { p := PairAll.init {} allB [7, 8, 11] [9, 10] } hist1
    q.ha = [.asked 5 8 .stream [97] 81, .done 5 .accepted] ∧ q.hb = [.shown 0 8 .stream [97] 81, .replied 0 true] ∧
    q.p.gb.returned = [(0, [1, 2, 3])] := by decide

-- … and while the request is pending (after the 6th stimulus) its id 8 has a `BindRequested` slot at `a`, flow 7 a stream
open Penguin.BindAll Penguin.PairAll in
example :
    let q := runB { p := PairAll.init {} allB [7, 8, 11] [9, 10] } (hist1.take 6)
    BEv.asked 5 8 .stream [97] 81 ∈ q.ha ∧ lookup q.p.a.flows 8 = some (.bindRequested 5) ∧
    lookup q.p.a.flows 7 = some (.established 0) := by decide

open Penguin.BindAll Penguin.PairAll in
/-- (2) A bind request whose answer is lost in a cut: `b`'s application accepts, the `Finish` is on the wire
    when `a`'s source fails; `a`'s task winds down and the request resolves `refused` — NOT `accepted`, although
    the peer accepted (the theorem is an "only if"; the connection ended first). -/
private def hist2 : List (PairAll.Side × PairAll.Stim) :=
  [(.A, .call (.bindReq 5 .stream [97] 81)), (.B, .deliver), (.B, .call .bindNext), (.B, .call (.bindReply 0 true)),
   (.A, .cut false)]
open Penguin.BindAll Penguin.PairAll in
example :
    let q := runB { p := PairAll.init {} allB [7, 8, 11] [9, 10] } hist2
    q.ha = [.asked 5 7 .stream [97] 81, .done 5 .refused] ∧ q.hb = [.shown 0 7 .stream [97] 81, .replied 0 true] ∧
    q.p.a.dead = true ∧ q.p.ba = [] := by decide
-- just before the cut the answer is in transit
open Penguin.BindAll Penguin.PairAll in
example : (runB { p := PairAll.init {} allB [7, 8, 11] [9, 10] } (hist2.take 4)).p.ba = [.frame (.finish 7)] := by decide

open Penguin.BindAll Penguin.PairAll in
/-- (3) Two bind requests answered in reverse order: `b` accepts the second and rejects the first; the answers
    travel back; request 2 resolved `accepted`, request 1 `refused`, each shown once with its own fields. -/
private def hist3 : List (PairAll.Side × PairAll.Stim) :=
  [(.A, .call (.bindReq 1 .stream [97] 80)), (.A, .call (.bindReq 2 .datagram [98] 81)), (.B, .deliver), (.B, .deliver),
   (.B, .call .bindNext), (.B, .call .bindNext), (.B, .call (.bindReply 1 true)), (.B, .call (.bindReply 0 false)),
   (.A, .deliver), (.A, .deliver)]
open Penguin.BindAll Penguin.PairAll in
example :
    let q := runB { p := PairAll.init {} allB [7, 8, 11] [9, 10] } hist3
    q.ha = [.asked 1 7 .stream [97] 80, .asked 2 8 .datagram [98] 81, .done 2 .accepted, .done 1 .refused] ∧
    q.hb = [.shown 0 7 .stream [97] 80, .shown 1 8 .datagram [98] 81, .replied 1 true, .replied 0 false] := by decide


/-! ### `false` only if not accepted, or ended — every history

The second layer of the invariant (`Lemmas/BindAllFacts2.lean`, `BindAllInv3.lean`, `BindAllReach3.lean`): every
`Reset x` travelling back to the side that asked with `x` is backed (the answering endpoint takes no binds; or
its `Multiplexor` was dropped; or a `BindRequest` of `x` was shown and rejected, or dropped unanswered); the flags
of an endpoint are tied to its observer's record (`Loc`); while `x` is still in a script no `Reset x` travels. -/

open Penguin.BindAll Penguin.PairAll in
/-- `false` ONLY IF one of four things happened — in every history.  If bind request number `req` of side `a`
    resolved `refused`, then `a` made a request number `req` that drew a flow id `x` and asked `(bt, host, port)`,
    and at least one of:
    (d) `a`'s own connection task has finished (`dead`: the peer or the transport ended the connection, an
        invalid frame arrived, or `a`'s `Multiplexor` was dropped and the wind-down completed — pending
        requests are refused by the wind-down's last step and by nothing else local: the model's other local
        cause, `closeFlow` on a dropped-handle notification for the id, CANNOT happen for a bind id, since no
        stream object ever carries it — `pair_bind_id_carries_no_stream_every_history`; dropping `a`'s
        `Multiplexor` by itself refuses nothing until the task finishes);
    (a) `b`'s endpoint takes no binds (`bind_buffer_size = 0`);
    (b) `b`'s `Multiplexor` had been dropped (queued / arriving requests reject themselves);
    (c) `b`'s application was shown a `BindRequest` (number `k`) with exactly `x`, `bt`, `host`, `port` and
        called `reply(false)` on it, or dropped it WITHOUT EVER replying to it (no `reply` on `k` went
        through, before or after: a dropped `BindRequest` takes no reply).
    Both directions.

    `_partial`: the full statement would say in (c) "`reply(false)` with no `reply(true)` on that same
    `BindRequest` BEFORE it" (`BindRequest::reply` takes `&self`, so an application can answer twice; the
    first answer is the one that counts: the requester's slot is gone when the second arrives).  That needs an
    ordering argument on the return path — the `Finish` of an earlier `reply(true)` is ahead of the `Reset` on a
    FIFO wire that loses only suffixes, and processing it releases the slot — for which the atomic steps of
    `Lemmas/BindAllView.lean` are too permissive: `Shrinks` lets the view drop inbox items and release slots
    silently (sound for everything proved here, but it lets a view "lose" that `Finish`).  Missing: a guarded
    pop (no silent pop of a `Finish x` / `Reset x` while `x`'s slot is `BindRequested`), the re-proof of the
    `BSim` lemmas that pop, and an invariant "if the first recorded decision on `x` is `reply(true)` and the
    slot of `x` is pending, the first `Finish x` / `Reset x` on the LIVE return path is a `Finish`". For the
    drop the strong form IS proved (`dropped k` and no `replied k _` at all). -/
theorem pair_bind_false_only_if_not_accepted_or_ended_partial (oa ob : Opts) {ra rb : List Nat} (cfg : PairAll.Cfg ra rb)
    (l : List (PairAll.Side × PairAll.Stim)) (req : Nat) :
    let q := runB { p := PairAll.init oa ob ra rb } l
    (BEv.done req .refused ∈ q.ha →
      ∃ x bt host port, BEv.asked req x bt host port ∈ q.ha ∧
        (q.p.a.dead = true ∨ ob.bindCap = 0 ∨ BEv.muxDropped ∈ q.hb ∨
         ∃ k, BEv.shown k x bt host port ∈ q.hb ∧
           (BEv.replied k false ∈ q.hb ∨ (BEv.dropped k ∈ q.hb ∧ ∀ acc, BEv.replied k acc ∉ q.hb)))) ∧
    (BEv.done req .refused ∈ q.hb →
      ∃ x bt host port, BEv.asked req x bt host port ∈ q.hb ∧
        (q.p.b.dead = true ∨ oa.bindCap = 0 ∨ BEv.muxDropped ∈ q.ha ∨
         ∃ k, BEv.shown k x bt host port ∈ q.ha ∧
           (BEv.replied k false ∈ q.ha ∨ (BEv.dropped k ∈ q.ha ∧ ∀ acc, BEv.replied k acc ∉ q.ha)))) := by
  intro q
  have h : Inv3 (absB q) := reach_inv3 oa ob cfg l
  have hcap := runB_caps { p := PairAll.init oa ob ra rb } l
  -- one direction, for a pair of views with its invariant
  have one : ∀ (c : BC), Inv3 c → ∀ cap, c.b.bindCap = cap → BEv.done req .refused ∈ c.ga →
      ∃ x bt host port, BEv.asked req x bt host port ∈ c.ga ∧
        (c.a.dead = true ∨ cap = 0 ∨ BEv.muxDropped ∈ c.gb ∨
         ∃ k, BEv.shown k x bt host port ∈ c.gb ∧
           (BEv.replied k false ∈ c.gb ∨ (BEv.dropped k ∈ c.gb ∧ ∀ acc, BEv.replied k acc ∉ c.gb))) := by
    intro c hc cap hcp hd
    obtain ⟨x, bt, host, port, ha, hw⟩ := hc.l.glob3 req hd
    refine ⟨x, bt, host, port, ha, ?_⟩
    rcases hw with hw | hw | hw | ⟨k, bt', host', port', hs, hk⟩
    · exact Or.inl hw
    · exact Or.inr (Or.inl (hcp ▸ hw))
    · exact Or.inr (Or.inr (Or.inl hw))
    · obtain ⟨req', ha'⟩ := hc.base.l.asked x bt' host' port' (Or.inr (Or.inr (Or.inr ⟨k, hs⟩)))
      have h1 : (sm x c).asA = 1 := ((hc.base.num x).l.binda (one_le_asked ha)).1
      obtain ⟨_, e1, e2, e3⟩ := asked_unique (by simp only [sm] at h1; omega) ha ha'
      subst e1 e2 e3
      exact Or.inr (Or.inr (Or.inr ⟨k, hs, hk⟩))
  exact ⟨one (absB q) h ob.bindCap hcap.2, one (absB q).swap h.swap oa.bindCap hcap.1⟩

/-! Non-vacuity: one run per cause (`a` asks once, flow id 7). -/
private def askB : PairAll.Side × PairAll.Stim := (.A, .call (.bindReq 5 .stream [97] 81))

open Penguin.BindAll Penguin.PairAll in
/-- (a) `b` takes no binds: the `Bind` frame is answered with `Reset` by `b`'s task; nothing is shown. -/
example :
    let q := runB { p := PairAll.init {} {} [7, 8, 11] [9, 10] } [askB, (.B, .deliver), (.A, .deliver)]
    q.ha = [.asked 5 7 .stream [97] 81, .done 5 .refused] ∧ q.hb = [] ∧ q.p.a.dead = false := by decide

open Penguin.BindAll Penguin.PairAll in
/-- (b) `b`'s `Multiplexor` is dropped while the request waits in its bind queue. -/
example :
    let q := runB { p := PairAll.init {} allB [7, 8, 11] [9, 10] } [askB, (.B, .deliver), (.B, .call .dropMux), (.A, .deliver)]
    q.ha = [.asked 5 7 .stream [97] 81, .done 5 .refused] ∧ q.hb = [.muxDropped] ∧ q.p.a.dead = false := by decide

open Penguin.BindAll Penguin.PairAll in
/-- (c) rejected: `b`'s application is shown the request and calls `reply(false)`. -/
example :
    let q := runB { p := PairAll.init {} allB [7, 8, 11] [9, 10] }
      [askB, (.B, .deliver), (.B, .call .bindNext), (.B, .call (.bindReply 0 false)), (.A, .deliver)]
    q.ha = [.asked 5 7 .stream [97] 81, .done 5 .refused] ∧ q.hb = [.shown 0 7 .stream [97] 81, .replied 0 false] ∧
    q.p.a.dead = false := by decide

open Penguin.BindAll Penguin.PairAll in
/-- (c) dropped unanswered: `b`'s application is shown the request and drops it. -/
example :
    let q := runB { p := PairAll.init {} allB [7, 8, 11] [9, 10] }
      [askB, (.B, .deliver), (.B, .call .bindNext), (.B, .call (.bindDrop 0)), (.A, .deliver)]
    q.ha = [.asked 5 7 .stream [97] 81, .done 5 .refused] ∧ q.hb = [.shown 0 7 .stream [97] 81, .dropped 0] ∧
    q.p.a.dead = false := by decide

-- (d) the connection ended first: `hist2` above (`b` ACCEPTED, the `Finish` was lost in a cut, `a`'s task is dead) —
-- of the four causes only (d) holds there.


open Penguin.BindAll Penguin.PairAll in
/-- The converse, as a sanity lemma (one endpoint step): if the oldest message in transit to side `a` is the
    `Finish x` of an accepted request, `a`'s task is running and idle (not finished, not winding down, receive
    loop not parked, nothing buffered, source alive) and `a` holds the pending bind request `req` under `x`, then
    delivering it (if the stimulus is enabled) records `done req accepted`: an accepted request whose answer
    reaches a running requester resolves `true`.  Any state `q`, reachable or not. -/
theorem pair_bind_delivered_accept_resolves_true (q : PB) (x req : Nat) (rest : List Msg)
    (hba : q.p.ba = .frame (.finish x) :: rest) (hs : lookup q.p.a.flows x = some (.bindRequested req))
    (hd : q.p.a.dead = false) (hdr : q.p.a.draining = none) (hc : q.p.a.closing = none) (hp : q.p.a.park = none)
    (hi : q.p.a.inbox = []) (hse : q.p.a.srcEnded = false) (hen : (PairAll.stepL q.p .deliver).isSome = true) :
    BEv.done req .accepted ∈ (stepB q .A .deliver).ha :=
  delivered_finish_recorded q x req rest hba hs hd hdr hc hp hi hse hen

-- non-vacuity: the state of `hist1` before its last stimulus meets every hypothesis
open Penguin.BindAll Penguin.PairAll in
example :
    let q := runB { p := PairAll.init {} allB [7, 8, 11] [9, 10] } (hist1.take 11)
    q.p.ba = [.frame (.finish 8)] ∧ lookup q.p.a.flows 8 = some (.bindRequested 5) ∧ q.p.a.dead = false ∧
    q.p.a.draining = none ∧ q.p.a.closing = none ∧ q.p.a.park = none ∧ q.p.a.inbox = [] ∧ q.p.a.srcEnded = false ∧
    (PairAll.stepL q.p .deliver).isSome = true := by decide


open Penguin.BindAll Penguin.PairAll in
/-- `Closed` only at the call, and only if the queue was closed — in every history.  If the record of a side
    contains `done req closed` after a run (from the initial state), then the run contains a `request_bind`
    call number `req` OF THAT SIDE such that, in the state the pair was in when the call was made, that side's
    outbound queue was closed (its task was winding down or had finished: `tx_msg_tx.send` fails) or no flow id
    could be drawn (`drawId = none`: the script has no usable value and the bounded fallback search fails —
    the model's reading of an exhausted id space).  Nothing else resolves a request `closed`: not a frame, not
    the wind-down (which refuses), not a dropped handle, not the open futures (`BindAll.nc_settle`).
    Both directions. -/
theorem pair_bind_closed_only_if_queue_closed (oa ob : Opts) (ra rb : List Nat)
    (l : List (PairAll.Side × PairAll.Stim)) (req : Nat) :
    let q0 : PB := { p := PairAll.init oa ob ra rb }
    (BEv.done req .closed ∈ (runB q0 l).ha →
      ∃ l1 l2 bt host port, l = l1 ++ (PairAll.Side.A, PairAll.Stim.call (.bindReq req bt host port)) :: l2 ∧
        ((runB q0 l1).p.a.outClosed = true ∨
          drawId (runB q0 l1).p.a.flows (runB q0 l1).p.a.rng (runB q0 l1).p.a.fallback 64 = none)) ∧
    (BEv.done req .closed ∈ (runB q0 l).hb →
      ∃ l1 l2 bt host port, l = l1 ++ (PairAll.Side.B, PairAll.Stim.call (.bindReq req bt host port)) :: l2 ∧
        ((runB q0 l1).p.b.outClosed = true ∨
          drawId (runB q0 l1).p.b.flows (runB q0 l1).p.b.rng (runB q0 l1).p.b.fallback 64 = none)) := by
  intro q0
  exact ⟨closed_in_runA q0 l req (by simp [q0]), closed_in_runB q0 l req (by simp [q0])⟩

/-- … and for ONE stimulus of one endpoint, any state: `bindDone req closed` is emitted only by the
    `request_bind` call number `req`, and only if the outbound queue was closed or no id could be drawn. -/
theorem closed_only_at_the_call (e : EP) (op : Mux.Op) (req : Nat) (h : Ev.bindDone req .closed ∈ (applyOp e op).2.2) :
    ∃ bt host port, op = .bindReq req bt host port ∧
      (e.outClosed = true ∨ drawId e.flows e.rng e.fallback 64 = none) :=
  BindAll.closed_only_at_call e op req h

-- non-vacuity: `a`'s source fails, its task winds down (the outbound queue is closed); a later `request_bind` resolves `closed`
open Penguin.BindAll Penguin.PairAll in
example :
    let q0 : PB := { p := PairAll.init {} allB [7, 8, 11] [9, 10] }
    (runB q0 [(.A, .cut false), (.A, .call (.bindReq 5 .stream [97] 81))]).ha = [.done 5 .closed] ∧
    (runB q0 [(.A, .cut false)]).p.a.outClosed = true := by decide


open Penguin.BindAll Penguin.PairAll in
/-- The full disjunct (c) for applications that answer a `BindRequest` at most once.  If in the run no
    `BindRequest` of side `b` got BOTH answers (`reply(true)` and `reply(false)` — `BindRequest::reply` takes
    `&self`, so the API does not forbid it; penguin's own server answers once), then a request of `a` that
    resolved `refused` met (d), (a), (b) of `pair_bind_false_only_if_not_accepted_or_ended_partial`, or
    (c) `b`'s application was shown it (exact fields) and replied `false` to it and NEVER `true` (neither before
    nor after), or dropped it without ever replying.  (Unconditionally, "no `reply(true)` BEFORE the
    `reply(false)`" is still open: see the `_partial` theorem; in addition to what is listed there, the
    delivery step of the abstract pair takes its "source has ended" flag as a free parameter, which must be
    tied to the view, and the guards of the `finBind` / `refuse` steps must read the slot by `lookup` rather
    than by membership for the ordering argument.) -/
theorem pair_bind_false_only_if_not_accepted_or_ended_single_reply (oa ob : Opts) {ra rb : List Nat}
    (cfg : PairAll.Cfg ra rb) (l : List (PairAll.Side × PairAll.Stim)) (req : Nat) :
    let q := runB { p := PairAll.init oa ob ra rb } l
    (∀ k, ¬(BEv.replied k true ∈ q.hb ∧ BEv.replied k false ∈ q.hb)) →
    BEv.done req .refused ∈ q.ha →
      ∃ x bt host port, BEv.asked req x bt host port ∈ q.ha ∧
        (q.p.a.dead = true ∨ ob.bindCap = 0 ∨ BEv.muxDropped ∈ q.hb ∨
         ∃ k, BEv.shown k x bt host port ∈ q.hb ∧
           ((BEv.replied k false ∈ q.hb ∧ BEv.replied k true ∉ q.hb) ∨
            (BEv.dropped k ∈ q.hb ∧ ∀ acc, BEv.replied k acc ∉ q.hb))) := by
  intro q hsingle hd
  obtain ⟨x, bt, host, port, ha, hw⟩ := (pair_bind_false_only_if_not_accepted_or_ended_partial oa ob cfg l req).1 hd
  refine ⟨x, bt, host, port, ha, ?_⟩
  rcases hw with hw | hw | hw | ⟨k, hs, hk⟩
  · exact Or.inl hw
  · exact Or.inr (Or.inl hw)
  · exact Or.inr (Or.inr (Or.inl hw))
  · refine Or.inr (Or.inr (Or.inr ⟨k, hs, ?_⟩))
    rcases hk with hk | hk
    · exact Or.inl ⟨hk, fun ht => hsingle k ⟨ht, hk⟩⟩
    · exact Or.inr hk


/-! ### `false` only if not accepted, or ended — the FULL statement (the first answer counts)

The ORDER layer of the invariant (`Lemmas/BindAllFacts4.lean`, `BindAllOrd.lean`, `BindAllOrdStep*.lean`,
`BindAllReach4.lean`).  The atomic steps now never drop an answer frame (`Finish x` / `Reset x`) of a pending
bind request from the inbox silently (`Shrinks.pops`; the simulation releases the slot before it pops), a
delivery is ignored only by a view whose source has ended (`CStepL.dlv`, `deafV`; then the wire to it is
closed: `Wires`), so the answers that can still reach the asking side — its inbox, then, while the wire is
open, the wire and the peer's outbound queue (`BC.live`) — are a FIFO sequence that loses only suffixes
(a cut, a dropped queue, an emit to a closed wire).  Invariant `Ord`: if the FIRST recorded reply on the
`BindRequest` of `x` is `reply(true)` and `x`'s slot is pending, then the first answer for `x` on the live
path is a `Finish`, or there is none and none can come any more.  So a `Reset x` at the head of the inbox of a
side whose request is pending was not preceded by a `reply(true)`.  (This supplies what the doc comments of
`…_partial` and `…_single_reply` above list as missing; those two theorems stay as they are.) -/

open Penguin.BindAll Penguin.PairAll in
/-- `false` ONLY IF one of four things happened, the FIRST answer counting — in every history.  If bind
    request number `req` of side `a` resolved `refused`, then `a` made a request number `req` that drew a flow
    id `x` and asked `(bt, host, port)`, and at least one of:
    (d) `a`'s own connection task has finished (see `pair_bind_false_only_if_not_accepted_or_ended_partial`
        for what that covers, and why no other local event refuses a bind request);
    (a) `b`'s endpoint takes no binds; (b) `b`'s `Multiplexor` had been dropped;
    (c) `b`'s application was shown a `BindRequest` (number `k`) with exactly `x`, `bt`, `host`, `port` and
        - called `reply(false)` on it with NO `reply(true)` on that same `BindRequest` recorded BEFORE it
          (the record `q.hb` splits as `g1 ++ replied k false :: g2` with no `replied k true` in `g1`;
          `BindRequest::reply` takes `&self`, so an application can answer twice: the first answer counts), or
        - dropped it WITHOUT EVER replying to it.
    Both directions.  In particular a request the peer application accepted FIRST is never refused by a
    later `reply(false)`: it resolves `accepted`, or stays pending until the requester's task ends. -/
theorem pair_bind_false_only_if_not_accepted_or_ended (oa ob : Opts) {ra rb : List Nat} (cfg : PairAll.Cfg ra rb)
    (l : List (PairAll.Side × PairAll.Stim)) (req : Nat) :
    let q := runB { p := PairAll.init oa ob ra rb } l
    (BEv.done req .refused ∈ q.ha →
      ∃ x bt host port, BEv.asked req x bt host port ∈ q.ha ∧
        (q.p.a.dead = true ∨ ob.bindCap = 0 ∨ BEv.muxDropped ∈ q.hb ∨
         ∃ k, BEv.shown k x bt host port ∈ q.hb ∧
           ((∃ g1 g2, q.hb = g1 ++ BEv.replied k false :: g2 ∧ BEv.replied k true ∉ g1) ∨
            (BEv.dropped k ∈ q.hb ∧ ∀ acc, BEv.replied k acc ∉ q.hb)))) ∧
    (BEv.done req .refused ∈ q.hb →
      ∃ x bt host port, BEv.asked req x bt host port ∈ q.hb ∧
        (q.p.b.dead = true ∨ oa.bindCap = 0 ∨ BEv.muxDropped ∈ q.ha ∨
         ∃ k, BEv.shown k x bt host port ∈ q.ha ∧
           ((∃ g1 g2, q.ha = g1 ++ BEv.replied k false :: g2 ∧ BEv.replied k true ∉ g1) ∨
            (BEv.dropped k ∈ q.ha ∧ ∀ acc, BEv.replied k acc ∉ q.ha)))) := by
  intro q
  have h : Inv4 (absB q) := reach_inv4 oa ob cfg l
  have hcap := runB_caps { p := PairAll.init oa ob ra rb } l
  have one : ∀ (c : BC), Inv4 c → ∀ cap, c.b.bindCap = cap → BEv.done req .refused ∈ c.ga →
      ∃ x bt host port, BEv.asked req x bt host port ∈ c.ga ∧
        (c.a.dead = true ∨ cap = 0 ∨ BEv.muxDropped ∈ c.gb ∨
         ∃ k, BEv.shown k x bt host port ∈ c.gb ∧
           ((∃ g1 g2, c.gb = g1 ++ BEv.replied k false :: g2 ∧ BEv.replied k true ∉ g1) ∨
            (BEv.dropped k ∈ c.gb ∧ ∀ acc, BEv.replied k acc ∉ c.gb))) := by
    intro c hc cap hcp hd
    obtain ⟨x, bt, host, port, ha, hw⟩ := hc.g4L req hd
    refine ⟨x, bt, host, port, ha, ?_⟩
    rcases hw with hw | hw | hw | ⟨k, bt', host', port', hs, hk⟩
    · exact Or.inl hw
    · exact Or.inr (Or.inl (hcp ▸ hw))
    · exact Or.inr (Or.inr (Or.inl hw))
    · obtain ⟨req', ha'⟩ := hc.base.base.l.asked x bt' host' port' (Or.inr (Or.inr (Or.inr ⟨k, hs⟩)))
      have h1 : (sm x c).asA = 1 := ((hc.base.base.num x).l.binda (one_le_asked ha)).1
      obtain ⟨_, e1, e2, e3⟩ := asked_unique (by simp only [sm] at h1; omega) ha ha'
      subst e1 e2 e3
      exact Or.inr (Or.inr (Or.inr ⟨k, hs, hk⟩))
  exact ⟨one (absB q) h ob.bindCap hcap.2, one (absB q).swap h.swap oa.bindCap hcap.1⟩

/-! Non-vacuity: the order matters.  `b`'s application answers the same `BindRequest` twice. -/
open Penguin.BindAll Penguin.PairAll in
/-- rejected FIRST, then accepted: the request resolves `refused` (and the late `Finish` is answered with a `Reset`) -/
example :
    let q := runB { p := PairAll.init {} allB [7, 8, 11] [9, 10] }
      [askB, (.B, .deliver), (.B, .call .bindNext), (.B, .call (.bindReply 0 false)), (.B, .call (.bindReply 0 true)),
       (.A, .deliver), (.A, .deliver)]
    q.ha = [.asked 5 7 .stream [97] 81, .done 5 .refused] ∧
    q.hb = [.shown 0 7 .stream [97] 81, .replied 0 false, .replied 0 true] ∧ q.p.a.dead = false := by decide

open Penguin.BindAll Penguin.PairAll in
/-- accepted FIRST, then rejected: the request resolves `accepted`; the late `Reset` finds no slot -/
example :
    let q := runB { p := PairAll.init {} allB [7, 8, 11] [9, 10] }
      [askB, (.B, .deliver), (.B, .call .bindNext), (.B, .call (.bindReply 0 true)), (.B, .call (.bindReply 0 false)),
       (.A, .deliver), (.A, .deliver)]
    q.ha = [.asked 5 7 .stream [97] 81, .done 5 .accepted] ∧
    q.hb = [.shown 0 7 .stream [97] 81, .replied 0 true, .replied 0 false] := by decide

end Penguin.C15
