/-
C10 — A misbehaving peer cannot crash, wedge or cross-contaminate an endpoint.
Theorems over the endpoint model (`Penguin.Mux`): for EVERY endpoint state and EVERY well-formed frame
(no hypothesis on the peer). Totality ("never crashes") is Lean totality of `processFrame`; that the
Rust code returns instead of panicking is decided by the correspondence run (release build, catch_unwind).
-/
import Penguin.Model.Mux
import Penguin.Model.WsMsg
import Penguin.Lemmas.MuxBasic
import Penguin.Lemmas.MuxStep
import Penguin.Lemmas.MuxBound
import Penguin.Lemmas.MuxReply
import Penguin.Lemmas.PairQuiesce

namespace Penguin.C10
open Penguin Penguin.Mux

/-- A running endpoint (its outbound queue open) keeps serving after any frame whatsoever, whatever
    the application has done meanwhile (dropped handles, cancelled open requests, even dropped the
    Multiplexor — that ends the task through its own orderly path): processing a frame never ends the
    receive loop. -/
theorem frame_never_ends_connection (e : EP) (f : Frame) (ig : Bool) (ho : e.outClosed = false) :
    (processFrame e f ig).2.2 = none :=
  Mux.processFrame_continues e f ig ho

/-! #### The reply table (PROTOCOL.md): what is put on the outbound queue, per opcode × slot state -/

/-- Frames on flows the endpoint does not know are answered with exactly one `Reset` of that flow
    (`Acknowledge`, `Finish`, `Push`), and nothing else changes. -/
theorem unknown_flow_gets_reset (e : EP) (fid : Nat) (ig : Bool) (h : lookup e.flows fid = none) :
    (∀ n, processFrame e (.acknowledge fid n) ig = (e.enqFrame (.reset fid), [], none)) ∧
    processFrame e (.finish fid) ig = (e.enqFrame (.reset fid), [], none) ∧
    (∀ d, processFrame e (.push fid d) ig = (e.enqFrame (.reset fid), [], none)) := by
  simp [processFrame, h]

/-- A `Reset` is never answered with a `Reset`: whatever processing a `Reset` appends to the outbound
    queue contains no `Reset` frame (it can only be the `Connect` of a retried open request). -/
theorem never_reset_to_reset (e : EP) (fid : Nat) (ig : Bool) :
    ∃ extra, (processFrame e (.reset fid) ig).1.outq = e.outq ++ extra ∧
      ∀ m ∈ extra, Msg.isReset m = false :=
  Mux.processFrame_reset_no_reset e fid ig

/-- `Connect` with id 0 or an id in use: exactly one `Reset`, the existing flow is not disturbed. -/
theorem connect_in_use_rejected (e : EP) (fid rwnd port : Nat) (host : Bytes) (ig : Bool)
    (h : fid = 0 ∨ (lookup e.flows fid).isSome) :
    processFrame e (.connect fid rwnd port host) ig = (e.enqFrame (.reset fid), [], none) := by
  simp [processFrame, h]

/-- More `Push` frames than the window allows: the offending flow — and only it — is closed and
    reset (once, unless the local side had already finished writing). -/
theorem window_overrun_resets_only_that_flow (e : EP) (fid i : Nat) (o : Obj) (d : Bytes) (ig : Bool)
    (hs : lookup e.flows fid = some (.established i)) (ho : e.objs[i]? = some o)
    (halive : o.senderAlive = true) (hopen : o.rxOpen = true) (hfull : ¬ o.rxq.length < o.cap) :
    let r := processFrame e (.push fid d) ig
    r.2.2 = none ∧ lookup r.1.flows fid = none ∧
    (∀ y, y ≠ fid → lookup r.1.flows y = lookup e.flows y) ∧
    r.1.outq = (if o.finishSent then e else e.enqFrame (.reset fid)).outq :=
  Mux.processFrame_overrun e fid i o d ig hs ho halive hopen hfull

/-- `Bind` when binds are disabled: a `Reset`, nothing else. -/
theorem bind_disabled_reset (e : EP) (fid : Nat) (bt : BindType) (port : Nat) (host : Bytes) (ig : Bool)
    (h : e.opts.bindCap = 0) :
    processFrame e (.bind fid bt port host) ig = (e.enqFrame (.reset fid), [], none) := by
  simp [processFrame, h]

/-- Duplicate `Finish`, or `Finish`/`Acknowledge`/`Push` on an established flow, never remove
    another flow's slot and never touch another stream's object. -/
theorem bystander_slots_kept (e : EP) (f : Frame) (ig : Bool) (y : Nat) (s : Slot)
    (hy : lookup e.flows y = some s) (hne : ∀ fid, Msg.flow? (.frame f) = some fid → y ≠ fid) :
    lookup (processFrame e f ig).1.flows y = some s :=
  Mux.processFrame_other_slot e f ig y s hy hne

/-- … and every stream object that is not the one addressed by the frame keeps all of its state
    (buffered data, credit, flags): frames addressed to one flow cannot contaminate another. -/
theorem bystander_objects_untouched (e : EP) (f : Frame) (ig : Bool) (j : Nat) (hj : j < e.objs.length)
    (hne : ∀ fid, Msg.flow? (.frame f) = some fid → lookup e.flows fid ≠ some (.established j)) :
    (processFrame e f ig).1.objs[j]? = e.objs[j]? :=
  Mux.processFrame_other_obj e f ig j hj hne

/-- A message that is not a valid frame ends the connection with an error … -/
theorem invalid_frame_ends (e : EP) (err : DecErr) (ig : Bool) :
    processIn e (.bad err) ig = (e, [], some (.invalidFrame err)) := rfl

/-- … that every pending operation observes: after the resulting wind-down the task is finished, the
    flow table is empty, no open request is left pending, and the exit value is that error. -/
theorem invalid_frame_resolves_everything (e : EP) (err : DecErr) :
    let r := windDown e false (.invalidFrame err)
    r.1.dead = true ∧ r.1.flows = [] ∧ (∀ q ∈ r.1.opens, q.req ∈ r.1.retryq) ∧ r.1.park = none ∧
    r.2.getLast? = some (.exit (.invalidFrame err)) :=
  Mux.windDown_error_resolves e (.invalidFrame err) (by intro h; cases h)

/-- Whatever a peer sends, for as long as it likes, and whatever the application does meanwhile: in
    every state the endpoint reaches, each stream's receive queue holds at most that stream's own
    window of frames (`Push` frames beyond it reset the flow, they are not stored), and the accept,
    datagram and bind queues hold at most their configured capacities (`Datagram`s beyond are dropped,
    the receive loop waits for the application on full accept / bind queues). A misbehaving peer
    cannot make the endpoint buffer without bound. (`Lemmas/MuxBound.lean`: induction over every
    history, every function of the endpoint model.) -/
theorem peer_cannot_overfill_buffers (o : Opts) (ops : List Mux.Op) :
    let e := runOps { opts := o } ops
    (∀ (i : Nat) (ob : Obj), e.objs[i]? = some ob → ob.rxq.length ≤ ob.cap) ∧
    e.acceptq.length ≤ o.acceptCap ∧ e.dgramq.length ≤ o.dgramCap ∧ e.bindq.length ≤ o.bindCap := by
  have h := reachable_bnd o ops
  have ho : (runOps { opts := o } ops).opts = o := h.opts
  have h2 := h.acc; have h3 := h.dg; have h4 := h.bnd
  rw [ho] at h2 h3 h4
  exact ⟨h.rxq, h2, h3, h4⟩

/-- No amplification: for EVERY endpoint state and EVERY incoming frame, processing the frame puts at
    most ONE message on the outbound queue (and removes none) — an arbitrary peer gets at most one
    reply (`Acknowledge` or `Reset`) per frame it sends, so it cannot make the endpoint flood the
    connection. (`Lemmas/MuxReply.lean`; a rejected open request is retried later by its own future,
    once, not by the receive loop.) -/
theorem never_amplifies (e : EP) (f : Frame) (ig : Bool) :
    ∃ extra, (processFrame e f ig).1.outq = e.outq ++ extra ∧ extra.length ≤ 1 :=
  Mux.processFrame_atMost1 e f ig

/-! Non-vacuity: a `Connect` is answered with exactly one `Acknowledge`; a `Push` that overruns the
    window with exactly one `Reset`; a `Reset` with nothing. -/
example : (processFrame { opts := {}, outq := [.ping] } (.connect 5 4 80 []) false).1.outq =
    [.ping, .frame (.acknowledge 5 4)] := by decide
private def full5 : EP :=
  { opts := {}, flows := [(5, .established 0)], objs := [{ fid := 5, cap := 0, credit := 4, threshold := 4 }] }
example : (processFrame full5 (.push 5 [1]) false).1.outq = [.frame (.reset 5)] := by decide
example : (processFrame full5 (.reset 5) false).1.outq = [] := by decide

/-! Non-vacuity: three `Push` frames into a window of two: two are queued, the third resets the flow. -/
example : ((runOps { opts := { rwnd := 2 } } [.deliver (.msg (.frame (.connect 5 9 80 []))),
    .deliver (.msg (.frame (.push 5 [1]))), .deliver (.msg (.frame (.push 5 [2])))]).objs[0]?.map (·.rxq.length)) = some 2 := by decide
example : lookup (runOps { opts := { rwnd := 2 } } [.deliver (.msg (.frame (.connect 5 9 80 []))),
    .deliver (.msg (.frame (.push 5 [1]))), .deliver (.msg (.frame (.push 5 [2]))), .deliver (.msg (.frame (.push 5 [3])))]).flows 5 = none := by decide

/-! Non-vacuity -/
example : (processFrame { opts := {} } (.push 7 [1]) false).1.outq = [.frame (.reset 7)] := by decide
example : lookup ({ opts := {}, flows := [(3, .requested 1)] } : EP).flows 3 = some (.requested 1) := by decide

/-! ## No endless chatter between two conforming endpoints

`Pair.moved p l`: the number of messages handed to a transport (`xmit`) or taken from it and processed
(`recv`) in the course of running `l` from `p` (actions that are not enabled are skipped).
`Pair.M`: the measure of `Lemmas/PairQuiesce.lean` (see Props/C04, last section). -/

open Penguin.Pair in
/-- Without any application action, two conforming endpoints exchange at most `M p` messages: in ANY
    schedule of internal actions (transmissions, frame processing, notifications, parked hand-overs, open
    futures returning or retrying; either side, any interleaving, enabled or not) from ANY pair state `p`,
    the transmissions and frame-processing steps number at most `M p` — each pays one unit of the measure,
    no internal action ever increases it. A reply (`Acknowledge`, `Reset`) never triggers an endless
    exchange: a `Reset` is never answered (`never_reset_to_reset`), an `Acknowledge` at most by a `Reset`,
    a rejected `Connect` is retried at most `max_flow_id_retries` times. -/
theorem no_endless_chatter (p : PS) (l : List (Side × Pair.Act)) (hi : ∀ sa ∈ l, internal sa.2 = true) :
    moved p l ≤ M p ∧ moved p l + M (Pair.run p l) ≤ M p :=
  ⟨by have := moved_measure p l hi; omega, moved_measure p l hi⟩

/-! Non-vacuity: both endpoints request a stream and both draw flow id 7. Each `Connect` is rejected with
    a `Reset`, each request is retried with a fresh id (8, 9), acknowledged and returned: 16 messages
    moved, `M = 78` at the start, `0` at the end, where nothing is left to do. -/
private def ch0 : Pair.PS :=
  Pair.run (Pair.init {} {} [7, 8, 20] [7, 9, 21]) [(.A, .open 1 [104] 80), (.B, .open 1 [105] 81)]
private def chs : List (Pair.Side × Pair.Act) :=
  [(.A, .xmit), (.B, .xmit), (.A, .recv), (.B, .recv), (.A, .xmit), (.B, .xmit), (.A, .recv), (.B, .recv),
   (.A, .runRetries), (.B, .runRetries), (.A, .xmit), (.B, .xmit), (.A, .recv), (.B, .recv), (.A, .xmit), (.B, .xmit),
   (.A, .recv), (.B, .recv), (.A, .runDone), (.B, .runDone)]
example : (∀ sa ∈ chs, Pair.internal sa.2 = true) ∧ Pair.moved ch0 chs = 16 ∧ Pair.M ch0 = 78 ∧
    Pair.M (Pair.run ch0 chs) = 0 ∧ Pair.ProdSched ch0 chs := by decide
example : Pair.Quiescent (Pair.run ch0 chs) := (Pair.quiescent_iff _).2 (by decide)
example : Pair.moved ch0 chs ≤ Pair.M ch0 := (no_endless_chatter ch0 chs (by decide)).1
/-- The `Reset` that answers the colliding `Connect` is on the wire after the first four steps. -/
example : (Pair.run ch0 (chs.take 6)).ab = [.frame (.reset 7)] := by decide

/-! ### Below the frames: what a peer can make the task see at the WebSocket level (`ws.rs`, `Model/WsMsg.lean`) -/

open Penguin.WsMsg in
/-- Every message a reading WebSocket can deliver (everything but a raw `Frame`) is mapped — no panic —, a text
    message is exactly the binary message of its bytes (it cannot do more than those bytes could: `process_message`
    decodes them like any frame and an undecodable one ends the connection with an error, `Props.C10` above),
    and the control messages carry nothing the peer chose. -/
theorem ws_incoming_total_and_text_is_binary (m : TMsg) :
    (m ≠ .frame → (fromT m).isSome = true) ∧
    (∀ b, fromT (.text b) = fromT (.binary b)) ∧
    (∀ b b', fromT (.ping b) = fromT (.ping b') ∧ fromT (.pong b) = fromT (.pong b')) ∧
    (∀ f f', fromT (.close f) = fromT (.close f')) := by
  refine ⟨?_, fun _ => rfl, fun _ _ => ⟨rfl, rfl⟩, fun _ _ => rfl⟩
  cases m <;> simp [fromT]

open Penguin.WsMsg in
/-- What the endpoint sends is read back as what it meant (between two penguin endpoints the mapping loses
    nothing), binary payloads are untouched in both directions, and a keepalive `Ping` / `Pong` / `Close` goes out
    with an empty payload. -/
theorem ws_roundtrip (m : WsMsg.Msg) :
    fromT (toT m) = some m ∧
    (∀ b, toT (.binary b) = .binary b ∧ fromT (.binary b) = some (.binary b)) ∧
    toT .ping = .ping [] ∧ toT .pong = .pong [] ∧ toT .close = .close none := by
  refine ⟨?_, fun _ => ⟨rfl, rfl⟩, rfl, rfl, rfl⟩
  cases m <;> rfl

open Penguin.WsMsg in
example : fromT (.text [0x70, 0, 0, 0, 1]) = some (.binary [0x70, 0, 0, 0, 1]) ∧ fromT .frame = none ∧
    fromT (.close (some (1000, [98, 121, 101]))) = some .close := by decide

end Penguin.C10
