/-
C02 — Logical streams deliver bytes intact, in order, exactly once, without cross-talk.
Over the link model (every action sequence, every window and threshold) for the byte-level
statements; over the endpoint model (every state, every frame) for "no cross-talk"; over the pair of
endpoint models for the running phase; and over EVERY history of one endpoint model with ANY peer
(wind-down, faults and misbehaving peers included) for receiver and sender integrity
(`receiver_integrity_every_history`, `sender_integrity_every_history`, …); and over EVERY history of TWO
endpoint models joined by FIFO wires, connection end and faults included
(`pair_reads_are_prefix_of_peer_writes_every_history`, `Model/PairAll.lean`).
-/
import Penguin.Model.Link
import Penguin.Model.Mux
import Penguin.Model.MuxVec
import Penguin.Model.Frame
import Penguin.Lemmas.Link
import Penguin.Lemmas.MuxStep
import Penguin.Lemmas.PairHarness
import Penguin.Lemmas.PairBytes
import Penguin.Lemmas.MuxIntegritySrc
import Penguin.Lemmas.PairAllRun

namespace Penguin.C02
open Penguin Penguin.Link

/-- Every byte accepted by a successful write is, at every moment, in exactly one place and in
    order: already read, in the reader's buffer, in its queue, or in flight. -/
theorem bytes_conserved (W th : Nat) (hW : 0 < W) (hth : th ≤ W) (as : List Act) :
    let s := run (init W th) as
    s.delivered ++ s.buf ++ s.rxq.flatten ++ (pushes s.wire).flatten = s.accepted :=
  (run_inv _ as (init_inv W th hW hth)).hdata

/-- The bytes obtained by the reading end are at every moment a prefix of the bytes accepted by
    successful writes on the other end, in the same order. -/
theorem delivered_is_prefix (W th : Nat) (hW : 0 < W) (hth : th ≤ W) (as : List Act) :
    (run (init W th) as).delivered <+: (run (init W th) as).accepted := by
  have h := bytes_conserved W th hW hth as
  simp only at h
  rw [← h, List.append_assoc, List.append_assoc]
  exact List.prefix_append _ _

/-- When the writer has shut down (or aborted) and the reader has read to end-of-stream, the two
    byte sequences are equal. -/
theorem equal_at_eof (W th : Nat) (hW : 0 < W) (hth : th ≤ W) (as : List Act)
    (he : (run (init W th) as).eofSeen = true) :
    (run (init W th) as).delivered = (run (init W th) as).accepted := by
  have h := run_inv _ as (init_inv W th hW hth)
  obtain ⟨h1, h2, h3⟩ := h.heof he
  have hw := h.hdeadwire h1
  have := h.hdata
  rw [h2, h3, hw] at this
  simpa using this

/-- A vectored write is the write of the concatenation: one `Push` whose payload is the pieces back
    to back (the encoder's `encodePushVectored`; the endpoint model writes `pieces.flatten`). -/
theorem vectored_is_concat (id : Nat) (pieces : List Bytes) :
    encodePushVectored id pieces = encode (.push id pieces.flatten) := rfl

/-- Exactly once: a byte leaves the reader's queue only by being returned by a read — the number of
    bytes delivered never exceeds the number accepted. -/
theorem never_duplicated (W th : Nat) (hW : 0 < W) (hth : th ≤ W) (as : List Act) :
    (run (init W th) as).delivered.length ≤ (run (init W th) as).accepted.length :=
  (delivered_is_prefix W th hW hth as).length_le

open Penguin.Mux in
/-- No cross-talk: a `Push` addressed to flow `fid` never changes the stream object of any other
    flow, whatever the state of the endpoint and whatever the frame carries. -/
theorem no_crosstalk (e : EP) (fid : Nat) (d : Bytes) (ig : Bool) (j : Nat) (hj : j < e.objs.length)
    (hne : lookup e.flows fid ≠ some (.established j)) :
    (processFrame e (.push fid d) ig).1.objs[j]? = e.objs[j]? :=
  Mux.processFrame_other_obj e (.push fid d) ig j hj (by
    intro f hf
    simp only [Msg.flow?, Frame.id, Option.some.injEq] at hf
    subst hf; exact hne)


/-! ### The same for two whole endpoint models joined by FIFO wires (`Penguin.Pair`) -/

open Penguin.Mux Penguin.Pair in
/-- On every flow established on both endpoints, in every reachable state of the pair (every
    interleaving, any number of concurrent flows, every pair of options): what `b`'s application has
    read on the stream, what its handle buffers, what its queue holds and what is in flight add up, in
    order, to exactly what `a`'s application wrote on the stream — so the bytes read are a prefix of
    the bytes written, and bytes of other flows never appear (they are filtered out by flow id). -/
theorem pair_bytes_conserved {oa ob : Opts} {ra rb : List Nat} (c : Cfg oa ob ra rb) (as : List (Pair.Side × Pair.Act))
    {x i j : Nat} (e : Established (Pair.run (Pair.init oa ob ra rb) as) x i j) :
    let p := Pair.run (Pair.init oa ob ra rb) as
    ∃ oB, p.b.objs[j]? = some oB ∧
      p.gb.rlog j ++ oB.buf ++ oB.rxq.flatten ++ (pushesOf x (pathAB p)).flatten = p.ga.wlog i ∧
      p.gb.rlog j <+: p.ga.wlog i :=
  established_bytes (reach_inv c as) e

open Penguin.Mux Penguin.Pair in
/-- … and in the direction `b → a`. -/
theorem pair_bytes_conserved_rev {oa ob : Opts} {ra rb : List Nat} (c : Cfg oa ob ra rb) (as : List (Pair.Side × Pair.Act))
    {x i j : Nat} (e : Established (Pair.run (Pair.init oa ob ra rb) as) x i j) :
    let p := Pair.run (Pair.init oa ob ra rb) as
    ∃ oA, p.a.objs[i]? = some oA ∧
      p.ga.rlog i ++ oA.buf ++ oA.rxq.flatten ++ (pushesOf x (pathBA p)).flatten = p.gb.wlog j ∧
      p.ga.rlog i <+: p.gb.wlog j :=
  established_bytes (reach_inv c as).swap e.swap

open Penguin.Mux Penguin.Pair in
/-- No cross-talk at the level of the pair: on each endpoint exactly one stream object carries the
    flow id of an established flow, so frames of the flow reach that object and no other. -/
theorem pair_one_object_per_flow {oa ob : Opts} {ra rb : List Nat} (c : Cfg oa ob ra rb) (as : List (Pair.Side × Pair.Act))
    {x i j : Nat} (e : Established (Pair.run (Pair.init oa ob ra rb) as) x i j) :
    let p := Pair.run (Pair.init oa ob ra rb) as
    (∀ k o, p.a.objs[k]? = some o → o.fid = x → k = i) ∧ (∀ k o, p.b.objs[k]? = some o → o.fid = x → k = j) := by
  obtain ⟨_, _, _, _, _, _, _, _, _, _, h1, h2⟩ := established_dir (reach_inv c as) e
  exact ⟨h1, h2⟩

open Penguin.Mux Penguin.Pair in
/-- The same at the level the correspondence harness works at: after EVERY history of stimuli
    (application calls and deliveries at either endpoint, each followed by that endpoint's run to
    quiescence, `Mux.applyOp`), on every established flow the bytes read are a prefix of the bytes
    written and every written byte is in exactly one place. -/
theorem harness_history_bytes {oa ob : Opts} {ra rb : List Nat} (c : Cfg oa ob ra rb) (l : List (Pair.Side × Stim)) (q : PS)
    (h : stimRun (Pair.init oa ob ra rb) l = some q) {x i j : Nat} (e : Established q x i j) :
    ∃ oB, q.b.objs[j]? = some oB ∧
      q.gb.rlog j ++ oB.buf ++ oB.rxq.flatten ++ (pushesOf x (pathAB q)).flatten = q.ga.wlog i ∧
      q.gb.rlog j <+: q.ga.wlog i :=
  established_bytes (stim_history_inv c l q h) e

open Penguin.Mux Penguin.Pair in
/-- … and after a `batch` stimulus (several application calls of one endpoint back to back before its
    task runs — `Mux.applyBatch`, what the driver executes), applied to any reachable state of the
    pair: it is a run of the fine-grained actions, so the invariant, and with it every `pair_*`
    theorem, holds afterwards. -/
theorem harness_batch_is_a_run {oa ob : Opts} {ra rb : List Nat} (c : Cfg oa ob ra rb) (as : List (Pair.Side × Pair.Act))
    (q : PS) (ops : List Mux.Op) (acts : List Pair.Act) (hacts : ops.map actOf = acts.map some)
    (hen : runL (Pair.run (Pair.init oa ob ra rb) as) acts = some q)
    (hidle : Idle q.a) (hsr : q.a.sinkRoom = none) (hr : (settle q.a).1.rng ≠ []) :
    let p := Pair.run (Pair.init oa ob ra rb) as
    Pair.Inv { q with a := (applyBatch p.a ops).1, ab := p.ab ++ wiresOf (applyBatch p.a ops).2.2 } :=
  batch_inv _ q (reach_inv c as) ops acts hacts hen hidle hsr hr

/-! Non-vacuity of the pair theorems: a concrete run (windows 2, threshold 1) that opens a stream,
    writes three bytes, reads them in two reads, shuts down and reads end-of-stream. -/
private def pcfg : Mux.Opts := { rwnd := 2, threshold := 1 }
private def pacts : List (Pair.Side × Pair.Act) :=
  [(.A, .open 1 [104] 80), (.A, .xmit), (.B, .recv), (.B, .xmit), (.A, .recv), (.A, .runDone), (.B, .accept),
   (.A, .write 0 [1, 2, 3]), (.A, .xmit), (.B, .recv), (.B, .read 0 2), (.B, .read 0 9), (.B, .xmit), (.A, .recv),
   (.A, .shutdown 0), (.A, .xmit), (.B, .recv), (.B, .read 0 9)]
example : Pair.Cfg pcfg pcfg [7, 8] [9, 10] := ⟨by decide, by decide, by decide, by decide⟩
example : Pair.Established (Pair.run (Pair.init pcfg pcfg [7, 8] [9, 10]) pacts) 7 0 0 :=
  ⟨by decide, by decide, by decide, by decide, by decide⟩
example : (Pair.run (Pair.init pcfg pcfg [7, 8] [9, 10]) pacts).gb.rlog 0 = [1, 2, 3] := by decide

/-! ### … and over BYTE wires (`Penguin.PairBytes`): what really travels -/

open Penguin.Mux Penguin.Pair Penguin.PairBytes in
/-- `pair_bytes_conserved` for two endpoint models joined by wires that carry the ENCODED bytes of
    each frame, the receiver decoding before `process_frame`: on every flow established on both
    endpoints, in every reachable state, what `b`'s application has read, what its handle buffers,
    what its queue holds, the `Push` payloads found by decoding the Binary messages in transit and
    those still queued at `a` add up, in order, to exactly what `a`'s application wrote.
    (`c`: sane windows, distinct non-zero ids; `w`, `has`: the ranges the Rust types enforce — see
    `C09.byte_pair_refines_frame_pair`, through which the frame-level theorem is transported.) -/
theorem pair_bytes_conserved_over_byte_wires {oa ob : Opts} {ra rb : List Nat} (c : Cfg oa ob ra rb)
    (w : WireCfg oa ob ra rb) (as : List (Pair.Side × Pair.Act)) (has : ∀ sa ∈ as, sa.2.inRange)
    {x i j : Nat} (e : Established (runb (initb oa ob ra rb) as).view x i j) :
    let pb := runb (initb oa ob ra rb) as
    ∃ oB, pb.b.objs[j]? = some oB ∧
      pb.gb.rlog j ++ oB.buf ++ oB.rxq.flatten ++ (pushesOf x (decWire pb.ab ++ pb.a.outq)).flatten = pb.ga.wlog i ∧
      pb.gb.rlog j <+: pb.ga.wlog i := by
  intro pb
  have he : pb = enc (Pair.run (Pair.init oa ob ra rb) as) := reach_enc w as has
  have hv : pb.view = Pair.run (Pair.init oa ob ra rb) as := by rw [he]; exact view_enc _ (reach_wf w as has)
  have e' : Established (Pair.run (Pair.init oa ob ra rb) as) x i j := by rw [← hv]; exact e
  have h := pair_bytes_conserved c as e'
  simp only at h
  rw [← hv] at h
  exact h

/-! Non-vacuity over byte wires: the run above, the flow established, the `Push` in transit as bytes. -/
private def pactsW : List (Pair.Side × Pair.Act) :=
  [(.A, .open 1 [104] 80), (.A, .xmit), (.B, .recv), (.B, .xmit), (.A, .recv), (.A, .runDone), (.B, .accept),
   (.A, .write 0 [1, 2, 3]), (.A, .xmit)]
example : PairBytes.WireCfg pcfg pcfg [7, 8] [9, 10] := ⟨by decide, by decide, by decide⟩
example : ∀ sa ∈ pactsW, sa.2.inRange := by decide
example : Pair.Established (PairBytes.runb (PairBytes.initb pcfg pcfg [7, 8] [9, 10]) pactsW).view 7 0 0 :=
  ⟨by decide, by decide, by decide, by decide, by decide⟩
example : (PairBytes.runb (PairBytes.initb pcfg pcfg [7, 8] [9, 10]) pactsW).ab = [.bin [0x74, 0, 0, 0, 7, 1, 2, 3]] := by decide
example : (PairBytes.runb (PairBytes.initb pcfg pcfg [7, 8] [9, 10]) pactsW).ga.wlog 0 = [1, 2, 3] := by decide

/-! ### Stream integrity for EVERY history of ONE endpoint with ANY peer

The pair theorems above speak about two conforming endpoints while the connection runs.  The theorems
below speak about one endpoint (`Mux.EP`) and every history of stimuli `Mux.Op` from the fresh state:
application calls, faults, and deliveries of ARBITRARY incoming messages — the peer is unconstrained;
wind-down, a dropped `Multiplexor`, transport errors, undecodable frames, window overruns and flow ids
reused by the peer are all inside the quantifier.  `Mux.runOpsG` runs the history and keeps the record
of what could be observed (`Mux.Ghost`):
* `accepted` — `(i, d)`: `process_frame` accepted a `Push` with payload `d` into stream object `i`.  This
  is decided by `process_frame`'s own test evaluated on the state BEFORE the frame is processed
  (`Mux.acceptedInto`: the frame's flow id has a slot `Established i`, the object still has its `Sender`,
  an open `Receiver` and room in its bounded queue), frame by frame along the task's run
  (`Mux.settleLog` mirrors `settleLoop`/`windDown`: several inbox items can be processed per stimulus);
* `returned` — `(i, bs)`: a `read` through a handle of object `i` answered `data bs` (from the call's result);
* `discarded` — `(i, bs)`: the application dropped the handle of object `i` while `bs` was queued unread;
* `wrote` — `(i, x, d)`: a `write` of `d ≠ []` through a handle of object `i` (flow id `x`) answered `wrote`;
* `evs` — every event the endpoint emitted (`Ev.wire m` = `m` was handed to the transport).
None of these is defined from the fields the theorems equate them with. -/

open Penguin.Mux in
/-- Receiver integrity.  After every history, for every stream object `i`: the bytes its reads have
    returned, then the handle's buffer, then the queued frames, then what was thrown away when the
    handle was dropped, are — in order, each byte once — exactly the payloads of the `Push` frames that
    `process_frame` accepted into THAT object.  Nothing else ever enters a stream: not a frame of another
    flow, not a frame that arrived while another object (or none) held the id, not a datagram, nothing
    the wind-down does; and nothing accepted is lost or reordered, through the wind-down included. -/
theorem receiver_integrity_every_history (o : Opts) (ops : List Mux.Op) (i : Nat) (ob : Obj)
    (hi : (runOps { opts := o } ops).objs[i]? = some ob) :
    let g := (runOpsG { opts := o } {} ops).2
    chunks g.returned i ++ ob.buf ++ ob.rxq.flatten ++ chunks g.discarded i = chunks g.accepted i := by
  have h := (receiver_inv o ops).eq i
  rw [← runOpsG_fst _ {} ops] at hi
  simp only [Mux.str, strO, hi, Obj.stream] at h
  simpa [List.append_assoc] using h

open Penguin.Mux in
/-- … and as long as no stream handle was dropped nothing is discarded: read ++ buffered ++ queued is
    exactly what was accepted.  (`Mux.discardedBy_spec`: only `dropStream` on a handle of `i` ever
    discards bytes of object `i`.) -/
theorem receiver_integrity_no_drop (o : Opts) (ops : List Mux.Op) (hnd : ∀ op ∈ ops, ∀ h, op ≠ Mux.Op.dropStream h)
    (i : Nat) (ob : Obj) (hi : (runOps { opts := o } ops).objs[i]? = some ob) :
    let g := (runOpsG { opts := o } {} ops).2
    chunks g.returned i ++ ob.buf ++ ob.rxq.flatten = chunks g.accepted i := by
  have h := receiver_integrity_every_history o ops i ob hi
  have hd := discarded_nil_of_no_drop { opts := o } {} ops hnd
  simp only at h ⊢
  rw [hd] at h
  simpa using h

open Penguin.Mux in
/-- What a stream's reader has seen is, at every moment of every history, a prefix of the payloads of
    the `Push` frames accepted into its object, in order. -/
theorem reads_are_prefix_of_accepted_pushes (o : Opts) (ops : List Mux.Op) (i : Nat) :
    chunks (runOpsG { opts := o } {} ops).2.returned i <+: chunks (runOpsG { opts := o } {} ops).2.accepted i := by
  have h := (receiver_inv o ops).eq i
  rw [← h, List.append_assoc]
  exact List.prefix_append _ _

open Penguin.Mux in
/-- Where accepted frames come from.  The payloads accepted into stream objects (all objects together,
    in the order of acceptance) are a SUBSEQUENCE of the payloads of the `Push` frames the transport
    delivered, in delivery order: a delivered `Push` is accepted at most once, into at most one object,
    never out of order, and nothing that was not delivered as a `Push` is ever accepted.  The frames of
    one object are a subsequence of those, and its byte stream is their concatenation. -/
theorem accepted_pushes_are_delivered_once_in_order (o : Opts) (ops : List Mux.Op) (i : Nat) :
    let g := (runOpsG { opts := o } {} ops).2
    List.Sublist (Log.data g.accepted) (deliveredData ops) ∧
    List.Sublist (Log.dataOf g.accepted i) (Log.data g.accepted) ∧
    chunks g.accepted i = (Log.dataOf g.accepted i).flatten :=
  ⟨accepted_sublist_delivered o ops, Log.dataOf_sub _ i, chunks_eq_flatten _ i⟩

open Penguin.Mux in
/-- Sender integrity.  After every history: the `Push` frames handed to the transport so far, followed
    by those still in the outbound queue, are — as (flow id, payload), in order — a prefix of the writes
    that answered `wrote` (each with the flow id of the object behind the handle used, which is the
    object's own id for ever: third conjunct), and they are ALL of them as long as the outbound queue
    is open.  So every successful write is sent exactly once, in order, under its own stream's id, and
    no other `Push` is ever enqueued or sent — whatever the peer does; once the connection is torn down
    after an error or a Close what was still queued is dropped (a prefix was sent), after a dropped
    `Multiplexor` it is sent first.  (`g.evs` is `(Mux.runOpsEv _ ops).2`: `Mux.runOpsG_evs`.) -/
theorem sender_integrity_every_history (o : Opts) (ops : List Mux.Op) :
    let e := runOps { opts := o } ops
    let g := (runOpsG { opts := o } {} ops).2
    (pushesEv g.evs ++ pushesQ e.outq <+: wroteFrames g.wrote) ∧
    (e.outClosed = false → pushesEv g.evs ++ pushesQ e.outq = wroteFrames g.wrote) ∧
    (∀ w ∈ g.wrote, ∃ ob, e.objs[w.1]? = some ob ∧ ob.fid = w.2.1) := by
  have h := sender_inv o ops
  have hw := wrote_ids { opts := o } {} ops (by intro w hw; cases hw)
  rw [runOpsG_fst] at h hw
  exact ⟨h.1, h.2, hw⟩

open Penguin.Mux in
/-- No cross-talk, history form.  In every state (so after every history) and for every stimulus: the
    readable bytes of stream object `i` change only by `i`'s own events — if the stimulus returns nothing
    from `i`, discards nothing of `i`, and no frame is accepted into `i` while the task runs, they are
    exactly what they were, whatever happens to other streams and to the connection.  And those events
    are tied to `i`: bytes are returned from `i` only by a `read` through a handle of `i`; a frame is
    accepted into `i` only if it is a `Push` whose flow id is at that moment the id of the slot
    `Established i` — and it is then accepted into no other object and leaves every other object's
    readable bytes untouched. -/
theorem no_crosstalk_every_history (e : EP) (op : Mux.Op) (i : Nat) :
    (chunks (settleLog (opStep e op).1) i = [] → chunks (returnedBy e op (applyOp e op).2.1) i = [] →
      chunks (discardedBy e op) i = [] → str (applyOp e op).1 i = str e i) ∧
    (∀ bs, (i, bs) ∈ returnedBy e op (applyOp e op).2.1 →
      ∃ h n, op = .read h n ∧ (applyOp e op).2.1 = .data bs ∧ e.handles[h]? = some i) ∧
    (∀ (e' : EP) (f : Frame) (ig : Bool) (d : Bytes), (i, d) ∈ acceptedInto e' f →
      (∃ fid, f = .push fid d ∧ lookup e'.flows fid = some (.established i) ∧ acceptedInto e' f = [(i, d)]) ∧
      ∀ j, j ≠ i → str (processFrame e' f ig).1 j = str e' j) :=
  ⟨stream_changes_only_by_own_events e op i,
   fun bs h => returnedBy_spec e op _ i bs h,
   fun e' f ig d h => ⟨acceptedInto_spec e' f i d h, fun j hj => accepted_frame_touches_one_object e' f ig i j d h hj⟩⟩

/-! Non-vacuity of the every-history theorems (windows 2, threshold 1; the peer opens the streams). -/
private def hcfg : Mux.Opts := { rwnd := 2, threshold := 1 }
private def fr (f : Frame) : Mux.Op := .deliver (.msg (.frame f))

/-- Two streams (flow ids 5 and 6, objects 0 and 1), `Push` frames interleaved, reads interleaved. -/
private def hTwo : List Mux.Op :=
  [fr (.connect 5 4 80 [104]), fr (.connect 6 4 81 [105]), .accept, .accept,
   fr (.push 5 [1, 2]), fr (.push 6 [9]), fr (.push 5 [3]), .read 0 1, .read 1 5, .read 0 5]
open Penguin.Mux in
example : (runOpsG { opts := hcfg } {} hTwo).2.accepted = [(0, [1, 2]), (1, [9]), (0, [3])] ∧
    (runOpsG { opts := hcfg } {} hTwo).2.returned = [(0, [1]), (1, [9]), (0, [2])] ∧
    chunks (runOpsG { opts := hcfg } {} hTwo).2.accepted 0 = [1, 2, 3] ∧
    chunks (runOpsG { opts := hcfg } {} hTwo).2.returned 0 = [1, 2] ∧
    (runOps { opts := hcfg } hTwo).objs.map (fun ob => (ob.buf, ob.rxq)) = [([], [[3]]), ([], [])] ∧
    deliveredData hTwo = [[1, 2], [9], [3]] := by decide
/-! … no handle is dropped in it (hypothesis of `receiver_integrity_no_drop`), and its second read is an
    event of object 1 in the sense of `no_crosstalk_every_history`. -/
example : ∀ op ∈ hTwo, ∀ h, op ≠ Mux.Op.dropStream h := by
  intro op hop h heq
  subst heq
  simp [hTwo, fr] at hop
open Penguin.Mux in
example : (1, [9]) ∈ returnedBy (runOps { opts := hcfg } (hTwo.take 8)) (.read 1 5)
    (applyOp (runOps { opts := hcfg } (hTwo.take 8)) (.read 1 5)).2.1 := by decide

/-- The connection ends (the peer sends Close) with two frames still queued; the reader then reads
    them all, and only then sees end-of-stream. -/
private def hEnd : List Mux.Op :=
  [fr (.connect 5 4 80 [104]), .accept, fr (.push 5 [1, 2]), fr (.push 5 [3]), .deliver (.msg .close),
   .read 0 9, .read 0 9]
open Penguin.Mux in
example : (runOps { opts := hcfg } (hEnd.take 5)).dead = true ∧
    (runOps { opts := hcfg } (hEnd.take 5)).objs.map (fun ob => (ob.buf, ob.rxq)) = [([], [[1, 2], [3]])] ∧
    chunks (runOpsG { opts := hcfg } {} hEnd).2.returned 0 = [1, 2, 3] ∧
    chunks (runOpsG { opts := hcfg } {} hEnd).2.accepted 0 = [1, 2, 3] ∧
    (applyOp (runOps { opts := hcfg } hEnd) (.read 0 9)).2.1 = .eof := by decide

/-- A misbehaving peer: a `Push` on an unknown flow (77), a datagram carrying stream 6's id, and a window
    overrun on stream 5 (third `Push` into a queue of 2: the flow is closed and reset, the fourth finds
    no flow) — while stream 6 accepts and keeps its frames, and stream 5's reader still gets, in order,
    what had been accepted. -/
private def hBad : List Mux.Op :=
  [fr (.connect 5 4 80 [104]), fr (.connect 6 4 81 [105]), .accept, .accept,
   fr (.push 77 [7, 7]), fr (.push 6 [9]), fr (.push 5 [1]), fr (.push 5 [2]), fr (.push 5 [3]), fr (.push 5 [4]),
   fr (.push 6 [8]), fr (.datagram 6 1 [1] [66]), .read 1 9, .read 0 9]
open Penguin.Mux in
example : (runOpsG { opts := hcfg } {} hBad).2.accepted = [(1, [9]), (0, [1]), (0, [2]), (1, [8])] ∧
    (runOpsG { opts := hcfg } {} hBad).2.returned = [(1, [9]), (0, [1])] ∧
    (runOps { opts := hcfg } hBad).flows = [(6, .established 1)] ∧
    (runOps { opts := hcfg } hBad).objs.map (fun ob => (ob.buf, ob.rxq, ob.senderAlive)) =
      [([], [[2]], false), ([], [[8]], true)] ∧
    deliveredData hBad = [[7, 7], [9], [1], [2], [3], [4], [8]] := by decide

/-- A handle is dropped with a frame queued: the frame is accounted for as discarded. -/
private def hDrop : List Mux.Op :=
  [fr (.connect 5 4 80 [104]), .accept, fr (.push 5 [1, 2]), fr (.push 5 [3]), .read 0 1, .dropStream 0]
open Penguin.Mux in
example : chunks (runOpsG { opts := hcfg } {} hDrop).2.returned 0 = [1] ∧
    (runOps { opts := hcfg } hDrop).objs.map (fun ob => (ob.buf, ob.rxq)) = [([2], [])] ∧
    chunks (runOpsG { opts := hcfg } {} hDrop).2.discarded 0 = [3] ∧
    chunks (runOpsG { opts := hcfg } {} hDrop).2.accepted 0 = [1, 2, 3] := by decide

/-- Sender: four successful writes (an empty one in between sends nothing), the transport accepting
    only the first two frames so far; a fifth write finds no credit.  Then the transport fails: the two
    queued frames are dropped with the connection, a later write is refused — a prefix was sent. -/
private def hSend : List Mux.Op :=
  [fr (.connect 5 4 80 [104]), .accept, .write 0 [1, 2], .write 0 [], .write 0 [3], .sinkRoom (some 0),
   .write 0 [4], .write 0 [5], .write 0 [6]]
open Penguin.Mux in
example : (runOpsG { opts := hcfg } {} hSend).2.wrote = [(0, 5, [1, 2]), (0, 5, [3]), (0, 5, [4]), (0, 5, [5])] ∧
    pushesEv (runOpsG { opts := hcfg } {} hSend).2.evs = [(5, [1, 2]), (5, [3])] ∧
    pushesQ (runOps { opts := hcfg } hSend).outq = [(5, [4]), (5, [5])] ∧
    (runOps { opts := hcfg } hSend).outClosed = false := by decide
open Penguin.Mux in
example : (runOpsG { opts := hcfg } {} (hSend ++ [.deliver .err, .write 0 [7]])).2.wrote =
      [(0, 5, [1, 2]), (0, 5, [3]), (0, 5, [4]), (0, 5, [5])] ∧
    pushesEv (runOpsG { opts := hcfg } {} (hSend ++ [.deliver .err, .write 0 [7]])).2.evs = [(5, [1, 2]), (5, [3])] ∧
    (runOps { opts := hcfg } (hSend ++ [.deliver .err, .write 0 [7]])).outq = [] ∧
    (runOps { opts := hcfg } (hSend ++ [.deliver .err, .write 0 [7]])).outClosed = true := by decide

/-! No cross-talk: the hypotheses of the first part are met for object 1 by a `Push` for object 0's flow
    (and object 1 has bytes to keep); those of the last part by that same `Push`. -/
open Penguin.Mux in
example : chunks (settleLog (opStep (runOps { opts := hcfg } (hTwo.take 6)) (fr (.push 5 [3]))).1) 1 = [] ∧
    chunks (settleLog (opStep (runOps { opts := hcfg } (hTwo.take 6)) (fr (.push 5 [3]))).1) 0 = [3] ∧
    str (runOps { opts := hcfg } (hTwo.take 6)) 1 = [9] ∧
    (0, [3]) ∈ acceptedInto (runOps { opts := hcfg } (hTwo.take 6)) (.push 5 [3]) := by decide

/-! ### Two endpoints, EVERY history: what a reader reads is a prefix of what the peer wrote

`Penguin.PairAll` (`Model/PairAll.lean`) joins two endpoint models by two FIFO wires at the stimulus level,
with nothing left out: a stimulus at either side is ANY stimulus of the endpoint model except a delivery
(`call op`: `open`, `accept`, `write`, `read`, `shutdown`, `dropStream`, the datagram and bind calls, `dropMux`,
`sinkRoom`, `cancelOpen`), the delivery of the oldest message on the wire to that side (`deliver`; a delivered
Close ends the source after it), or a transport fault (`cut`: the side's source fails or ends, what was on
the wire to it is lost, the wire stays closed).  Each side keeps the ghost record of the one-endpoint theorems
above (`Mux.Ghost` via `Mux.stepG`).  Flow ids come from two scripts that together are duplicate-free and do
not run out (`PairAll.Cfg`: no id is ever drawn twice; a stimulus that exhausts the acting side's script is
not enabled): the model's reading of "random 32-bit ids do not collide" — weaker than `Pair.Cfg` (no
hypothesis on windows, none on zero ids).  The proof composes sender integrity at the writer,
FIFO wires that lose only a suffix, "acceptance is prefix-closed per flow id" at the reader (new: a `Push x`
that is not accepted into the object is never followed by one that is, because `x` is established at most
once and never after a `Push x` was processed — an invariant of the pair, `Lemmas/PairAll*.lean`), and
receiver integrity at the reader. -/

open Penguin.Mux Penguin.PairAll in
/-- In every reachable state of the pair — after EVERY history of application calls, deliveries and
    transport faults at both sides, whatever happened: the connection ended in any state, a `Multiplexor`
    was dropped with data queued, the source failed in the middle of a burst, streams were reset, handles
    dropped — for every flow id `x` and BOTH directions: the bytes one side's application has read from
    a stream object carrying `x` (`Ghost.returned`, from the results of its `read` calls) are a PREFIX of
    the bytes the other side's application successfully wrote on flow `x` (`Ghost.wrote`, from the results of
    its `write` calls; `wroteOn x` = the payloads of the writes whose stream carries `x`, concatenated).
    Nothing is read that was not written, nothing out of order, nothing twice, nothing of another flow. -/
theorem pair_reads_are_prefix_of_peer_writes_every_history {ra rb : List Nat} (c : Cfg ra rb) (oa ob : Opts)
    (l : List (PairAll.Side × Stim)) (x : Nat) :
    let p := PairAll.run (PairAll.init oa ob ra rb) l
    (∀ j o, p.b.objs[j]? = some o → o.fid = x → chunks p.gb.returned j <+: wroteOn x p.ga.wrote) ∧
    (∀ i o, p.a.objs[i]? = some o → o.fid = x → chunks p.ga.returned i <+: wroteOn x p.gb.wrote) :=
  ⟨fun j o hj hx => reads_prefix_of_writes c oa ob l x j o hj hx,
   fun i o hi hx => reads_prefix_of_writes_rev c oa ob l x i o hi hx⟩

open Penguin.Mux Penguin.PairAll in
/-- The frame-level link that was missing between the one-endpoint theorems: in every reachable state of the
    pair, the payloads of the `Push` frames `process_frame` accepted into a stream object of `b` carrying `x`
    are a PREFIX (not merely a subsequence) of the payloads of the `Push x` frames `a`'s sink has taken, in
    order — once a `Push x` is not accepted (no slot, receiver closed, window overrun, wind-down, lost with
    the wire), no later `Push x` is accepted into any object carrying `x`. -/
theorem pair_accepted_pushes_are_prefix_of_peer_pushes_every_history {ra rb : List Nat} (c : Cfg ra rb) (oa ob : Opts)
    (l : List (PairAll.Side × Stim)) (x j : Nat) (o : Obj)
    (hj : (PairAll.run (PairAll.init oa ob ra rb) l).b.objs[j]? = some o) (hx : o.fid = x) :
    Log.dataOf (PairAll.run (PairAll.init oa ob ra rb) l).gb.accepted j <+:
      pX x (wireMsgs (PairAll.run (PairAll.init oa ob ra rb) l).ga.evs) :=
  accepted_prefix_of_sent c oa ob l x j o hj hx

/-! Non-vacuity (windows 2, threshold 1; scripts `[7, 8]` and `[9, 10]`; `a` opens flow 7, `b` accepts it). -/
private def qcfg : Mux.Opts := { rwnd := 2, threshold := 1 }
example : PairAll.Cfg [7, 8] [9, 10] := ⟨by decide, by decide, by decide⟩
open Penguin.PairAll in
private def qopen : List (PairAll.Side × Stim) :=
  [(.A, .call (.open 1 [104] 80)), (.B, .deliver), (.B, .call .accept), (.A, .deliver)]

open Penguin.PairAll in
/-- `a` writes two frames, the first is delivered, then the wire to `b` is cut (the source fails): `b` reads
    the first frame — a strict prefix of what was written — and then end-of-stream. -/
private def qCut : List (PairAll.Side × Stim) :=
  qopen ++ [(.A, .call (.write 0 [1, 2])), (.A, .call (.write 0 [3])), (.B, .deliver), (.B, .cut false),
            (.B, .call (.read 0 9))]
open Penguin.Mux Penguin.PairAll in
example : let p := PairAll.run (PairAll.init qcfg qcfg [7, 8] [9, 10]) qCut
    (p.b.objs.map (·.fid) = [7] ∧ p.b.dead = true ∧ p.abOpen = false ∧
     chunks p.gb.returned 0 = [1, 2] ∧ wroteOn 7 p.ga.wrote = [1, 2, 3] ∧
     (applyOp p.b (.read 0 9)).2.1 = .eof) := by decide

open Penguin.PairAll in
/-- `a` drops its `Multiplexor` with two frames queued behind a sink that takes nothing; when the sink takes
    again they are sent, then the Close; everything arrives, `b` reads it all and then end-of-stream. -/
private def qDrop : List (PairAll.Side × Stim) :=
  qopen ++ [(.A, .call (.sinkRoom (some 0))), (.A, .call (.write 0 [1, 2])), (.A, .call (.write 0 [3])),
            (.A, .call .dropMux), (.A, .call (.sinkRoom none)), (.B, .deliver), (.B, .deliver), (.B, .deliver),
            (.B, .call (.read 0 9)), (.B, .call (.read 0 9))]
open Penguin.Mux Penguin.PairAll in
example : let p := PairAll.run (PairAll.init qcfg qcfg [7, 8] [9, 10]) qDrop
    (p.a.muxAlive = false ∧ p.b.dead = true ∧ chunks p.gb.returned 0 = [1, 2, 3] ∧ wroteOn 7 p.ga.wrote = [1, 2, 3] ∧
     (applyOp p.b (.read 0 9)).2.1 = .eof) := by decide

open Penguin.PairAll in
/-- A frame that is invalid in the middle of the run: `b` drops its handle while `a` goes on writing; `a`'s
    next `Push` arrives for a flow `b` no longer has and is answered by a `Reset` (it is written, never read);
    after the `Reset` `a`'s writes fail. -/
private def qStale : List (PairAll.Side × Stim) :=
  qopen ++ [(.A, .call (.write 0 [1, 2])), (.B, .deliver), (.B, .call (.read 0 9)), (.A, .deliver),
            (.B, .call (.dropStream 0)), (.A, .call (.write 0 [3])), (.B, .deliver), (.A, .deliver), (.A, .deliver),
            (.A, .call (.write 0 [4]))]
open Penguin.Mux Penguin.PairAll in
example : let p := PairAll.run (PairAll.init qcfg qcfg [7, 8] [9, 10]) qStale
    (p.b.flows = [] ∧ p.a.flows = [] ∧ chunks p.gb.returned 0 = [1, 2] ∧ wroteOn 7 p.ga.wrote = [1, 2, 3] ∧
     (applyOp p.a (.write 0 [5])).2.1 = .brokenPipe) := by decide

/-! Non-vacuity -/
example : (run (init 2 2) [.write [1, 2, 3], .deliver, .read 2, .write [4], .deliver, .read 9, .read 9]).delivered
    = [1, 2, 3, 4] := by decide
example : (run (init 1 1) [.write [7], .shutdown, .deliver, .deliver, .read 4, .read 4]).eofSeen = true := by decide

/-! ### The vectored entry point (`poll_write_vectored`, modelled on its own in `Model/MuxVec.lean`) -/

theorem totalLen_eq_flatten_length (ds : List Bytes) : Mux.totalLen ds = ds.flatten.length := by
  unfold Mux.totalLen
  induction ds with
  | nil => rfl
  | cons d ds ih => simp only [List.map_cons, List.sum_cons, List.flatten_cons, List.length_append, ih]

/-- `poll_write_vectored` with the slices `ds` IS `poll_write` with their concatenation: same result, same
    next state (credit, parked writer, queued `Push` frame with exactly the concatenated bytes), for every
    endpoint state, handle and slice list — no slices, empty slices and a total of 0 included. The byte-level
    theorems of this file, stated for `write`, therefore hold for vectored writes as they are. -/
theorem vectored_write_is_write_of_concatenation (e : Mux.EP) (h : Nat) (ds : List Bytes) :
    Mux.appWriteV e h ds = Mux.appWrite e h ds.flatten := by
  unfold Mux.appWriteV Mux.appWrite
  rw [totalLen_eq_flatten_length]
  generalize ds.flatten = d
  cases hh : e.handleObj h with
  | none => rfl
  | some p =>
    obtain ⟨i, o⟩ := p
    cases d with
    | nil =>
      simp only [List.length_nil, if_true, List.isEmpty_nil]
    | cons b d =>
      simp only [List.length_cons, Nat.add_one_ne_zero, if_false, List.isEmpty_cons, Bool.false_eq_true]

/-- A vectored write never sends more than one frame and never takes more than one unit of credit. -/
theorem vectored_write_one_frame_one_credit (e : Mux.EP) (h : Nat) (ds : List Bytes) (n : Nat)
    (hw : (Mux.appWriteV e h ds).2 = .wrote n) (hn : 0 < n) :
    ∃ i o, e.handleObj h = some (i, o) ∧ 0 < o.credit ∧ n = ds.flatten.length ∧
      (Mux.appWriteV e h ds).1 =
        (e.modObj i (fun o => { o with credit := o.credit - 1, parked := false })).enqFrame (.push o.fid ds.flatten) := by
  rw [vectored_write_is_write_of_concatenation] at hw ⊢
  unfold Mux.appWrite at hw ⊢
  cases hh : e.handleObj h with
  | none => simp [hh] at hw
  | some p =>
    obtain ⟨i, o⟩ := p
    simp only [hh] at hw ⊢
    refine ⟨i, o, rfl, ?_⟩
    by_cases hf : o.finishSent = true
    · simp [hf] at hw
    · by_cases hemp : ds.flatten.isEmpty = true
      · simp [hf, hemp] at hw; omega
      · by_cases hc : o.credit = 0
        · simp [hf, hemp, hc] at hw
        · by_cases ho : e.outClosed = true
          · simp [hf, hemp, hc, ho] at hw
          · simp [hf, hemp, hc, ho] at hw ⊢
            omega

/-- Non-vacuity: on the endpoint of `hTwo` (two established streams, the peer advertised a window of 4) a
    vectored write with an empty slice in the middle is accepted with its 3 bytes and queues one `Push`. -/
example : (Mux.appWriteV (Mux.runOps { opts := hcfg } hTwo) 0 [[1, 2], [], [3]]).2 = .wrote 3 := by decide

end Penguin.C02
