/-
C02 — Logical streams deliver bytes intact, in order, exactly once, without cross-talk.
Over the link model (every action sequence, every window and threshold) for the byte-level
statements; over the endpoint model (every state, every frame) for "no cross-talk".
-/
import Penguin.Model.Link
import Penguin.Model.Mux
import Penguin.Model.Frame
import Penguin.Lemmas.Link
import Penguin.Lemmas.MuxStep
import Penguin.Lemmas.PairHarness
import Penguin.Lemmas.PairBytes

namespace Penguin.C02
open Penguin Penguin.Link

/-- Every byte accepted by a successful write is, at every moment, in exactly one place and in
    order: already read, in the reader's buffer, in its queue, or in flight. -/
theorem bytes_conserved (W th : Nat) (hW : 0 < W) (hth : th ≤ W) (as : List Act) :
    let s := run (init W th) as
    s.delivered ++ s.buf ++ s.rxq.flatten ++ (pushes s.wire).flatten = s.accepted :=
  (run_inv _ as (init_inv W th hW hth)).hdata

/-- The bytes obtained by the reading end are at every moment a prefix of the bytes accepted by
    successful writes on the other end, in the same order. -/
theorem delivered_is_prefix (W th : Nat) (hW : 0 < W) (hth : th ≤ W) (as : List Act) :
    (run (init W th) as).delivered <+: (run (init W th) as).accepted := by
  have h := bytes_conserved W th hW hth as
  simp only at h
  rw [← h, List.append_assoc, List.append_assoc]
  exact List.prefix_append _ _

/-- When the writer has shut down (or aborted) and the reader has read to end-of-stream, the two
    byte sequences are equal. -/
theorem equal_at_eof (W th : Nat) (hW : 0 < W) (hth : th ≤ W) (as : List Act)
    (he : (run (init W th) as).eofSeen = true) :
    (run (init W th) as).delivered = (run (init W th) as).accepted := by
  have h := run_inv _ as (init_inv W th hW hth)
  obtain ⟨h1, h2, h3⟩ := h.heof he
  have hw := h.hdeadwire h1
  have := h.hdata
  rw [h2, h3, hw] at this
  simpa using this

/-- A vectored write is the write of the concatenation: one `Push` whose payload is the pieces back
    to back (the encoder's `encodePushVectored`; the endpoint model writes `pieces.flatten`). -/
theorem vectored_is_concat (id : Nat) (pieces : List Bytes) :
    encodePushVectored id pieces = encode (.push id pieces.flatten) := rfl

/-- Exactly once: a byte leaves the reader's queue only by being returned by a read — the number of
    bytes delivered never exceeds the number accepted. -/
theorem never_duplicated (W th : Nat) (hW : 0 < W) (hth : th ≤ W) (as : List Act) :
    (run (init W th) as).delivered.length ≤ (run (init W th) as).accepted.length :=
  (delivered_is_prefix W th hW hth as).length_le

open Penguin.Mux in
/-- No cross-talk: a `Push` addressed to flow `fid` never changes the stream object of any other
    flow, whatever the state of the endpoint and whatever the frame carries. -/
theorem no_crosstalk (e : EP) (fid : Nat) (d : Bytes) (ig : Bool) (j : Nat) (hj : j < e.objs.length)
    (hne : lookup e.flows fid ≠ some (.established j)) :
    (processFrame e (.push fid d) ig).1.objs[j]? = e.objs[j]? :=
  Mux.processFrame_other_obj e (.push fid d) ig j hj (by
    intro f hf
    simp only [Msg.flow?, Frame.id, Option.some.injEq] at hf
    subst hf; exact hne)


/-! ### The same for two whole endpoint models joined by FIFO wires (`Penguin.Pair`) -/

open Penguin.Mux Penguin.Pair in
/-- On every flow established on both endpoints, in every reachable state of the pair (every
    interleaving, any number of concurrent flows, every pair of options): what `b`'s application has
    read on the stream, what its handle buffers, what its queue holds and what is in flight add up, in
    order, to exactly what `a`'s application wrote on the stream — so the bytes read are a prefix of
    the bytes written, and bytes of other flows never appear (they are filtered out by flow id). -/
theorem pair_bytes_conserved {oa ob : Opts} {ra rb : List Nat} (c : Cfg oa ob ra rb) (as : List (Pair.Side × Pair.Act))
    {x i j : Nat} (e : Established (Pair.run (Pair.init oa ob ra rb) as) x i j) :
    let p := Pair.run (Pair.init oa ob ra rb) as
    ∃ oB, p.b.objs[j]? = some oB ∧
      p.gb.rlog j ++ oB.buf ++ oB.rxq.flatten ++ (pushesOf x (pathAB p)).flatten = p.ga.wlog i ∧
      p.gb.rlog j <+: p.ga.wlog i :=
  established_bytes (reach_inv c as) e

open Penguin.Mux Penguin.Pair in
/-- … and in the direction `b → a`. -/
theorem pair_bytes_conserved_rev {oa ob : Opts} {ra rb : List Nat} (c : Cfg oa ob ra rb) (as : List (Pair.Side × Pair.Act))
    {x i j : Nat} (e : Established (Pair.run (Pair.init oa ob ra rb) as) x i j) :
    let p := Pair.run (Pair.init oa ob ra rb) as
    ∃ oA, p.a.objs[i]? = some oA ∧
      p.ga.rlog i ++ oA.buf ++ oA.rxq.flatten ++ (pushesOf x (pathBA p)).flatten = p.gb.wlog j ∧
      p.ga.rlog i <+: p.gb.wlog j :=
  established_bytes (reach_inv c as).swap e.swap

open Penguin.Mux Penguin.Pair in
/-- No cross-talk at the level of the pair: on each endpoint exactly one stream object carries the
    flow id of an established flow, so frames of the flow reach that object and no other. -/
theorem pair_one_object_per_flow {oa ob : Opts} {ra rb : List Nat} (c : Cfg oa ob ra rb) (as : List (Pair.Side × Pair.Act))
    {x i j : Nat} (e : Established (Pair.run (Pair.init oa ob ra rb) as) x i j) :
    let p := Pair.run (Pair.init oa ob ra rb) as
    (∀ k o, p.a.objs[k]? = some o → o.fid = x → k = i) ∧ (∀ k o, p.b.objs[k]? = some o → o.fid = x → k = j) := by
  obtain ⟨_, _, _, _, _, _, _, _, _, _, h1, h2⟩ := established_dir (reach_inv c as) e
  exact ⟨h1, h2⟩

open Penguin.Mux Penguin.Pair in
/-- The same at the level the correspondence harness works at: after EVERY history of stimuli
    (application calls and deliveries at either endpoint, each followed by that endpoint's run to
    quiescence, `Mux.applyOp`), on every established flow the bytes read are a prefix of the bytes
    written and every written byte is in exactly one place. -/
theorem harness_history_bytes {oa ob : Opts} {ra rb : List Nat} (c : Cfg oa ob ra rb) (l : List (Pair.Side × Stim)) (q : PS)
    (h : stimRun (Pair.init oa ob ra rb) l = some q) {x i j : Nat} (e : Established q x i j) :
    ∃ oB, q.b.objs[j]? = some oB ∧
      q.gb.rlog j ++ oB.buf ++ oB.rxq.flatten ++ (pushesOf x (pathAB q)).flatten = q.ga.wlog i ∧
      q.gb.rlog j <+: q.ga.wlog i :=
  established_bytes (stim_history_inv c l q h) e

open Penguin.Mux Penguin.Pair in
/-- … and after a `batch` stimulus (several application calls of one endpoint back to back before its
    task runs — `Mux.applyBatch`, what the driver executes), applied to any reachable state of the
    pair: it is a run of the fine-grained actions, so the invariant, and with it every `pair_*`
    theorem, holds afterwards. -/
theorem harness_batch_is_a_run {oa ob : Opts} {ra rb : List Nat} (c : Cfg oa ob ra rb) (as : List (Pair.Side × Pair.Act))
    (q : PS) (ops : List Mux.Op) (acts : List Pair.Act) (hacts : ops.map actOf = acts.map some)
    (hen : runL (Pair.run (Pair.init oa ob ra rb) as) acts = some q)
    (hidle : Idle q.a) (hsr : q.a.sinkRoom = none) (hr : (settle q.a).1.rng ≠ []) :
    let p := Pair.run (Pair.init oa ob ra rb) as
    Pair.Inv { q with a := (applyBatch p.a ops).1, ab := p.ab ++ wiresOf (applyBatch p.a ops).2.2 } :=
  batch_inv _ q (reach_inv c as) ops acts hacts hen hidle hsr hr

/-! Non-vacuity of the pair theorems: a concrete run (windows 2, threshold 1) that opens a stream,
    writes three bytes, reads them in two reads, shuts down and reads end-of-stream. -/
private def pcfg : Mux.Opts := { rwnd := 2, threshold := 1 }
private def pacts : List (Pair.Side × Pair.Act) :=
  [(.A, .open 1 [104] 80), (.A, .xmit), (.B, .recv), (.B, .xmit), (.A, .recv), (.A, .runDone), (.B, .accept),
   (.A, .write 0 [1, 2, 3]), (.A, .xmit), (.B, .recv), (.B, .read 0 2), (.B, .read 0 9), (.B, .xmit), (.A, .recv),
   (.A, .shutdown 0), (.A, .xmit), (.B, .recv), (.B, .read 0 9)]
example : Pair.Cfg pcfg pcfg [7, 8] [9, 10] := ⟨by decide, by decide, by decide, by decide⟩
example : Pair.Established (Pair.run (Pair.init pcfg pcfg [7, 8] [9, 10]) pacts) 7 0 0 :=
  ⟨by decide, by decide, by decide, by decide, by decide⟩
example : (Pair.run (Pair.init pcfg pcfg [7, 8] [9, 10]) pacts).gb.rlog 0 = [1, 2, 3] := by decide

/-! ### … and over BYTE wires (`Penguin.PairBytes`): what really travels -/

open Penguin.Mux Penguin.Pair Penguin.PairBytes in
/-- `pair_bytes_conserved` for two endpoint models joined by wires that carry the ENCODED bytes of
    each frame, the receiver decoding before `process_frame`: on every flow established on both
    endpoints, in every reachable state, what `b`'s application has read, what its handle buffers,
    what its queue holds, the `Push` payloads found by decoding the Binary messages in transit and
    those still queued at `a` add up, in order, to exactly what `a`'s application wrote.
    (`c`: sane windows, distinct non-zero ids; `w`, `has`: the ranges the Rust types enforce — see
    `C09.byte_pair_refines_frame_pair`, through which the frame-level theorem is transported.) -/
theorem pair_bytes_conserved_over_byte_wires {oa ob : Opts} {ra rb : List Nat} (c : Cfg oa ob ra rb)
    (w : WireCfg oa ob ra rb) (as : List (Pair.Side × Pair.Act)) (has : ∀ sa ∈ as, sa.2.inRange)
    {x i j : Nat} (e : Established (runb (initb oa ob ra rb) as).view x i j) :
    let pb := runb (initb oa ob ra rb) as
    ∃ oB, pb.b.objs[j]? = some oB ∧
      pb.gb.rlog j ++ oB.buf ++ oB.rxq.flatten ++ (pushesOf x (decWire pb.ab ++ pb.a.outq)).flatten = pb.ga.wlog i ∧
      pb.gb.rlog j <+: pb.ga.wlog i := by
  intro pb
  have he : pb = enc (Pair.run (Pair.init oa ob ra rb) as) := reach_enc w as has
  have hv : pb.view = Pair.run (Pair.init oa ob ra rb) as := by rw [he]; exact view_enc _ (reach_wf w as has)
  have e' : Established (Pair.run (Pair.init oa ob ra rb) as) x i j := by rw [← hv]; exact e
  have h := pair_bytes_conserved c as e'
  simp only at h
  rw [← hv] at h
  exact h

/-! Non-vacuity over byte wires: the run above, the flow established, the `Push` in transit as bytes. -/
private def pactsW : List (Pair.Side × Pair.Act) :=
  [(.A, .open 1 [104] 80), (.A, .xmit), (.B, .recv), (.B, .xmit), (.A, .recv), (.A, .runDone), (.B, .accept),
   (.A, .write 0 [1, 2, 3]), (.A, .xmit)]
example : PairBytes.WireCfg pcfg pcfg [7, 8] [9, 10] := ⟨by decide, by decide, by decide⟩
example : ∀ sa ∈ pactsW, sa.2.inRange := by decide
example : Pair.Established (PairBytes.runb (PairBytes.initb pcfg pcfg [7, 8] [9, 10]) pactsW).view 7 0 0 :=
  ⟨by decide, by decide, by decide, by decide, by decide⟩
example : (PairBytes.runb (PairBytes.initb pcfg pcfg [7, 8] [9, 10]) pactsW).ab = [.bin [0x74, 0, 0, 0, 7, 1, 2, 3]] := by decide
example : (PairBytes.runb (PairBytes.initb pcfg pcfg [7, 8] [9, 10]) pactsW).ga.wlog 0 = [1, 2, 3] := by decide

/-! Non-vacuity -/
example : (run (init 2 2) [.write [1, 2, 3], .deliver, .read 2, .write [4], .deliver, .read 9, .read 9]).delivered
    = [1, 2, 3, 4] := by decide
example : (run (init 1 1) [.write [7], .shutdown, .deliver, .deliver, .read 4, .read 4]).eofSeen = true := by decide

end Penguin.C02
