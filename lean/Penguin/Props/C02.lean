/-
C02 — Logical streams deliver bytes intact, in order, exactly once, without cross-talk.
Over the link model (every action sequence, every window and threshold) for the byte-level
statements; over the endpoint model (every state, every frame) for "no cross-talk".
-/
import Penguin.Model.Link
import Penguin.Model.Mux
import Penguin.Model.Frame
import Penguin.Lemmas.Link
import Penguin.Lemmas.MuxStep

namespace Penguin.C02
open Penguin Penguin.Link

/-- Every byte accepted by a successful write is, at every moment, in exactly one place and in
    order: already read, in the reader's buffer, in its queue, or in flight. -/
theorem bytes_conserved (W th : Nat) (hW : 0 < W) (hth : th ≤ W) (as : List Act) :
    let s := run (init W th) as
    s.delivered ++ s.buf ++ s.rxq.flatten ++ (pushes s.wire).flatten = s.accepted :=
  (run_inv _ as (init_inv W th hW hth)).hdata

/-- The bytes obtained by the reading end are at every moment a prefix of the bytes accepted by
    successful writes on the other end, in the same order. -/
theorem delivered_is_prefix (W th : Nat) (hW : 0 < W) (hth : th ≤ W) (as : List Act) :
    (run (init W th) as).delivered <+: (run (init W th) as).accepted := by
  have h := bytes_conserved W th hW hth as
  simp only at h
  rw [← h, List.append_assoc, List.append_assoc]
  exact List.prefix_append _ _

/-- When the writer has shut down (or aborted) and the reader has read to end-of-stream, the two
    byte sequences are equal. -/
theorem equal_at_eof (W th : Nat) (hW : 0 < W) (hth : th ≤ W) (as : List Act)
    (he : (run (init W th) as).eofSeen = true) :
    (run (init W th) as).delivered = (run (init W th) as).accepted := by
  have h := run_inv _ as (init_inv W th hW hth)
  obtain ⟨h1, h2, h3⟩ := h.heof he
  have hw := h.hdeadwire h1
  have := h.hdata
  rw [h2, h3, hw] at this
  simpa using this

/-- A vectored write is the write of the concatenation: one `Push` whose payload is the pieces back
    to back (the encoder's `encodePushVectored`; the endpoint model writes `pieces.flatten`). -/
theorem vectored_is_concat (id : Nat) (pieces : List Bytes) :
    encodePushVectored id pieces = encode (.push id pieces.flatten) := rfl

/-- Exactly once: a byte leaves the reader's queue only by being returned by a read — the number of
    bytes delivered never exceeds the number accepted. -/
theorem never_duplicated (W th : Nat) (hW : 0 < W) (hth : th ≤ W) (as : List Act) :
    (run (init W th) as).delivered.length ≤ (run (init W th) as).accepted.length :=
  (delivered_is_prefix W th hW hth as).length_le

open Penguin.Mux in
/-- No cross-talk: a `Push` addressed to flow `fid` never changes the stream object of any other
    flow, whatever the state of the endpoint and whatever the frame carries. -/
theorem no_crosstalk (e : EP) (fid : Nat) (d : Bytes) (ig : Bool) (j : Nat) (hj : j < e.objs.length)
    (hne : lookup e.flows fid ≠ some (.established j)) :
    (processFrame e (.push fid d) ig).1.objs[j]? = e.objs[j]? :=
  Mux.processFrame_other_obj e (.push fid d) ig j hj (by
    intro f hf
    simp only [Msg.flow?, Frame.id, Option.some.injEq] at hf
    subst hf; exact hne)

/-! Non-vacuity -/
example : (run (init 2 2) [.write [1, 2, 3], .deliver, .read 2, .write [4], .deliver, .read 9, .read 9]).delivered
    = [1, 2, 3, 4] := by decide
example : (run (init 1 1) [.write [7], .shutdown, .deliver, .deliver, .read 4, .read 4]).eofSeen = true := by decide

end Penguin.C02
