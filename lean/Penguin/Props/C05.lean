/-
C05 — End-of-stream is reported exactly when the peer finished, after all its data.
-/
import Penguin.Model.Link
import Penguin.Model.Mux
import Penguin.Lemmas.Link
import Penguin.Lemmas.LinkGlue
import Penguin.Lemmas.PairCor

namespace Penguin.C05
open Penguin Penguin.Link

/-- A read returns end-of-stream only after the peer shut down or aborted the stream, and only
    after every byte the peer wrote before that point has been returned. -/
theorem eof_sound (W th : Nat) (hW : 0 < W) (hth : th ≤ W) (as : List Act)
    (he : (run (init W th) as).eofSeen = true) :
    (run (init W th) as).sFin = true ∧ (run (init W th) as).delivered = (run (init W th) as).accepted := by
  have h := run_inv _ as (init_inv W th hW hth)
  obtain ⟨h1, h2, h3⟩ := h.heof he
  refine ⟨?_, ?_⟩
  · cases hs : (run (init W th) as).sFin with
    | true => rfl
    | false => have := (h.hopen hs).2; simp [h1] at this
  · have hw := h.hdeadwire h1
    have := h.hdata
    rw [h2, h3, hw] at this
    simpa using this

/-- While the peer has not finished, a read never reports end-of-stream: it returns data or is
    pending. -/
theorem no_eof_while_peer_writes (W th : Nat) (hW : 0 < W) (hth : th ≤ W) (as : List Act) (n : Nat)
    (hs : (run (init W th) as).sFin = false) :
    (step (run (init W th) as) (.read n)).2 ≠ .eof := by
  have h := run_inv _ as (init_inv W th hW hth)
  have hal := (h.hopen hs).2
  exact Link.read_no_eof _ n h hal

/-- A zero-length write is never seen by the peer at all: no frame, no credit, no state change —
    in particular not as end-of-stream. -/
theorem zero_write_invisible (s : St) :
    step s (.write []) = (s, if s.sFin then .brokenPipe else .wrote 0) := by
  simp only [step]; split <;> simp_all

/-- After a local shutdown (or abort, or close) further writes fail with BrokenPipe and nothing is
    transmitted. -/
theorem write_after_shutdown_fails (s : St) (d : Bytes) (h : s.sFin = true) :
    step s (.write d) = (s, .brokenPipe) := by
  simp [step, h]

theorem shutdown_then_write (s : St) (d : Bytes) : (step (step s .shutdown).1 (.write d)).2 = .brokenPipe := by
  have : (step s .shutdown).1.sFin = true := by
    simp only [step]; split <;> simp_all
  rw [write_after_shutdown_fails _ d this]

/-- Once the peer has finished and everything it sent was read, the next read reports
    end-of-stream (it does not stay pending). -/
theorem eof_after_all_data (s : St) (n : Nat) (h1 : s.rAlive = false) (h2 : s.rxq = []) (h3 : s.buf = []) :
    (step s (.read n)).2 = .eof := by
  simp [step, fill, h1, h2, h3]

open Penguin.Mux in
/-- Half-close at the endpoint: shutting down the write direction of a stream touches only the
    `finishSent` flag of that stream object (and the harness's note that a write call is pending) and
    queues one `Finish`, once; its receive queue, buffer and the slot (hence the opposite direction)
    are unchanged. -/
theorem half_close (e : EP) (h i : Nat) (o : Obj)
    (hh : e.handles[h]? = some i) (ho : e.objs[i]? = some o) (hoc : e.outClosed = false) :
    (o.finishSent = true →
        (appShutdown e h).2 = .unit ∧ (appShutdown e h).1.objs[i]? = some { o with parked := false } ∧
        (appShutdown e h).1.outq = e.outq) ∧
    (o.finishSent = false →
        (appShutdown e h).1.objs[i]? = some { o with finishSent := true, parked := false } ∧
        (appShutdown e h).1.outq = e.outq ++ [.frame (.finish o.fid)]) :=
  Mux.appShutdown_glue e h i o hh ho hoc

open Penguin.Mux in
/-- … and receiving the peer's `Finish` only ends the read direction: the object's write side
    (credit, `finishSent`) and the slot are untouched. -/
theorem peer_finish_keeps_write_side (e : EP) (fid i : Nat) (o : Obj) (ig : Bool)
    (hs : lookup e.flows fid = some (.established i)) (ho : e.objs[i]? = some o) :
    (processFrame e (.finish fid) ig).1.objs[i]? = some { o with senderAlive := false } ∧
    (processFrame e (.finish fid) ig).1.outq = e.outq ∧
    (processFrame e (.finish fid) ig).1.flows = e.flows :=
  Mux.processFrame_finish_glue e fid i o ig hs ho


/-! ### The same for two whole endpoint models joined by FIFO wires (`Penguin.Pair`) -/

open Penguin.Mux Penguin.Pair in
/-- On every flow established on both endpoints, in every reachable state of the pair: if a read on
    `b`'s stream has returned end-of-stream, then `a` had shut its direction down and `b` has read
    exactly the bytes `a` wrote — never earlier, never fewer. -/
theorem pair_eof_sound {oa ob : Opts} {ra rb : List Nat} (c : Cfg oa ob ra rb) (as : List (Pair.Side × Pair.Act))
    {x i j : Nat} (e : Established (Pair.run (Pair.init oa ob ra rb) as) x i j)
    (he : (Pair.run (Pair.init oa ob ra rb) as).gb.eof j = true) :
    let p := Pair.run (Pair.init oa ob ra rb) as
    ∃ oA, p.a.objs[i]? = some oA ∧ oA.finishSent = true ∧ p.gb.rlog j = p.ga.wlog i :=
  established_eof (reach_inv c as) e he

open Penguin.Mux Penguin.Pair in
/-- … and in the direction `b → a`. -/
theorem pair_eof_sound_rev {oa ob : Opts} {ra rb : List Nat} (c : Cfg oa ob ra rb) (as : List (Pair.Side × Pair.Act))
    {x i j : Nat} (e : Established (Pair.run (Pair.init oa ob ra rb) as) x i j)
    (he : (Pair.run (Pair.init oa ob ra rb) as).ga.eof i = true) :
    let p := Pair.run (Pair.init oa ob ra rb) as
    ∃ oB, p.b.objs[j]? = some oB ∧ oB.finishSent = true ∧ p.ga.rlog i = p.gb.wlog j :=
  established_eof (reach_inv c as).swap e.swap he

/-! Non-vacuity of the pair theorems: a concrete run (windows 2, threshold 1) that opens a stream,
    writes three bytes, reads them in two reads, shuts down and reads end-of-stream. -/
private def pcfg : Mux.Opts := { rwnd := 2, threshold := 1 }
private def pacts : List (Pair.Side × Pair.Act) :=
  [(.A, .open 1 [104] 80), (.A, .xmit), (.B, .recv), (.B, .xmit), (.A, .recv), (.A, .runDone), (.B, .accept),
   (.A, .write 0 [1, 2, 3]), (.A, .xmit), (.B, .recv), (.B, .read 0 2), (.B, .read 0 9), (.B, .xmit), (.A, .recv),
   (.A, .shutdown 0), (.A, .xmit), (.B, .recv), (.B, .read 0 9)]
example : Pair.Cfg pcfg pcfg [7, 8] [9, 10] := ⟨by decide, by decide, by decide, by decide⟩
example : Pair.Established (Pair.run (Pair.init pcfg pcfg [7, 8] [9, 10]) pacts) 7 0 0 :=
  ⟨by decide, by decide, by decide, by decide, by decide⟩
example : (Pair.run (Pair.init pcfg pcfg [7, 8] [9, 10]) pacts).gb.eof 0 = true := by decide

/-! Non-vacuity -/
example : (step (run (init 2 1) [.write [1], .write [], .deliver]) (.read 4)).2 = .data [1] := by decide
example : (step (run (init 2 1) [.write [1], .write [], .deliver, .read 4]) (.read 4)).2 = .pending := by decide

end Penguin.C05
