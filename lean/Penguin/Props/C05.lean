/-
C05 — End-of-stream is reported exactly when the peer finished, after all its data.
-/
import Penguin.Model.Link
import Penguin.Model.Mux
import Penguin.Lemmas.Link
import Penguin.Lemmas.LinkGlue
import Penguin.Lemmas.PairCor
import Penguin.Lemmas.MuxEof
import Penguin.Lemmas.MuxEofRead
import Penguin.Lemmas.MuxEofConn
import Penguin.Lemmas.PairAllRun

namespace Penguin.C05
open Penguin Penguin.Link

/-- A read returns end-of-stream only after the peer shut down or aborted the stream, and only
    after every byte the peer wrote before that point has been returned. -/
theorem eof_sound (W th : Nat) (hW : 0 < W) (hth : th ≤ W) (as : List Act)
    (he : (run (init W th) as).eofSeen = true) :
    (run (init W th) as).sFin = true ∧ (run (init W th) as).delivered = (run (init W th) as).accepted := by
  have h := run_inv _ as (init_inv W th hW hth)
  obtain ⟨h1, h2, h3⟩ := h.heof he
  refine ⟨?_, ?_⟩
  · cases hs : (run (init W th) as).sFin with
    | true => rfl
    | false => have := (h.hopen hs).2; simp [h1] at this
  · have hw := h.hdeadwire h1
    have := h.hdata
    rw [h2, h3, hw] at this
    simpa using this

/-- While the peer has not finished, a read never reports end-of-stream: it returns data or is
    pending. -/
theorem no_eof_while_peer_writes (W th : Nat) (hW : 0 < W) (hth : th ≤ W) (as : List Act) (n : Nat)
    (hs : (run (init W th) as).sFin = false) :
    (step (run (init W th) as) (.read n)).2 ≠ .eof := by
  have h := run_inv _ as (init_inv W th hW hth)
  have hal := (h.hopen hs).2
  exact Link.read_no_eof _ n h hal

/-- A zero-length write is never seen by the peer at all: no frame, no credit, no state change —
    in particular not as end-of-stream. -/
theorem zero_write_invisible (s : St) :
    step s (.write []) = (s, if s.sFin then .brokenPipe else .wrote 0) := by
  simp only [step]; split <;> simp_all

/-- After a local shutdown (or abort, or close) further writes fail with BrokenPipe and nothing is
    transmitted. -/
theorem write_after_shutdown_fails (s : St) (d : Bytes) (h : s.sFin = true) :
    step s (.write d) = (s, .brokenPipe) := by
  simp [step, h]

theorem shutdown_then_write (s : St) (d : Bytes) : (step (step s .shutdown).1 (.write d)).2 = .brokenPipe := by
  have : (step s .shutdown).1.sFin = true := by
    simp only [step]; split <;> simp_all
  rw [write_after_shutdown_fails _ d this]

/-- Once the peer has finished and everything it sent was read, the next read reports
    end-of-stream (it does not stay pending). -/
theorem eof_after_all_data (s : St) (n : Nat) (h1 : s.rAlive = false) (h2 : s.rxq = []) (h3 : s.buf = []) :
    (step s (.read n)).2 = .eof := by
  simp [step, fill, h1, h2, h3]

open Penguin.Mux in
/-- Half-close at the endpoint: shutting down the write direction of a stream touches only the
    `finishSent` flag of that stream object (and the harness's note that a write call is pending) and
    queues one `Finish`, once; its receive queue, buffer and the slot (hence the opposite direction)
    are unchanged. -/
theorem half_close (e : EP) (h i : Nat) (o : Obj)
    (hh : e.handles[h]? = some i) (ho : e.objs[i]? = some o) (hoc : e.outClosed = false) :
    (o.finishSent = true →
        (appShutdown e h).2 = .unit ∧ (appShutdown e h).1.objs[i]? = some { o with parked := false } ∧
        (appShutdown e h).1.outq = e.outq) ∧
    (o.finishSent = false →
        (appShutdown e h).1.objs[i]? = some { o with finishSent := true, parked := false } ∧
        (appShutdown e h).1.outq = e.outq ++ [.frame (.finish o.fid)]) :=
  Mux.appShutdown_glue e h i o hh ho hoc

open Penguin.Mux in
/-- … and receiving the peer's `Finish` only ends the read direction: the object's write side
    (credit, `finishSent`) and the slot are untouched. -/
theorem peer_finish_keeps_write_side (e : EP) (fid i : Nat) (o : Obj) (ig : Bool)
    (hs : lookup e.flows fid = some (.established i)) (ho : e.objs[i]? = some o) :
    (processFrame e (.finish fid) ig).1.objs[i]? = some { o with senderAlive := false } ∧
    (processFrame e (.finish fid) ig).1.outq = e.outq ∧
    (processFrame e (.finish fid) ig).1.flows = e.flows :=
  Mux.processFrame_finish_glue e fid i o ig hs ho


/-! ### The same for two whole endpoint models joined by FIFO wires (`Penguin.Pair`) -/

open Penguin.Mux Penguin.Pair in
/-- On every flow established on both endpoints, in every reachable state of the pair: if a read on
    `b`'s stream has returned end-of-stream, then `a` had shut its direction down and `b` has read
    exactly the bytes `a` wrote — never earlier, never fewer. -/
theorem pair_eof_sound {oa ob : Opts} {ra rb : List Nat} (c : Cfg oa ob ra rb) (as : List (Pair.Side × Pair.Act))
    {x i j : Nat} (e : Established (Pair.run (Pair.init oa ob ra rb) as) x i j)
    (he : (Pair.run (Pair.init oa ob ra rb) as).gb.eof j = true) :
    let p := Pair.run (Pair.init oa ob ra rb) as
    ∃ oA, p.a.objs[i]? = some oA ∧ oA.finishSent = true ∧ p.gb.rlog j = p.ga.wlog i :=
  established_eof (reach_inv c as) e he

open Penguin.Mux Penguin.Pair in
/-- … and in the direction `b → a`. -/
theorem pair_eof_sound_rev {oa ob : Opts} {ra rb : List Nat} (c : Cfg oa ob ra rb) (as : List (Pair.Side × Pair.Act))
    {x i j : Nat} (e : Established (Pair.run (Pair.init oa ob ra rb) as) x i j)
    (he : (Pair.run (Pair.init oa ob ra rb) as).ga.eof i = true) :
    let p := Pair.run (Pair.init oa ob ra rb) as
    ∃ oB, p.b.objs[j]? = some oB ∧ oB.finishSent = true ∧ p.ga.rlog i = p.gb.wlog j :=
  established_eof (reach_inv c as).swap e.swap he

/-! Non-vacuity of the pair theorems: a concrete run (windows 2, threshold 1) that opens a stream,
    writes three bytes, reads them in two reads, shuts down and reads end-of-stream. -/
private def pcfg : Mux.Opts := { rwnd := 2, threshold := 1 }
private def pacts : List (Pair.Side × Pair.Act) :=
  [(.A, .open 1 [104] 80), (.A, .xmit), (.B, .recv), (.B, .xmit), (.A, .recv), (.A, .runDone), (.B, .accept),
   (.A, .write 0 [1, 2, 3]), (.A, .xmit), (.B, .recv), (.B, .read 0 2), (.B, .read 0 9), (.B, .xmit), (.A, .recv),
   (.A, .shutdown 0), (.A, .xmit), (.B, .recv), (.B, .read 0 9)]
example : Pair.Cfg pcfg pcfg [7, 8] [9, 10] := ⟨by decide, by decide, by decide, by decide⟩
example : Pair.Established (Pair.run (Pair.init pcfg pcfg [7, 8] [9, 10]) pacts) 7 0 0 :=
  ⟨by decide, by decide, by decide, by decide, by decide⟩
example : (Pair.run (Pair.init pcfg pcfg [7, 8] [9, 10]) pacts).gb.eof 0 = true := by decide

/-! Non-vacuity -/
example : (step (run (init 2 1) [.write [1], .write [], .deliver]) (.read 4)).2 = .data [1] := by decide
example : (step (run (init 2 1) [.write [1], .write [], .deliver, .read 4]) (.read 4)).2 = .pending := by decide


/-! ### One whole endpoint, every history, ANY peer (`Lemmas/MuxEof`, `Lemmas/MuxEofRead`)

`runOps { opts := o } ops` is the endpoint after an arbitrary history `ops` of application calls,
deliveries of arbitrary messages (the peer is unconstrained) and transport faults.
`endsOf { opts := o } ops` is the ghost computed from that history: the list of all events "the
receiving half of stream object `i` was closed for cause `c`", recorded at exactly five places of the
model — a `Finish` / a `Reset` processed while object `i` holds the frame's slot, a `Push` that finds
the window of the object holding its slot full, a dropped-handle notification for the held slot, and
the drain of the flow table that ends the wind-down of the task (`Mux.EndCause`).  `endCause D i` is
the first cause recorded for object `i`. -/

section Endpoint
open Penguin.Mux

/-- (1) A read through handle `h` returns end-of-stream only if the handle's stream object has lost
    its channel sender, and that happens only for a recorded cause: the peer's `Finish` or `Reset` for
    the flow id while this object held the slot, the peer overrunning this object's window, the
    application dropping the stream, or the end of the connection (the task wound down).  For every
    history, with any peer. -/
theorem eof_only_after_end_of_that_stream (o : Opts) (ops : List Mux.Op) (h n : Nat)
    (he : (appRead (runOps { opts := o } ops) h n).2 = .eof) :
    ∃ i ob c, (runOps { opts := o } ops).handles[h]? = some i ∧
      (runOps { opts := o } ops).objs[i]? = some ob ∧ ob.senderAlive = false ∧
      endCause (endsOf { opts := o } ops) i = some c := by
  obtain ⟨i, ob, hh, ho⟩ := appRead_eof_handle he
  rw [appRead_res _ h i n ob hh ho, readOut_eof] at he
  have hs := ((readRes_eof_iff ob).mp he).1
  obtain ⟨c, hc⟩ := reachable_gone_has_cause o ops i ob ho hs
  exact ⟨i, ob, c, hh, ho, hs, hc⟩

/-- … the recorded causes are real: an event `(i, c)` of the history means that object `i` exists,
    its sender is gone for good, and — unless the cause is the peer's orderly `Finish` — its write
    side is shut too. -/
theorem recorded_end_is_real (o : Opts) (ops : List Mux.Op) (i : Nat) (c : EndCause)
    (hc : endCause (endsOf { opts := o } ops) i = some c) :
    ∃ ob, (runOps { opts := o } ops).objs[i]? = some ob ∧ ob.senderAlive = false ∧
      (c.isFinish = false → ob.finishSent = true) :=
  reachable_cause_is_real _ ops i c (endCause_mem hc)

/-- … the cause "the connection ended" is recorded only when the task finishes its wind-down (after
    the transport's Close / end / error, an invalid frame, a keepalive timeout or the drop of the
    `Multiplexor`): whenever a history records it, the task is finished. -/
theorem conn_ended_only_when_task_finished (o : Opts) (ops : List Mux.Op) (i : Nat) (r : ExitRes)
    (hc : (i, EndCause.connEnded r) ∈ endsOf { opts := o } ops) : (runOps { opts := o } ops).dead = true :=
  (CE.runOps { opts := o } ops).conn i r hc

/-- … a frame closes a receiving half only if it is a `Finish`, a `Reset` or an overrunning `Push`,
    and then only that of the object which holds the frame's own flow id at that moment — never
    another flow's. -/
theorem only_these_frames_end_a_stream (e : EP) (f : Frame) (i : Nat) (c : EndCause)
    (hm : (i, c) ∈ processFrameEnds e f) :
    lookup e.flows f.id = some (.established i) ∧
    ((f = .finish f.id ∧ c = .peerFinish f.id) ∨ (f = .reset f.id ∧ c = .peerReset f.id) ∨
     (∃ d, f = .push f.id d ∧ overruns e f.id = true ∧ c = .overrun f.id)) := by
  have key : ∀ (fid : Nat) (c' : EndCause), (i, c) ∈ closeFlowEnds e fid c' →
      lookup e.flows fid = some (.established i) ∧ c = c' := by
    intro fid c' h
    unfold closeFlowEnds at h
    split at h
    · rename_i s hl
      unfold slotEnds at h
      split at h
      · split at h
        · simp only [List.mem_singleton, Prod.mk.injEq] at h
          obtain ⟨rfl, rfl⟩ := h
          exact ⟨hl, rfl⟩
        · cases h
      · cases h
    · cases h
  cases f with
  | finish fid => obtain ⟨h1, h2⟩ := key fid _ hm; exact ⟨h1, Or.inl ⟨rfl, h2⟩⟩
  | reset fid => obtain ⟨h1, h2⟩ := key fid _ hm; exact ⟨h1, Or.inr (Or.inl ⟨rfl, h2⟩)⟩
  | push fid d =>
    simp only [processFrameEnds] at hm
    split at hm
    · rename_i hov
      obtain ⟨h1, h2⟩ := key fid _ hm
      exact ⟨h1, Or.inr (Or.inr ⟨d, rfl, hov, h2⟩)⟩
    · cases hm
  | connect fid rwnd port host => cases hm
  | acknowledge fid k => cases hm
  | bind fid bt port host => cases hm
  | datagram fid port host d => cases hm

/-- … and every other frame — `Connect`, `Acknowledge`, `Bind`, `Datagram`, a `Push` (empty or not)
    that fits the window — records nothing and closes no receiving half: every object whose sender
    is gone afterwards had it gone before. -/
theorem other_frames_end_nothing (e : EP) (f : Frame) (ig : Bool)
    (h1 : ∀ fid, f ≠ .finish fid) (h2 : ∀ fid, f ≠ .reset fid)
    (h3 : ∀ fid d, f = .push fid d → overruns e fid = false) :
    processFrameEnds e f = [] ∧
    ∀ (i : Nat) (ob' : Obj), (processFrame e f ig).1.objs[i]? = some ob' → ob'.senderAlive = false →
      ∃ ob : Obj, e.objs[i]? = some ob ∧ ob.senderAlive = false := by
  have hn : processFrameEnds e f = [] := by
    cases f with
    | finish fid => exact absurd rfl (h1 fid)
    | reset fid => exact absurd rfl (h2 fid)
    | push fid d => simp [processFrameEnds, h3 fid d rfl]
    | connect fid rwnd port host => rfl
    | acknowledge fid k => rfl
    | bind fid bt port host => rfl
    | datagram fid port host d => rfl
  refine ⟨hn, ?_⟩
  intro i ob' ho hs
  have t := Tr.processFrame e f ig
  rw [hn] at t
  rcases t.expl i ob' ho hs with h | ⟨c, hc⟩
  · exact h
  · cases hc

/-- (2) A read returns end-of-stream only when no byte is queued for the reader: the handle's buffer
    is empty and the receive queue holds nothing but empty frames (which the read discards) … -/
theorem eof_only_after_all_queued_data (o : Opts) (ops : List Mux.Op) (h n : Nat)
    (he : (appRead (runOps { opts := o } ops) h n).2 = .eof) :
    ∃ i ob, (runOps { opts := o } ops).handles[h]? = some i ∧
      (runOps { opts := o } ops).objs[i]? = some ob ∧ ob.buf = [] ∧ ∀ f ∈ ob.rxq, f = [] := by
  obtain ⟨i, ob, hh, ho⟩ := appRead_eof_handle he
  rw [appRead_res _ h i n ob hh ho, readOut_eof] at he
  have hs := (readRes_eof_iff ob).mp he
  exact ⟨i, ob, hh, ho, hs.2.1, hs.2.2⟩

/-- … and as long as a byte is queued, a read returns bytes, whatever has happened to the stream
    or the connection in between (peer's `Finish`, `Reset`, the end of the connection). -/
theorem queued_data_comes_first (o : Opts) (ops : List Mux.Op) (h i n : Nat) (ob : Obj) (hn : 0 < n)
    (hh : (runOps { opts := o } ops).handles[h]? = some i) (ho : (runOps { opts := o } ops).objs[i]? = some ob)
    (hq : ob.buf ≠ [] ∨ ∃ f ∈ ob.rxq, f ≠ []) :
    ∃ b, b ≠ [] ∧ (appRead (runOps { opts := o } ops) h n).2 = .data b := by
  obtain ⟨b, hb, hr⟩ := readRes_data_of_queued ob hq
  refine ⟨b.take n, ?_, by rw [appRead_res _ h i n ob hh ho, hr]; rfl⟩
  cases b with
  | nil => exact absurd rfl hb
  | cons x xs => cases n with
    | zero => omega
    | succ k => simp

/-- (3) A zero-length write of the peer never ends a stream.  In every reachable state, processing
    `Push fid []` (unless it overruns the window, as any `Push` frame beyond the window would) records
    no end event, changes `senderAlive`, `rxOpen` and `finishSent` of no stream object, creates none,
    and every read afterwards returns exactly what it would have returned before. -/
theorem empty_push_never_ends_a_stream (o : Opts) (ops : List Mux.Op) (fid : Nat) (ig : Bool)
    (hno : overruns (runOps { opts := o } ops) fid = false) :
    let e := runOps { opts := o } ops
    let e' := (processFrame e (.push fid []) ig).1
    processFrameEnds e (.push fid []) = [] ∧
    (∀ j : Nat, (e'.objs[j]?).map (fun x => (x.senderAlive, x.rxOpen, x.finishSent)) =
                (e.objs[j]?).map (fun x => (x.senderAlive, x.rxOpen, x.finishSent))) ∧
    (∀ h n, (appRead e' h n).2 = (appRead e h n).2) := by
  intro e e'
  have hno' : overruns e fid = false := hno
  refine ⟨by simp [processFrameEnds, hno'], ?_, fun h n => push_empty_read e fid ig hno h n⟩
  intro j
  rcases push_keeps_halves e fid [] ig hno j with hsame | ⟨ob, ho, _, _, _, ho'⟩
  · show ((processFrame e (.push fid []) ig).1.objs[j]?).map _ = _
    rw [hsame]
  · show ((processFrame e (.push fid []) ig).1.objs[j]?).map _ = _
    rw [ho', ho]; rfl

/-- (4) Shutting down the write side leaves the read side fully usable.  In every reachable state,
    `appShutdown` leaves the handles and the receive side of every stream object (queue, buffer,
    sender flag, receiver flag, acknowledgement counters) exactly as they were, and what a read
    returns and does is a function of that receive side alone: any sequence of reads, on any
    handles, returns the same results after the shutdown as without it. -/
theorem local_shutdown_keeps_reading (o : Opts) (ops : List Mux.Op) (h : Nat) :
    let e := runOps { opts := o } ops
    RecvEq e (appShutdown e h).1 ∧ ∀ rs, readsRes (appShutdown e h).1 rs = readsRes e rs := by
  intro e
  exact ⟨appShutdown_recvEq e h, fun rs => (appShutdown_recvEq e h).readsRes rs⟩

/-- (5) Writes fail after the end.  In every reachable state, for a handle `h` of stream object `i`:
    once the object's write side is shut (`finishSent`), a write returns BrokenPipe and queues
    nothing; the write side IS shut whenever the history records an end of the stream other than
    the peer's orderly `Finish` (peer's `Reset`, overrun, dropped, connection ended), and whenever
    the task has finished — so a write never blocks (`pending`) once the task is dead. -/
theorem write_fails_after_end (o : Opts) (ops : List Mux.Op) (h i : Nat) (ob : Obj) (d : Bytes)
    (hh : (runOps { opts := o } ops).handles[h]? = some i) (ho : (runOps { opts := o } ops).objs[i]? = some ob) :
    let e := runOps { opts := o } ops
    (ob.finishSent = true → (appWrite e h d).2 = .brokenPipe ∧ (appWrite e h d).1.outq = e.outq) ∧
    ((∃ c, (i, c) ∈ endsOf { opts := o } ops ∧ c.isFinish = false) → ob.finishSent = true) ∧
    (e.dead = true → ob.finishSent = true) ∧
    (e.dead = true → (appWrite e h d).2 = .brokenPipe) := by
  intro e
  have hw : ob.finishSent = true → (appWrite e h d).2 = .brokenPipe ∧ (appWrite e h d).1.outq = e.outq := by
    intro hf
    have := (appWrite_glue e h i ob d hh ho).1 hf
    exact ⟨this.1, this.2.1⟩
  have hdead : e.dead = true → ob.finishSent = true := fun hd => (reachable_dead_all_closed o ops hd i ob ho).1
  refine ⟨hw, ?_, hdead, fun hd => (hw (hdead hd)).1⟩
  rintro ⟨c, hc, hnf⟩
  obtain ⟨ob', ho', _, hf⟩ := reachable_cause_is_real _ ops i c hc
  rw [ho] at ho'; cases ho'
  exact hf hnf

/-- … and after a local shutdown: whatever happens after `shutdown h` (any further history `ops2`,
    any peer), the handle still denotes the same stream and a write through it returns BrokenPipe
    and queues nothing. -/
theorem write_fails_after_local_shutdown (o : Opts) (ops1 ops2 : List Mux.Op) (h i : Nat) (ob : Obj) (d : Bytes)
    (hh : (runOps { opts := o } ops1).handles[h]? = some i) (ho : (runOps { opts := o } ops1).objs[i]? = some ob) :
    let e2 := runOps (applyOp (runOps { opts := o } ops1) (.shutdown h)).1 ops2
    e2.handles[h]? = some i ∧ (appWrite e2 h d).2 = .brokenPipe ∧ (appWrite e2 h d).1.outq = e2.outq := by
  intro e2
  obtain ⟨o1, ho1, hf1⟩ := appShutdown_sets _ h i ob hh ho
  have t0 := Tr.appShutdown (runOps { opts := o } ops1) h
  have t1 : Tr (appShutdown (runOps { opts := o } ops1) h).1 (applyOp (runOps { opts := o } ops1) (.shutdown h)).1 _ :=
    Tr.settle (appShutdown (runOps { opts := o } ops1) h).1
  have t := t1.trans (Tr.runOps (applyOp (runOps { opts := o } ops1) (.shutdown h)).1 ops2)
  have hh2 : e2.handles[h]? = some i := t.hnd h i (t0.hnd h i hh)
  have hlt : i < e2.objs.length := Nat.lt_of_lt_of_le (List.getElem?_eq_some_iff.mp ho1).1 t.len
  obtain ⟨o2, ho2⟩ : ∃ o2, e2.objs[i]? = some o2 := ⟨e2.objs[i], List.getElem?_eq_getElem hlt⟩
  have hf2 := (t.mono i o1 o2 ho1 ho2).2 hf1
  have := (appWrite_glue e2 h i o2 d hh2 ho2).1 hf2
  exact ⟨hh2, this.1, this.2.1⟩

/-! Non-vacuity: concrete histories of one endpoint (default options: window 4). -/

/-- The peer opens flow 7, the application accepts it; the peer sends an empty `Push`, three bytes,
    and `Finish`. -/
private def hA : List Mux.Op :=
  [.deliver (.msg (.frame (.connect 7 4 80 [104]))), .accept,
   .deliver (.msg (.frame (.push 7 []))), .deliver (.msg (.frame (.push 7 [1, 2, 3]))),
   .deliver (.msg (.frame (.finish 7)))]
-- the reader gets the data, then end-of-stream; the recorded cause is the peer's `Finish`
example : (appRead (runOps { opts := {} } hA) 0 9).2 = .data [1, 2, 3] := by decide
example : (appRead (runOps { opts := {} } (hA ++ [.read 0 9])) 0 9).2 = .eof := by decide
example : endsOf { opts := {} } (hA ++ [.read 0 9]) = [(0, .peerFinish 7)] := by decide
example : endCause (endsOf { opts := {} } (hA ++ [.read 0 9])) 0 = some (.peerFinish 7) := by decide
-- `queued_data_comes_first` applies before that read (the sender is already gone, a byte is queued)
example : ((runOps { opts := {} } hA).objs[0]?).map (fun x => (x.senderAlive, x.buf, x.rxq)) =
    some (false, [], [[], [1, 2, 3]]) := by decide
example : (runOps { opts := {} } hA).handles = [0] := by decide
-- the event is recorded when the `Finish` is processed, for the object holding slot 7
example : processFrameEnds (runOps { opts := {} } (hA.take 4)) (.finish 7) = [(0, .peerFinish 7)] := by decide
example : processFrameEnds (runOps { opts := {} } (hA.take 4)) (.finish 8) = [] := by decide
-- the empty `Push` alone: the window has room, and a read is pending, not end-of-stream
example : overruns (runOps { opts := {} } (hA.take 2)) 7 = false := by decide
example : (appRead (runOps { opts := {} } (hA.take 3)) 0 9).2 = .pending := by decide
example : endsOf { opts := {} } (hA.take 4) = [] := by decide
-- after the peer's `Finish` the write side is still usable (half-close)
example : (appWrite (runOps { opts := {} } hA) 0 [5]).2 = .wrote 1 := by decide

/-- The connection ends (the transport reports its end) while two bytes are queued. -/
private def hB : List Mux.Op :=
  [.deliver (.msg (.frame (.connect 7 4 80 [104]))), .accept,
   .deliver (.msg (.frame (.push 7 [1, 2]))), .deliver .eof]
example : (runOps { opts := {} } hB).dead = true := by decide
example : endsOf { opts := {} } hB = [(0, .connEnded .ok)] := by decide
example : (appRead (runOps { opts := {} } hB) 0 9).2 = .data [1, 2] := by decide
example : (appRead (runOps { opts := {} } (hB ++ [.read 0 9])) 0 9).2 = .eof := by decide
example : (appWrite (runOps { opts := {} } hB) 0 [5]).2 = .brokenPipe := by decide

/-- Local shutdown, then the peer keeps sending. -/
private def hC : List Mux.Op :=
  [.deliver (.msg (.frame (.connect 7 4 80 [104]))), .accept, .shutdown 0,
   .deliver (.msg (.frame (.push 7 [9])))]
example : (appRead (runOps { opts := {} } hC) 0 9).2 = .data [9] := by decide
example : (appWrite (runOps { opts := {} } hC) 0 [5]).2 = .brokenPipe := by decide
example : endsOf { opts := {} } hC = [] := by decide
example : readsRes (appShutdown (runOps { opts := {} } (hA.take 4)) 0).1 [(0, 2), (0, 9), (0, 9)] =
    [.data [1, 2], .data [3], .pending] := by decide

/-- The peer's `Reset`; an overrun (window 1, two frames); the application drops the stream. -/
private def hD : List Mux.Op :=
  [.deliver (.msg (.frame (.connect 7 4 80 [104]))), .accept, .deliver (.msg (.frame (.push 7 [1]))),
   .deliver (.msg (.frame (.reset 7)))]
example : endsOf { opts := {} } hD = [(0, .peerReset 7)] := by decide
example : (appWrite (runOps { opts := {} } hD) 0 [5]).2 = .brokenPipe := by decide
example : (appRead (runOps { opts := {} } hD) 0 9).2 = .data [1] := by decide
example : (appRead (runOps { opts := {} } (hD ++ [.read 0 9])) 0 9).2 = .eof := by decide
private def hE : List Mux.Op :=
  [.deliver (.msg (.frame (.connect 7 4 80 [104]))), .accept, .deliver (.msg (.frame (.push 7 [1]))),
   .deliver (.msg (.frame (.push 7 [])))]
example : overruns (runOps { opts := { rwnd := 1 } } (hE.take 3)) 7 = true := by decide
example : endsOf { opts := { rwnd := 1 } } hE = [(0, .overrun 7)] := by decide
example : (appWrite (runOps { opts := { rwnd := 1 } } hE) 0 [5]).2 = .brokenPipe := by decide
example : endsOf { opts := {} } [.deliver (.msg (.frame (.connect 7 4 80 [104]))), .accept, .dropStream 0] =
    [(0, .dropped 7)] := by decide
-- a `Finish` for another flow id, a `Datagram`, a `Bind`, an `Acknowledge` end nothing
example : endsOf { opts := {} } (hA.take 2 ++ [.deliver (.msg (.frame (.finish 8))),
    .deliver (.msg (.frame (.datagram 7 53 [104] [1]))), .deliver (.msg (.frame (.bind 7 .stream 80 [104]))),
    .deliver (.msg (.frame (.acknowledge 7 1)))]) = [] := by decide

end Endpoint

/-! ### Two endpoints, EVERY history: a clean end-of-stream is exact (`Model/PairAll.lean`)

`Penguin.PairAll` joins two endpoint models by FIFO wires at the stimulus level — every application call,
delivery, Close and transport fault at either side (see Props C02,
`pair_reads_are_prefix_of_peer_writes_every_history`).  `PairAll.opsB p l` is the list of endpoint stimuli
(`Mux.Op`) a run `l` applies to the right endpoint, so that the right endpoint after the run IS
`Mux.runOps` of that history and the end events of the run ARE the ghost `Mux.endsOf` of that history
(`pair_run_is_a_history`); `opsA` likewise for the left endpoint. -/

section PairAll
open Penguin.Mux Penguin.PairAll

/-- The endpoints of a run of the pair are the endpoint model after the histories `opsA` / `opsB` (the
    stimuli the run applied to each side, deliveries with the messages the wires actually carried). -/
theorem pair_run_is_a_history (p : PS) (l : List (PairAll.Side × Stim)) :
    (PairAll.run p l).a = runOps p.a (opsA p l) ∧ (PairAll.run p l).b = runOps p.b (opsB p l) :=
  ⟨(run_a_ops p l).1, (run_b_ops p l).1⟩

/-- C05, "a read returns end-of-stream … only after every byte the peer wrote before that point has been
    returned", at full strength for the orderly end.  In every reachable state of the pair (every history,
    faults included, under `PairAll.Cfg`), for every flow id `x` and BOTH directions: if the next read through
    a handle `h` of stream object `j` (carrying `x`; its receiver still open: the handle is alive and has
    not consumed the end yet) returns end-of-stream, and the end cause recorded for `j` is `peerFinish x` — the
    peer's `Finish` was processed for that object while it held the slot of `x` — then what the application
    has read from `j` is EXACTLY what the peer's application successfully wrote on `x`: not merely a prefix,
    nothing is missing, and nothing more will ever be written on `x`. -/
theorem pair_clean_eof_is_exact_every_history {ra rb : List Nat} (c : Cfg ra rb) (oa ob : Opts)
    (l : List (PairAll.Side × Stim)) (x : Nat) :
    let p0 := PairAll.init oa ob ra rb
    let p := PairAll.run p0 l
    (∀ (j h n : Nat) (o : Obj), p.b.handles[h]? = some j → p.b.objs[j]? = some o → o.fid = x → o.rxOpen = true →
      (appRead p.b h n).2 = .eof → endCause (endsOf p0.b (opsB p0 l)) j = some (.peerFinish x) →
      chunks p.gb.returned j = wroteOn x p.ga.wrote) ∧
    (∀ (i h n : Nat) (o : Obj), p.a.handles[h]? = some i → p.a.objs[i]? = some o → o.fid = x → o.rxOpen = true →
      (appRead p.a h n).2 = .eof → endCause (endsOf p0.a (opsA p0 l)) i = some (.peerFinish x) →
      chunks p.ga.returned i = wroteOn x p.gb.wrote) := by
  refine ⟨fun j h n o hh hj hx hro he hc => ?_, fun i h n o hh hi hx hro he hc => ?_⟩
  · exact clean_eof_exact c oa ob l x j h n o hh hj hx hro he
      (by rw [(run_b_ops _ l).2]; exact endCause_mem hc)
  · exact clean_eof_exact_rev c oa ob l x i h n o hh hi hx hro he
      (by rw [(run_a_ops _ l).2]; exact endCause_mem hc)

/-- The weaker sibling that needs no read: if the end cause recorded for stream object `j` (carrying `x`,
    receiver still open) is `peerFinish x`, the peer's application has shut its stream down: the peer has a
    stream object carrying `x`, and every such object has its write side closed (`finishSent`: set by
    `shutdown`, or by dropping / aborting the stream) — the `Finish` was not invented, and (with
    `write_fails_after_local_shutdown`) no later write on `x` succeeds.  Also: the frames accepted into `j`
    are exactly the payloads the peer's writes put on `x`. -/
theorem pair_eof_after_peer_finish_means_peer_shut_down {ra rb : List Nat} (c : Cfg ra rb) (oa ob : Opts)
    (l : List (PairAll.Side × Stim)) (x j : Nat) (o : Obj) :
    let p0 := PairAll.init oa ob ra rb
    let p := PairAll.run p0 l
    p.b.objs[j]? = some o → o.fid = x → o.rxOpen = true →
    endCause (endsOf p0.b (opsB p0 l)) j = some (.peerFinish x) →
    (∃ (i : Nat) (oA : Obj), p.a.objs[i]? = some oA ∧ oA.fid = x) ∧
    (∀ (i : Nat) (oA : Obj), p.a.objs[i]? = some oA → oA.fid = x → oA.finishSent = true) ∧
    (Log.dataOf p.gb.accepted j).flatten = wroteOn x p.ga.wrote := by
  intro p0 p hj hx hro hc
  obtain ⟨h1, h2, h3⟩ := finish_processed c oa ob l x j o hj hx hro
    (by rw [(run_b_ops _ l).2]; exact endCause_mem hc)
  exact ⟨h2, h3, by rw [h1, wroteX_flatten]⟩

/-! Non-vacuity (windows 2, threshold 1; scripts `[7, 8]`, `[9, 10]`; `a` opens flow 7, `b` accepts it). -/
private def ecfg : Mux.Opts := { rwnd := 2, threshold := 1 }
example : PairAll.Cfg [7, 8] [9, 10] := ⟨by decide, by decide, by decide⟩
private def eopen : List (PairAll.Side × Stim) :=
  [(.A, .call (.open 1 [104] 80)), (.B, .deliver), (.B, .call .accept), (.A, .deliver)]

/-- Two writes, shutdown, all delivered, read to the end: the hypotheses of
    `pair_clean_eof_is_exact_every_history` hold (next read: end-of-stream; receiver open; cause `peerFinish 7`)
    and what was read is what was written. -/
private def eClean : List (PairAll.Side × Stim) :=
  eopen ++ [(.A, .call (.write 0 [1, 2])), (.A, .call (.write 0 [3])), (.A, .call (.shutdown 0)),
            (.B, .deliver), (.B, .deliver), (.B, .deliver), (.B, .call (.read 0 9)), (.B, .call (.read 0 9))]
example : let p0 := PairAll.init ecfg ecfg [7, 8] [9, 10]
    let p := PairAll.run p0 eClean
    (p.b.handles[0]? = some 0 ∧ p.b.objs.map (fun o => (o.fid, o.rxOpen)) = [(7, true)] ∧
     (appRead p.b 0 9).2 = .eof ∧ endCause (endsOf p0.b (opsB p0 eClean)) 0 = some (.peerFinish 7) ∧
     chunks p.gb.returned 0 = [1, 2, 3] ∧ wroteOn 7 p.ga.wrote = [1, 2, 3] ∧
     p.a.objs.map (fun o => (o.fid, o.finishSent)) = [(7, true)]) := by decide

/-- The wire is cut between the first `Push` and the rest (second `Push`, `Finish`): the reader gets
    end-of-stream too, but the recorded cause is `connEnded`, not `peerFinish` — and what was read is a strict
    prefix of what was written. -/
private def eCut : List (PairAll.Side × Stim) :=
  eopen ++ [(.A, .call (.write 0 [1, 2])), (.A, .call (.write 0 [3])), (.A, .call (.shutdown 0)),
            (.B, .deliver), (.B, .cut false), (.B, .call (.read 0 9))]
example : let p0 := PairAll.init ecfg ecfg [7, 8] [9, 10]
    let p := PairAll.run p0 eCut
    ((appRead p.b 0 9).2 = .eof ∧ endCause (endsOf p0.b (opsB p0 eCut)) 0 = some (.connEnded .wsError) ∧
     chunks p.gb.returned 0 = [1, 2] ∧ wroteOn 7 p.ga.wrote = [1, 2, 3]) := by decide

/-- … and cut between the last `Push` and the `Finish`: everything written happens to have been read, the cause
    is still `connEnded` (the reader cannot know the writer was done). -/
private def eCut2 : List (PairAll.Side × Stim) :=
  eopen ++ [(.A, .call (.write 0 [1, 2])), (.A, .call (.write 0 [3])), (.A, .call (.shutdown 0)),
            (.B, .deliver), (.B, .deliver), (.B, .cut false), (.B, .call (.read 0 9)), (.B, .call (.read 0 9))]
example : let p0 := PairAll.init ecfg ecfg [7, 8] [9, 10]
    let p := PairAll.run p0 eCut2
    ((appRead p.b 0 9).2 = .eof ∧ endCause (endsOf p0.b (opsB p0 eCut2)) 0 = some (.connEnded .wsError) ∧
     chunks p.gb.returned 0 = [1, 2, 3] ∧ wroteOn 7 p.ga.wrote = [1, 2, 3]) := by decide

end PairAll

end Penguin.C05
