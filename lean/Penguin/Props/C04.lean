/-
C04 — Streams always make progress while the application keeps reading.
Progress is stated as safety theorems plus a decreasing measure, over the link model (every action
sequence, every window `W ≥ 1` and threshold `th ≤ W`), and the endpoint-model facts that every pair
of accepted options yields such parameters and that a slow reader delays only its own stream.

The liveness conclusion itself is the headline theorem `progress` (with its parts
`productive_schedule_bounded`, `no_infinite_productive_schedule`, `writer_unblocked_when_work_runs_out`,
`every_byte_becomes_readable`): a termination statement that holds for EVERY schedule of deliveries,
acknowledgement deliveries and reads — no fairness assumption is needed for the bound; fairness of the
real scheduler (a delivery / read that has something to do eventually happens) is only what makes the
real system take those steps at all.

From one direction of one stream to two whole endpoints: `pair_no_stall` and
`pair_all_written_is_read_at_quiescence` below are the blocked-writer and the all-read facts for
`Penguin.Pair` (two endpoint models, any number of flows, every interleaving). They are obtained
through the relation `DirRel` of `Lemmas/PairInv.lean`: for one direction of a flow established on both
endpoints of a reachable pair state there is a link state `l` with `Inv l` whose fields are the
projection of the pair onto that direction (the writer object's credit and finished flag, the
`Push`/`Finish`/`Reset` frames of the flow on the path to the peer, the reader object's queue, buffer
and counter, the `Acknowledge` frames of the flow on the path back, the write and read logs).
`Inv l` is the only hypothesis the analysis of the state "work has run out" uses, and
`Lemmas/PairDir.lean` shows that a step of the pair that concerns the flow acts on `l` as the
corresponding `Link.step` (processing a `Push`/`Finish`/`Reset` of the flow: `deliver`; a read:
`read`; processing an `Acknowledge` of the flow: `deliverAck`), while moving a frame from an outbound
queue onto the transport leaves `l` unchanged. So the new theorems bound, per flow and direction, the
number of frame-processing steps and reads of the pair that concern it, *in the link model*; a step
count for the pair as a whole (transmissions, other flows) is not stated.
-/
import Penguin.Model.Link
import Penguin.Model.Mux
import Penguin.Lemmas.Link
import Penguin.Lemmas.LinkProgress
import Penguin.Lemmas.MuxStep
import Penguin.Lemmas.PairCor

namespace Penguin.C04
open Penguin Penguin.Link

/-- The threshold a stream gets never exceeds the window this endpoint advertises, for every
    options value and every peer window — the arithmetic fact progress rests on. -/
theorem threshold_le_window (o : Mux.Opts) (peerRwnd : Nat) : Mux.thresholdFor o peerRwnd ≤ o.rwnd := by
  simp only [Mux.thresholdFor]; omega

/-- No stall: in every reachable state, a writer that is blocked for credit always has something
    still on its way — a `Push` in flight, a frame in the reader's queue, or an `Acknowledge` in
    flight. So some delivery or read is enabled whenever a writer waits. -/
theorem no_stall (W th : Nat) (hW : 0 < W) (hth : th ≤ W) (as : List Act)
    (hc : (run (init W th) as).credit = 0) :
    let s := run (init W th) as
    pushes s.wire ≠ [] ∨ s.rxq ≠ [] ∨ s.acks ≠ [] :=
  blocked_has_work _ (run_inv _ as (init_inv W th hW hth)) hc

/-- Equivalently: once the transport has delivered everything in flight and the reader has emptied
    its queue, the writer has credit — "quiescent with a blocked writer while its reader keeps
    reading" is unreachable. -/
theorem quiescent_has_credit (W th : Nat) (hW : 0 < W) (hth : th ≤ W) (as : List Act)
    (h1 : pushes (run (init W th) as).wire = []) (h2 : (run (init W th) as).rxq = [])
    (h3 : (run (init W th) as).acks = []) : 0 < (run (init W th) as).credit := by
  have := blocked_has_work _ (run_inv _ as (init_inv W th hW hth))
  cases hc : (run (init W th) as).credit with
  | zero => rcases this hc with h | h | h <;> contradiction
  | succ n => omega

/-- The measure: every enabled delivery, read of a queued frame, or acknowledgement delivery strictly
    decreases `3·|wire| + 2·|queue| + |acks|`; so at most that many such steps separate a blocked
    writer from the quiescent state above, in which it has credit. -/
theorem blocked_measure (s : St) (h : Inv s) (n : Nat) :
    (s.wire ≠ [] → mu (step s .deliver).1 < mu s) ∧
    (s.buf = [] → s.rxq ≠ [] → mu (step s (.read n)).1 < mu s) ∧
    (s.acks ≠ [] → mu (step s .deliverAck).1 < mu s) :=
  ⟨mu_deliver s, mu_read s n h, mu_deliverAck s⟩

/-! ## Bounded progress under every schedule

`productive s a` (Lemmas/LinkProgress.lean): action `a` of the transport or of the reader has something
to do in `s` — `.deliver` with a non-empty wire, `.deliverAck` with an `Acknowledge` on its way back,
`.read n` with `n > 0` and an unread remainder or a queued frame. The writer's `write`/`shutdown`/`abort`
are the environment and never count. `Productive s as`: every action of `as` is productive in the
state in which it is executed. `WorkDone s`: no action is productive in `s`.
`nu s = 3·|wire| + 2·|rxq| + |acks| + |buf| + bytes queued + bytes in flight`. -/

/-- Every productive action strictly decreases `nu` — in every state (reads that take part of a
    buffer, empty frames skipped, deliveries to a closed or full receiver included). -/
theorem productive_step_decreases (s : St) (a : Act) (hp : productive s a = true) : nu (step s a).1 < nu s :=
  nu_decreases s a hp

/-- No schedule of deliveries, acknowledgement deliveries and reads — fair or not, chosen by an
    adversary or not — can run for more than `nu s` steps without running out of work; more exactly
    every step pays one unit of what is left of the measure. Holds from every state, so in particular
    from every state reachable from `init W th`. -/
theorem productive_schedule_bounded (s : St) (as : List Act) (h : Productive s as) :
    as.length ≤ nu s ∧ as.length + nu (run s as) ≤ nu s :=
  ⟨productive_length_le s as h, productive_run_nu s as h⟩

/-- The same for infinite schedules `f : Nat → Act`: there is no infinite productive schedule — within
    the first `nu s + 1` actions one finds nothing to do. -/
theorem no_infinite_productive_schedule (s : St) (f : Nat → Act) :
    ∃ k, k ≤ nu s ∧ Productive s (pre f k) ∧ productive (run s (pre f k)) (f k) = false :=
  schedule_hits_unproductive s f

/-- Maximal productive schedules exist from every state (a work-conserving scheduler produces one),
    so the theorems about the state "work has run out" are about states that are reached. -/
theorem maximal_schedule_exists (s : St) : ∃ as, Productive s as ∧ WorkDone (run s as) :=
  exists_maximal s

/-- When the work runs out the writer is unblocked: in a reachable state in which no delivery,
    acknowledgement delivery or read (with room) has anything to do, the writer has credit — all of the
    window except the frames the reader has not acknowledged yet, fewer than the threshold — and, if the
    receiver's slot is alive, the sender has not finished and a pending write of a non-empty payload
    returns `wrote` at once. (`overrun` is false in every reachable state, `Inv.hover`; without `rAlive`
    the stream was finished or aborted by the sender itself and the write reports `brokenPipe`.) -/
theorem writer_unblocked_when_work_runs_out (W th : Nat) (hW : 0 < W) (hth : th ≤ W) (as : List Act)
    (hd : WorkDone (run (init W th) as)) :
    let s := run (init W th) as
    0 < s.credit ∧ s.credit + s.since = W ∧ s.overrun = false ∧
    (s.rAlive = true → s.sFin = false ∧ ∀ d : Bytes, d ≠ [] → (step s (.write d)).2 = .wrote d.length) := by
  have hi := run_inv _ as (init_inv W th hW hth)
  have hc := workDone_credit _ hi hd
  rw [run_W] at hc
  exact ⟨hc.1, hc.2, hi.hover, fun hal => ⟨workDone_open _ hi hd hal, workDone_write _ hi hd hal⟩⟩

/-- Every byte written becomes readable — and has been read: in a reachable state in which the work
    has run out, the reads have returned exactly the bytes the successful writes carried. -/
theorem every_byte_becomes_readable (W th : Nat) (hW : 0 < W) (hth : th ≤ W) (as : List Act)
    (hd : WorkDone (run (init W th) as)) :
    (run (init W th) as).delivered = (run (init W th) as).accepted :=
  workDone_delivered _ (run_inv _ as (init_inv W th hW hth)) hd

/-- **Progress.** Take any state `s` reachable from `init W th` (`0 < W`, `th ≤ W`; any mix of writes
    longer than the window, deliveries, reads, shutdown before it) and any schedule `sched` of deliveries,
    acknowledgement deliveries and reads in which every action has something to do. Then
    * the schedule is at most `nu s` steps long (so every such schedule can be extended only finitely often,
      and a maximal one exists: last clause);
    * if it is maximal (nothing is productive in the state `t` it ends in), then in `t` the reads have
      returned everything that was written up to `s` (`t.delivered = s.accepted`), the writer has credit, and —
      the receiver's slot being alive — a pending write of a non-empty payload completes (`wrote`). -/
theorem progress (W th : Nat) (hW : 0 < W) (hth : th ≤ W) (before sched : List Act)
    (hp : Productive (run (init W th) before) sched) :
    let s := run (init W th) before
    let t := run s sched
    sched.length ≤ nu s ∧
    (WorkDone t →
      t.delivered = s.accepted ∧ 0 < t.credit ∧
      (t.rAlive = true → ∀ d : Bytes, d ≠ [] → (step t (.write d)).2 = .wrote d.length)) ∧
    (∃ more, Productive t more ∧ WorkDone (run t more)) := by
  intro s t
  refine ⟨productive_length_le s sched hp, fun hd => ?_, exists_maximal t⟩
  have ht : t = run (init W th) (before ++ sched) := (run_append _ _ _).symm
  have hi : Inv t := ht ▸ run_inv _ _ (init_inv W th hW hth)
  refine ⟨?_, (workDone_credit t hi hd).1, fun hal => workDone_write t hi hd hal⟩
  rw [workDone_delivered t hi hd]
  exact productive_run_accepted s sched hp

/-! Non-vacuity. Window 2, threshold 2: two writes (3 bytes and 1 byte) exhaust the window; the writer
    is blocked (`pending`), `nu = 10`. -/
private def blocked2 : St := run (init 2 2) [.write [1, 2, 3], .write [4]]
example : blocked2.credit = 0 ∧ (step blocked2 (.write [5])).2 = .pending ∧ nu blocked2 = 10 := by decide
/-- A productive schedule from the blocked state with reads that take part of a frame (room for 2 bytes);
    it is maximal, 6 ≤ 10 steps long, and ends with everything read and the writer unblocked. -/
private def sched2 : List Act := [.deliver, .deliver, .read 2, .read 2, .read 2, .deliverAck]
example : Productive blocked2 sched2 := by decide
example : WorkDone (run blocked2 sched2) := (workDone_iff _).2 (by decide)
example : (run blocked2 sched2).delivered = [1, 2, 3, 4] ∧ (run blocked2 sched2).rAlive = true ∧
    (run blocked2 sched2).credit = 2 ∧ (step (run blocked2 sched2) (.write [5])).2 = .wrote 1 := by decide
/-- The theorems applied to this reachable state (the schedule appended to the two writes). -/
example : 0 < (run (init 2 2) ([.write [1, 2, 3], .write [4]] ++ sched2)).credit :=
  (writer_unblocked_when_work_runs_out 2 2 (by decide) (by decide) _ ((workDone_iff _).2 (by decide))).1
example : sched2.length ≤ nu blocked2 ∧ (run blocked2 sched2).delivered = blocked2.accepted :=
  have h := progress 2 2 (by decide) (by decide) [.write [1, 2, 3], .write [4]] sched2 (by decide)
  ⟨h.1, (h.2.1 ((workDone_iff _).2 (by decide))).1⟩
/-- Another schedule (deliveries and reads interleaved, the acknowledgement last) is productive too;
    one more `.deliverAck` would not be, nor is a read without room. -/
example : Productive blocked2 [.deliver, .read 9, .deliver, .read 1, .deliverAck] := by decide
example : ¬ Productive blocked2 (sched2 ++ [.deliverAck]) := by decide
example : productive blocked2 (.read 0) = false ∧ productive blocked2 (.read 1) = false ∧
    productive blocked2 .deliver = true := by decide
/-- `productive_step_decreases` on a partial read: 2 of 3 buffered bytes. -/
example : nu (run blocked2 [.deliver, .deliver]) = 8 ∧ nu (run blocked2 [.deliver, .deliver, .read 2]) = 4 ∧
    nu (run blocked2 [.deliver, .deliver, .read 2, .read 2]) = 3 := by
  decide
/-- The state after a sender-side shutdown: the work runs out with the receiver's slot closed; the writer
    still holds credit, all bytes were read, and a write reports `brokenPipe` (hence the `rAlive` premise). -/
example : WorkDone (run (init 2 2) [.write [1], .shutdown, .deliver, .deliver, .read 9]) := (workDone_iff _).2 (by decide)
example : (run (init 2 2) [.write [1], .shutdown, .deliver, .deliver, .read 9]).rAlive = false ∧
    (step (run (init 2 2) [.write [1], .shutdown, .deliver, .deliver, .read 9]) (.write [5])).2 = .brokenPipe := by decide

open Penguin.Mux in
/-- Isolation: a stream whose reader is slow or absent delays only itself. Processing `Push`,
    `Acknowledge`, `Finish`, `Reset` or `Datagram` frames never parks the receive loop (the stream
    queue is filled with `try_send`, a full datagram queue drops): only `Connect` with a full accept
    queue or `Bind` with a full bind queue can, which is the property's premise that the application
    keeps accepting. -/
theorem isolation (e : EP) (f : Frame) (ig : Bool)
    (hf : (∀ a b c d, f ≠ .connect a b c d) ∧ (∀ a b c d, f ≠ .bind a b c d)) :
    (processFrame e f ig).1.park = e.park :=
  Mux.processFrame_no_park e f ig hf

open Penguin.Mux in
/-- A datagram that finds the queue full is dropped; nothing else in the endpoint changes. -/
theorem full_datagram_queue_drops (e : EP) (fid port : Nat) (host d : Bytes) (ig : Bool)
    (hm : e.muxAlive = true) (hfull : ¬ e.dgramq.length < e.opts.dgramCap) :
    processFrame e (.datagram fid port host d) ig = (e, [], none) := by
  simp [processFrame, hm, hfull]

open Penguin.Mux Penguin.Pair in
/-- No stall, for two whole endpoint models joined by FIFO wires (`Penguin.Pair`: every interleaving,
    every pair of options, any number of concurrent flows): in every reachable state, on every flow
    established on both endpoints, a writer at `a` that has no credit always has a `Push` of the flow in
    transit, a frame in the peer's receive queue, or an `Acknowledge` of the flow in transit back — so a
    transmission, a frame processing step or a read is enabled, each of which decreases `blocked_measure`. -/
theorem pair_no_stall {oa ob : Opts} {ra rb : List Nat} (c : Cfg oa ob ra rb) (as : List (Pair.Side × Pair.Act))
    {x i j : Nat} (e : Established (Pair.run (Pair.init oa ob ra rb) as) x i j)
    (oA : Obj) (hoA : (Pair.run (Pair.init oa ob ra rb) as).a.objs[i]? = some oA) (hc : oA.credit = 0) :
    let p := Pair.run (Pair.init oa ob ra rb) as
    pushesOf x (pathAB p) ≠ [] ∨ (∃ oB, p.b.objs[j]? = some oB ∧ oB.rxq ≠ []) ∨ acksOf x (pathBA p) ≠ [] :=
  established_blocked_has_work (reach_inv c as) e oA hoA hc

open Penguin.Mux Penguin.Pair in
/-- Every byte written becomes readable: in every reachable state of the pair, on every flow
    established on both endpoints, once nothing of the flow is in transit any more and the reader has
    emptied its queue and buffer, it has read exactly the bytes the writer's accepted writes carried —
    and (by `pair_no_stall`) a writer still without credit then has an `Acknowledge` on its way. What
    the harness's `written-not-readable` monitor samples on the real code. -/
theorem pair_all_written_is_read_at_quiescence {oa ob : Opts} {ra rb : List Nat} (c : Cfg oa ob ra rb)
    (as : List (Pair.Side × Pair.Act)) {x i j : Nat} (e : Established (Pair.run (Pair.init oa ob ra rb) as) x i j)
    (hq : pushesOf x (pathAB (Pair.run (Pair.init oa ob ra rb) as)) = [])
    (hr : ∀ oB, (Pair.run (Pair.init oa ob ra rb) as).b.objs[j]? = some oB → oB.buf = [] ∧ oB.rxq = []) :
    let p := Pair.run (Pair.init oa ob ra rb) as
    p.gb.rlog j = p.ga.wlog i := by
  obtain ⟨oB, hoB, hd, _⟩ := established_bytes (reach_inv c as) e
  obtain ⟨hb, hx⟩ := hr oB hoB
  rw [hq, hb, hx] at hd
  simpa using hd

/-! Non-vacuity of `pair_no_stall`: window 1, one write in flight — the writer has no credit and the
    `Push` is in transit. -/
private def pcfg1 : Mux.Opts := { rwnd := 1, threshold := 1 }
private def pacts1 : List (Pair.Side × Pair.Act) :=
  [(.A, .open 1 [104] 80), (.A, .xmit), (.B, .recv), (.B, .xmit), (.A, .recv), (.A, .runDone), (.B, .accept),
   (.A, .write 0 [1, 2, 3]), (.A, .xmit)]
example : Pair.Established (Pair.run (Pair.init pcfg1 pcfg1 [7, 8] [9, 10]) pacts1) 7 0 0 :=
  ⟨by decide, by decide, by decide, by decide, by decide⟩
example : ((Pair.run (Pair.init pcfg1 pcfg1 [7, 8] [9, 10]) pacts1).a.objs[0]?.map (·.credit)) = some 0 := by decide
example : Pair.pushesOf 7 (Pair.pathAB (Pair.run (Pair.init pcfg1 pcfg1 [7, 8] [9, 10]) pacts1)) = [[1, 2, 3]] := by decide

/-! Non-vacuity of `pair_all_written_is_read_at_quiescence`: the `Push` is processed and read. -/
private def pacts1r : List (Pair.Side × Pair.Act) := pacts1 ++ [(.B, .recv), (.B, .read 0 9)]
example : Pair.Established (Pair.run (Pair.init pcfg1 pcfg1 [7, 8] [9, 10]) pacts1r) 7 0 0 :=
  ⟨by decide, by decide, by decide, by decide, by decide⟩
example : Pair.pushesOf 7 (Pair.pathAB (Pair.run (Pair.init pcfg1 pcfg1 [7, 8] [9, 10]) pacts1r)) = [] ∧
    ((Pair.run (Pair.init pcfg1 pcfg1 [7, 8] [9, 10]) pacts1r).b.objs[0]?.map (fun o => (o.buf, o.rxq))) = some ([], []) ∧
    (Pair.run (Pair.init pcfg1 pcfg1 [7, 8] [9, 10]) pacts1r).gb.rlog 0 = [1, 2, 3] := by decide


/-! Non-vacuity: the configuration that stalled before the threshold fix (own window 4, default
    threshold 8, peer window 16) now gets threshold 4 and is covered by `no_stall`. -/
example : Mux.thresholdFor { rwnd := 4, threshold := 8 } 16 = 4 := by decide
example : (run (init 4 4) [.write [1], .write [2], .write [3], .write [4]]).credit = 0 := by decide
example : (run (init 4 4) [.write [1], .write [2], .write [3], .write [4], .deliver, .deliver, .deliver, .deliver,
    .read 9, .read 9, .read 9, .read 9, .deliverAck]).credit = 4 := by decide

end Penguin.C04
