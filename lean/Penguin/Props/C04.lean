/-
C04 — Streams always make progress while the application keeps reading.
Progress is stated as safety theorems plus a decreasing measure, over the link model (every action
sequence, every window `W ≥ 1` and threshold `th ≤ W`), and the endpoint-model facts that every pair
of accepted options yields such parameters and that a slow reader delays only its own stream.

The liveness conclusion itself is the headline theorem `progress` (with its parts
`productive_schedule_bounded`, `no_infinite_productive_schedule`, `writer_unblocked_when_work_runs_out`,
`every_byte_becomes_readable`): a termination statement that holds for EVERY schedule of deliveries,
acknowledgement deliveries and reads — no fairness assumption is needed for the bound; fairness of the
real scheduler (a delivery / read that has something to do eventually happens) is only what makes the
real system take those steps at all.

From one direction of one stream to two whole endpoints: `pair_no_stall` and
`pair_all_written_is_read_at_quiescence` below are the blocked-writer and the all-read facts for
`Penguin.Pair` (two endpoint models, any number of flows, every interleaving). They are obtained
through the relation `DirRel` of `Lemmas/PairInv.lean`: for one direction of a flow established on both
endpoints of a reachable pair state there is a link state `l` with `Inv l` whose fields are the
projection of the pair onto that direction (the writer object's credit and finished flag, the
`Push`/`Finish`/`Reset` frames of the flow on the path to the peer, the reader object's queue, buffer
and counter, the `Acknowledge` frames of the flow on the path back, the write and read logs).
`Inv l` is the only hypothesis the analysis of the state "work has run out" uses, and
`Lemmas/PairDir.lean` shows that a step of the pair that concerns the flow acts on `l` as the
corresponding `Link.step` (processing a `Push`/`Finish`/`Reset` of the flow: `deliver`; a read:
`read`; processing an `Acknowledge` of the flow: `deliverAck`), while moving a frame from an outbound
queue onto the transport leaves `l` unchanged. So the new theorems bound, per flow and direction, the
number of frame-processing steps and reads of the pair that concern it, *in the link model*; a step
count for the pair as a whole (transmissions, other flows) is not stated there.

Two WHOLE endpoints: `pair_internal_activity_terminates` (last section) bounds what the connection tasks
and the pending `new_stream_channel` futures of both endpoints can do on their own — transmissions,
frame processing with the replies it causes (`Connect` → `Acknowledge`, unknown flow → `Reset`, a rejected
`Connect` → retry), dropped-handle notifications, parked hand-overs — by a measure `Pair.M` that every
such step that changes the state decreases (`Lemmas/PairQuiesce.lean`, for ALL pair states);
`pair_quiescent_writer_has_credit` is what the quiescent state such a schedule ends in looks like for a
writer.
-/
import Penguin.Model.Link
import Penguin.Model.Mux
import Penguin.Lemmas.Link
import Penguin.Lemmas.LinkProgress
import Penguin.Lemmas.MuxStep
import Penguin.Lemmas.PairCor
import Penguin.Lemmas.PairQuiesceCredit

namespace Penguin.C04
open Penguin Penguin.Link

/-- The threshold a stream gets never exceeds the window this endpoint advertises, for every
    options value and every peer window — the arithmetic fact progress rests on. -/
theorem threshold_le_window (o : Mux.Opts) (peerRwnd : Nat) : Mux.thresholdFor o peerRwnd ≤ o.rwnd := by
  simp only [Mux.thresholdFor]; omega

/-- No stall: in every reachable state, a writer that is blocked for credit always has something
    still on its way — a `Push` in flight, a frame in the reader's queue, or an `Acknowledge` in
    flight. So some delivery or read is enabled whenever a writer waits. -/
theorem no_stall (W th : Nat) (hW : 0 < W) (hth : th ≤ W) (as : List Act)
    (hc : (run (init W th) as).credit = 0) :
    let s := run (init W th) as
    pushes s.wire ≠ [] ∨ s.rxq ≠ [] ∨ s.acks ≠ [] :=
  blocked_has_work _ (run_inv _ as (init_inv W th hW hth)) hc

/-- Equivalently: once the transport has delivered everything in flight and the reader has emptied
    its queue, the writer has credit — "quiescent with a blocked writer while its reader keeps
    reading" is unreachable. -/
theorem quiescent_has_credit (W th : Nat) (hW : 0 < W) (hth : th ≤ W) (as : List Act)
    (h1 : pushes (run (init W th) as).wire = []) (h2 : (run (init W th) as).rxq = [])
    (h3 : (run (init W th) as).acks = []) : 0 < (run (init W th) as).credit := by
  have := blocked_has_work _ (run_inv _ as (init_inv W th hW hth))
  cases hc : (run (init W th) as).credit with
  | zero => rcases this hc with h | h | h <;> contradiction
  | succ n => omega

/-- The measure: every enabled delivery, read of a queued frame, or acknowledgement delivery strictly
    decreases `3·|wire| + 2·|queue| + |acks|`; so at most that many such steps separate a blocked
    writer from the quiescent state above, in which it has credit. -/
theorem blocked_measure (s : St) (h : Inv s) (n : Nat) :
    (s.wire ≠ [] → mu (step s .deliver).1 < mu s) ∧
    (s.buf = [] → s.rxq ≠ [] → mu (step s (.read n)).1 < mu s) ∧
    (s.acks ≠ [] → mu (step s .deliverAck).1 < mu s) :=
  ⟨mu_deliver s, mu_read s n h, mu_deliverAck s⟩

/-! ## Bounded progress under every schedule

`productive s a` (Lemmas/LinkProgress.lean): action `a` of the transport or of the reader has something
to do in `s` — `.deliver` with a non-empty wire, `.deliverAck` with an `Acknowledge` on its way back,
`.read n` with `n > 0` and an unread remainder or a queued frame. The writer's `write`/`shutdown`/`abort`
are the environment and never count. `Productive s as`: every action of `as` is productive in the
state in which it is executed. `WorkDone s`: no action is productive in `s`.
`nu s = 3·|wire| + 2·|rxq| + |acks| + |buf| + bytes queued + bytes in flight`. -/

/-- Every productive action strictly decreases `nu` — in every state (reads that take part of a
    buffer, empty frames skipped, deliveries to a closed or full receiver included). -/
theorem productive_step_decreases (s : St) (a : Act) (hp : productive s a = true) : nu (step s a).1 < nu s :=
  nu_decreases s a hp

/-- No schedule of deliveries, acknowledgement deliveries and reads — fair or not, chosen by an
    adversary or not — can run for more than `nu s` steps without running out of work; more exactly
    every step pays one unit of what is left of the measure. Holds from every state, so in particular
    from every state reachable from `init W th`. -/
theorem productive_schedule_bounded (s : St) (as : List Act) (h : Productive s as) :
    as.length ≤ nu s ∧ as.length + nu (run s as) ≤ nu s :=
  ⟨productive_length_le s as h, productive_run_nu s as h⟩

/-- The same for infinite schedules `f : Nat → Act`: there is no infinite productive schedule — within
    the first `nu s + 1` actions one finds nothing to do. -/
theorem no_infinite_productive_schedule (s : St) (f : Nat → Act) :
    ∃ k, k ≤ nu s ∧ Productive s (pre f k) ∧ productive (run s (pre f k)) (f k) = false :=
  schedule_hits_unproductive s f

/-- Maximal productive schedules exist from every state (a work-conserving scheduler produces one),
    so the theorems about the state "work has run out" are about states that are reached. -/
theorem maximal_schedule_exists (s : St) : ∃ as, Productive s as ∧ WorkDone (run s as) :=
  exists_maximal s

/-- When the work runs out the writer is unblocked: in a reachable state in which no delivery,
    acknowledgement delivery or read (with room) has anything to do, the writer has credit — all of the
    window except the frames the reader has not acknowledged yet, fewer than the threshold — and, if the
    receiver's slot is alive, the sender has not finished and a pending write of a non-empty payload
    returns `wrote` at once. (`overrun` is false in every reachable state, `Inv.hover`; without `rAlive`
    the stream was finished or aborted by the sender itself and the write reports `brokenPipe`.) -/
theorem writer_unblocked_when_work_runs_out (W th : Nat) (hW : 0 < W) (hth : th ≤ W) (as : List Act)
    (hd : WorkDone (run (init W th) as)) :
    let s := run (init W th) as
    0 < s.credit ∧ s.credit + s.since = W ∧ s.overrun = false ∧
    (s.rAlive = true → s.sFin = false ∧ ∀ d : Bytes, d ≠ [] → (step s (.write d)).2 = .wrote d.length) := by
  have hi := run_inv _ as (init_inv W th hW hth)
  have hc := workDone_credit _ hi hd
  rw [run_W] at hc
  exact ⟨hc.1, hc.2, hi.hover, fun hal => ⟨workDone_open _ hi hd hal, workDone_write _ hi hd hal⟩⟩

/-- Every byte written becomes readable — and has been read: in a reachable state in which the work
    has run out, the reads have returned exactly the bytes the successful writes carried. -/
theorem every_byte_becomes_readable (W th : Nat) (hW : 0 < W) (hth : th ≤ W) (as : List Act)
    (hd : WorkDone (run (init W th) as)) :
    (run (init W th) as).delivered = (run (init W th) as).accepted :=
  workDone_delivered _ (run_inv _ as (init_inv W th hW hth)) hd

/-- **Progress.** Take any state `s` reachable from `init W th` (`0 < W`, `th ≤ W`; any mix of writes
    longer than the window, deliveries, reads, shutdown before it) and any schedule `sched` of deliveries,
    acknowledgement deliveries and reads in which every action has something to do. Then
    * the schedule is at most `nu s` steps long (so every such schedule can be extended only finitely often,
      and a maximal one exists: last clause);
    * if it is maximal (nothing is productive in the state `t` it ends in), then in `t` the reads have
      returned everything that was written up to `s` (`t.delivered = s.accepted`), the writer has credit, and —
      the receiver's slot being alive — a pending write of a non-empty payload completes (`wrote`). -/
theorem progress (W th : Nat) (hW : 0 < W) (hth : th ≤ W) (before sched : List Act)
    (hp : Productive (run (init W th) before) sched) :
    let s := run (init W th) before
    let t := run s sched
    sched.length ≤ nu s ∧
    (WorkDone t →
      t.delivered = s.accepted ∧ 0 < t.credit ∧
      (t.rAlive = true → ∀ d : Bytes, d ≠ [] → (step t (.write d)).2 = .wrote d.length)) ∧
    (∃ more, Productive t more ∧ WorkDone (run t more)) := by
  intro s t
  refine ⟨productive_length_le s sched hp, fun hd => ?_, exists_maximal t⟩
  have ht : t = run (init W th) (before ++ sched) := (run_append _ _ _).symm
  have hi : Inv t := ht ▸ run_inv _ _ (init_inv W th hW hth)
  refine ⟨?_, (workDone_credit t hi hd).1, fun hal => workDone_write t hi hd hal⟩
  rw [workDone_delivered t hi hd]
  exact productive_run_accepted s sched hp

/-! Non-vacuity. Window 2, threshold 2: two writes (3 bytes and 1 byte) exhaust the window; the writer
    is blocked (`pending`), `nu = 10`. -/
private def blocked2 : St := run (init 2 2) [.write [1, 2, 3], .write [4]]
example : blocked2.credit = 0 ∧ (step blocked2 (.write [5])).2 = .pending ∧ nu blocked2 = 10 := by decide
/-- A productive schedule from the blocked state with reads that take part of a frame (room for 2 bytes);
    it is maximal, 6 ≤ 10 steps long, and ends with everything read and the writer unblocked. -/
private def sched2 : List Act := [.deliver, .deliver, .read 2, .read 2, .read 2, .deliverAck]
example : Productive blocked2 sched2 := by decide
example : WorkDone (run blocked2 sched2) := (workDone_iff _).2 (by decide)
example : (run blocked2 sched2).delivered = [1, 2, 3, 4] ∧ (run blocked2 sched2).rAlive = true ∧
    (run blocked2 sched2).credit = 2 ∧ (step (run blocked2 sched2) (.write [5])).2 = .wrote 1 := by decide
/-- The theorems applied to this reachable state (the schedule appended to the two writes). -/
example : 0 < (run (init 2 2) ([.write [1, 2, 3], .write [4]] ++ sched2)).credit :=
  (writer_unblocked_when_work_runs_out 2 2 (by decide) (by decide) _ ((workDone_iff _).2 (by decide))).1
example : sched2.length ≤ nu blocked2 ∧ (run blocked2 sched2).delivered = blocked2.accepted :=
  have h := progress 2 2 (by decide) (by decide) [.write [1, 2, 3], .write [4]] sched2 (by decide)
  ⟨h.1, (h.2.1 ((workDone_iff _).2 (by decide))).1⟩
/-- Another schedule (deliveries and reads interleaved, the acknowledgement last) is productive too;
    one more `.deliverAck` would not be, nor is a read without room. -/
example : Productive blocked2 [.deliver, .read 9, .deliver, .read 1, .deliverAck] := by decide
example : ¬ Productive blocked2 (sched2 ++ [.deliverAck]) := by decide
example : productive blocked2 (.read 0) = false ∧ productive blocked2 (.read 1) = false ∧
    productive blocked2 .deliver = true := by decide
/-- `productive_step_decreases` on a partial read: 2 of 3 buffered bytes. -/
example : nu (run blocked2 [.deliver, .deliver]) = 8 ∧ nu (run blocked2 [.deliver, .deliver, .read 2]) = 4 ∧
    nu (run blocked2 [.deliver, .deliver, .read 2, .read 2]) = 3 := by
  decide
/-- The state after a sender-side shutdown: the work runs out with the receiver's slot closed; the writer
    still holds credit, all bytes were read, and a write reports `brokenPipe` (hence the `rAlive` premise). -/
example : WorkDone (run (init 2 2) [.write [1], .shutdown, .deliver, .deliver, .read 9]) := (workDone_iff _).2 (by decide)
example : (run (init 2 2) [.write [1], .shutdown, .deliver, .deliver, .read 9]).rAlive = false ∧
    (step (run (init 2 2) [.write [1], .shutdown, .deliver, .deliver, .read 9]) (.write [5])).2 = .brokenPipe := by decide

open Penguin.Mux in
/-- Isolation: a stream whose reader is slow or absent delays only itself. Processing `Push`,
    `Acknowledge`, `Finish`, `Reset` or `Datagram` frames never parks the receive loop (the stream
    queue is filled with `try_send`, a full datagram queue drops): only `Connect` with a full accept
    queue or `Bind` with a full bind queue can, which is the property's premise that the application
    keeps accepting. -/
theorem isolation (e : EP) (f : Frame) (ig : Bool)
    (hf : (∀ a b c d, f ≠ .connect a b c d) ∧ (∀ a b c d, f ≠ .bind a b c d)) :
    (processFrame e f ig).1.park = e.park :=
  Mux.processFrame_no_park e f ig hf

open Penguin.Mux in
/-- A datagram that finds the queue full is dropped; nothing else in the endpoint changes. -/
theorem full_datagram_queue_drops (e : EP) (fid port : Nat) (host d : Bytes) (ig : Bool)
    (hm : e.muxAlive = true) (hfull : ¬ e.dgramq.length < e.opts.dgramCap) :
    processFrame e (.datagram fid port host d) ig = (e, [], none) := by
  simp [processFrame, hm, hfull]

open Penguin.Mux Penguin.Pair in
/-- No stall, for two whole endpoint models joined by FIFO wires (`Penguin.Pair`: every interleaving,
    every pair of options, any number of concurrent flows): in every reachable state, on every flow
    established on both endpoints, a writer at `a` that has no credit always has a `Push` of the flow in
    transit, a frame in the peer's receive queue, or an `Acknowledge` of the flow in transit back — so a
    transmission, a frame processing step or a read is enabled, each of which decreases `blocked_measure`. -/
theorem pair_no_stall {oa ob : Opts} {ra rb : List Nat} (c : Cfg oa ob ra rb) (as : List (Pair.Side × Pair.Act))
    {x i j : Nat} (e : Established (Pair.run (Pair.init oa ob ra rb) as) x i j)
    (oA : Obj) (hoA : (Pair.run (Pair.init oa ob ra rb) as).a.objs[i]? = some oA) (hc : oA.credit = 0) :
    let p := Pair.run (Pair.init oa ob ra rb) as
    pushesOf x (pathAB p) ≠ [] ∨ (∃ oB, p.b.objs[j]? = some oB ∧ oB.rxq ≠ []) ∨ acksOf x (pathBA p) ≠ [] :=
  established_blocked_has_work (reach_inv c as) e oA hoA hc

open Penguin.Mux Penguin.Pair in
/-- Every byte written becomes readable: in every reachable state of the pair, on every flow
    established on both endpoints, once nothing of the flow is in transit any more and the reader has
    emptied its queue and buffer, it has read exactly the bytes the writer's accepted writes carried —
    and (by `pair_no_stall`) a writer still without credit then has an `Acknowledge` on its way. What
    the harness's `written-not-readable` monitor samples on the real code. -/
theorem pair_all_written_is_read_at_quiescence {oa ob : Opts} {ra rb : List Nat} (c : Cfg oa ob ra rb)
    (as : List (Pair.Side × Pair.Act)) {x i j : Nat} (e : Established (Pair.run (Pair.init oa ob ra rb) as) x i j)
    (hq : pushesOf x (pathAB (Pair.run (Pair.init oa ob ra rb) as)) = [])
    (hr : ∀ oB, (Pair.run (Pair.init oa ob ra rb) as).b.objs[j]? = some oB → oB.buf = [] ∧ oB.rxq = []) :
    let p := Pair.run (Pair.init oa ob ra rb) as
    p.gb.rlog j = p.ga.wlog i := by
  obtain ⟨oB, hoB, hd, _⟩ := established_bytes (reach_inv c as) e
  obtain ⟨hb, hx⟩ := hr oB hoB
  rw [hq, hb, hx] at hd
  simpa using hd

/-! Non-vacuity of `pair_no_stall`: window 1, one write in flight — the writer has no credit and the
    `Push` is in transit. -/
private def pcfg1 : Mux.Opts := { rwnd := 1, threshold := 1 }
private def pacts1 : List (Pair.Side × Pair.Act) :=
  [(.A, .open 1 [104] 80), (.A, .xmit), (.B, .recv), (.B, .xmit), (.A, .recv), (.A, .runDone), (.B, .accept),
   (.A, .write 0 [1, 2, 3]), (.A, .xmit)]
example : Pair.Established (Pair.run (Pair.init pcfg1 pcfg1 [7, 8] [9, 10]) pacts1) 7 0 0 :=
  ⟨by decide, by decide, by decide, by decide, by decide⟩
example : ((Pair.run (Pair.init pcfg1 pcfg1 [7, 8] [9, 10]) pacts1).a.objs[0]?.map (·.credit)) = some 0 := by decide
example : Pair.pushesOf 7 (Pair.pathAB (Pair.run (Pair.init pcfg1 pcfg1 [7, 8] [9, 10]) pacts1)) = [[1, 2, 3]] := by decide

/-! Non-vacuity of `pair_all_written_is_read_at_quiescence`: the `Push` is processed and read. -/
private def pacts1r : List (Pair.Side × Pair.Act) := pacts1 ++ [(.B, .recv), (.B, .read 0 9)]
example : Pair.Established (Pair.run (Pair.init pcfg1 pcfg1 [7, 8] [9, 10]) pacts1r) 7 0 0 :=
  ⟨by decide, by decide, by decide, by decide, by decide⟩
example : Pair.pushesOf 7 (Pair.pathAB (Pair.run (Pair.init pcfg1 pcfg1 [7, 8] [9, 10]) pacts1r)) = [] ∧
    ((Pair.run (Pair.init pcfg1 pcfg1 [7, 8] [9, 10]) pacts1r).b.objs[0]?.map (fun o => (o.buf, o.rxq))) = some ([], []) ∧
    (Pair.run (Pair.init pcfg1 pcfg1 [7, 8] [9, 10]) pacts1r).gb.rlog 0 = [1, 2, 3] := by decide


/-! Non-vacuity: the configuration that stalled before the threshold fix (own window 4, default
    threshold 8, peer window 16) now gets threshold 4 and is covered by `no_stall`. -/
example : Mux.thresholdFor { rwnd := 4, threshold := 8 } 16 = 4 := by decide
example : (run (init 4 4) [.write [1], .write [2], .write [3], .write [4]]).credit = 0 := by decide
example : (run (init 4 4) [.write [1], .write [2], .write [3], .write [4], .deliver, .deliver, .deliver, .deliver,
    .read 9, .read 9, .read 9, .read 9, .deliverAck]).credit = 4 := by decide

/-! ## Two whole endpoints: the internal activity always dies down

`Pair.internal a`: `a` is an action of a connection task or of a pending `new_stream_channel` future
(`xmit`, `recv`, `notif`, `unpark`, `runDone`, `runRetries`) — not an application call (stream calls,
datagram calls and the `Bind` calls `bindReq`, `bindNext`, `bindReply`, `bindDrop` are the environment).
`Pair.productiveI p s a`: internal action `a` of side `s` is enabled in `p` and changes the state
(`pair_productive_iff`; idle `unpark` / `runDone` / `runRetries` are enabled but change nothing).
`Pair.ProdSched p l`: every action of `l` is productive in the state in which it is executed.
`Pair.Quiescent p`: no internal action of either side is productive.
`Pair.M p`: messages on the wires weighted by kind (Connect 12, Bind 6, Acknowledge 5, Finish 4, Push 4,
Reset 2, others 1), one more each while still in an outbound queue, 4 per queued dropped-handle
notification, 5 for a parked hand-over, 1 per `doneq` / `retryq` entry, 13 per remaining retry of a
pending open request. -/

open Penguin.Pair in
/-- What "productive" means: internal, enabled, and the state changes. -/
theorem pair_productive_iff (p : PS) (s : Side) (a : Pair.Act) :
    productiveI p s a = true ↔ internal a = true ∧ ∃ p', Pair.step p s a = some p' ∧ p' ≠ p :=
  productiveI_iff p s a

open Penguin.Pair in
/-- Every internal action (either side) that changes the state strictly decreases `M` — in EVERY pair
    state, reachable or not: the reply a frame causes weighs less than the frame, a retried `Connect` is
    paid for by the retry it uses up. -/
theorem pair_internal_step_decreases (p p' : PS) (s : Side) (a : Pair.Act) (hi : internal a = true)
    (hs : Pair.step p s a = some p') (hne : p' ≠ p) : M p' < M p :=
  step_internal_decreases p p' s a hi hs hne

open Penguin.Pair in
/-- **The internal activity of two conforming endpoints always dies down, under every schedule.** From
    any pair state `p` (so in particular from every reachable one), for any schedule `sched` of productive
    internal actions, the two sides interleaved in any way, chosen by an adversary or not:
    * the schedule is at most `M p` steps long — every step pays one unit of the measure;
    * there is no infinite one: any infinite sequence of internal actions finds nothing to do within its
      first `M p + 1` actions;
    * if it is maximal (no action can be appended) it ends in a quiescent state;
    * it can always be extended to a maximal one. -/
theorem pair_internal_activity_terminates (p : PS) (sched : List (Side × Pair.Act)) (hp : ProdSched p sched) :
    sched.length + M (Pair.run p sched) ≤ M p ∧
    (∀ f : Nat → Side × Pair.Act, ∃ k, k ≤ M p ∧ ProdSched p (Pair.pre f k) ∧
      productiveI (Pair.run p (Pair.pre f k)) (f k).1 (f k).2 = false) ∧
    ((∀ sa, ¬ ProdSched p (sched ++ [sa])) → Quiescent (Pair.run p sched)) ∧
    (∃ more, ProdSched p (sched ++ more) ∧ Quiescent (Pair.run p (sched ++ more))) := by
  refine ⟨prodSched_measure p sched hp, schedule_hits_idle p, maximal_quiescent p sched hp, ?_⟩
  obtain ⟨more, h1, h2⟩ := exists_quiescent (Pair.run p sched)
  exact ⟨more, (prodSched_append p sched more).2 ⟨hp, h1⟩, by rw [Pair.run_append]; exact h2⟩

open Penguin.Mux Penguin.Pair in
/-- … in particular from every state reachable from two fresh endpoints, whatever the applications did
    before: every schedule of productive internal actions is at most `M` of that state long. -/
theorem pair_internal_activity_bounded (oa ob : Opts) (ra rb : List Nat) (before sched : List (Side × Pair.Act))
    (hp : ProdSched (Pair.run (Pair.init oa ob ra rb) before) sched) :
    sched.length ≤ M (Pair.run (Pair.init oa ob ra rb) before) :=
  prodSched_length _ sched hp

open Penguin.Mux Penguin.Pair in
/-- In a reachable quiescent state in which neither receive loop is parked on a full accept or bind queue
    (the applications keep accepting — the premise of `isolation`), nothing is in transit: both outbound
    queues and both wires are empty. -/
theorem pair_quiescent_nothing_in_transit {oa ob : Opts} {ra rb : List Nat} (c : Cfg oa ob ra rb)
    (as : List (Side × Pair.Act))
    (hq : Quiescent (Pair.run (Pair.init oa ob ra rb) as))
    (hpa : (Pair.run (Pair.init oa ob ra rb) as).a.park = none)
    (hpb : (Pair.run (Pair.init oa ob ra rb) as).b.park = none) :
    let p := Pair.run (Pair.init oa ob ra rb) as
    p.a.outq = [] ∧ p.b.outq = [] ∧ p.ab = [] ∧ p.ba = [] :=
  quiescent_nothing_in_transit (reach_inv c as) (reach_plain oa ob ra rb as) hq hpa hpb

open Penguin.Mux Penguin.Pair in
/-- **When the internal activity has died down the writer has credit.** In a reachable quiescent state
    with neither receive loop parked, on every flow established on both endpoints whose reader (at `b`)
    has emptied its queue, the writer (at `a`) has credit — all of the window `b` advertised except the
    frames `b` has read and not acknowledged yet (fewer than the threshold). So a pending write of a
    non-empty payload goes through: no stream is blocked for ever once its reader has read.
    (`pair_no_stall` with quiescence: nothing in transit, no `Acknowledge` pending.) -/
theorem pair_quiescent_writer_has_credit {oa ob : Opts} {ra rb : List Nat} (c : Cfg oa ob ra rb)
    (as : List (Side × Pair.Act))
    (hq : Quiescent (Pair.run (Pair.init oa ob ra rb) as))
    (hpa : (Pair.run (Pair.init oa ob ra rb) as).a.park = none)
    (hpb : (Pair.run (Pair.init oa ob ra rb) as).b.park = none)
    {x i j : Nat} (e : Established (Pair.run (Pair.init oa ob ra rb) as) x i j)
    (hr : ∀ oB, (Pair.run (Pair.init oa ob ra rb) as).b.objs[j]? = some oB → oB.rxq = []) :
    let p := Pair.run (Pair.init oa ob ra rb) as
    ∃ oA oB, p.a.objs[i]? = some oA ∧ p.b.objs[j]? = some oB ∧ 0 < oA.credit ∧
      oA.credit + oB.recvdSince = p.b.opts.rwnd :=
  quiescent_writer_credit (reach_inv c as) (reach_plain oa ob ra rb as) hq hpa hpb e hr

/-! Non-vacuity. Window 1 (`pcfg1`): after `pacts1r` the `Push` has been processed and read, the reader's
    `Acknowledge` sits in `b`'s outbound queue, the writer still has no credit; `M = 6`. -/
private def pst : Pair.PS := Pair.run (Pair.init pcfg1 pcfg1 [7, 8] [9, 10]) pacts1r
example : Pair.M pst = 6 ∧ (pst.a.objs[0]?.map (·.credit)) = some 0 := by decide
/-- The only productive internal schedule from there: `b` transmits the `Acknowledge`, `a` processes it —
    2 ≤ 6 steps, maximal, and it ends in a quiescent state with `M = 0`. -/
private def psched : List (Pair.Side × Pair.Act) := [(.B, .xmit), (.A, .recv)]
example : Pair.ProdSched pst psched := by decide
example : Pair.Quiescent (Pair.run pst psched) := (Pair.quiescent_iff _).2 (by decide)
example : Pair.M (Pair.run pst psched) = 0 := by decide
example : psched.length + Pair.M (Pair.run pst psched) ≤ Pair.M pst :=
  (pair_internal_activity_terminates pst psched (by decide)).1
/-- Idle internal actions are enabled but not productive; application calls are not internal. -/
example : Pair.productiveI pst .A .unpark = false ∧ (Pair.step pst .A .unpark).isSome = true ∧
    Pair.productiveI pst .A .runDone = false ∧ Pair.productiveI pst .B .recv = false ∧
    Pair.productiveI pst .B .xmit = true ∧ Pair.internal (.read 0 9) = false := by decide
example : ¬ Pair.ProdSched pst (psched ++ [(.A, .recv)]) := by decide
/-- `pair_internal_step_decreases` on the two steps: 6 → 5 → 0. -/
example : Pair.M (Pair.run pst [(.B, .xmit)]) = 5 := by decide
/-- The hypotheses of `pair_quiescent_writer_has_credit` are met by the reachable state at the end of
    that schedule (flow 7 established on both endpoints, nothing parked, the reader's queue empty), and
    the writer has its credit back. -/
private def pactsq : List (Pair.Side × Pair.Act) := pacts1r ++ psched
private theorem pcfg1_ok : Pair.Cfg pcfg1 pcfg1 [7, 8] [9, 10] := ⟨by decide, by decide, by decide, by decide⟩
example : Pair.Established (Pair.run (Pair.init pcfg1 pcfg1 [7, 8] [9, 10]) pactsq) 7 0 0 :=
  ⟨by decide, by decide, by decide, by decide, by decide⟩
example : ∃ oA oB, (Pair.run (Pair.init pcfg1 pcfg1 [7, 8] [9, 10]) pactsq).a.objs[0]? = some oA ∧
    (Pair.run (Pair.init pcfg1 pcfg1 [7, 8] [9, 10]) pactsq).b.objs[0]? = some oB ∧ 0 < oA.credit ∧
    oA.credit + oB.recvdSince = (Pair.run (Pair.init pcfg1 pcfg1 [7, 8] [9, 10]) pactsq).b.opts.rwnd :=
  pair_quiescent_writer_has_credit pcfg1_ok pactsq ((Pair.quiescent_iff _).2 (by decide)) (by decide) (by decide)
    (x := 7) (i := 0) (j := 0) ⟨by decide, by decide, by decide, by decide, by decide⟩
    (by intro oB h
        have h0 : ((Pair.run (Pair.init pcfg1 pcfg1 [7, 8] [9, 10]) pactsq).b.objs[0]?.map (·.rxq)) = some [] := by decide
        rw [h] at h0; simpa using h0)
example : ((Pair.run (Pair.init pcfg1 pcfg1 [7, 8] [9, 10]) pactsq).a.objs[0]?.map (·.credit)) = some 1 := by decide
/-- Why the premise "not parked": with an accept queue of one stream, a second `Connect` parks `b`'s
    receive loop; the state is quiescent although a third `Connect` is still on the wire. -/
private def pcfgP : Mux.Opts := { acceptCap := 1 }
private def pstP : Pair.PS := Pair.run (Pair.init pcfgP pcfgP [7, 8, 11, 12] [9, 10])
  [(.A, .open 1 [104] 80), (.A, .open 2 [104] 81), (.A, .open 3 [104] 82), (.A, .xmit), (.A, .xmit), (.A, .xmit),
   (.B, .recv), (.B, .recv), (.B, .xmit), (.B, .xmit), (.A, .recv), (.A, .recv), (.A, .runDone)]
example : Pair.Quiescent pstP ∧ pstP.b.park.isSome = true ∧ pstP.ab.length = 1 :=
  ⟨(Pair.quiescent_iff _).2 (by decide), by decide, by decide⟩

/-! Non-vacuity with `Bind` traffic (bind queue of one request): two `Bind` requests of `a` are in its
    outbound queue, `M = 14`. Transmitting and processing both is productive; the second parks `b`'s
    receive loop on the full bind queue (weight 5) and the state is quiescent. After `b`'s application
    has taken and accepted the first request, the parked hand-over completes, the `Finish` travels, and
    the internal activity dies down with `M = 0`. -/
private def pcfgB : Mux.Opts := { bindCap := 1 }
private def pstB : Pair.PS := Pair.run (Pair.init pcfgB pcfgB [7, 8, 11] [9, 10])
  [(.A, .bindReq 1 .stream [104] 80), (.A, .bindReq 2 .stream [104] 81)]
private def pschedB : List (Pair.Side × Pair.Act) := [(.A, .xmit), (.A, .xmit), (.B, .recv), (.B, .recv)]
example : Pair.M pstB = 14 ∧ Pair.ProdSched pstB pschedB ∧ Pair.M (Pair.run pstB pschedB) = 5 ∧
    (Pair.run pstB pschedB).b.park.isSome = true := by decide
example : Pair.Quiescent (Pair.run pstB pschedB) := (Pair.quiescent_iff _).2 (by decide)
private def pstB' : Pair.PS := Pair.run (Pair.run pstB pschedB) [(.B, .bindNext), (.B, .bindReply 0 true)]
example : Pair.M pstB' = 10 ∧ Pair.ProdSched pstB' [(.B, .unpark), (.B, .xmit), (.A, .recv)] ∧
    Pair.M (Pair.run pstB' [(.B, .unpark), (.B, .xmit), (.A, .recv)]) = 0 := by decide
example : Pair.Quiescent (Pair.run pstB' [(.B, .unpark), (.B, .xmit), (.A, .recv)]) :=
  (Pair.quiescent_iff _).2 (by decide)

end Penguin.C04
