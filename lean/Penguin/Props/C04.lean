/-
C04 — Streams always make progress while the application keeps reading.
Progress is stated as safety theorems plus a decreasing measure, over the link model (every action
sequence, every window `W ≥ 1` and threshold `th ≤ W`), and the endpoint-model facts that every pair
of accepted options yields such parameters and that a slow reader delays only its own stream.
Fairness of the real scheduler is assumed (a delivery / read that is enabled eventually happens).
-/
import Penguin.Model.Link
import Penguin.Model.Mux
import Penguin.Lemmas.Link
import Penguin.Lemmas.MuxStep
import Penguin.Lemmas.PairCor

namespace Penguin.C04
open Penguin Penguin.Link

/-- The threshold a stream gets never exceeds the window this endpoint advertises, for every
    options value and every peer window — the arithmetic fact progress rests on. -/
theorem threshold_le_window (o : Mux.Opts) (peerRwnd : Nat) : Mux.thresholdFor o peerRwnd ≤ o.rwnd := by
  simp only [Mux.thresholdFor]; omega

/-- No stall: in every reachable state, a writer that is blocked for credit always has something
    still on its way — a `Push` in flight, a frame in the reader's queue, or an `Acknowledge` in
    flight. So some delivery or read is enabled whenever a writer waits. -/
theorem no_stall (W th : Nat) (hW : 0 < W) (hth : th ≤ W) (as : List Act)
    (hc : (run (init W th) as).credit = 0) :
    let s := run (init W th) as
    pushes s.wire ≠ [] ∨ s.rxq ≠ [] ∨ s.acks ≠ [] :=
  blocked_has_work _ (run_inv _ as (init_inv W th hW hth)) hc

/-- Equivalently: once the transport has delivered everything in flight and the reader has emptied
    its queue, the writer has credit — "quiescent with a blocked writer while its reader keeps
    reading" is unreachable. -/
theorem quiescent_has_credit (W th : Nat) (hW : 0 < W) (hth : th ≤ W) (as : List Act)
    (h1 : pushes (run (init W th) as).wire = []) (h2 : (run (init W th) as).rxq = [])
    (h3 : (run (init W th) as).acks = []) : 0 < (run (init W th) as).credit := by
  have := blocked_has_work _ (run_inv _ as (init_inv W th hW hth))
  cases hc : (run (init W th) as).credit with
  | zero => rcases this hc with h | h | h <;> contradiction
  | succ n => omega

/-- The measure: every enabled delivery, read of a queued frame, or acknowledgement delivery strictly
    decreases `3·|wire| + 2·|queue| + |acks|`; so at most that many such steps separate a blocked
    writer from the quiescent state above, in which it has credit. -/
theorem blocked_measure (s : St) (h : Inv s) (n : Nat) :
    (s.wire ≠ [] → mu (step s .deliver).1 < mu s) ∧
    (s.buf = [] → s.rxq ≠ [] → mu (step s (.read n)).1 < mu s) ∧
    (s.acks ≠ [] → mu (step s .deliverAck).1 < mu s) :=
  ⟨mu_deliver s, mu_read s n h, mu_deliverAck s⟩

open Penguin.Mux in
/-- Isolation: a stream whose reader is slow or absent delays only itself. Processing `Push`,
    `Acknowledge`, `Finish`, `Reset` or `Datagram` frames never parks the receive loop (the stream
    queue is filled with `try_send`, a full datagram queue drops): only `Connect` with a full accept
    queue or `Bind` with a full bind queue can, which is the property's premise that the application
    keeps accepting. -/
theorem isolation (e : EP) (f : Frame) (ig : Bool)
    (hf : (∀ a b c d, f ≠ .connect a b c d) ∧ (∀ a b c d, f ≠ .bind a b c d)) :
    (processFrame e f ig).1.park = e.park :=
  Mux.processFrame_no_park e f ig hf

open Penguin.Mux in
/-- A datagram that finds the queue full is dropped; nothing else in the endpoint changes. -/
theorem full_datagram_queue_drops (e : EP) (fid port : Nat) (host d : Bytes) (ig : Bool)
    (hm : e.muxAlive = true) (hfull : ¬ e.dgramq.length < e.opts.dgramCap) :
    processFrame e (.datagram fid port host d) ig = (e, [], none) := by
  simp [processFrame, hm, hfull]

open Penguin.Mux Penguin.Pair in
/-- No stall, for two whole endpoint models joined by FIFO wires (`Penguin.Pair`: every interleaving,
    every pair of options, any number of concurrent flows): in every reachable state, on every flow
    established on both endpoints, a writer at `a` that has no credit always has a `Push` of the flow in
    transit, a frame in the peer's receive queue, or an `Acknowledge` of the flow in transit back — so a
    transmission, a frame processing step or a read is enabled, each of which decreases `blocked_measure`. -/
theorem pair_no_stall {oa ob : Opts} {ra rb : List Nat} (c : Cfg oa ob ra rb) (as : List (Pair.Side × Pair.Act))
    {x i j : Nat} (e : Established (Pair.run (Pair.init oa ob ra rb) as) x i j)
    (oA : Obj) (hoA : (Pair.run (Pair.init oa ob ra rb) as).a.objs[i]? = some oA) (hc : oA.credit = 0) :
    let p := Pair.run (Pair.init oa ob ra rb) as
    pushesOf x (pathAB p) ≠ [] ∨ (∃ oB, p.b.objs[j]? = some oB ∧ oB.rxq ≠ []) ∨ acksOf x (pathBA p) ≠ [] :=
  established_blocked_has_work (reach_inv c as) e oA hoA hc

open Penguin.Mux Penguin.Pair in
/-- Every byte written becomes readable: in every reachable state of the pair, on every flow
    established on both endpoints, once nothing of the flow is in transit any more and the reader has
    emptied its queue and buffer, it has read exactly the bytes the writer's accepted writes carried —
    and (by `pair_no_stall`) a writer still without credit then has an `Acknowledge` on its way. What
    the harness's `written-not-readable` monitor samples on the real code. -/
theorem pair_all_written_is_read_at_quiescence {oa ob : Opts} {ra rb : List Nat} (c : Cfg oa ob ra rb)
    (as : List (Pair.Side × Pair.Act)) {x i j : Nat} (e : Established (Pair.run (Pair.init oa ob ra rb) as) x i j)
    (hq : pushesOf x (pathAB (Pair.run (Pair.init oa ob ra rb) as)) = [])
    (hr : ∀ oB, (Pair.run (Pair.init oa ob ra rb) as).b.objs[j]? = some oB → oB.buf = [] ∧ oB.rxq = []) :
    let p := Pair.run (Pair.init oa ob ra rb) as
    p.gb.rlog j = p.ga.wlog i := by
  obtain ⟨oB, hoB, hd, _⟩ := established_bytes (reach_inv c as) e
  obtain ⟨hb, hx⟩ := hr oB hoB
  rw [hq, hb, hx] at hd
  simpa using hd

/-! Non-vacuity of `pair_no_stall`: window 1, one write in flight — the writer has no credit and the
    `Push` is in transit. -/
private def pcfg1 : Mux.Opts := { rwnd := 1, threshold := 1 }
private def pacts1 : List (Pair.Side × Pair.Act) :=
  [(.A, .open 1 [104] 80), (.A, .xmit), (.B, .recv), (.B, .xmit), (.A, .recv), (.A, .runDone), (.B, .accept),
   (.A, .write 0 [1, 2, 3]), (.A, .xmit)]
example : Pair.Established (Pair.run (Pair.init pcfg1 pcfg1 [7, 8] [9, 10]) pacts1) 7 0 0 :=
  ⟨by decide, by decide, by decide, by decide, by decide⟩
example : ((Pair.run (Pair.init pcfg1 pcfg1 [7, 8] [9, 10]) pacts1).a.objs[0]?.map (·.credit)) = some 0 := by decide
example : Pair.pushesOf 7 (Pair.pathAB (Pair.run (Pair.init pcfg1 pcfg1 [7, 8] [9, 10]) pacts1)) = [[1, 2, 3]] := by decide

/-! Non-vacuity of `pair_all_written_is_read_at_quiescence`: the `Push` is processed and read. -/
private def pacts1r : List (Pair.Side × Pair.Act) := pacts1 ++ [(.B, .recv), (.B, .read 0 9)]
example : Pair.Established (Pair.run (Pair.init pcfg1 pcfg1 [7, 8] [9, 10]) pacts1r) 7 0 0 :=
  ⟨by decide, by decide, by decide, by decide, by decide⟩
example : Pair.pushesOf 7 (Pair.pathAB (Pair.run (Pair.init pcfg1 pcfg1 [7, 8] [9, 10]) pacts1r)) = [] ∧
    ((Pair.run (Pair.init pcfg1 pcfg1 [7, 8] [9, 10]) pacts1r).b.objs[0]?.map (fun o => (o.buf, o.rxq))) = some ([], []) ∧
    (Pair.run (Pair.init pcfg1 pcfg1 [7, 8] [9, 10]) pacts1r).gb.rlog 0 = [1, 2, 3] := by decide


/-! Non-vacuity: the configuration that stalled before the threshold fix (own window 4, default
    threshold 8, peer window 16) now gets threshold 4 and is covered by `no_stall`. -/
example : Mux.thresholdFor { rwnd := 4, threshold := 8 } 16 = 4 := by decide
example : (run (init 4 4) [.write [1], .write [2], .write [3], .write [4]]).credit = 0 := by decide
example : (run (init 4 4) [.write [1], .write [2], .write [3], .write [4], .deliver, .deliver, .deliver, .deliver,
    .read 9, .read 9, .read 9, .read 9, .deliverAck]).credit = 4 := by decide

end Penguin.C04
