/-
C20 — `CowBytes` and `LongChain` behave exactly like a plain byte sequence.
Property theorems only; every theorem here is audited (`#print axioms`) by bin/check.

`Inv c` : the cached total equals the number of bytes held and no segment is empty.
`abs c` : the plain byte vector the chain stands for.  `Spec.Vec.*` : the reference operations.
Every operation (1) refines its reference operation and keeps `Inv`, (2) panics only on an
out-of-range argument, and then leaves the receiver untouched, (3) on an out-of-range argument
either panics or leaves the value unchanged.  `run_refines` / `reachable_inv` lift this to every
operation sequence.

The operations are `LongChain`'s own mutators and the consuming methods a caller reaches through
`bytes::Buf` (`copy_to_bytes`, `copy_to_slice`, `get_u8`, `get_u16`, `get_u32`: the `bytes` crate's
default bodies over `remaining` / `chunk` / `advance`); the observing ones (`has_remaining`,
`chunks_vectored`) are characterised for every chain satisfying `Inv`, hence every reachable one.
-/
import Penguin.Model.Chain
import Penguin.Spec.Vec
import Penguin.Lemmas.Chain
import Penguin.Lemmas.ChainBuf

namespace Penguin.C20
open Penguin Penguin.Chain Penguin.Spec

/-! ### Refinement, operation by operation -/

theorem push_refines (c c' : Chain) (s : Seg) (hi : Inv c) (h : c.push s = .ok (c', ())) :
    Inv c' ∧ abs c' = Vec.append (abs c) s.bytes := by
  unfold Chain.push at h
  by_cases he : s.bytes = []
  · simp [he] at h; subst h; exact ⟨hi, by simp [Vec.append, he]⟩
  · simp [he] at h
    subst h
    obtain ⟨h1, h2⟩ := hi
    exact ⟨⟨by simp [h1], by simp [h2, he]⟩, by simp [abs, Vec.append]⟩

theorem insert_refines (c c' : Chain) (i : Nat) (s : Seg) (hi : Inv c) (h : c.insert i s = .ok (c', ())) :
    Inv c' ∧ abs c' = Vec.insertAt (abs c) (offset c i) s.bytes := by
  unfold Chain.insert at h
  by_cases he : s.bytes = []
  · simp [he] at h; subst h; exact ⟨hi, by simp [Vec.insertAt, he]⟩
  · by_cases hgt : i > c.segs.length
    · simp [he, hgt] at h
    simp [he, hgt] at h
    subst h
    obtain ⟨h1, h2⟩ := hi
    have ht : total c.segs = total (c.segs.take i) + total (c.segs.drop i) := by
      rw [← total_append, List.take_append_drop]
    have hf : flat c.segs = flat (c.segs.take i) ++ flat (c.segs.drop i) := by
      rw [← flat_append, List.take_append_drop]
    obtain ⟨e1, e2⟩ := take_drop_of_append hf (length_flat _)
    refine ⟨⟨by simp [h1, ht]; omega, ?_⟩, ?_⟩
    · simp [he, noEmpty_take _ _ h2, noEmpty_drop _ _ h2]
    · simp [abs, Vec.insertAt, offset, e1, e2]

theorem pop_refines (c c' : Chain) (o : Option Seg) (hi : Inv c) (h : c.pop = .ok (c', o)) :
    Inv c' ∧ abs c' = Vec.truncate (abs c) ((abs c).length - lastLen c) ∧
      o.map Seg.bytes = (if c.segs = [] then none else some (Vec.tail (abs c) (lastLen c))) ∧
      (∀ s, o = some s → s.bytes ≠ []) := by
  obtain ⟨h1, h2⟩ := hi
  unfold Chain.pop at h
  cases hg : c.segs.getLast? with
  | none =>
    have hnil : c.segs = [] := List.getLast?_eq_none_iff.mp hg
    simp [hg] at h
    obtain ⟨rfl, rfl⟩ := h
    exact ⟨⟨h1, h2⟩, by simp [abs, hnil, Vec.truncate], by simp [hnil], by simp⟩
  | some s =>
    obtain ⟨ys, hys⟩ := List.getLast?_eq_some_iff.mp hg
    simp [hg] at h
    obtain ⟨rfl, rfl⟩ := h
    rw [hys] at h2
    have hne := (noEmpty_append ys [s]).mp h2
    have hs : s.bytes ≠ [] := ((noEmpty_cons s []).mp hne.2).1
    have hf : abs c = flat ys ++ s.bytes := by simp [abs, hys]
    have hl : lastLen c = s.bytes.length := by simp [lastLen, hg]
    have hlen : (abs c).length - lastLen c = (flat ys).length := by simp [hf, hl]
    obtain ⟨e1, e2⟩ := take_drop_of_append hf rfl
    refine ⟨⟨by simp [h1, hys], by simp [hys]; exact hne.1⟩, ?_, ?_, ?_⟩
    · simp only [Vec.truncate, hlen, e1]; simp [abs, hys]
    · have : c.segs ≠ [] := by simp [hys]
      simp only [this, if_false, Vec.tail, hl]
      rw [← hl, hlen, e2]; rfl
    · intro s' hs'; cases hs'; exact hs

theorem remove_refines (c c' : Chain) (i : Nat) (s : Seg) (hi : Inv c) (h : c.remove i = .ok (c', s)) :
    Inv c' ∧ abs c' = Vec.removeRange (abs c) (offset c i) (segLen c i) ∧
      s.bytes = Vec.slice (abs c) (offset c i) (segLen c i) ∧ s.bytes ≠ [] := by
  obtain ⟨h1, h2⟩ := hi
  unfold Chain.remove at h
  cases hg : c.segs[i]? with
  | none => simp [hg] at h
  | some t =>
    simp [hg] at h
    obtain ⟨rfl, rfl⟩ := h
    obtain ⟨hlt, hget⟩ := List.getElem?_eq_some_iff.mp hg
    have hd : c.segs.drop i = t :: c.segs.drop (i + 1) := by
      rw [← hget]; exact List.drop_eq_getElem_cons hlt
    have hsplit : c.segs = c.segs.take i ++ t :: c.segs.drop (i + 1) := by
      rw [← hd, List.take_append_drop]
    have hne : NoEmpty (c.segs.take i) ∧ t.bytes ≠ [] ∧ NoEmpty (c.segs.drop (i + 1)) := by
      have := h2; rw [hsplit] at this
      have := (noEmpty_append _ _).mp this
      exact ⟨this.1, ((noEmpty_cons _ _).mp this.2).1, ((noEmpty_cons _ _).mp this.2).2⟩
    have ht : total c.segs = total (c.segs.take i) + (t.bytes.length + total (c.segs.drop (i + 1))) := by
      conv => lhs; rw [hsplit]
      simp
    have hf : abs c = flat (c.segs.take i) ++ (t.bytes ++ flat (c.segs.drop (i + 1))) := by
      unfold abs; conv => lhs; rw [hsplit]
      simp
    have hsl : segLen c i = t.bytes.length := by simp [segLen, hg]
    obtain ⟨e1, e2⟩ := take_drop_of_append hf (length_flat _)
    have hf2 : abs c = (flat (c.segs.take i) ++ t.bytes) ++ flat (c.segs.drop (i + 1)) := by
      rw [hf, List.append_assoc]
    obtain ⟨_, e4⟩ := take_drop_of_append (n := total (c.segs.take i) + t.bytes.length) hf2 (by simp)
    unfold offset
    rw [hsl]
    refine ⟨⟨by simp [h1, ht, List.eraseIdx_eq_take_drop_succ]; omega, ?_⟩, ?_, ?_, hne.2.1⟩
    · simp [List.eraseIdx_eq_take_drop_succ, hne.1, hne.2.2]
    · simp only [Vec.removeRange, e1, e4]
      simp [abs, List.eraseIdx_eq_take_drop_succ]
    · simp only [Vec.slice, e2]
      simp

theorem splitOff_refines (c c' p : Chain) (n : Nat) (hi : Inv c) (h : c.splitOff n = .ok (c', p)) :
    Inv c' ∧ Inv p ∧ (abs c', abs p) = Vec.splitOff (abs c) n ∧ n ≤ (abs c).length := by
  obtain ⟨hin, hout⟩ := splitOff_spec c n hi
  by_cases hle : n ≤ total c.segs
  · obtain ⟨c1, p1, e, i1, i2, hf, hn⟩ := hin hle
    rw [e] at h; simp at h; obtain ⟨rfl, rfl⟩ := h
    obtain ⟨e1, e2⟩ := take_drop_of_append (n := n) hf (by simp [abs, hn])
    exact ⟨i1, i2, by simp [Vec.splitOff, e1, e2], by simp [abs]; exact hle⟩
  · rw [hout (Nat.lt_of_not_le hle)] at h; simp at h

theorem splitTo_refines (c c' p : Chain) (n : Nat) (hi : Inv c) (h : c.splitTo n = .ok (c', p)) :
    Inv c' ∧ Inv p ∧ (abs c', abs p) = Vec.splitTo (abs c) n ∧ n ≤ (abs c).length := by
  unfold Chain.splitTo at h
  cases hs : c.splitOff n with
  | error e => simp [hs] at h
  | ok r =>
    obtain ⟨front, back⟩ := r
    simp [hs] at h
    obtain ⟨rfl, rfl⟩ := h
    obtain ⟨i1, i2, e, hn⟩ := splitOff_refines c _ _ n hi hs
    simp [Vec.splitOff] at e
    exact ⟨i2, i1, by simp [Vec.splitTo, e.1, e.2], hn⟩

theorem truncate_refines (c c' : Chain) (n : Nat) (hi : Inv c) (h : c.truncate n = .ok (c', ())) :
    Inv c' ∧ abs c' = Vec.truncate (abs c) n := by
  obtain ⟨hin, hout⟩ := truncate_spec c n hi
  by_cases hlt : n < total c.segs
  · obtain ⟨c1, e, i1, hf⟩ := hin hlt
    rw [e] at h; simp at h; subst h
    exact ⟨i1, by simp [Vec.truncate, hf]⟩
  · rw [hout (Nat.le_of_not_lt hlt)] at h; simp at h; subst h
    exact ⟨hi, by simp [Vec.truncate, abs, List.take_of_length_le (by simp; omega : (flat c.segs).length ≤ n)]⟩

theorem advance_refines (c c' : Chain) (n : Nat) (hi : Inv c) (h : c.advance n = .ok (c', ())) :
    Inv c' ∧ abs c' = Vec.advance (abs c) n ∧ n ≤ (abs c).length := by
  obtain ⟨hin, hout⟩ := advance_spec c n hi
  by_cases hle : n ≤ total c.segs
  · obtain ⟨c1, e, i1, hf⟩ := hin hle
    rw [e] at h; simp at h; subst h
    exact ⟨i1, by simp [Vec.advance, hf], by simp [abs]; exact hle⟩
  · rw [hout (Nat.lt_of_not_le hle)] at h; simp at h

theorem clear_refines (c c' : Chain) (h : c.clear = .ok (c', ())) :
    Inv c' ∧ abs c' = Vec.clear (abs c) := by
  simp [Chain.clear] at h; subst h
  exact ⟨by simp [Inv], rfl⟩

/-! ### The provided `Buf` methods that consume bytes -/

theorem copyToBytes_refines (c c' : Chain) (n : Nat) (b : Bytes) (hi : Inv c)
    (h : c.copyToBytes n = .ok (c', b)) :
    Inv c' ∧ (abs c', b) = Vec.copyOut (abs c) n ∧ n ≤ (abs c).length := by
  obtain ⟨hin, hout⟩ := copyToBytes_spec chain_lawful c n hi
  unfold Chain.copyToBytes at h
  by_cases hle : n ≤ (abs c).length
  · obtain ⟨c1, e, i1, hf⟩ := hin hle
    rw [e] at h; simp at h; obtain ⟨rfl, rfl⟩ := h
    exact ⟨i1, by simp [Vec.copyOut, hf], hle⟩
  · rw [hout (Nat.lt_of_not_le hle)] at h; simp at h

theorem copyToSlice_refines (c c' : Chain) (n : Nat) (b : Bytes) (hi : Inv c)
    (h : c.copyToSlice n = .ok (c', b)) :
    Inv c' ∧ (abs c', b) = Vec.copyOut (abs c) n ∧ n ≤ (abs c).length := by
  obtain ⟨hin, hout⟩ := copyToSlice_spec chain_lawful c n hi
  unfold Chain.copyToSlice at h
  by_cases hle : n ≤ (abs c).length
  · obtain ⟨c1, e, i1, hf⟩ := hin hle
    rw [e] at h; simp at h; obtain ⟨rfl, rfl⟩ := h
    exact ⟨i1, by simp [Vec.copyOut, hf], hle⟩
  · rw [hout (Nat.lt_of_not_le hle)] at h; simp at h

theorem getU8_refines (c c' : Chain) (v : UInt8) (hi : Inv c) (h : c.getU8 = .ok (c', v)) :
    Inv c' ∧ (abs c', v.toNat) = Vec.getBe (abs c) 1 ∧ 1 ≤ (abs c).length := by
  obtain ⟨hin, hout⟩ := getU8_spec chain_lawful c hi
  unfold Chain.getU8 at h
  cases ha : abs c with
  | nil => rw [hout ha] at h; simp at h
  | cons b t =>
    obtain ⟨c1, e, i1, hf⟩ := hin b t ha
    rw [e] at h; simp at h; obtain ⟨rfl, rfl⟩ := h
    exact ⟨i1, by simp [Vec.getBe, Vec.beValue, hf], by simp⟩

theorem getU16_refines (c c' : Chain) (v : UInt16) (hi : Inv c) (h : c.getU16 = .ok (c', v)) :
    Inv c' ∧ (abs c', v.toNat) = Vec.getBe (abs c) 2 ∧ 2 ≤ (abs c).length := by
  obtain ⟨hin, hout⟩ := getU16_spec chain_lawful c hi
  unfold Chain.getU16 at h
  by_cases hle : 2 ≤ (abs c).length
  · obtain ⟨c1, e, i1, hf⟩ := hin hle
    rw [e] at h; simp at h; obtain ⟨rfl, rfl⟩ := h
    exact ⟨i1, by rw [u16_value _ (by simp; omega)]; simp [Vec.getBe, hf], hle⟩
  · rw [hout (Nat.lt_of_not_le hle)] at h; simp at h

theorem getU32_refines (c c' : Chain) (v : UInt32) (hi : Inv c) (h : c.getU32 = .ok (c', v)) :
    Inv c' ∧ (abs c', v.toNat) = Vec.getBe (abs c) 4 ∧ 4 ≤ (abs c).length := by
  obtain ⟨hin, hout⟩ := getU32_spec chain_lawful c hi
  unfold Chain.getU32 at h
  by_cases hle : 4 ≤ (abs c).length
  · obtain ⟨c1, e, i1, hf⟩ := hin hle
    rw [e] at h; simp at h; obtain ⟨rfl, rfl⟩ := h
    exact ⟨i1, by rw [u32_value _ (by simp; omega)]; simp [Vec.getBe, hf], hle⟩
  · rw [hout (Nat.lt_of_not_le hle)] at h; simp at h

/-- Asking for more bytes than the chain holds panics, and the chain is left as it was. -/
theorem buf_past_end_panics (c : Chain) (hi : Inv c) :
    (∀ n, (abs c).length < n → c.copyToBytes n = .error ⟨c⟩ ∧ c.copyToSlice n = .error ⟨c⟩) ∧
    ((abs c).length < 1 → c.getU8 = .error ⟨c⟩) ∧
    ((abs c).length < 2 → c.getU16 = .error ⟨c⟩) ∧
    ((abs c).length < 4 → c.getU32 = .error ⟨c⟩) := by
  refine ⟨fun n h => ⟨(copyToBytes_spec chain_lawful c n hi).2 h, (copyToSlice_spec chain_lawful c n hi).2 h⟩,
    fun h => (getU8_spec chain_lawful c hi).2 (List.length_eq_zero_iff.mp (by omega)),
    (getU16_spec chain_lawful c hi).2, (getU32_spec chain_lawful c hi).2⟩

/-- A request within the contents is always served (no panic on an in-range argument). -/
theorem buf_in_range_ok (c : Chain) (hi : Inv c) :
    (∀ n, n ≤ (abs c).length → (∃ c', c.copyToBytes n = .ok (c', (abs c).take n)) ∧
      (∃ c', c.copyToSlice n = .ok (c', (abs c).take n))) ∧
    (1 ≤ (abs c).length → ∃ c' v, c.getU8 = .ok (c', v)) ∧
    (2 ≤ (abs c).length → ∃ c' v, c.getU16 = .ok (c', v)) ∧
    (4 ≤ (abs c).length → ∃ c' v, c.getU32 = .ok (c', v)) := by
  refine ⟨fun n h => ⟨?_, ?_⟩, fun h => ?_, fun h => ?_, fun h => ?_⟩
  · obtain ⟨c1, e, _⟩ := (copyToBytes_spec chain_lawful c n hi).1 h; exact ⟨c1, e⟩
  · obtain ⟨c1, e, _⟩ := (copyToSlice_spec chain_lawful c n hi).1 h; exact ⟨c1, e⟩
  · cases ha : abs c with
    | nil => simp [ha] at h
    | cons b t => obtain ⟨c1, e, _⟩ := (getU8_spec chain_lawful c hi).1 b t ha; exact ⟨c1, b, e⟩
  · obtain ⟨c1, e, _⟩ := (getU16_spec chain_lawful c hi).1 h; exact ⟨c1, _, e⟩
  · obtain ⟨c1, e, _⟩ := (getU32_spec chain_lawful c hi).1 h; exact ⟨c1, _, e⟩

/-! ### The provided `Buf` methods that only observe -/

/-- `has_remaining()` iff bytes remain. -/
theorem hasRemaining_refines (c : Chain) (hi : Inv c) :
    c.hasRemaining = Vec.hasRemaining (abs c) :=
  hasRemaining_spec chain_lawful c hi

/-- `chunks_vectored` with `k` slots: at most `k` slices, none empty, together a prefix of the
    contents, and at least one when there is a slot and bytes remain (so a `writev` loop makes
    progress). -/
theorem chunksVectored_refines (c : Chain) (k : Nat) (hi : Inv c) :
    (c.chunksVectored k).length ≤ k ∧ (∀ ch ∈ c.chunksVectored k, ch ≠ []) ∧
      (∃ t, abs c = (c.chunksVectored k).flatten ++ t) ∧
      (0 < k → abs c ≠ [] → c.chunksVectored k ≠ []) :=
  chunksVectored_spec chain_lawful c k hi

/-- All operations at once: the step keeps the invariant, does to the bytes what the reference
    operation does to the plain vector, returns what the reference returns, and a chain handed out by
    a split satisfies the invariant too. -/
theorem step_refines (c c' : Chain) (op : Op) (out : Out) (hi : Inv c) (h : c.step op = .ok (c', out)) :
    Inv c' ∧ abs c' = (refStep c (abs c) op).1 ∧ outAbs out = (refStep c (abs c) op).2 ∧
      (∀ p, out = .part p → Inv p) := by
  cases op with
  | push s =>
    cases hr : c.push s with
    | error e => simp [Chain.step, hr, Except.map] at h
    | ok r =>
      obtain ⟨c1, u⟩ := r
      simp [Chain.step, hr, Except.map] at h; obtain ⟨rfl, rfl⟩ := h
      obtain ⟨i1, e⟩ := push_refines c c1 s hi hr
      exact ⟨i1, e, rfl, by simp⟩
  | insert i s =>
    cases hr : c.insert i s with
    | error e => simp [Chain.step, hr, Except.map] at h
    | ok r =>
      obtain ⟨c1, u⟩ := r
      simp [Chain.step, hr, Except.map] at h; obtain ⟨rfl, rfl⟩ := h
      obtain ⟨i1, e⟩ := insert_refines c c1 i s hi hr
      exact ⟨i1, e, rfl, by simp⟩
  | pop =>
    cases hr : c.pop with
    | error e => simp [Chain.step, hr, Except.map] at h
    | ok r =>
      obtain ⟨c1, o⟩ := r
      simp [Chain.step, hr, Except.map] at h; obtain ⟨rfl, rfl⟩ := h
      obtain ⟨i1, e, eo, _⟩ := pop_refines c c1 o hi hr
      exact ⟨i1, e, by simp [outAbs, refStep, eo], by simp⟩
  | remove i =>
    cases hr : c.remove i with
    | error e => simp [Chain.step, hr, Except.map] at h
    | ok r =>
      obtain ⟨c1, s⟩ := r
      simp [Chain.step, hr, Except.map] at h; obtain ⟨rfl, rfl⟩ := h
      obtain ⟨i1, e, es, _⟩ := remove_refines c c1 i s hi hr
      exact ⟨i1, e, by simp [outAbs, refStep, ← es], by simp⟩
  | splitTo n =>
    cases hr : c.splitTo n with
    | error e => simp [Chain.step, hr, Except.map] at h
    | ok r =>
      obtain ⟨c1, p⟩ := r
      simp [Chain.step, hr, Except.map] at h; obtain ⟨rfl, rfl⟩ := h
      obtain ⟨i1, i2, e, _⟩ := splitTo_refines c c1 p n hi hr
      have e' := Prod.mk.inj e
      exact ⟨i1, by simp [refStep, Vec.splitTo, e'.1], by simp [outAbs, refStep, Vec.splitTo, e'.2],
        by intro q hq; cases hq; exact i2⟩
  | splitOff n =>
    cases hr : c.splitOff n with
    | error e => simp [Chain.step, hr, Except.map] at h
    | ok r =>
      obtain ⟨c1, p⟩ := r
      simp [Chain.step, hr, Except.map] at h; obtain ⟨rfl, rfl⟩ := h
      obtain ⟨i1, i2, e, _⟩ := splitOff_refines c c1 p n hi hr
      have e' := Prod.mk.inj e
      exact ⟨i1, by simp [refStep, Vec.splitOff, e'.1], by simp [outAbs, refStep, Vec.splitOff, e'.2],
        by intro q hq; cases hq; exact i2⟩
  | truncate n =>
    cases hr : c.truncate n with
    | error e => simp [Chain.step, hr, Except.map] at h
    | ok r =>
      obtain ⟨c1, u⟩ := r
      simp [Chain.step, hr, Except.map] at h; obtain ⟨rfl, rfl⟩ := h
      obtain ⟨i1, e⟩ := truncate_refines c c1 n hi hr
      exact ⟨i1, e, rfl, by simp⟩
  | advance n =>
    cases hr : c.advance n with
    | error e => simp [Chain.step, hr, Except.map] at h
    | ok r =>
      obtain ⟨c1, u⟩ := r
      simp [Chain.step, hr, Except.map] at h; obtain ⟨rfl, rfl⟩ := h
      obtain ⟨i1, e, _⟩ := advance_refines c c1 n hi hr
      exact ⟨i1, e, rfl, by simp⟩
  | clear =>
    cases hr : c.clear with
    | error e => simp [Chain.step, hr, Except.map] at h
    | ok r =>
      obtain ⟨c1, u⟩ := r
      simp [Chain.step, hr, Except.map] at h; obtain ⟨rfl, rfl⟩ := h
      obtain ⟨i1, e⟩ := clear_refines c c1 hr
      exact ⟨i1, e, rfl, by simp⟩
  | copyToBytes n =>
    cases hr : c.copyToBytes n with
    | error e => simp [Chain.step, hr, Except.map] at h
    | ok r =>
      obtain ⟨c1, b⟩ := r
      simp [Chain.step, hr, Except.map] at h; obtain ⟨rfl, rfl⟩ := h
      obtain ⟨i1, e, _⟩ := copyToBytes_refines c c1 n b hi hr
      have e1 := congrArg Prod.fst e
      have e2 := congrArg Prod.snd e
      exact ⟨i1, by simpa [refStep] using e1, by simpa [outAbs, refStep] using e2, by simp⟩
  | copyToSlice n =>
    cases hr : c.copyToSlice n with
    | error e => simp [Chain.step, hr, Except.map] at h
    | ok r =>
      obtain ⟨c1, b⟩ := r
      simp [Chain.step, hr, Except.map] at h; obtain ⟨rfl, rfl⟩ := h
      obtain ⟨i1, e, _⟩ := copyToSlice_refines c c1 n b hi hr
      have e1 := congrArg Prod.fst e
      have e2 := congrArg Prod.snd e
      exact ⟨i1, by simpa [refStep] using e1, by simpa [outAbs, refStep] using e2, by simp⟩
  | getU8 =>
    cases hr : c.getU8 with
    | error e => simp [Chain.step, hr, Except.map] at h
    | ok r =>
      obtain ⟨c1, v⟩ := r
      simp [Chain.step, hr, Except.map] at h; obtain ⟨rfl, rfl⟩ := h
      obtain ⟨i1, e, _⟩ := getU8_refines c c1 v hi hr
      have e1 := congrArg Prod.fst e
      have e2 := congrArg Prod.snd e
      exact ⟨i1, by simpa [refStep] using e1, by simpa [outAbs, refStep] using e2, by simp⟩
  | getU16 =>
    cases hr : c.getU16 with
    | error e => simp [Chain.step, hr, Except.map] at h
    | ok r =>
      obtain ⟨c1, v⟩ := r
      simp [Chain.step, hr, Except.map] at h; obtain ⟨rfl, rfl⟩ := h
      obtain ⟨i1, e, _⟩ := getU16_refines c c1 v hi hr
      have e1 := congrArg Prod.fst e
      have e2 := congrArg Prod.snd e
      exact ⟨i1, by simpa [refStep] using e1, by simpa [outAbs, refStep] using e2, by simp⟩
  | getU32 =>
    cases hr : c.getU32 with
    | error e => simp [Chain.step, hr, Except.map] at h
    | ok r =>
      obtain ⟨c1, v⟩ := r
      simp [Chain.step, hr, Except.map] at h; obtain ⟨rfl, rfl⟩ := h
      obtain ⟨i1, e, _⟩ := getU32_refines c c1 v hi hr
      have e1 := congrArg Prod.fst e
      have e2 := congrArg Prod.snd e
      exact ⟨i1, by simpa [refStep] using e1, by simpa [outAbs, refStep] using e2, by simp⟩

/-! ### Panics: only out of range, and the receiver is left as it was -/

theorem step_panics_only_out_of_range (c : Chain) (op : Op) (p : Panic Chain) (hi : Inv c)
    (h : c.step op = .error p) : ¬ InRange c op ∧ p.left = c := by
  have hlen : (abs c).length = total c.segs := by simp [abs]
  cases op with
  | push s =>
    simp only [Chain.step, Chain.push] at h
    split at h <;> simp [Except.map] at h
  | insert i s =>
    simp only [Chain.step, Chain.insert] at h
    split at h
    · simp [Except.map] at h
    · split at h
      · rename_i hgt
        simp [Except.map] at h; subst h
        exact ⟨by simp [InRange]; omega, rfl⟩
      · simp [Except.map] at h
  | pop =>
    simp only [Chain.step, Chain.pop] at h
    split at h <;> simp [Except.map] at h
  | remove i =>
    simp only [Chain.step, Chain.remove] at h
    split at h
    · rename_i hg
      simp [Except.map] at h; subst h
      have := List.getElem?_eq_none_iff.mp hg
      exact ⟨by simp [InRange]; omega, rfl⟩
    · simp [Except.map] at h
  | splitTo n =>
    obtain ⟨hin, hout⟩ := splitOff_spec c n hi
    by_cases hle : n ≤ total c.segs
    · obtain ⟨c1, p1, e, _⟩ := hin hle
      simp [Chain.step, Chain.splitTo, e, Except.map] at h
    · simp [Chain.step, Chain.splitTo, hout (Nat.lt_of_not_le hle), Except.map] at h; subst h
      exact ⟨by simp [InRange, hlen]; omega, rfl⟩
  | splitOff n =>
    obtain ⟨hin, hout⟩ := splitOff_spec c n hi
    by_cases hle : n ≤ total c.segs
    · obtain ⟨c1, p1, e, _⟩ := hin hle
      simp [Chain.step, e, Except.map] at h
    · simp [Chain.step, hout (Nat.lt_of_not_le hle), Except.map] at h; subst h
      exact ⟨by simp [InRange, hlen]; omega, rfl⟩
  | truncate n =>
    obtain ⟨hin, hout⟩ := truncate_spec c n hi
    by_cases hlt : n < total c.segs
    · obtain ⟨c1, e, _⟩ := hin hlt
      simp [Chain.step, e, Except.map] at h
    · simp [Chain.step, hout (Nat.le_of_not_lt hlt), Except.map] at h
  | advance n =>
    obtain ⟨hin, hout⟩ := advance_spec c n hi
    by_cases hle : n ≤ total c.segs
    · obtain ⟨c1, e, _⟩ := hin hle
      simp [Chain.step, e, Except.map] at h
    · simp [Chain.step, hout (Nat.lt_of_not_le hle), Except.map] at h; subst h
      exact ⟨by simp [InRange, hlen]; omega, rfl⟩
  | clear => simp [Chain.step, Chain.clear, Except.map] at h
  | copyToBytes n =>
    obtain ⟨hin, hout⟩ := copyToBytes_spec chain_lawful c n hi
    by_cases hle : n ≤ (abs c).length
    · obtain ⟨c1, e, _⟩ := hin hle
      simp [Chain.step, Chain.copyToBytes, e, Except.map] at h
    · simp [Chain.step, Chain.copyToBytes, hout (Nat.lt_of_not_le hle), Except.map] at h; subst h
      exact ⟨by simp [InRange]; omega, rfl⟩
  | copyToSlice n =>
    obtain ⟨hin, hout⟩ := copyToSlice_spec chain_lawful c n hi
    by_cases hle : n ≤ (abs c).length
    · obtain ⟨c1, e, _⟩ := hin hle
      simp [Chain.step, Chain.copyToSlice, e, Except.map] at h
    · simp [Chain.step, Chain.copyToSlice, hout (Nat.lt_of_not_le hle), Except.map] at h; subst h
      exact ⟨by simp [InRange]; omega, rfl⟩
  | getU8 =>
    obtain ⟨hin, hout⟩ := getU8_spec chain_lawful c hi
    cases ha : abs c with
    | nil =>
      simp [Chain.step, Chain.getU8, hout ha, Except.map] at h; subst h
      exact ⟨by simp [InRange, ha], rfl⟩
    | cons b t =>
      obtain ⟨c1, e, _⟩ := hin b t ha
      simp [Chain.step, Chain.getU8, e, Except.map] at h
  | getU16 =>
    obtain ⟨hin, hout⟩ := getU16_spec chain_lawful c hi
    by_cases hle : 2 ≤ (abs c).length
    · obtain ⟨c1, e, _⟩ := hin hle
      simp [Chain.step, Chain.getU16, e, Except.map] at h
    · simp [Chain.step, Chain.getU16, hout (Nat.lt_of_not_le hle), Except.map] at h; subst h
      exact ⟨by simp [InRange]; omega, rfl⟩
  | getU32 =>
    obtain ⟨hin, hout⟩ := getU32_spec chain_lawful c hi
    by_cases hle : 4 ≤ (abs c).length
    · obtain ⟨c1, e, _⟩ := hin hle
      simp [Chain.step, Chain.getU32, e, Except.map] at h
    · simp [Chain.step, Chain.getU32, hout (Nat.lt_of_not_le hle), Except.map] at h; subst h
      exact ⟨by simp [InRange]; omega, rfl⟩

/-- An out-of-range argument either panics (leaving the receiver as it was) or is ignored. -/
theorem step_out_of_range (c : Chain) (op : Op) (hi : Inv c) (h : ¬ InRange c op) :
    c.step op = .error ⟨c⟩ ∨ ∃ o, c.step op = .ok (c, o) := by
  have hlen : (abs c).length = total c.segs := by simp [abs]
  cases op with
  | push s =>
    simp [InRange] at h
    exact Or.inr ⟨.unit, by simp [Chain.step, Chain.push, h, Except.map]⟩
  | insert i s =>
    simp only [InRange] at h
    by_cases he : s.bytes = []
    · exact Or.inr ⟨.unit, by simp [Chain.step, Chain.insert, he, Except.map]⟩
    · have hgt : c.segs.length < i := Nat.lt_of_not_le fun hle => h ⟨hle, he⟩
      exact Or.inl (by simp [Chain.step, Chain.insert, he, hgt, Except.map])
  | pop => simp [InRange] at h
  | remove i =>
    simp [InRange] at h
    have : c.segs[i]? = none := List.getElem?_eq_none_iff.mpr h
    exact Or.inl (by simp [Chain.step, Chain.remove, this, Except.map])
  | splitTo n =>
    simp [InRange, hlen] at h
    exact Or.inl (by simp [Chain.step, Chain.splitTo, (splitOff_spec c n hi).2 h, Except.map])
  | splitOff n =>
    simp [InRange, hlen] at h
    exact Or.inl (by simp [Chain.step, (splitOff_spec c n hi).2 h, Except.map])
  | truncate n =>
    simp [InRange, hlen] at h
    exact Or.inr ⟨.unit, by simp [Chain.step, (truncate_spec c n hi).2 (Nat.le_of_lt h), Except.map]⟩
  | advance n =>
    simp [InRange, hlen] at h
    exact Or.inl (by simp [Chain.step, (advance_spec c n hi).2 h, Except.map])
  | clear => simp [InRange] at h
  | copyToBytes n =>
    simp [InRange] at h
    exact Or.inl (by simp [Chain.step, ((buf_past_end_panics c hi).1 n h).1, Except.map])
  | copyToSlice n =>
    simp [InRange] at h
    exact Or.inl (by simp [Chain.step, ((buf_past_end_panics c hi).1 n h).2, Except.map])
  | getU8 =>
    simp only [InRange, Nat.not_le] at h
    exact Or.inl (by simp [Chain.step, (buf_past_end_panics c hi).2.1 h, Except.map])
  | getU16 =>
    simp only [InRange, Nat.not_le] at h
    exact Or.inl (by simp [Chain.step, (buf_past_end_panics c hi).2.2.1 h, Except.map])
  | getU32 =>
    simp only [InRange, Nat.not_le] at h
    exact Or.inl (by simp [Chain.step, (buf_past_end_panics c hi).2.2.2 h, Except.map])

/-- An in-range argument is always accepted. -/
theorem step_in_range_ok (c : Chain) (op : Op) (hi : Inv c) (h : InRange c op) :
    ∃ c' o, c.step op = .ok (c', o) := by
  cases hs : c.step op with
  | error p => exact absurd h (step_panics_only_out_of_range c op p hi hs).1
  | ok r => exact ⟨r.1, r.2, rfl⟩

/-- `advance` past the end panics (the `Buf` contract), as do `split_to` / `split_off`. -/
theorem advance_past_end_panics (c : Chain) (n : Nat) (hi : Inv c) (h : (abs c).length < n) :
    c.advance n = .error ⟨c⟩ ∧ c.splitTo n = .error ⟨c⟩ ∧ c.splitOff n = .error ⟨c⟩ := by
  have hlen : (abs c).length = total c.segs := by simp [abs]
  rw [hlen] at h
  exact ⟨(advance_spec c n hi).2 h, by simp [Chain.splitTo, (splitOff_spec c n hi).2 h],
    (splitOff_spec c n hi).2 h⟩

/-- An over-long `truncate` and an empty `push` / `insert` are ignored. -/
theorem ignored_arguments (c : Chain) (hi : Inv c) :
    (∀ n, (abs c).length ≤ n → c.truncate n = .ok (c, ())) ∧
    (∀ s, s.bytes = [] → c.push s = .ok (c, ())) ∧
    (∀ i s, s.bytes = [] → c.insert i s = .ok (c, ())) := by
  have hlen : (abs c).length = total c.segs := by simp [abs]
  refine ⟨fun n h => (truncate_spec c n hi).2 (by omega), fun s h => by simp [Chain.push, h],
    fun i s h => by simp [Chain.insert, h]⟩

/-! ### Every operation sequence -/

/-- The lift to every operation sequence: after any sequence that does not panic the chain still
    satisfies the invariant, holds exactly the bytes of the plain vector subjected to the same
    operations, and has returned the same values. -/
theorem run_refines (ops : List Op) (c c' : Chain) (outs : List Out) (hi : Inv c)
    (h : c.run ops = .ok (c', outs)) :
    Inv c' ∧ (abs c', outs.map outAbs) = refRun c (abs c) ops ∧
      (∀ p, Out.part p ∈ outs → Inv p) := by
  induction ops generalizing c outs with
  | nil =>
    simp [Chain.run] at h; obtain ⟨rfl, rfl⟩ := h
    exact ⟨hi, by simp [refRun], by simp⟩
  | cons op ops ih =>
    simp only [Chain.run] at h
    cases hs : c.step op with
    | error p => simp [hs] at h
    | ok r =>
      obtain ⟨c1, o⟩ := r
      simp only [hs] at h
      cases hr : c1.run ops with
      | error e => obtain ⟨p, os⟩ := e; simp [hr] at h
      | ok r2 =>
        obtain ⟨c2, os⟩ := r2
        simp [hr] at h; obtain ⟨rfl, rfl⟩ := h
        obtain ⟨i1, e1, e2, e3⟩ := step_refines c c1 op o hi hs
        obtain ⟨i2, e4, e5⟩ := ih c1 os i1 hr
        have e4' := Prod.mk.inj e4
        refine ⟨i2, ?_, ?_⟩
        · simp only [refRun, hs, List.map_cons, ← e1, ← e2, ← e4'.1, ← e4'.2]
        · intro p hp
          simp at hp
          cases hp with
          | inl hp => exact e3 p hp.symm
          | inr hp => exact e5 p hp

/-- When a sequence ends in a panic, the value left behind (what a caller catching the unwind sees)
    still satisfies the invariant. -/
theorem run_panic_leaves_inv (ops : List Op) (c : Chain) (p : Panic Chain) (outs : List Out)
    (hi : Inv c) (h : c.run ops = .error (p, outs)) : Inv p.left := by
  induction ops generalizing c outs with
  | nil => simp [Chain.run] at h
  | cons op ops ih =>
    simp only [Chain.run] at h
    cases hs : c.step op with
    | error q =>
      simp [hs] at h
      obtain ⟨rfl, _⟩ := h
      rw [(step_panics_only_out_of_range c op q hi hs).2]; exact hi
    | ok r =>
      obtain ⟨c1, o⟩ := r
      simp only [hs] at h
      cases hr : c1.run ops with
      | error e =>
        obtain ⟨q, os⟩ := e
        simp [hr] at h; obtain ⟨rfl, _⟩ := h
        exact ih c1 os (step_refines c c1 op o hi hs).1 hr
      | ok r2 => obtain ⟨c2, os⟩ := r2; simp [hr] at h

/-- Every value a caller can ever hold (built from `new` by any operations, including the halves
    returned by splits and whatever a caught panic leaves behind) satisfies the invariant. -/
theorem reachable_inv (c : Chain) (h : Reachable c) : Inv c := by
  induction h with
  | new => simp [Inv, Chain.new]
  | step _ hs ih => exact (step_refines _ _ _ _ ih hs).1
  | part _ hs ih => exact (step_refines _ _ _ _ ih hs).2.2.2 _ rfl
  | left _ hs ih => rw [(step_panics_only_out_of_range _ _ _ ih hs).2]; exact ih

/-- Reported length = length of the contents = `remaining`; `is_empty` iff no bytes; the
    concatenation of the `as_ref()` segments is the contents. -/
theorem reachable_len (c : Chain) (h : Reachable c) :
    c.len = (abs c).length ∧ c.remaining = (abs c).length ∧ (c.isEmpty = true ↔ abs c = []) ∧
      flat c.asRef = abs c := by
  obtain ⟨h1, _⟩ := reachable_inv c h
  refine ⟨by simp [Chain.len, abs, h1], by simp [Chain.remaining, abs, h1], ?_, rfl⟩
  simp [Chain.isEmpty, h1, ← length_flat, abs, List.length_eq_zero_iff]

/-- The `Buf` contract: `chunk` is a non-empty prefix of the contents while bytes remain, and no
    segment exposed by `as_ref()` is empty. -/
theorem reachable_chunk (c : Chain) (h : Reachable c) :
    (abs c ≠ [] → c.chunk ≠ []) ∧ (∃ t, abs c = c.chunk ++ t) ∧ (∀ s ∈ c.asRef, s.asRef ≠ []) := by
  obtain ⟨_, h2⟩ := reachable_inv c h
  refine ⟨?_, ?_, fun s hs => by simpa using h2 s hs⟩
  · intro hne
    cases hc : c.segs with
    | nil => simp [abs, hc] at hne
    | cons s r =>
      have := h2 s (by simp [hc])
      simpa [Chain.chunk, hc] using this
  · cases hc : c.segs with
    | nil => exact ⟨[], by simp [abs, Chain.chunk, hc]⟩
    | cons s r => exact ⟨flat r, by simp [abs, Chain.chunk, hc]⟩

/-! ### `CowBytes` itself, and borrowed versus owned -/

/-- The `CowBytes` operations as operations on the bytes (the variant is kept). -/
theorem seg_ops_refine (s : Seg) (n : Nat) (h : n ≤ s.bytes.length) :
    s.splitTo n = .ok (⟨s.tag, (Vec.splitTo s.bytes n).1⟩, ⟨s.tag, (Vec.splitTo s.bytes n).2⟩) ∧
    s.splitOff n = .ok (⟨s.tag, (Vec.splitOff s.bytes n).1⟩, ⟨s.tag, (Vec.splitOff s.bytes n).2⟩) ∧
    s.truncate n = .ok (⟨s.tag, Vec.truncate s.bytes n⟩, ()) ∧
    s.advance n = .ok (⟨s.tag, Vec.advance s.bytes n⟩, ()) := by
  refine ⟨seg_splitTo_ok s n h, seg_splitOff_ok s n h, ?_, seg_advance_ok s n h⟩
  by_cases hlt : n < s.bytes.length
  · exact seg_truncate_lt s n hlt
  · have he : n = s.bytes.length := by omega
    cases s with
    | mk t b => cases t <;> simp [Seg.truncate, Vec.truncate, he]

/-- Past the end every `CowBytes` operation panics and leaves the value as it was, except
    `truncate` on the owned variant, which ignores the argument (`Bytes::truncate`). -/
theorem seg_ops_out_of_range (s : Seg) (n : Nat) (h : s.bytes.length < n) :
    s.splitTo n = .error ⟨s⟩ ∧ s.splitOff n = .error ⟨s⟩ ∧ s.advance n = .error ⟨s⟩ ∧
    (s.tag = .temporary → s.truncate n = .error ⟨s⟩) ∧ (s.tag = .static → s.truncate n = .ok (s, ())) := by
  refine ⟨seg_splitTo_err s n h, seg_splitOff_err s n h, seg_advance_err s n h, ?_, ?_⟩
  · intro ht; cases s with | mk t b => subst ht; simp [Seg.truncate] at h ⊢; exact h
  · intro ht; cases s with | mk t b => subst ht; simp [Seg.truncate] at h ⊢; omega

/-- Borrowed and owned values holding the same bytes are indistinguishable through every accessor,
    comparison and hash: each is a function of the bytes only. -/
theorem tag_irrelevant (s t : Seg) (h : s.bytes = t.bytes) :
    s.len = t.len ∧ s.isEmpty = t.isEmpty ∧ s.asRef = t.asRef ∧ s.chunk = t.chunk ∧
    s.remaining = t.remaining ∧ s.intoStatic = t.intoStatic ∧ s.hashInput = t.hashInput ∧
    (∀ u, s.beq u = t.beq u ∧ u.beq s = u.beq t ∧ s.partialCmp u = t.partialCmp u ∧
      u.partialCmp s = u.partialCmp t) := by
  simp [Seg.hashInput, Seg.beq, Seg.partialCmp, h]

/-- The `LongChain` operations never look at the variants: changing borrowed to owned or back
    (any re-tagging `f`) in the chain and in the argument changes nothing but the variants in the
    result, panics included. -/
theorem step_retag (f : Tag → Tag) (c : Chain) (op : Op) :
    (retagChain f c).step (retagOp f op) = retagRes f (c.step op) := by
  cases op with
  | push s =>
    by_cases he : s.bytes = [] <;>
      simp [Chain.step, retagOp, Chain.push, he, Except.map, retagRes, retagChain, retagOut]
  | insert i s =>
    by_cases he : s.bytes = []
    · simp [Chain.step, retagOp, Chain.insert, he, Except.map, retagRes, retagChain, retagOut]
    · by_cases hgt : i > c.segs.length <;>
        simp [Chain.step, retagOp, Chain.insert, he, hgt, Except.map, retagRes, retagChain, retagOut]
  | pop =>
    cases hg : c.segs.getLast? <;>
      simp [Chain.step, retagOp, Chain.pop, hg, Except.map, retagRes, retagChain, retagOut]
  | remove i =>
    cases hg : c.segs[i]? <;>
      simp [Chain.step, retagOp, Chain.remove, hg, Except.map, retagRes, retagChain, retagOut,
        List.eraseIdx_eq_take_drop_succ]
  | splitTo n =>
    simp only [Chain.step, retagOp, Chain.splitTo, splitOff_retag]
    cases c.splitOff n with
    | error e => simp [Except.map, retagRes]
    | ok v => obtain ⟨a, b⟩ := v; simp [Except.map, retagRes, retagOut]
  | splitOff n =>
    simp only [Chain.step, retagOp, splitOff_retag]
    cases c.splitOff n with
    | error e => simp [Except.map, retagRes]
    | ok v => obtain ⟨a, b⟩ := v; simp [Except.map, retagRes, retagOut]
  | truncate n =>
    simp only [Chain.step, retagOp, truncate_retag]
    cases c.truncate n with
    | error e => simp [Except.map, retagRes]
    | ok v => obtain ⟨a, u⟩ := v; simp [Except.map, retagRes, retagOut]
  | advance n =>
    simp only [Chain.step, retagOp, advance_retag]
    cases c.advance n with
    | error e => simp [Except.map, retagRes]
    | ok v => obtain ⟨a, u⟩ := v; simp [Except.map, retagRes, retagOut]
  | clear => simp [Chain.step, retagOp, Chain.clear, Except.map, retagRes, retagChain, retagOut]
  | copyToBytes n =>
    simp only [Chain.step, retagOp, Chain.copyToBytes, copyToBytes_commutes (retag_commutes f)]
    cases Chain.buf.copyToBytes c n with
    | error e => simp [Except.map, retagRes, mapRes]
    | ok v => obtain ⟨a, b⟩ := v; simp [Except.map, retagRes, mapRes, retagOut]
  | copyToSlice n =>
    simp only [Chain.step, retagOp, Chain.copyToSlice, copyToSlice_commutes (retag_commutes f)]
    cases Chain.buf.copyToSlice c n with
    | error e => simp [Except.map, retagRes, mapRes]
    | ok v => obtain ⟨a, b⟩ := v; simp [Except.map, retagRes, mapRes, retagOut]
  | getU8 =>
    simp only [Chain.step, retagOp, Chain.getU8, getU8_commutes (retag_commutes f)]
    cases Chain.buf.getU8 c with
    | error e => simp [Except.map, retagRes, mapRes]
    | ok v => obtain ⟨a, b⟩ := v; simp [Except.map, retagRes, mapRes, retagOut]
  | getU16 =>
    simp only [Chain.step, retagOp, Chain.getU16, getU16_commutes (retag_commutes f)]
    cases Chain.buf.getU16 c with
    | error e => simp [Except.map, retagRes, mapRes]
    | ok v => obtain ⟨a, b⟩ := v; simp [Except.map, retagRes, mapRes, retagOut]
  | getU32 =>
    simp only [Chain.step, retagOp, Chain.getU32, getU32_commutes (retag_commutes f)]
    cases Chain.buf.getU32 c with
    | error e => simp [Except.map, retagRes, mapRes]
    | ok v => obtain ⟨a, b⟩ := v; simp [Except.map, retagRes, mapRes, retagOut]

/-- `==` is equality of the bytes. -/
theorem seg_beq_iff (s t : Seg) : s.beq t = true ↔ s.bytes = t.bytes := by
  simp [Seg.beq]

/-- `partial_cmp` is the lexicographic order of the bytes. -/
theorem seg_cmp_spec (s t : Seg) :
    (s.partialCmp t = some .lt ↔ Vec.lexLt s.bytes t.bytes) ∧
    (s.partialCmp t = some .eq ↔ s.bytes = t.bytes) ∧
    (s.partialCmp t = some .gt ↔ Vec.lexLt t.bytes s.bytes) := by
  simp only [Seg.partialCmp, seg_asRef, Option.some.injEq]
  generalize s.bytes = a
  generalize t.bytes = b
  induction a generalizing b with
  | nil => cases b <;> simp [cmpBytes, Vec.lexLt]
  | cons x xs ih =>
    cases b with
    | nil => simp [cmpBytes, Vec.lexLt]
    | cons y ys =>
      simp only [cmpBytes, Vec.lexLt]
      by_cases h1 : x < y
      · have : ¬ y < x := fun h2 => absurd (UInt8.lt_trans h1 h2) (UInt8.lt_irrefl _)
        have hne : x ≠ y := fun e => by subst e; exact UInt8.lt_irrefl _ h1
        simp [h1, this, hne, Ne.symm hne]
      · by_cases h2 : y < x
        · have hne : x ≠ y := fun e => by subst e; exact UInt8.lt_irrefl _ h2
          simp [h1, h2, hne, Ne.symm hne]
        · have he : x = y := UInt8.le_antisymm (UInt8.not_lt.mp h2) (UInt8.not_lt.mp h1)
          subst he
          simp [h1, ih ys]

/-! ### `CowBytes` through the provided `Buf` methods -/

/-- In range, each consuming `Buf` method of a `CowBytes` is the vector operation on its bytes, with
    the variant kept. -/
theorem seg_buf_refine (s : Seg) :
    (∀ n, n ≤ s.bytes.length →
      s.copyToBytes n = .ok (⟨s.tag, (Vec.copyOut s.bytes n).1⟩, (Vec.copyOut s.bytes n).2) ∧
      s.copyToSlice n = .ok (⟨s.tag, (Vec.copyOut s.bytes n).1⟩, (Vec.copyOut s.bytes n).2)) ∧
    (1 ≤ s.bytes.length → ∃ v, s.getU8 = .ok (⟨s.tag, (Vec.getBe s.bytes 1).1⟩, v) ∧
      v.toNat = (Vec.getBe s.bytes 1).2) ∧
    (2 ≤ s.bytes.length → ∃ v, s.getU16 = .ok (⟨s.tag, (Vec.getBe s.bytes 2).1⟩, v) ∧
      v.toNat = (Vec.getBe s.bytes 2).2) ∧
    (4 ≤ s.bytes.length → ∃ v, s.getU32 = .ok (⟨s.tag, (Vec.getBe s.bytes 4).1⟩, v) ∧
      v.toNat = (Vec.getBe s.bytes 4).2) := by
  have L := seg_lawful s.tag
  refine ⟨fun n h => ⟨?_, ?_⟩, fun h => ?_, fun h => ?_, fun h => ?_⟩
  · obtain ⟨s1, e, t1, b1⟩ := (copyToBytes_spec L s n rfl).1 h
    cases s1; simp at t1 b1; subst t1 b1
    simpa [Seg.copyToBytes, Vec.copyOut] using e
  · obtain ⟨s1, e, t1, b1⟩ := (copyToSlice_spec L s n rfl).1 h
    cases s1; simp at t1 b1; subst t1 b1
    simpa [Seg.copyToSlice, Vec.copyOut] using e
  · cases hb : s.bytes with
    | nil => simp [hb] at h
    | cons b t =>
      obtain ⟨s1, e, t1, b1⟩ := (getU8_spec L s rfl).1 b t hb
      cases s1; simp at t1 b1; subst t1 b1
      exact ⟨b, by simpa [Seg.getU8, Vec.getBe] using e, by simp [Vec.getBe, Vec.beValue]⟩
  · obtain ⟨s1, e, t1, b1⟩ := (getU16_spec L s rfl).1 h
    cases s1; simp at t1 b1; subst t1 b1
    exact ⟨_, by simpa [Seg.getU16, Vec.getBe] using e, by rw [u16_value _ (by simp; omega)]; rfl⟩
  · obtain ⟨s1, e, t1, b1⟩ := (getU32_spec L s rfl).1 h
    cases s1; simp at t1 b1; subst t1 b1
    exact ⟨_, by simpa [Seg.getU32, Vec.getBe] using e, by rw [u32_value _ (by simp; omega)]; rfl⟩

/-- Past the end every consuming `Buf` method of a `CowBytes` panics and leaves the value as it was,
    whichever the variant. -/
theorem seg_buf_out_of_range (s : Seg) :
    (∀ n, s.bytes.length < n → s.copyToBytes n = .error ⟨s⟩ ∧ s.copyToSlice n = .error ⟨s⟩) ∧
    (s.bytes.length < 1 → s.getU8 = .error ⟨s⟩) ∧
    (s.bytes.length < 2 → s.getU16 = .error ⟨s⟩) ∧
    (s.bytes.length < 4 → s.getU32 = .error ⟨s⟩) := by
  have L := seg_lawful s.tag
  exact ⟨fun n h => ⟨(copyToBytes_spec L s n rfl).2 h, (copyToSlice_spec L s n rfl).2 h⟩,
    fun h => (getU8_spec L s rfl).2 (List.length_eq_zero_iff.mp (by omega)),
    (getU16_spec L s rfl).2, (getU32_spec L s rfl).2⟩

/-- The observing `Buf` methods of a `CowBytes` are functions of the bytes only: `has_remaining`
    iff it holds bytes, and `chunks_vectored` offers all of them as one slice (none when there is
    no slot or no byte). -/
theorem seg_buf_observers (s : Seg) (k : Nat) :
    s.hasRemaining = Vec.hasRemaining s.bytes ∧
    s.chunksVectored k = (if k = 0 ∨ s.bytes = [] then [] else [s.bytes]) := by
  have hr : s.hasRemaining = Vec.hasRemaining s.bytes := hasRemaining_spec (seg_lawful s.tag) s rfl
  refine ⟨hr, ?_⟩
  have hr' : Seg.buf.hasRemaining s = Vec.hasRemaining s.bytes := hr
  simp only [Seg.chunksVectored, BufImpl.chunksVectored, hr', Vec.hasRemaining]
  by_cases hk : k = 0
  · simp [hk]
  · cases hb : s.bytes with
    | nil => simp [hk]
    | cons b t => simp [hk, Seg.buf, hb]

/-- For every value a caller can hold: `has_remaining()` iff bytes remain, and `chunks_vectored`
    offers non-empty slices that form a prefix of the contents. -/
theorem reachable_buf (c : Chain) (k : Nat) (h : Reachable c) :
    c.hasRemaining = Vec.hasRemaining (abs c) ∧
    (c.chunksVectored k).length ≤ k ∧ (∀ ch ∈ c.chunksVectored k, ch ≠ []) ∧
      (∃ t, abs c = (c.chunksVectored k).flatten ++ t) ∧
      (0 < k → abs c ≠ [] → c.chunksVectored k ≠ []) :=
  ⟨hasRemaining_refines c (reachable_inv c h), chunksVectored_refines c k (reachable_inv c h)⟩

/-! ### Non-vacuity: the hypotheses are met by concrete non-trivial values -/

private def ex : Chain := ⟨[⟨.temporary, [1, 2]⟩, ⟨.static, [3, 4, 5]⟩], 5⟩

example : Inv ex := by decide
example : InRange ex (.splitOff 3) ∧ ¬ InRange ex (.splitOff 6) ∧ ¬ InRange ex (.push ⟨.static, []⟩) := by decide
example : ex.splitOff 3 = .ok (⟨[⟨.temporary, [1, 2]⟩, ⟨.static, [3]⟩], 3⟩, ⟨[⟨.static, [4, 5]⟩], 2⟩) := by decide
example : ex.truncate 100 = .ok (ex, ()) := by decide
example : ex.insert 3 ⟨.temporary, [9]⟩ = .error ⟨ex⟩ := by decide
example : (ex.push ⟨.temporary, []⟩) = .ok (ex, ()) := by decide
example : ex.run [.push ⟨.static, [6]⟩, .splitTo 1, .pop, .remove 0, .truncate 1] =
    .ok (⟨[⟨.static, [3]⟩], 1⟩,
      [.unit, .part ⟨[⟨.temporary, [1]⟩], 1⟩, .popped (some ⟨.static, [6]⟩), .removed ⟨.temporary, [2]⟩, .unit]) := by
  decide
example : Reachable ⟨[⟨.static, [7]⟩], 1⟩ :=
  .step (c := Chain.new) (op := .push ⟨.static, [7]⟩) (o := .unit) .new (by decide)
example : (⟨.temporary, [1, 2]⟩ : Seg).truncate 3 = .error ⟨⟨.temporary, [1, 2]⟩⟩ ∧
    (⟨.static, [1, 2]⟩ : Seg).truncate 3 = .ok (⟨.static, [1, 2]⟩, ()) := by decide
example : retagChain (fun _ => .static) ex = ⟨[⟨.static, [1, 2]⟩, ⟨.static, [3, 4, 5]⟩], 5⟩ := by decide
example : (⟨.temporary, [1, 2]⟩ : Seg).partialCmp ⟨.static, [1, 2, 0]⟩ = some .lt := by decide
/-- A value that violates the invariant (what the unrepaired `truncate` produced): the theorems'
    hypothesis `Inv` is not trivially true. -/
example : ¬ Inv ⟨[⟨.static, [1, 2, 3, 4, 5]⟩], 100⟩ := by decide
example : ¬ Inv ⟨[⟨.temporary, []⟩, ⟨.static, [1, 2]⟩], 2⟩ := by decide

/-! ### Non-vacuity for the provided `Buf` methods -/

/-- Evaluates the provided `Buf` methods (recursions on a measure, which `decide` does not unfold) on
    concrete values by rewriting with their defining equations. -/
local macro "buf_eval" : tactic => `(tactic|
  simp [ex, Chain.run, Chain.step, Except.map, Chain.copyToBytes, Chain.copyToSlice, Chain.getU8, Chain.getU16, Chain.getU32,
    Chain.hasRemaining, Chain.chunksVectored, Seg.copyToBytes, Seg.copyToSlice, Seg.getU8, Seg.getU16, Seg.getU32, Seg.buf,
    BufImpl.copyToBytes, BufImpl.copyToSlice, BufImpl.takeLoop, BufImpl.copyLoop, BufImpl.getU8, BufImpl.getU16,
    BufImpl.getU32, BufImpl.getFixed, BufImpl.hasRemaining, BufImpl.chunksVectored, fromBe,
    Chain.buf, Chain.remaining, Chain.chunk, Chain.advance, Chain.new, advLoop_cons, advLoop_zero, advLoop_nil_succ, seg_advance_ok, seg_advance_err])

example : ex.copyToBytes 3 = .ok (⟨[⟨.static, [4, 5]⟩], 2⟩, [1, 2, 3]) := by buf_eval
example : ex.copyToSlice 5 = .ok (⟨[], 0⟩, [1, 2, 3, 4, 5]) := by buf_eval
example : ex.copyToBytes 6 = .error ⟨ex⟩ ∧ ex.copyToSlice 6 = .error ⟨ex⟩ := by buf_eval
example : ex.getU8 = .ok (⟨[⟨.temporary, [2]⟩, ⟨.static, [3, 4, 5]⟩], 4⟩, 1) := by buf_eval
example : ex.getU16 = .ok (⟨[⟨.static, [3, 4, 5]⟩], 3⟩, 0x0102) := by buf_eval
example : ex.getU32 = .ok (⟨[⟨.static, [5]⟩], 1⟩, 0x01020304) := by buf_eval
example : (⟨[⟨.static, [1, 2, 3]⟩], 3⟩ : Chain).getU32 = .error ⟨⟨[⟨.static, [1, 2, 3]⟩], 3⟩⟩ := by buf_eval
example : ex.hasRemaining = true ∧ ex.chunksVectored 4 = [[1, 2]] ∧ ex.chunksVectored 0 = [] ∧
    Chain.new.hasRemaining = false ∧ Chain.new.chunksVectored 4 = [] := by buf_eval
example : ex.run [.getU8, .copyToBytes 2, .getU16] =
    .ok (⟨[], 0⟩, [.u8 1, .copied [2, 3], .u16 0x0405]) := by buf_eval
example : ex.run [.copyToSlice 4, .getU16] = .error (⟨⟨[⟨.static, [5]⟩], 1⟩⟩, [.copied [1, 2, 3, 4]]) := by buf_eval
example : (⟨.temporary, [1, 2, 3]⟩ : Seg).copyToBytes 2 = .ok (⟨.temporary, [3]⟩, [1, 2]) ∧
    (⟨.static, [1, 2, 3]⟩ : Seg).getU16 = .ok (⟨.static, [3]⟩, 0x0102) ∧
    (⟨.static, [1, 2, 3]⟩ : Seg).getU32 = .error ⟨⟨.static, [1, 2, 3]⟩⟩ := by buf_eval
/-- Without the invariant the statements fail: a chain whose cached total was deducted twice refuses
    bytes it holds. -/
example : (⟨[⟨.static, [5, 6]⟩], 0⟩ : Chain).copyToBytes 1 = .error ⟨⟨[⟨.static, [5, 6]⟩], 0⟩⟩ := by buf_eval
example : InRange ex .getU32 ∧ InRange ex (.copyToBytes 5) ∧ ¬ InRange ex (.copyToSlice 6) ∧ ¬ InRange Chain.new .getU8 := by decide
example : Vec.beValue [1, 2] = 0x0102 ∧ Vec.getBe [1, 2, 3, 4, 5] 4 = ([5], 0x01020304) ∧ Vec.copyOut [1, 2, 3] 2 = ([3], [1, 2]) := by decide

end Penguin.C20
