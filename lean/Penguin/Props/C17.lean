/-
C17 — TLS peers are authenticated exactly as configured.

Property theorems only.  Scope: the theorems are about penguin's *configuration / decision* logic
(`Penguin.Tls`, mirroring `tls/rustls.rs`, `tls/mod.rs`, `server/mod.rs`, `client/ws_connect.rs`) over
an ABSTRACT PKI: `pki.issuedBy` (X.509 path validation) and `pki.nameOk` (subject-name matching) are
uninterpreted, and the TLS handshake itself is MODELLED as "each side runs the verifier its
configuration selected".  rustls / rustls-webpki are trusted for those parts; the model is tied to
real certificates and real handshakes by the exhaustive 72-case matrix of `pvhf tls`.
-/
import Penguin.Model.Tls

namespace Penguin.C17
open Penguin.Tls

variable {Cert Ca Name : Type}

/- The per-arm facts re-extracted from `rustls.rs` (`Penguin.Gen.Tls`) are unfolded by `simp`: the
   theorems below are re-checked against what the source's match arms say on every run. -/
open Penguin.Constants in
attribute [local simp] verifierOf authOf tlsArmSkipCertEmptyVerifier tlsArmSkipCertClientAuth
  tlsArmSkipNoCertEmptyVerifier tlsArmVerifyCertEmptyVerifier tlsArmVerifyCertClientAuth
  tlsArmVerifyNoCertEmptyVerifier tlsClientAuthMandatory

/-! ### Client side -/

/-- The verifier is chosen by `--tls-skip-verify` alone (a client certificate does not influence
    it), the root store is the custom CA if one was given and the built-in roots otherwise, and the
    client certificate is loaded exactly when both `--tls-cert` and `--tls-key` were given. -/
theorem client_verifier_choice (pki : Pki Cert Ca Name) (a : ClientArgs Cert Ca) :
    ((makeClientConfig pki a).verifier =
        if a.skipVerify then ServerVerifier.empty else ServerVerifier.webpki (a.roots pki)) ∧
    (makeClientConfig pki a).clientAuth = a.loadedCert ∧
    (a.loadedCert = if a.tlsKey then a.tlsCert else none) ∧
    (a.roots pki = match a.tlsCa with | some ca => ca | none => pki.systemRoots) := by
  obtain ⟨cert, key, ca, skip⟩ := a
  cases skip <;> cases key <;> cases cert <;> cases ca <;>
    simp [makeClientConfig, tryLoadCertificate, ClientArgs.roots, ClientArgs.loadedCert, rootStore]

/-- A client accepts the server's chain iff it was told to skip verification, or the chain validates
    against the roots it was given and matches the requested server name. -/
theorem client_accepts_iff (pki : Pki Cert Ca Name) (cfg : ConnectArgs Cert Ca Name) (srvCert : Cert) :
    clientAccepts pki cfg srvCert = true ↔
      cfg.skipVerify = true ∨
      (pki.issuedBy srvCert (cfg.roots pki) = true ∧ pki.nameOk srvCert cfg.serverName = true) := by
  obtain ⟨⟨cert, key, ca, skip⟩, name⟩ := cfg
  cases skip <;> cases key <;> cases cert <;>
    simp [clientAccepts, makeClientConfig, tryLoadCertificate, verifyServerCert, ClientArgs.roots]

/-- With `--tls-skip-verify` any certificate is accepted, whatever roots and name were given. -/
theorem skip_accepts_any (pki : Pki Cert Ca Name) (cfg : ConnectArgs Cert Ca Name) (srvCert : Cert)
    (h : cfg.skipVerify = true) : clientAccepts pki cfg srvCert = true :=
  (client_accepts_iff pki cfg srvCert).mpr (Or.inl h)

/-- Without it, a chain that does not validate against the given roots, or does not match the
    requested name, is refused — in particular a custom CA replaces the built-in roots. -/
theorem no_skip_rejects (pki : Pki Cert Ca Name) (cfg : ConnectArgs Cert Ca Name) (srvCert : Cert)
    (h : cfg.skipVerify = false)
    (hbad : pki.issuedBy srvCert (cfg.roots pki) = false ∨ pki.nameOk srvCert cfg.serverName = false) :
    clientAccepts pki cfg srvCert = false := by
  cases hc : clientAccepts pki cfg srvCert with
  | false => rfl
  | true =>
    rcases (client_accepts_iff pki cfg srvCert).mp hc with hs | ⟨hi, hn⟩
    · rw [h] at hs; cases hs
    · rcases hbad with hb | hb
      · rw [hb] at hi; cases hi
      · rw [hb] at hn; cases hn

/-! ### Server side -/

/-- A server completes the handshake iff it has no client CA, or the client presents a certificate
    issued under that CA. -/
theorem server_accepts_iff (pki : Pki Cert Ca Name) (cfg : ServerArgs Cert Ca) (cliCert : Option Cert) :
    serverAccepts pki cfg cliCert = true ↔
      cfg.clientCa = none ∨
      ∃ ca c, cfg.clientCa = some ca ∧ cliCert = some c ∧ pki.issuedBy c ca = true := by
  obtain ⟨cert, clientCa⟩ := cfg
  cases clientCa with
  | none => simp [serverAccepts, makeServerConfig, verifyClient]
  | some ca =>
    cases he : pki.storeEmpty ca with
    | true =>
      have hno : ∀ c, pki.issuedBy c ca = false := fun c => pki.empty_issues_nothing c ca he
      simp [serverAccepts, makeServerConfig, he, hno]
    | false =>
      cases cliCert with
      | none => simp [serverAccepts, makeServerConfig, he, verifyClient, offersClientAuth]
      | some c => simp [serverAccepts, makeServerConfig, he, verifyClient, offersClientAuth]

/-- A certificate is requested exactly when a (non-empty) client CA is configured. -/
theorem server_asks_iff (pki : Pki Cert Ca Name) (cfg : ServerArgs Cert Ca) :
    serverAsks pki cfg = true ↔ ∃ ca, cfg.clientCa = some ca ∧ pki.storeEmpty ca = false := by
  obtain ⟨cert, clientCa⟩ := cfg
  cases clientCa with
  | none => simp [serverAsks, makeServerConfig, offersClientAuth]
  | some ca => cases he : pki.storeEmpty ca <;> simp [serverAsks, makeServerConfig, offersClientAuth, he]

/-- A server without a client CA never asks for a certificate, never sees one even if the client has
    one configured, and completes the handshake with every client. -/
theorem server_never_asks_without_ca (pki : Pki Cert Ca Name) (cfg : ServerArgs Cert Ca)
    (h : cfg.clientCa = none) :
    serverAsks pki cfg = false ∧
    (∀ sc, makeServerConfig pki cfg = .ok sc →
      offersClientAuth sc = false ∧ ∀ cc : ClientConfig Cert Ca, presented cc sc = none) ∧
    ∀ cliCert, serverAccepts pki cfg cliCert = true := by
  obtain ⟨cert, clientCa⟩ := cfg
  cases h
  refine ⟨by simp [serverAsks, makeServerConfig, offersClientAuth], ?_, ?_⟩
  · intro sc hsc
    simp only [makeServerConfig] at hsc
    cases hsc
    simp [offersClientAuth, presented]
  · intro cli
    simp [serverAccepts, makeServerConfig, verifyClient]

/-- With a client CA the certificate is mandatory: a client without one is refused. -/
theorem server_requires_cert_with_ca (pki : Pki Cert Ca Name) (cfg : ServerArgs Cert Ca) (ca : Ca)
    (h : cfg.clientCa = some ca) : serverAccepts pki cfg none = false := by
  cases hs : serverAccepts pki cfg none with
  | false => rfl
  | true =>
    rcases (server_accepts_iff pki cfg none).mp hs with hn | ⟨_, _, _, hc, _⟩
    · rw [h] at hn; cases hn
    · cases hc

/-! ### Which name is checked -/

/-- `--tls-server-name` over `--hostname` over the URL host; a `--hostname` that is not visible
    ASCII is an error even when `--tls-server-name` is given. -/
theorem serverName_choice {N : Type} (urlHost : N) (hostname : Option (Option N)) (sni : Option N) :
    chooseServerName urlHost hostname sni =
      match hostname, sni with
      | some none, _ => .error .invalidDomainName
      | _, some s => .ok s
      | some (some h), none => .ok h
      | none, none => .ok urlHost := by
  cases hostname with
  | none => cases sni <;> rfl
  | some h => cases h <;> cases sni <;> rfl

/-! ### Both sides -/

/-- A handshake completes iff the client accepts the server's chain *and* the server accepts what
    the client has to present. -/
theorem handshake_iff (pki : Pki Cert Ca Name) (cfg : Cfg Cert Ca Name) :
    handshakeOk pki cfg = true ↔
      clientAccepts pki cfg.client cfg.server.cert = true ∧
      serverAccepts pki cfg.server cfg.client.loadedCert = true := by
  obtain ⟨⟨⟨cert, key, ca, skip⟩, name⟩, ⟨scert, clientCa⟩⟩ := cfg
  have hcc : (makeClientConfig pki ⟨cert, key, ca, skip⟩).clientAuth = tryLoadCertificate key cert :=
    (client_verifier_choice pki ⟨cert, key, ca, skip⟩).2.1
  cases clientCa with
  | none =>
    cases hv : verifyServerCert pki (makeClientConfig pki ⟨cert, key, ca, skip⟩).verifier scert name <;>
      simp [handshakeOk, handshake, handshakeWith, makeServerConfig, clientAccepts, serverAccepts,
        verifyClient, hv]
  | some sca =>
    cases he : pki.storeEmpty sca with
    | true => simp [handshakeOk, handshake, makeServerConfig, serverAccepts, he]
    | false =>
      cases hv : verifyServerCert pki (makeClientConfig pki ⟨cert, key, ca, skip⟩).verifier scert name <;>
        rcases hl : tryLoadCertificate key cert with _ | c
      · simp [handshakeOk, handshake, handshakeWith, makeServerConfig, clientAccepts, he, hv]
      · simp [handshakeOk, handshake, handshakeWith, makeServerConfig, clientAccepts, he, hv]
      · simp [handshakeOk, handshake, handshakeWith, makeServerConfig, clientAccepts, serverAccepts,
          verifyClient, offersClientAuth, presented, ClientArgs.loadedCert, he, hv, hl, hcc]
      · cases hi : pki.issuedBy c sca <;>
          simp [handshakeOk, handshake, handshakeWith, makeServerConfig, clientAccepts, serverAccepts,
            verifyClient, offersClientAuth, presented, ClientArgs.loadedCert, he, hv, hl, hcc, hi]

/-- The property in one statement, over the raw arguments of both sides. -/
theorem handshake_iff_configured (pki : Pki Cert Ca Name) (cfg : Cfg Cert Ca Name) :
    handshakeOk pki cfg = true ↔
      (cfg.client.skipVerify = true ∨
        (pki.issuedBy cfg.server.cert (cfg.client.roots pki) = true ∧
         pki.nameOk cfg.server.cert cfg.client.serverName = true)) ∧
      (cfg.server.clientCa = none ∨
        ∃ ca c, cfg.server.clientCa = some ca ∧ cfg.client.loadedCert = some c ∧
          pki.issuedBy c ca = true) := by
  rw [handshake_iff, client_accepts_iff, server_accepts_iff]

/-- Which side refuses: the client's verdict comes first. -/
theorem handshake_outcome (pki : Pki Cert Ca Name) (cfg : Cfg Cert Ca Name) (sc : ServerConfig Cert Ca)
    (hsc : makeServerConfig pki cfg.server = .ok sc) :
    handshake pki cfg = .ok
      (if clientAccepts pki cfg.client cfg.server.cert = false then Outcome.clientRejects
       else if serverAccepts pki cfg.server cfg.client.loadedCert = false then Outcome.serverRejects
       else Outcome.ok) := by
  obtain ⟨⟨⟨cert, key, ca, skip⟩, name⟩, ⟨scert, clientCa⟩⟩ := cfg
  have hcc : (makeClientConfig pki ⟨cert, key, ca, skip⟩).clientAuth = tryLoadCertificate key cert :=
    (client_verifier_choice pki ⟨cert, key, ca, skip⟩).2.1
  have hcert : sc.cert = scert := by
    simp only [makeServerConfig] at hsc
    split at hsc
    · split at hsc
      · cases hsc
      · cases hsc; rfl
    · cases hsc; rfl
  simp only [handshake, hsc, handshakeWith, clientAccepts, serverAccepts, presented, hcert, hcc,
    ClientArgs.loadedCert]
  cases verifyServerCert pki (makeClientConfig pki ⟨cert, key, ca, skip⟩).verifier scert name <;>
    cases verifyClient pki sc (if offersClientAuth sc = true then tryLoadCertificate key cert else none) <;>
    simp

/-- `tls_connect` with a server name that does not parse never starts a handshake — also under
    `--tls-skip-verify` (skipping verification accepts any *certificate*, not any name syntax). -/
theorem connect_unparsable_name (pki : Pki Cert Ca Name) (a : ClientArgs Cert Ca)
    (sc : ServerConfig Cert Ca) : tlsConnect pki a none sc = .dnsName := rfl

/-! ### Identity reload -/

/-- Whatever happens later (reloads, failed reloads, further accepts), every session established
    before keeps the identity it was accepted with, at the same position. -/
theorem sessions_preserved {Id : Type} (l : Listener Id) (evs : List (Ev Id)) :
    ∃ later, (l.run evs).sessions = l.sessions ++ later := by
  induction evs generalizing l with
  | nil => exact ⟨[], by simp [Listener.run]⟩
  | cons e es ih =>
    obtain ⟨t, ht⟩ := ih (l.step e)
    have hstep : ∃ u, (l.step e).sessions = l.sessions ++ u := by
      cases e with
      | reload n => cases n <;> exact ⟨[], by simp [Listener.step]⟩
      | accept => exact ⟨[l.current], by simp [Listener.step]⟩
    obtain ⟨u, hu⟩ := hstep
    refine ⟨u ++ t, ?_⟩
    simp only [Listener.run, List.foldl_cons] at ht ⊢
    rw [ht, hu, List.append_assoc]

/-- The identity in force after a trace: the last successfully stored one, else the one before. -/
def lastStored {Id : Type} (dflt : Id) : List (Ev Id) → Id
  | [] => dflt
  | .reload (some n) :: es => lastStored n es
  | _ :: es => lastStored dflt es

theorem current_eq_lastStored {Id : Type} (l : Listener Id) (evs : List (Ev Id)) :
    (l.run evs).current = lastStored l.current evs := by
  induction evs generalizing l with
  | nil => rfl
  | cons e es ih =>
    simp only [Listener.run, List.foldl_cons] at ih ⊢
    rw [ih]
    cases e with
    | reload n => cases n <;> rfl
    | accept => rfl

/-- Replacing the identity changes what later handshakes see and nothing else: after a successful
    reload to `new`, followed by any events that do not store again (`mid`: accepts and failed
    reloads), the next accepted connection is served with `new`, while every session that existed
    before the reload still holds the identity it started with.  A failed reload changes nothing. -/
theorem reload_affects_only_later {Id : Type} (l : Listener Id) (new : Id) (mid : List (Ev Id))
    (hmid : ∀ e ∈ mid, e = .accept ∨ e = .reload none) :
    let after := ((l.step (.reload (some new))).run mid).step .accept
    (∃ later, after.sessions = l.sessions ++ later ++ [new]) ∧
    (l.step (.reload (some new))).sessions = l.sessions ∧
    l.step (.reload none) = l := by
  have hcur : ∀ (m : List (Ev Id)) (l' : Listener Id), (∀ e ∈ m, e = .accept ∨ e = .reload none) →
      (l'.run m).current = l'.current := by
    intro m
    induction m with
    | nil => intro l' _; rfl
    | cons e es ih =>
      intro l' h
      simp only [Listener.run, List.foldl_cons] at ih ⊢
      rw [ih _ (fun e he => h e (List.mem_cons_of_mem _ he))]
      rcases h e (List.mem_cons_self ..) with rfl | rfl <;> rfl
  refine ⟨?_, rfl, rfl⟩
  obtain ⟨later, hl⟩ := sessions_preserved (l.step (.reload (some new))) mid
  refine ⟨later, ?_⟩
  have hc := hcur mid (l.step (.reload (some new))) hmid
  simp only [Listener.step] at hl hc ⊢
  rw [hl, hc]

/-- Consequence for handshakes: the outcome of a connection accepted after the reload is computed
    against the new server configuration. -/
theorem handshake_after_reload_uses_new (pki : Pki Cert Ca Name) (l : Listener (ServerConfig Cert Ca))
    (new : ServerConfig Cert Ca) (cc : ClientConfig Cert Ca) (name : Name) :
    let after := (l.step (.reload (some new))).step .accept
    after.sessions.getLast?.map (handshakeWith pki cc name) = some (handshakeWith pki cc name new) := by
  simp [Listener.step]

/-! ### Returning clients (a client that keeps its TLS session store across connections)

"Later handshakes" includes those of clients that were connected before the reload and come back
offering the session ticket they were given.  Every stored configuration owns a fresh session cache
(`RListener`), so such a ticket is unknown to the configuration in force after a reload: the
handshake is a full one, judged by the new identity and the new client-CA policy. -/

/-- The model with session caches refines the listener model: forgetting caches and handshake kinds,
    it is the same run, so `sessions_preserved`, `current_eq_lastStored` and
    `reload_affects_only_later` speak about it too. -/
theorem rlistener_refines_listener {Id : Type} (l : RListener Id) (evs : List (REv Id)) :
    (l.run evs).toListener = l.toListener.run (evs.map REv.forget) := by
  induction evs generalizing l with
  | nil => rfl
  | cons e es ih =>
    simp only [RListener.run, Listener.run, List.foldl_cons, List.map_cons] at ih ⊢
    rw [ih]
    congr 1
    cases e with
    | reload n => cases n <;> rfl
    | accept t => simp [RListener.step, RListener.toListener, Listener.step, REv.forget]

/-- Cache numbers only grow, and the cache in the `ArcSwap` always belongs to a configuration that
    was built. -/
theorem rlistener_caches_monotone {Id : Type} (l : RListener Id) (evs : List (REv Id)) (h : l.WF) :
    (l.run evs).WF ∧ l.cache ≤ (l.run evs).cache ∧ l.built ≤ (l.run evs).built := by
  induction evs generalizing l with
  | nil => exact ⟨h, Nat.le_refl _, Nat.le_refl _⟩
  | cons e es ih =>
    have hstep : (l.step e).WF ∧ l.cache ≤ (l.step e).cache ∧ l.built ≤ (l.step e).built := by
      unfold RListener.WF at h ⊢
      cases e with
      | reload n => cases n <;> simp only [RListener.step] <;> omega
      | accept t => simp only [RListener.step]; omega
    obtain ⟨h1, h2, h3⟩ := ih (l.step e) hstep.1
    simp only [RListener.run, List.foldl_cons] at h1 h2 h3 ⊢
    exact ⟨h1, Nat.le_trans hstep.2.1 h2, Nat.le_trans hstep.2.2 h3⟩

/-- A handshake is resumed only with the ticket of the very configuration that serves it — i.e.
    only for a client that this same configuration (same identity, same client-CA policy) has
    already admitted. -/
theorem resumed_iff_ticket_of_current {Id : Type} (l : RListener Id) (t : Option Nat) :
    l.kindFor t = .resumed ↔ t = some l.cache := by
  unfold RListener.kindFor
  split <;> simp_all

/-- After a successful reload, whatever happens next (accepts, further reloads, failed reloads), a
    client offering a ticket issued before the reload (by any configuration built until then) does a
    full handshake. -/
theorem returning_client_full_after_reload {Id : Type} (l : RListener Id) (new : Id)
    (mid : List (REv Id)) (t : Nat) (ht : t < l.built) :
    ((l.step (.reload (some new))).run mid).kindFor (some t) = .full := by
  have hwf : (l.step (.reload (some new))).WF := by
    unfold RListener.WF; simp only [RListener.step]; omega
  obtain ⟨_, hc, _⟩ := rlistener_caches_monotone (l.step (.reload (some new))) mid hwf
  simp only [RListener.step] at hc
  unfold RListener.kindFor
  rw [if_neg]
  intro heq
  have : t = ((l.step (.reload (some new))).run mid).cache := Option.some.inj heq
  simp only [RListener.step] at this
  omega

/-- … and is therefore judged by the configuration in force when it comes back: its outcome is
    `handshakeWith` against that configuration (new certificate, new client-CA policy), which is
    `new` itself as long as nothing else was stored in between. -/
theorem returning_client_judged_under_new (pki : Pki Cert Ca Name) (l : RListener (ServerConfig Cert Ca))
    (new : ServerConfig Cert Ca) (mid : List (REv (ServerConfig Cert Ca))) (t : Nat)
    (ht : t < l.built) (cc : ClientConfig Cert Ca) (name : Name) :
    let l' := (l.step (.reload (some new))).run mid
    l'.acceptOutcome pki cc name (some t) = handshakeWith pki cc name l'.current ∧
    l'.current = lastStored new (mid.map REv.forget) := by
  refine ⟨?_, ?_⟩
  · simp only [RListener.acceptOutcome, returning_client_full_after_reload l new mid t ht]
  · have := congrArg Listener.current (rlistener_refines_listener (l.step (.reload (some new))) mid)
    rw [current_eq_lastStored] at this
    exact this

/-- A client without a remembered session always does a full handshake. -/
theorem fresh_client_full {Id : Type} (l : RListener Id) : l.kindFor none = .full := by
  simp [RListener.kindFor]

/-! ### Non-vacuity: concrete configurations over the finite PKI of the driver

CA labels: 1 = the CA the client trusts, 2 = another CA, 9 = a self-signed leaf's own label,
5 = the server's client CA, 6 = another client CA. -/

section Examples
open Penguin.Tls.Concrete

private def P := pki []
private def srvGood : Concrete.Cert := ⟨1, ["server.test"]⟩
private def srvOther : Concrete.Cert := ⟨2, ["server.test"]⟩
private def srvSelf : Concrete.Cert := ⟨9, ["server.test"]⟩
private def cliGood : Concrete.Cert := ⟨5, ["client"]⟩
private def cliOther : Concrete.Cert := ⟨6, ["client"]⟩
private def client (skip : Bool) (name : String) (cert : Option Concrete.Cert) :
    ConnectArgs Concrete.Cert Concrete.Ca String :=
  { tlsCert := cert, tlsKey := cert.isSome, tlsCa := some [1], skipVerify := skip, serverName := name }

-- both disjuncts of `client_accepts_iff` are inhabited, and so is its negation
example : clientAccepts P (client false "server.test" none) srvGood = true := by decide
example : clientAccepts P (client true "other.test" none) srvSelf = true := by decide
example : clientAccepts P (client false "other.test" none) srvGood = false := by decide
example : clientAccepts P (client false "server.test" none) srvOther = false := by decide
example : clientAccepts P (client false "server.test" none) srvSelf = false := by decide
-- no custom CA and no built-in roots: nothing validates; a self-signed leaf given as CA validates
example : clientAccepts P { (client false "server.test" none) with tlsCa := none } srvGood = false := by decide
example : clientAccepts P { (client false "server.test" none) with tlsCa := some [9] } srvSelf = true := by decide
-- server side
example : serverAccepts P ⟨srvGood, some [5]⟩ (some cliGood) = true := by decide
example : serverAccepts P ⟨srvGood, some [5]⟩ (some cliOther) = false := by decide
example : serverAccepts P ⟨srvGood, some [5]⟩ none = false := by decide
example : serverAccepts P ⟨srvGood, none⟩ (some cliOther) = true := by decide
example : serverAsks P ⟨srvGood, some [5]⟩ = true ∧ serverAsks P ⟨srvGood, none⟩ = false := by decide
example : makeServerConfig P ⟨srvGood, some []⟩ = .error .noRootAnchors := by decide
-- `--tls-cert` without `--tls-key` presents nothing
example : handshakeOk P ⟨{ (client false "server.test" (some cliGood)) with tlsKey := false },
    ⟨srvGood, some [5]⟩⟩ = false := by decide
-- whole handshakes: every outcome is reachable
example : handshake P ⟨client false "server.test" (some cliGood), ⟨srvGood, some [5]⟩⟩ = .ok .ok := by decide
example : handshake P ⟨client false "server.test" (some cliOther), ⟨srvGood, some [5]⟩⟩ = .ok .serverRejects := by decide
example : handshake P ⟨client false "nope.test" (some cliOther), ⟨srvGood, some [5]⟩⟩ = .ok .clientRejects := by decide
example : handshake P ⟨client true "nope.test" (some cliOther), ⟨srvSelf, none⟩⟩ = .ok .ok := by decide
-- name choice
example : chooseServerName "url" (some (some "host")) (some "sni") = .ok "sni" := by decide
example : chooseServerName "url" (some (some "host")) none = .ok "host" := by decide
example : chooseServerName "url" none none = .ok "url" := by decide
example : chooseServerName "url" (some none) (some "sni") = .error .invalidDomainName := by decide
-- reload: session 1 keeps identity 10, the connection accepted after the reload gets 20, a failed
-- reload in between changes nothing; the hypothesis of `reload_affects_only_later` is satisfiable
example : ((Listener.init 10).run [.accept, .reload (some 20), .reload none, .accept]).sessions = [10, 20] := by
  decide
example : ∀ e ∈ [Ev.accept, Ev.reload (none : Option Nat)], e = .accept ∨ e = .reload none := by
  intro e he
  simp only [List.mem_cons, List.mem_nil_iff, or_false] at he
  exact he
-- returning client: admitted under identity 10 (ticket of cache 0), resumes while 10 is in force
-- (also across a failed reload), does a full handshake after the reload to 20, and resumes again
-- with the ticket of cache 1; `rlistener_caches_monotone`'s hypothesis holds initially
example : ((RListener.init 10).run [.accept none, .accept (some 0), .reload none, .accept (some 0),
    .reload (some 20), .accept (some 0), .accept (some 1)]).sessions =
    [(10, .full), (10, .resumed), (10, .resumed), (20, .full), (20, .resumed)] := by decide
example : (RListener.init 10).WF ∧ 0 < (RListener.init 10).built := by
  simp [RListener.WF, RListener.init]
-- the client CA is switched on by a reload: a returning client without certificate, admitted
-- before, is refused afterwards although it offers its old ticket
example :
    let l := (RListener.init (⟨srvGood, .noClientAuth⟩ : ServerConfig Concrete.Cert Concrete.Ca)).run
      [.accept none, .reload (some ⟨srvGood, .webpki [5] true⟩)]
    let cc := makeClientConfig P (client true "server.test" none).toClientArgs
    (RListener.init (⟨srvGood, .noClientAuth⟩ : ServerConfig Concrete.Cert Concrete.Ca)).acceptOutcome P cc
        "server.test" none = .ok ∧
    l.acceptOutcome P cc "server.test" (some 0) = .serverRejects := by decide

end Examples

end Penguin.C17
