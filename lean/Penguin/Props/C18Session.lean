/-
C18 (continued; the handler is also an anchor of C01) — the client's SOCKS *session handler*
(`penguin/src/client/handle_remote/socks.rs`) uses the message readers and writers exactly as the
RFCs prescribe: whom it asks a tunnel for, what it answers and when, and what it does with the bytes
that arrive behind a request.  Property theorems only; every theorem here is audited by bin/check.

Vocabulary: `session ⟨bytes, eof⟩ env` (`Model/SocksSession.lean`) is one accepted connection: the
bytes the local client sends (and whether it then closes its sending side), and the answers `env` of
the handler's environment (`reserve()` works, the main loop yields a stream, the UDP bind).  The outcome
is the ordered trace of effects (`wrote`, `reserved`, `requested host port`, `gotStream`,
`relayStarted addr`, `relayAborted`), the number of bytes consumed, the bytes handed to the bridge, and
the result (`ok`, `err _`, `bridge`, `needMore`).  Dialogues are built by the independent builders of
`Spec.Rfc1928` / `Spec.Socks4a`; what the client reads is judged by `Spec.SocksClient`.
`requestRsv r rsv` is the RFC's request with an arbitrary reserved byte (`Rfc1928.request r` is
`requestRsv r 0`): the code does not look at it.
-/
import Penguin.Model.SocksSession
import Penguin.Spec.SocksClient
import Penguin.Lemmas.SocksSession
import Penguin.Props.C18

namespace Penguin.C18
open Penguin Penguin.Socks Penguin.SocksSession Penguin.Constants
open Penguin.Lemmas.Socks Penguin.Lemmas.SocksSession
open Penguin.Spec

/-! ## CONNECT: well-formed dialogues, any optimistic data, every answer of the environment -/

/-- SOCKS5, environment says yes.  For every method list containing NOAUTH (1..255 methods), every
    well-formed CONNECT request (IPv4 / domain of 0..255 octets / IPv6, any port, any reserved byte)
    and ANY bytes `t` behind it, stream ended or not: the handler writes exactly `05 00`, reserves,
    asks the main loop for exactly one tunnel to exactly the request's (address, port), and only after
    the stream is there writes exactly the RFC's success reply (`REP = 00`, `BND = 0.0.0.0:0`); it has
    consumed exactly greeting + request, and exactly `t` goes to the tunnel through the bridge. -/
theorem session_connect5_wellformed (ms : Bytes) (hl : ms.length ≤ 255) (h0 : (0 : UInt8) ∈ ms)
    (r : Rfc1928.Request) (hr : r.wf) (hc : r.cmd = 1) (rsv : UInt8) (t : Bytes) (eof : Bool)
    (env : Env) (hres : env.reserveOk = true) (hst : env.streamOk = true) :
    session ⟨Rfc1928.greeting ms ++ requestRsv r rsv ++ t, eof⟩ env
      = ⟨[.wrote (Rfc1928.methodSelection 0x00), .reserved, .requested (hostOf r.addr) r.port,
          .gotStream, .wrote (Rfc1928.reply 0x00 (.ipv4 0 0 0 0) 0)],
         (Rfc1928.greeting ms ++ requestRsv r rsv).length, t, .bridge⟩ := by
  rw [List.append_assoc, session_greeting ms hl, if_pos h0, socks5Request_run r hr, dispatch5_run]
  simp [hc, connectRun, hres, hst]

/-- The same for the request exactly as RFC 1928 builds it (`RSV = 00`). -/
theorem session_connect5_wellformed_rfc (ms : Bytes) (hl : ms.length ≤ 255) (h0 : (0 : UInt8) ∈ ms)
    (r : Rfc1928.Request) (hr : r.wf) (hc : r.cmd = 1) (t : Bytes) (eof : Bool)
    (env : Env) (hres : env.reserveOk = true) (hst : env.streamOk = true) :
    session ⟨Rfc1928.greeting ms ++ Rfc1928.request r ++ t, eof⟩ env
      = ⟨[.wrote (Rfc1928.methodSelection 0x00), .reserved, .requested (hostOf r.addr) r.port,
          .gotStream, .wrote (Rfc1928.reply 0x00 (.ipv4 0 0 0 0) 0)],
         (Rfc1928.greeting ms ++ Rfc1928.request r).length, t, .bridge⟩ :=
  session_connect5_wellformed ms hl h0 r hr hc 0 t eof env hres hst

/-- SOCKS5, the main loop does not deliver a stream: the tunnel was requested, and NOTHING is written
    after the method selection — no failure reply either (the handler returns the fatal error
    `MainLoopExitWithoutSendingStream`; the client just sees the connection end). -/
theorem session_open_failed5 (ms : Bytes) (hl : ms.length ≤ 255) (h0 : (0 : UInt8) ∈ ms)
    (r : Rfc1928.Request) (hr : r.wf) (hc : r.cmd = 1) (rsv : UInt8) (t : Bytes) (eof : Bool)
    (env : Env) (hres : env.reserveOk = true) (hst : env.streamOk = false) :
    session ⟨Rfc1928.greeting ms ++ requestRsv r rsv ++ t, eof⟩ env
      = ⟨[.wrote (Rfc1928.methodSelection 0x00), .reserved, .requested (hostOf r.addr) r.port],
         (Rfc1928.greeting ms ++ requestRsv r rsv).length, [], .err .fatalMainLoopExit⟩ := by
  rw [List.append_assoc, session_greeting ms hl, if_pos h0, socks5Request_run r hr, dispatch5_run]
  simp [hc, connectRun, hres, hst]

/-- SOCKS5, the main loop is gone (`reserve()` fails): no tunnel is requested, nothing is written
    after the method selection, `RequestStream`. -/
theorem session_reserve_failed5 (ms : Bytes) (hl : ms.length ≤ 255) (h0 : (0 : UInt8) ∈ ms)
    (r : Rfc1928.Request) (hr : r.wf) (hc : r.cmd = 1) (rsv : UInt8) (t : Bytes) (eof : Bool)
    (env : Env) (hres : env.reserveOk = false) :
    session ⟨Rfc1928.greeting ms ++ requestRsv r rsv ++ t, eof⟩ env
      = ⟨[.wrote (Rfc1928.methodSelection 0x00)],
         (Rfc1928.greeting ms ++ requestRsv r rsv).length, [], .err .fatalRequestStream⟩ := by
  rw [List.append_assoc, session_greeting ms hl, if_pos h0, socks5Request_run r hr, dispatch5_run]
  simp [hc, connectRun, hres]

/-- SOCKS4 (destination an IPv4 address that is not the 4a marker, any NUL-free user id), any bytes
    `t` behind the request: nothing is written before the stream is there, then exactly the 8-byte
    "request granted" reply (`CD = 90`); one tunnel to exactly (`DSTIP`, `DSTPORT`); `t` to the bridge. -/
theorem session_connect4_wellformed (r : Socks4a.Request4) (hr : r.wf) (hc : r.cmd = 1) (t : Bytes)
    (eof : Bool) (env : Env) (hres : env.reserveOk = true) (hst : env.streamOk = true) :
    session ⟨Socks4a.request4 r ++ t, eof⟩ env
      = ⟨[.reserved, .requested ⟨.ipv4, [r.a, r.b, r.c, r.d]⟩ r.port, .gotStream,
          .wrote (Socks4a.reply4 90)],
         (Socks4a.request4 r).length, t, .bridge⟩ := by
  rw [socks4_run_request4 r hr, dispatch4_run]
  simp [hc, connectRun, hres, hst]

/-- SOCKS4a (marker `0.0.0.x`, NUL-free user id and domain name, empty ones included). -/
theorem session_connect4a_wellformed (r : Socks4a.Request4a) (hr : r.wf) (hc : r.cmd = 1)
    (t : Bytes) (eof : Bool) (env : Env) (hres : env.reserveOk = true) (hst : env.streamOk = true) :
    session ⟨Socks4a.request4a r ++ t, eof⟩ env
      = ⟨[.reserved, .requested ⟨.domain, r.domain⟩ r.port, .gotStream, .wrote (Socks4a.reply4 90)],
         (Socks4a.request4a r).length, t, .bridge⟩ := by
  rw [socks4_run_request4a r hr, dispatch4_run]
  simp [hc, connectRun, hres, hst]

/-- SOCKS4 / 4a, no stream: the tunnel was requested and nothing at all is written (no `CD = 91`). -/
theorem session_open_failed4 (r : Socks4a.Request4) (hr : r.wf) (hc : r.cmd = 1) (t : Bytes)
    (eof : Bool) (env : Env) (hres : env.reserveOk = true) (hst : env.streamOk = false) :
    session ⟨Socks4a.request4 r ++ t, eof⟩ env
      = ⟨[.reserved, .requested ⟨.ipv4, [r.a, r.b, r.c, r.d]⟩ r.port],
         (Socks4a.request4 r).length, [], .err .fatalMainLoopExit⟩ := by
  rw [socks4_run_request4 r hr, dispatch4_run]
  simp [hc, connectRun, hres, hst]

theorem session_open_failed4a (r : Socks4a.Request4a) (hr : r.wf) (hc : r.cmd = 1) (t : Bytes)
    (eof : Bool) (env : Env) (hres : env.reserveOk = true) (hst : env.streamOk = false) :
    session ⟨Socks4a.request4a r ++ t, eof⟩ env
      = ⟨[.reserved, .requested ⟨.domain, r.domain⟩ r.port],
         (Socks4a.request4a r).length, [], .err .fatalMainLoopExit⟩ := by
  rw [socks4_run_request4a r hr, dispatch4_run]
  simp [hc, connectRun, hres, hst]

theorem session_reserve_failed4 (r : Socks4a.Request4) (hr : r.wf) (hc : r.cmd = 1) (t : Bytes)
    (eof : Bool) (env : Env) (hres : env.reserveOk = false) :
    session ⟨Socks4a.request4 r ++ t, eof⟩ env
      = ⟨[], (Socks4a.request4 r).length, [], .err .fatalRequestStream⟩ := by
  rw [socks4_run_request4 r hr, dispatch4_run]
  simp [hc, connectRun, hres]

/-- Reported, not prettified: when the tunnel cannot be obtained the SOCKS5 client that sent a
    well-formed CONNECT is told NOTHING beyond `05 00` — RFC 1928 section 6 has a reply with a failure
    code for this (`REP = 01` and up), the handler sends none and just returns the fatal error.  (A
    witness; `session_open_failed5` / `4` state it for all requests.) -/
theorem session_open_failure_sends_no_reply :
    ∃ (inp : Input) (env : Env), (session inp env).requests ≠ [] ∧
      (session inp env).result = .err .fatalMainLoopExit ∧
      SocksClient.clientReads5 (session inp env).written = some (.method 0x00) :=
  ⟨⟨[5, 1, 0, 5, 1, 0, 1, 10, 0, 0, 1, 0, 80], true⟩, ⟨true, false, .bindFails⟩, by decide⟩

/-! ## Refusals -/

/-- A method list without `NO AUTHENTICATION REQUIRED` (0..255 methods), whatever follows: exactly
    `05 FF`, no tunnel, `OtherAuth`. -/
theorem session_no_noauth (ms : Bytes) (hl : ms.length ≤ 255) (h0 : (0 : UInt8) ∉ ms) (X : Bytes)
    (eof : Bool) (env : Env) :
    session ⟨Rfc1928.greeting ms ++ X, eof⟩ env
      = ⟨[.wrote (Rfc1928.methodSelection 0xFF)], (Rfc1928.greeting ms).length, [],
         .err .otherAuth⟩ := by
  rw [session_greeting ms hl, if_neg h0]

/-- SOCKS5 BIND or any command other than CONNECT and UDP ASSOCIATE: after the method selection
    exactly the RFC's reply "command not supported" (`REP = 07`), then `InvalidCommand`; no tunnel,
    no relay, whatever the environment. -/
theorem session_unsupported_command5 (ms : Bytes) (hl : ms.length ≤ 255) (h0 : (0 : UInt8) ∈ ms)
    (r : Rfc1928.Request) (hr : r.wf) (hc1 : r.cmd ≠ 1) (hc3 : r.cmd ≠ 3) (rsv : UInt8) (t : Bytes)
    (eof : Bool) (env : Env) :
    session ⟨Rfc1928.greeting ms ++ requestRsv r rsv ++ t, eof⟩ env
      = ⟨[.wrote (Rfc1928.methodSelection 0x00), .wrote (Rfc1928.reply 0x07 (.ipv4 0 0 0 0) 0)],
         (Rfc1928.greeting ms ++ requestRsv r rsv).length, [],
         .err (.socks (.invalidCommand r.cmd))⟩ := by
  rw [List.append_assoc, session_greeting ms hl, if_pos h0, socks5Request_run r hr, dispatch5_run]
  simp [hc1, hc3]

/-- SOCKS4 BIND or any command other than CONNECT: exactly the reply "rejected or failed"
    (`CD = 91`), no tunnel. -/
theorem session_unsupported_command4 (r : Socks4a.Request4) (hr : r.wf) (hc : r.cmd ≠ 1) (t : Bytes)
    (eof : Bool) (env : Env) :
    session ⟨Socks4a.request4 r ++ t, eof⟩ env
      = ⟨[.wrote (Socks4a.reply4 91)], (Socks4a.request4 r).length, [],
         .err (.socks (.invalidCommand r.cmd))⟩ := by
  rw [socks4_run_request4 r hr, dispatch4_run]
  simp [hc]

theorem session_unsupported_command4a (r : Socks4a.Request4a) (hr : r.wf) (hc : r.cmd ≠ 1)
    (t : Bytes) (eof : Bool) (env : Env) :
    session ⟨Socks4a.request4a r ++ t, eof⟩ env
      = ⟨[.wrote (Socks4a.reply4 91)], (Socks4a.request4a r).length, [],
         .err (.socks (.invalidCommand r.cmd))⟩ := by
  rw [socks4_run_request4a r hr, dispatch4_run]
  simp [hc]

/-- Any first byte other than 4 and 5: nothing written, nothing requested, `SocksVersion(v)`. -/
theorem session_unknown_version (v : UInt8) (h4 : v ≠ 4) (h5 : v ≠ 5) (rest : Bytes) (eof : Bool)
    (env : Env) :
    session ⟨v :: rest, eof⟩ env = ⟨[], 1, [], .err (.socks (.reader (.version v)))⟩ := by
  rw [session_cons, if_neg h4, if_neg h5]

/-! ## UDP ASSOCIATE -/

/-- The relay's socket is bound at `a` (IPv4 or IPv6): the relay is started, the reply is the RFC's
    success reply carrying exactly `a`, and the handler waits on the TCP connection. -/
theorem session_associate_waits (ms : Bytes) (hl : ms.length ≤ 255) (h0 : (0 : UInt8) ∈ ms)
    (r : Rfc1928.Request) (hr : r.wf) (hc : r.cmd = 3) (rsv : UInt8) (env : Env) (a : SockAddr)
    (hu : env.udp = .bound a) (ha : a.wf) :
    session ⟨Rfc1928.greeting ms ++ requestRsv r rsv, false⟩ env
      = ⟨[.wrote (Rfc1928.methodSelection 0x00), .relayStarted a,
          .wrote (Rfc1928.reply 0x00 (addrOf a) (portOf a))],
         (Rfc1928.greeting ms ++ requestRsv r rsv).length, [], .needMore⟩ := by
  have h1 := session_greeting ms hl (requestRsv r rsv) false env
  have h2 := socks5Request_run r hr rsv [] false env (Rfc1928.greeting ms).length
    [.wrote (Rfc1928.methodSelection 0x00)]
  rw [List.append_nil] at h2
  rw [h1, if_pos h0, h2, dispatch5_run]
  simp [hc, assocRun, hu, writeResponse5_eq_rfc 0 a ha]

/-- The association ends — relay aborted, `Ok(())` — as soon as the client closes the TCP connection
    OR sends any further byte on it (one byte is consumed and thrown away; the rest is never read). -/
theorem session_associate_ends (ms : Bytes) (hl : ms.length ≤ 255) (h0 : (0 : UInt8) ∈ ms)
    (r : Rfc1928.Request) (hr : r.wf) (hc : r.cmd = 3) (rsv : UInt8) (t : Bytes) (eof : Bool)
    (env : Env) (a : SockAddr) (hu : env.udp = .bound a) (ha : a.wf) (h : t ≠ [] ∨ eof = true) :
    session ⟨Rfc1928.greeting ms ++ requestRsv r rsv ++ t, eof⟩ env
      = ⟨[.wrote (Rfc1928.methodSelection 0x00), .relayStarted a,
          .wrote (Rfc1928.reply 0x00 (addrOf a) (portOf a)), .relayAborted],
         (Rfc1928.greeting ms ++ requestRsv r rsv).length + min 1 t.length, [], .ok⟩ := by
  rw [List.append_assoc, session_greeting ms hl, if_pos h0, socks5Request_run r hr, dispatch5_run]
  cases t with
  | nil =>
    have he : eof = true := by simpa using h
    simp [hc, assocRun, hu, he, writeResponse5_eq_rfc 0 a ha]
  | cons x t' =>
    simp [hc, assocRun, hu, writeResponse5_eq_rfc 0 a ha]

/-- The UDP bind fails: exactly the RFC's "general SOCKS server failure" reply (`REP = 01`), no
    relay, the error names the bind. -/
theorem session_associate_bind_failed (ms : Bytes) (hl : ms.length ≤ 255) (h0 : (0 : UInt8) ∈ ms)
    (r : Rfc1928.Request) (hr : r.wf) (hc : r.cmd = 3) (rsv : UInt8) (t : Bytes) (eof : Bool)
    (env : Env) (hu : env.udp = .bindFails) :
    session ⟨Rfc1928.greeting ms ++ requestRsv r rsv ++ t, eof⟩ env
      = ⟨[.wrote (Rfc1928.methodSelection 0x00), .wrote (Rfc1928.reply 0x01 (.ipv4 0 0 0 0) 0)],
         (Rfc1928.greeting ms ++ requestRsv r rsv).length, [], .err (.socks .bindUdp)⟩ := by
  rw [List.append_assoc, session_greeting ms hl, if_pos h0, socks5Request_run r hr, dispatch5_run]
  simp [hc, assocRun, hu]

theorem session_associate_local_addr_failed (ms : Bytes) (hl : ms.length ≤ 255)
    (h0 : (0 : UInt8) ∈ ms) (r : Rfc1928.Request) (hr : r.wf) (hc : r.cmd = 3) (rsv : UInt8)
    (t : Bytes) (eof : Bool) (env : Env) (hu : env.udp = .localAddrFails) :
    session ⟨Rfc1928.greeting ms ++ requestRsv r rsv ++ t, eof⟩ env
      = ⟨[.wrote (Rfc1928.methodSelection 0x00), .wrote (Rfc1928.reply 0x01 (.ipv4 0 0 0 0) 0)],
         (Rfc1928.greeting ms ++ requestRsv r rsv).length, [], .err (.socks .udpLocalAddr)⟩ := by
  rw [List.append_assoc, session_greeting ms hl, if_pos h0, socks5Request_run r hr, dispatch5_run]
  simp [hc, assocRun, hu]

/-! ## For EVERY input: tunnels only for well-formed CONNECT requests -/

/-- Whenever the handler asks the main loop for a tunnel — on any input whatever, stream ended or
    not, any environment — what it had consumed IS a well-formed dialogue: a SOCKS5 greeting offering
    NOAUTH followed by a well-formed CONNECT request (up to the reserved byte), or a well-formed
    SOCKS4 / SOCKS4a CONNECT request with its NUL terminators; exactly one tunnel is requested, to
    exactly that request's target.  So: never for a truncated or malformed request, an unknown
    version, another command, or without NOAUTH offered. -/
theorem session_requests_only_wellformed (inp : Input) (env : Env)
    (h : (session inp env).requests ≠ []) :
    env.reserveOk = true ∧
    ((∃ ms r rsv rest, ms.length ≤ 255 ∧ (0 : UInt8) ∈ ms ∧ Rfc1928.Request.wf r ∧ r.cmd = 1 ∧
        inp.bytes = Rfc1928.greeting ms ++ requestRsv r rsv ++ rest ∧
        (session inp env).requests = [(hostOf r.addr, r.port)]) ∨
     (∃ (r : Socks4a.Request4) (rest : Bytes), r.wf ∧ r.cmd = 1 ∧
        inp.bytes = Socks4a.request4 r ++ rest ∧
        (session inp env).requests = [(⟨.ipv4, [r.a, r.b, r.c, r.d]⟩, r.port)]) ∨
     (∃ (r : Socks4a.Request4a) (rest : Bytes), r.wf ∧ r.cmd = 1 ∧
        inp.bytes = Socks4a.request4a r ++ rest ∧
        (session inp env).requests = [(⟨.domain, r.domain⟩, r.port)])) := by
  obtain ⟨b, eof⟩ := inp
  cases shape b eof env with
  | empty hb =>
    subst hb
    exact absurd (by simp [session_nil, Outcome.requests, requests]) h
  | badVersion v rest hb h4 h5 =>
    subst hb
    exact absurd (by simp [session_unknown_version v h4 h5, Outcome.requests, requests]) h
  | short4 rest hb res hres hs => exact absurd (by simp [hs, Outcome.requests, requests]) h
  | shortMethods rest hb res hres hs => exact absurd (by simp [hs, Outcome.requests, requests]) h
  | noNoauth ms X hl h0 hb =>
    subst hb
    exact absurd (by simp [session_no_noauth ms hl h0, Outcome.requests, requests]) h
  | shortRequest ms X hl h0 hb w hw res hres hs =>
    exact absurd (by
      rw [hs]
      show requests (Event.wrote _ :: wroteIf w) = []
      rw [show Event.wrote (Rfc1928.methodSelection 0x00) :: wroteIf w
            = [Event.wrote (Rfc1928.methodSelection 0x00)] ++ wroteIf w from rfl, requests_append,
        requests_wroteIf]
      simp [requests]) h
  | req4 r X hr hb =>
    subst hb
    have hs := socks4_run_request4 r hr X eof env
    rw [dispatch4_run] at hs
    by_cases hc : r.cmd = 1
    · simp only [hc, if_true] at hs
      rw [hs, connectRun_requests] at h ⊢
      by_cases hres : env.reserveOk = true
      · refine ⟨hres, Or.inr (Or.inl ⟨r, X, hr, hc, rfl, ?_⟩)⟩
        simp [hres, requests]
      · simp [hres, requests] at h
    · simp only [hc, if_false] at hs
      exact absurd (by simp [hs, Outcome.requests, requests]) h
  | req4a r X hr hb =>
    subst hb
    have hs := socks4_run_request4a r hr X eof env
    rw [dispatch4_run] at hs
    by_cases hc : r.cmd = 1
    · simp only [hc, if_true] at hs
      rw [hs, connectRun_requests] at h ⊢
      by_cases hres : env.reserveOk = true
      · refine ⟨hres, Or.inr (Or.inr ⟨r, X, hr, hc, rfl, ?_⟩)⟩
        simp [hres, requests]
      · simp [hres, requests] at h
    · simp only [hc, if_false] at hs
      exact absurd (by simp [hs, Outcome.requests, requests]) h
  | req5 ms r rsv Y hl h0 hr hb =>
    subst hb
    have hs := session_request5 ms hl h0 r hr rsv Y eof env
    rw [dispatch5_run] at hs
    by_cases hc : r.cmd = 1
    · simp only [hc, if_true] at hs
      rw [hs, connectRun_requests] at h ⊢
      by_cases hres : env.reserveOk = true
      · refine ⟨hres, Or.inl ⟨ms, r, rsv, Y, hl, h0, hr, hc, rfl, ?_⟩⟩
        simp [hres, requests]
      · simp [hres, requests] at h
    · by_cases hc3 : r.cmd = 3
      · simp only [hc3, show ((3 : UInt8) = 1) = False by decide, if_false, if_true] at hs
        exact absurd (by rw [hs, assocRun_requests]; simp [requests]) h
      · simp only [hc, hc3, if_false] at hs
        exact absurd (by rw [hs]; simp [Outcome.requests, requests]) h

/-- At the moment a tunnel is requested the client has been sent nothing but the method selection
    `05 00` (SOCKS5) or nothing at all (SOCKS4): no reply, in particular no success reply, precedes
    the request — for every input and environment. -/
theorem session_nothing_but_method_before_request (inp : Input) (env : Env)
    (h : (session inp env).requests ≠ []) :
    written (beforeRequest (session inp env).trace) = [] ∨
      written (beforeRequest (session inp env).trace) = Rfc1928.methodSelection 0x00 := by
  obtain ⟨hres, hcase⟩ := session_requests_only_wellformed inp env h
  obtain ⟨b, eof⟩ := inp
  rcases hcase with ⟨ms, r, rsv, rest, hl, h0, hr, hc, hb, _⟩ | ⟨r, rest, hr, hc, hb, _⟩ |
      ⟨r, rest, hr, hc, hb, _⟩
  · simp only at hb
    subst hb
    right
    rw [List.append_assoc, session_greeting ms hl, if_pos h0, socks5Request_run r hr, dispatch5_run]
    simp only [hc, if_true]
    rw [connectRun_beforeRequest _ _ _ _ _ _ _ (by simp [requests]) hres]
    simp [written, writes]
  · simp only at hb
    subst hb
    left
    rw [socks4_run_request4 r hr, dispatch4_run]
    simp only [hc, if_true]
    rw [connectRun_beforeRequest _ _ _ _ _ _ _ (by simp [requests]) hres]
    simp [written, writes]
  · simp only at hb
    subst hb
    left
    rw [socks4_run_request4a r hr, dispatch4_run]
    simp only [hc, if_true]
    rw [connectRun_beforeRequest _ _ _ _ _ _ _ (by simp [requests]) hres]
    simp [written, writes]

/-! ## Truncated dialogues and chunking -/

/-- SOCKS5: on every strict prefix `p` of a well-formed dialogue (greeting offering NOAUTH + request,
    any command) the handler, with the stream open, is waiting: it has requested no tunnel, started
    no relay, and written nothing (inside the greeting) or exactly the method selection `05 00`
    (greeting complete) — a prefix of whatever it writes in the end.  If the client closes there, the
    same state ends in an unexpected-EOF error: nothing more is written, nothing is requested. -/
theorem session_prefix_needMore5 (ms : Bytes) (hl : ms.length ≤ 255) (h0 : (0 : UInt8) ∈ ms)
    (r : Rfc1928.Request) (hr : r.wf) (rsv : UInt8) (p q : Bytes)
    (hpq : Rfc1928.greeting ms ++ requestRsv r rsv = p ++ q) (hq : q ≠ []) (env : Env) :
    ∃ tr c, ((p.length < (Rfc1928.greeting ms).length ∧ tr = []) ∨
             ((Rfc1928.greeting ms).length ≤ p.length ∧
                tr = [.wrote (Rfc1928.methodSelection 0x00)])) ∧
      session ⟨p, false⟩ env = ⟨tr, c, [], .needMore⟩ ∧
      ∃ ctx, session ⟨p, true⟩ env = ⟨tr, c, [], .err (.socks (.reader (.eof ctx)))⟩ := by
  rcases List.append_eq_append_iff.mp hpq with ⟨c', hp, hreq⟩ | ⟨a', hg, hq'⟩
  · -- `p` = greeting + a strict prefix of the request
    subst hp
    obtain ⟨h1, ctx, h2⟩ := read5_prefix_rsv r hr rsv c' q hreq hq
    unfold read5 at h1 h2
    refine ⟨[.wrote (Rfc1928.methodSelection 0x00)], (Rfc1928.greeting ms).length,
      Or.inr ⟨by simp, rfl⟩, ?_, ctx, ?_⟩
    · rw [session_greeting ms hl, if_pos h0]
      simp [socks5Request, Sess.run, h1]
    · rw [session_greeting ms hl, if_pos h0]
      simp [socks5Request, Sess.run, h2]
  · -- `p` ends inside the greeting (or exactly at its end)
    by_cases ha : a' = []
    · subst ha
      simp only [List.append_nil] at hg
      subst hg
      simp only [List.nil_append] at hq'
      obtain ⟨h1, ctx, h2⟩ := read5_prefix_rsv r hr rsv [] q (by simpa using hq'.symm) hq
      unfold read5 at h1 h2
      refine ⟨[.wrote (Rfc1928.methodSelection 0x00)], (Rfc1928.greeting ms).length,
        Or.inr ⟨Nat.le_refl _, rfl⟩, ?_, ctx, ?_⟩
      · have := session_greeting ms hl [] false env
        rw [List.append_nil] at this
        rw [this, if_pos h0]
        simp [socks5Request, Sess.run, h1]
      · have := session_greeting ms hl [] true env
        rw [List.append_nil] at this
        rw [this, if_pos h0]
        simp [socks5Request, Sess.run, h2]
    · have hlen : p.length < (Rfc1928.greeting ms).length := by
        have e1 := congrArg List.length hg
        have e2 : 0 < a'.length := List.length_pos_iff.mpr ha
        rw [List.length_append] at e1
        omega
      cases p with
      | nil =>
        exact ⟨[], 0, Or.inl ⟨hlen, rfl⟩, by simp [session_nil], .version, by simp [session_nil]⟩
      | cons v p' =>
        have hv : v = 5 ∧ (Rfc1928.greeting ms).drop 1 = p' ++ a' := by
          simp only [Rfc1928.greeting, List.cons_append, List.cons.injEq] at hg
          exact ⟨hg.1.symm, by simpa [Rfc1928.greeting] using hg.2⟩
        obtain ⟨rfl, hd⟩ := hv
        obtain ⟨h1, ctx, h2⟩ := authMethods_prefix_needMore_or_error ms hl p' a' hd ha
        unfold readMethods at h1 h2
        refine ⟨[], 1, Or.inl ⟨hlen, rfl⟩, ?_, ctx, ?_⟩
        · simp [session_cons, socks5, Sess.run, h1]
        · simp [session_cons, socks5, Sess.run, h2]

/-- SOCKS4: on every strict prefix of a well-formed request the handler waits, having written
    nothing and requested nothing; closed there, it returns an unexpected-EOF error. -/
theorem session_prefix_needMore4 (r : Socks4a.Request4) (hr : r.wf) (p q : Bytes)
    (hpq : Socks4a.request4 r = p ++ q) (hq : q ≠ []) (env : Env) :
    ∃ c, session ⟨p, false⟩ env = ⟨[], c, [], .needMore⟩ ∧
      ∃ ctx, session ⟨p, true⟩ env = ⟨[], c, [], .err (.socks (.reader (.eof ctx)))⟩ := by
  cases p with
  | nil => exact ⟨0, by simp [session_nil], .version, by simp [session_nil]⟩
  | cons v p' =>
    have hv : v = 4 ∧ (Socks4a.request4 r).drop 1 = p' ++ q := by
      simp [Socks4a.request4] at hpq ⊢
      exact ⟨hpq.1.symm, hpq.2⟩
    obtain ⟨rfl, hd⟩ := hv
    obtain ⟨h1, ctx, h2⟩ := read4_prefix_needMore_or_error r hr p' q hd hq
    unfold read4 at h1 h2
    exact ⟨1, by simp [session_cons, socks4, Sess.run, h1], ctx,
      by simp [session_cons, socks4, Sess.run, h2]⟩

theorem session_prefix_needMore4a (r : Socks4a.Request4a) (hr : r.wf) (p q : Bytes)
    (hpq : Socks4a.request4a r = p ++ q) (hq : q ≠ []) (env : Env) :
    ∃ c, session ⟨p, false⟩ env = ⟨[], c, [], .needMore⟩ ∧
      ∃ ctx, session ⟨p, true⟩ env = ⟨[], c, [], .err (.socks (.reader (.eof ctx)))⟩ := by
  cases p with
  | nil => exact ⟨0, by simp [session_nil], .version, by simp [session_nil]⟩
  | cons v p' =>
    have hv : v = 4 ∧ (Socks4a.request4a r).drop 1 = p' ++ q := by
      simp [Socks4a.request4a] at hpq ⊢
      exact ⟨hpq.1.symm, hpq.2⟩
    obtain ⟨rfl, hd⟩ := hv
    obtain ⟨h1, ctx, h2⟩ := read4a_prefix_needMore_or_error r hr p' q hd hq
    unfold read4 at h1 h2
    exact ⟨1, by simp [session_cons, socks4, Sess.run, h1], ctx,
      by simp [session_cons, socks4, Sess.run, h2]⟩

/-- How the client's bytes are cut into chunks does not matter.  If after the bytes `p` (stream still
    open) the handler has returned or entered the bridge, then after ANY further bytes `q`, and
    whether or not the client then closes, the outcome is the same — same trace, same result, same
    bytes consumed — except that a bridge is handed `q` as well, behind what it already had. -/
theorem session_chunking_independent (p q : Bytes) (eof : Bool) (env : Env)
    (h : (session ⟨p, false⟩ env).result ≠ .needMore) :
    session ⟨p ++ q, eof⟩ env =
      if (session ⟨p, false⟩ env).result = .bridge then
        { session ⟨p, false⟩ env with leftover := (session ⟨p, false⟩ env).leftover ++ q }
      else session ⟨p, false⟩ env := by
  have := run_stable (onSocksAccept env) p q eof 0 [] h
  simp only [session]
  rw [this, extend]
  split
  · rename_i hb; simp [hb]
  · rename_i hb
    have : ¬ ((onSocksAccept env).run p false 0 []).result = .bridge := fun hh => hb hh
    simp [this]

/-- And while the handler is still waiting, everything it has done so far — the ordered trace, hence
    the bytes written and the tunnels requested — is an initial part of what it will have done after
    any continuation: effects are never revised, only added. -/
theorem session_prefix_monotone (p q : Bytes) (eof : Bool) (env : Env) :
    (session ⟨p, false⟩ env).trace <+: (session ⟨p ++ q, eof⟩ env).trace ∧
    (session ⟨p, false⟩ env).written <+: (session ⟨p ++ q, eof⟩ env).written ∧
    (session ⟨p, false⟩ env).requests <+: (session ⟨p ++ q, eof⟩ env).requests ∧
    (session ⟨p, false⟩ env).consumed ≤ (session ⟨p ++ q, eof⟩ env).consumed := by
  obtain ⟨⟨t, ht⟩, hc⟩ := run_mono (onSocksAccept env) p q eof 0 []
  refine ⟨⟨t, ht⟩, ?_, ?_, hc⟩
  · refine ⟨written t, ?_⟩
    simp only [Outcome.written, session]
    rw [← ht, written_append]
  · refine ⟨requests t, ?_⟩
    simp only [Outcome.requests, session]
    rw [← ht, requests_append]

/-! ## For EVERY input: what the client reads is RFC-conformant -/

/-- Whatever the client sends and whatever the environment answers (bound addresses being IPv4 or
    IPv6 socket addresses), everything the handler has written is what a conforming client can read:
      * to a SOCKS5 client: nothing yet; or the method selection `05 00` / `05 FF` and nothing more;
        or `05 00` followed by exactly one RFC 1928 reply with a defined reply code (0..8);
      * to a SOCKS4 client: nothing, or exactly one 8-byte reply with `CD` 90 or 91;
      * to anything else: nothing. -/
theorem session_replies_are_rfc (inp : Input) (env : Env) (hu : ∀ a, env.udp = .bound a → a.wf) :
    match inp.bytes with
    | [] => (session inp env).written = []
    | v :: _ =>
      if v = 5 then
        ∃ hd, SocksClient.clientReads5 (session inp env).written = some hd ∧
          (hd = .nothing ∨ hd = .method 0x00 ∨ hd = .method 0xFF ∨
            ∃ rep a p, hd = .reply rep a p ∧ rep.toNat ≤ 8)
      else if v = 4 then
        ∃ hd, SocksClient.clientReads4 (session inp env).written = some hd ∧
          (hd = none ∨ hd = some 90 ∨ hd = some 91)
      else (session inp env).written = [] := by
  obtain ⟨b, eof⟩ := inp
  cases shape b eof env with
  | empty hb => subst hb; simp [session_nil, Outcome.written, written, writes]
  | badVersion v rest hb h4 h5 =>
    subst hb
    simp [h4, h5, session_unknown_version v h4 h5, Outcome.written, written, writes]
  | short4 rest hb res hres hs =>
    subst hb
    simp only [hs, show ((4 : UInt8) = 5) = False by decide, if_false, if_true]
    exact ⟨none, by simp [Outcome.written, written, writes, SocksClient.clientReads4], Or.inl rfl⟩
  | shortMethods rest hb res hres hs =>
    subst hb
    simp only [hs, if_true]
    exact ⟨.nothing, by simp [Outcome.written, written, writes, SocksClient.clientReads5], Or.inl rfl⟩
  | noNoauth ms X hl h0 hb =>
    subst hb
    simp only [Rfc1928.greeting, List.cons_append, if_true]
    have := session_no_noauth ms hl h0 X eof env
    simp only [Rfc1928.greeting, List.cons_append] at this
    rw [this]
    exact ⟨.method 0xFF, by simp only [Outcome.written]; decide, Or.inr (Or.inr (Or.inl rfl))⟩
  | shortRequest ms X hl h0 hb w hw res hres hs =>
    subst hb
    rw [hs]
    simp only [Rfc1928.greeting, List.cons_append, if_true]
    rcases hw with rfl | rfl
    · exact ⟨.method 0x00, by simp only [Outcome.written]; decide, Or.inr (Or.inl rfl)⟩
    · exact ⟨.reply 0x08 (.ipv4 0 0 0 0) 0, by simp only [Outcome.written]; decide,
        Or.inr (Or.inr (Or.inr ⟨_, _, _, rfl, by decide⟩))⟩
  | req4 r X hr hb =>
    subst hb
    have hs := socks4_run_request4 r hr X eof env
    rw [dispatch4_run] at hs
    have hb4 : Socks4a.request4 r ++ X = 4 :: ((Socks4a.request4 r).drop 1 ++ X) := by
      simp [Socks4a.request4]
    rw [hb4] at hs ⊢
    simp only [show ((4 : UInt8) = 5) = False by decide, if_false, if_true]
    rw [hs]
    by_cases hc : r.cmd = 1
    · simp only [hc, if_true, connectRun_written]
      by_cases hy : env.reserveOk = true ∧ env.streamOk = true
      · exact ⟨some 90, by simp [hy, written, writes]; decide, Or.inr (Or.inl rfl)⟩
      · exact ⟨none, by simp [hy, written, writes, SocksClient.clientReads4], Or.inl rfl⟩
    · simp only [hc, if_false]
      exact ⟨some 91, by simp only [Outcome.written]; decide, Or.inr (Or.inr rfl)⟩
  | req4a r X hr hb =>
    subst hb
    have hs := socks4_run_request4a r hr X eof env
    rw [dispatch4_run] at hs
    have hb4 : Socks4a.request4a r ++ X = 4 :: ((Socks4a.request4a r).drop 1 ++ X) := by
      simp [Socks4a.request4a]
    rw [hb4] at hs ⊢
    simp only [show ((4 : UInt8) = 5) = False by decide, if_false, if_true]
    rw [hs]
    by_cases hc : r.cmd = 1
    · simp only [hc, if_true, connectRun_written]
      by_cases hy : env.reserveOk = true ∧ env.streamOk = true
      · exact ⟨some 90, by simp [hy, written, writes]; decide, Or.inr (Or.inl rfl)⟩
      · exact ⟨none, by simp [hy, written, writes, SocksClient.clientReads4], Or.inl rfl⟩
    · simp only [hc, if_false]
      exact ⟨some 91, by simp only [Outcome.written]; decide, Or.inr (Or.inr rfl)⟩
  | req5 ms r rsv Y hl h0 hr hb =>
    subst hb
    have hs := session_request5 ms hl h0 r hr rsv Y eof env
    rw [dispatch5_run] at hs
    have hb5 : Rfc1928.greeting ms ++ requestRsv r rsv ++ Y
        = 5 :: ((Rfc1928.greeting ms).drop 1 ++ requestRsv r rsv ++ Y) := by
      simp [Rfc1928.greeting]
    rw [hb5] at hs ⊢
    simp only [if_true]
    rw [hs]
    by_cases hc : r.cmd = 1
    · simp only [hc, if_true, connectRun_written]
      by_cases hy : env.reserveOk = true ∧ env.streamOk = true
      · exact ⟨.reply 0x00 (.ipv4 0 0 0 0) 0, by simp [hy, written, writes]; decide,
          Or.inr (Or.inr (Or.inr ⟨_, _, _, rfl, by decide⟩))⟩
      · exact ⟨.method 0x00, by simp [hy, written, writes]; decide, Or.inr (Or.inl rfl)⟩
    · by_cases hc3 : r.cmd = 3
      · simp only [hc3, show ((3 : UInt8) = 1) = False by decide, if_false, if_true]
        obtain ⟨x, hx, hcase⟩ := assocRun_written env Y eof
          ((Rfc1928.greeting ms).length + (requestRsv r rsv).length)
          [.wrote (Rfc1928.methodSelection 0x00)]
        rw [hx]
        rcases hcase with rfl | ⟨a, hua, rfl⟩
        · exact ⟨.reply 0x01 (.ipv4 0 0 0 0) 0, by decide,
            Or.inr (Or.inr (Or.inr ⟨_, _, _, rfl, by decide⟩))⟩
        · have hp := client_parses_response5 0 a (hu a hua)
          refine ⟨.reply 0 (addrOf a) (portOf a), ?_, Or.inr (Or.inr (Or.inr ⟨_, _, _, rfl, by decide⟩))⟩
          cases hw : writeResponse5 0 a with
          | nil => rw [hw] at hp; simp [Rfc1928.clientParseReply] at hp
          | cons y ys =>
            rw [hw] at hp
            simp [written, writes, Rfc1928.methodSelection, SocksClient.clientReads5, hp]
      · simp only [hc, hc3, if_false]
        exact ⟨.reply 0x07 (.ipv4 0 0 0 0) 0, by simp only [Outcome.written]; decide,
          Or.inr (Or.inr (Or.inr ⟨_, _, _, rfl, by decide⟩))⟩

/-! ## Non-vacuity: concrete dialogues -/

-- the hypotheses of the CONNECT theorems: methods [GSSAPI, NOAUTH], CONNECT www:80, env says yes
example : (0 : UInt8) ∈ ([1, 0] : Bytes) ∧ (Rfc1928.Request.mk 1 (.domain [0x77, 0x77, 0x77]) 80).wf := by
  decide
-- the dialogue followed by two bytes of optimistic data, stream still open
example : session ⟨[5, 2, 1, 0] ++ [5, 1, 0, 3, 3, 0x77, 0x77, 0x77, 0, 80] ++ [0xaa, 0xbb], false⟩
      ⟨true, true, .bindFails⟩
    = ⟨[.wrote [5, 0], .reserved, .requested ⟨.domain, [0x77, 0x77, 0x77]⟩ 80, .gotStream,
        .wrote [5, 0, 0, 1, 0, 0, 0, 0, 0, 0]], 14, [0xaa, 0xbb], .bridge⟩ := by decide
-- the same cut inside the domain name: waiting, only the method selection written
example : session ⟨[5, 2, 1, 0, 5, 1, 0, 3, 3, 0x77], false⟩ ⟨true, true, .bindFails⟩
    = ⟨[.wrote [5, 0]], 4, [], .needMore⟩ := by decide
example : session ⟨[5, 2, 1, 0, 5, 1, 0, 3, 3, 0x77], true⟩ ⟨true, true, .bindFails⟩
    = ⟨[.wrote [5, 0]], 4, [], .err (.socks (.reader (.eof .domainAddress)))⟩ := by decide
-- no stream: the request is made, no reply at all follows
example : session ⟨[5, 1, 0, 5, 1, 0, 1, 10, 0, 0, 1, 0, 80], true⟩ ⟨true, false, .bindFails⟩
    = ⟨[.wrote [5, 0], .reserved, .requested ⟨.ipv4, [10, 0, 0, 1]⟩ 80], 13, [],
        .err .fatalMainLoopExit⟩ := by decide
-- methods without NOAUTH; BIND; SOCKS4 BIND; SOCKS4a CONNECT with user id "a", domain "ww", data 7
example : session ⟨[5, 2, 1, 2, 9, 9], false⟩ ⟨true, true, .bindFails⟩
    = ⟨[.wrote [5, 0xFF]], 4, [], .err .otherAuth⟩ := by decide
example : session ⟨[5, 1, 0, 5, 2, 0, 1, 10, 0, 0, 1, 0, 80], false⟩ ⟨true, true, .bindFails⟩
    = ⟨[.wrote [5, 0], .wrote [5, 7, 0, 1, 0, 0, 0, 0, 0, 0]], 13, [],
        .err (.socks (.invalidCommand 2))⟩ := by decide
example : session ⟨[4, 2, 0, 80, 1, 2, 3, 4, 0x61, 0], false⟩ ⟨true, true, .bindFails⟩
    = ⟨[.wrote [0, 91, 0, 0, 0, 0, 0, 0]], 10, [], .err (.socks (.invalidCommand 2))⟩ := by decide
example : session ⟨[4, 1, 0, 80, 0, 0, 0, 1, 0x61, 0, 0x77, 0x77, 0, 7], false⟩ ⟨true, true, .bindFails⟩
    = ⟨[.reserved, .requested ⟨.domain, [0x77, 0x77]⟩ 80, .gotStream, .wrote [0, 90, 0, 0, 0, 0, 0, 0]],
        13, [7], .bridge⟩ := by decide
-- UDP ASSOCIATE with the relay bound at 127.0.0.1:4660: waits; one more byte ends the association
example : (SockAddr.v4 [127, 0, 0, 1] 4660).wf := by decide
example : session ⟨[5, 1, 0, 5, 3, 0, 1, 0, 0, 0, 0, 0, 0], false⟩ ⟨true, true, .bound (.v4 [127, 0, 0, 1] 4660)⟩
    = ⟨[.wrote [5, 0], .relayStarted (.v4 [127, 0, 0, 1] 4660),
        .wrote [5, 0, 0, 1, 127, 0, 0, 1, 0x12, 0x34]], 13, [], .needMore⟩ := by decide
example : session ⟨[5, 1, 0, 5, 3, 0, 1, 0, 0, 0, 0, 0, 0, 9, 9], false⟩ ⟨true, true, .bound (.v4 [127, 0, 0, 1] 4660)⟩
    = ⟨[.wrote [5, 0], .relayStarted (.v4 [127, 0, 0, 1] 4660),
        .wrote [5, 0, 0, 1, 127, 0, 0, 1, 0x12, 0x34], .relayAborted], 14, [], .ok⟩ := by decide
-- a conforming client reads `05 00` + the success reply
example : SocksClient.clientReads5 [5, 0, 5, 0, 0, 1, 127, 0, 0, 1, 0x12, 0x34]
    = some (.reply 0 (.ipv4 127 0 0 1) 4660) := by decide
-- … and would not read a reply that came without the method selection, or a truncated one
example : SocksClient.clientReads5 [5, 0, 0, 1, 0, 0, 0, 0, 0, 0] = none := by decide
example : SocksClient.clientReads5 [5, 0, 5, 0, 0, 1, 127, 0, 0, 1, 0x12] = none := by decide
-- chunking: decided after the first 14 bytes, later bytes only reach the bridge
example : (session ⟨[5, 2, 1, 0, 5, 1, 0, 3, 3, 0x77, 0x77, 0x77, 0, 80], false⟩ ⟨true, true, .bindFails⟩).result
    = .bridge := by decide

end Penguin.C18
