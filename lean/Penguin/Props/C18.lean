/-
C18 — SOCKS4/4a/5 messages are parsed and produced exactly per the RFCs.
Property theorems only; every theorem here is audited (`#print axioms`) by bin/check.

Vocabulary: `Spec.Rfc1928` / `Spec.Socks4a` are the builders and conforming-client parsers written
from the RFC texts; `Penguin.Socks` is the model of `penguin-socks` (reader scripts run on an input
`(bytes, eof)`, writers, UDP header functions); `hostOf`, `addrOf`, `portOf`, `requestRsv` translate
between the two (Lemmas/Socks.lean).
-/
import Penguin.Model.Socks
import Penguin.Spec.Rfc1928
import Penguin.Spec.Socks4a
import Penguin.Lemmas.Socks

namespace Penguin.C18
open Penguin Penguin.Socks Penguin.Constants Penguin.Lemmas.Socks
open Penguin.Spec

/-! ## Readers on well-formed requests -/

/-- Every well-formed SOCKS5 request (any command, any address type, domain length 0..255, any port),
    followed by any further bytes, with the stream ended or not: `read_request` returns exactly its
    command, address and port, consumes exactly the request and writes nothing. -/
theorem read5_wellformed (r : Rfc1928.Request) (h : r.wf) (rest : Bytes) (eof : Bool) :
    read5 (Rfc1928.request r ++ rest) eof
      = .done ⟨r.cmd, hostOf r.addr, r.port⟩ (Rfc1928.request r).length [] := by
  obtain ⟨cmd, addr, port⟩ := r
  obtain ⟨ha, hp⟩ := h
  simp only at ha hp
  cases addr with
  | ipv4 a b c d =>
    simp [read5, readRequest5, readAddress5, Rfc1928.request, Rfc1928.addrBytes, be16,
      run_readU8_cons, run_readU16_cons, run_readN4_cons, Script.run, hostOf, rd16_be16 port hp,
      socksVer5, socksAtypIpv4]
  | domain n =>
    simp only [Rfc1928.Addr.wf] at ha
    have hm : n.length % 256 = n.length := by omega
    simp [read5, readRequest5, readAddress5, Rfc1928.request, Rfc1928.addrBytes, be16,
      run_readU8_cons, run_readU16_cons, run_readN_append (a := n) rfl, Script.run, hostOf,
      rd16_be16 port hp, socksVer5, socksAtypIpv4, socksAtypDomain, hm]
    omega
  | ipv6 o =>
    simp only [Rfc1928.Addr.wf] at ha
    simp [read5, readRequest5, readAddress5, Rfc1928.request, Rfc1928.addrBytes, be16,
      run_readU8_cons, run_readU16_cons, run_readN_append ha, Script.run, hostOf, rd16_be16 port hp,
      socksVer5, socksAtypIpv4, socksAtypDomain, socksAtypIpv6]
    omega

/-- Every well-formed plain SOCKS4 request (any `DSTIP` that is not the 4a marker `0.0.0.x`, `x ≠ 0`;
    any NUL-free user id), the version byte having been read by the caller. -/
theorem read4_wellformed (r : Socks4a.Request4) (h : r.wf) (rest : Bytes) (eof : Bool) :
    read4 ((Socks4a.request4 r).drop 1 ++ rest) eof
      = .done ⟨r.cmd, ⟨.ipv4, [r.a, r.b, r.c, r.d]⟩, r.port⟩ ((Socks4a.request4 r).length - 1) [] := by
  obtain ⟨cmd, port, a, b, c, d, uid⟩ := r
  obtain ⟨hp, hu, hm⟩ := h
  simp only at hp hu hm
  have hmk : is4aMarker (rd32 a b c d) = false := by
    rw [Bool.eq_false_iff, ne_eq, is4aMarker_iff]; exact hm
  simp [read4, readRequest4, Socks4a.request4, be16, run_readU8_cons, run_readU16_cons,
    run_readU32_cons, run_readUntilNul_append _ _ uid hu, Script.run, rd16_be16 port hp, hmk, be32_rd32]
  omega

/-- Every well-formed SOCKS4a request (marker `0.0.0.x`, `x ≠ 0`; any NUL-free user id and domain
    name, including empty ones). -/
theorem read4a_wellformed (r : Socks4a.Request4a) (h : r.wf) (rest : Bytes) (eof : Bool) :
    read4 ((Socks4a.request4a r).drop 1 ++ rest) eof
      = .done ⟨r.cmd, ⟨.domain, r.domain⟩, r.port⟩ ((Socks4a.request4a r).length - 1) [] := by
  obtain ⟨cmd, port, x, uid, dom⟩ := r
  obtain ⟨hp, hx, hu, hd⟩ := h
  simp only at hp hx hu hd
  have hmk : is4aMarker (rd32 0 0 0 x) = true := by
    rw [is4aMarker_iff]; exact ⟨rfl, rfl, rfl, hx⟩
  simp [read4, readRequest4, Socks4a.request4a, be16, run_readU8_cons, run_readU16_cons,
    run_readU32_cons, run_readUntilNul_append _ _ uid hu, run_readUntilNul_append _ _ dom hd,
    Script.run, rd16_be16 port hp, hmk]
  omega

/-- Every method-selection message (0..255 methods), the version byte having been read. -/
theorem authMethods_wellformed (ms : Bytes) (h : ms.length ≤ 255) (rest : Bytes) (eof : Bool) :
    readMethods ((Rfc1928.greeting ms).drop 1 ++ rest) eof
      = .done ms ((Rfc1928.greeting ms).length - 1) [] := by
  have hm : ms.length % 256 = ms.length := by omega
  simp [readMethods, readAuthMethods, Rfc1928.greeting, run_readU8_cons,
    run_readN_append (a := ms) rfl, Script.run, hm]
  omega

/-! ## Truncated input: wait, or fail with unexpected EOF — never accept -/

/-- On every strict prefix of a well-formed SOCKS5 request the reader keeps waiting while the stream
    is open and fails with an unexpected-EOF error once it has ended; it has written nothing. -/
theorem read5_prefix_needMore_or_error (r : Rfc1928.Request) (h : r.wf) (p q : Bytes)
    (hpq : Rfc1928.request r = p ++ q) (hq : q ≠ []) :
    read5 p false = .needMore ∧ ∃ ctx, read5 p true = .error (.eof ctx) [] := by
  have hw := read5_wellformed r h [] false
  rw [List.append_nil, hpq] at hw
  have hql : 0 < q.length := List.length_pos_iff.mpr hq
  obtain ⟨h1, ctx, w, h2, h3⟩ := run_prefix readRequest5 p q false 0 [] _ _ _ hw (by simp; omega)
  have hw0 : w = [] := List.eq_nil_of_length_eq_zero (by simpa using h3)
  subst hw0
  exact ⟨h1, ctx, h2⟩

theorem read4_prefix_needMore_or_error (r : Socks4a.Request4) (h : r.wf) (p q : Bytes)
    (hpq : (Socks4a.request4 r).drop 1 = p ++ q) (hq : q ≠ []) :
    read4 p false = .needMore ∧ ∃ ctx, read4 p true = .error (.eof ctx) [] := by
  have hw := read4_wellformed r h [] false
  rw [List.append_nil, hpq] at hw
  have hql : 0 < q.length := List.length_pos_iff.mpr hq
  have hlen : (Socks4a.request4 r).length - 1 = p.length + q.length := by
    have := congrArg List.length hpq
    simpa using this
  obtain ⟨h1, ctx, w, h2, h3⟩ := run_prefix readRequest4 p q false 0 [] _ _ _ hw (by omega)
  have hw0 : w = [] := List.eq_nil_of_length_eq_zero (by simpa using h3)
  subst hw0
  exact ⟨h1, ctx, h2⟩

theorem read4a_prefix_needMore_or_error (r : Socks4a.Request4a) (h : r.wf) (p q : Bytes)
    (hpq : (Socks4a.request4a r).drop 1 = p ++ q) (hq : q ≠ []) :
    read4 p false = .needMore ∧ ∃ ctx, read4 p true = .error (.eof ctx) [] := by
  have hw := read4a_wellformed r h [] false
  rw [List.append_nil, hpq] at hw
  have hql : 0 < q.length := List.length_pos_iff.mpr hq
  have hlen : (Socks4a.request4a r).length - 1 = p.length + q.length := by
    have := congrArg List.length hpq
    simpa using this
  obtain ⟨h1, ctx, w, h2, h3⟩ := run_prefix readRequest4 p q false 0 [] _ _ _ hw (by omega)
  have hw0 : w = [] := List.eq_nil_of_length_eq_zero (by simpa using h3)
  subst hw0
  exact ⟨h1, ctx, h2⟩

theorem authMethods_prefix_needMore_or_error (ms : Bytes) (h : ms.length ≤ 255) (p q : Bytes)
    (hpq : (Rfc1928.greeting ms).drop 1 = p ++ q) (hq : q ≠ []) :
    readMethods p false = .needMore ∧ ∃ ctx, readMethods p true = .error (.eof ctx) [] := by
  have hw := authMethods_wellformed ms h [] false
  rw [List.append_nil, hpq] at hw
  have hql : 0 < q.length := List.length_pos_iff.mpr hq
  have hlen : (Rfc1928.greeting ms).length - 1 = p.length + q.length := by
    have := congrArg List.length hpq
    simpa using this
  obtain ⟨h1, ctx, w, h2, h3⟩ := run_prefix readAuthMethods p q false 0 [] _ _ _ hw (by omega)
  have hw0 : w = [] := List.eq_nil_of_length_eq_zero (by simpa using h3)
  subst hw0
  exact ⟨h1, ctx, h2⟩

/-! ## Malformed input: the documented error -/

/-- Any version byte other than 5: `SocksVersion(v)`, nothing written, whatever follows. -/
theorem read5_unknown_version (v : UInt8) (hv : v ≠ 5) (rest : Bytes) (eof : Bool) :
    read5 (v :: rest) eof = .error (.version v) [] := by
  have : v.toNat ≠ 5 := fun h => hv (UInt8.toNat_inj.mp h)
  simp [read5, readRequest5, run_readU8_cons, Script.run, socksVer5, this]

/-- Any address type other than 1, 3, 4: `AddressType(t)`, and exactly the RFC's reply
    "address type not supported" (`REP = X'08'`, `BND = 0.0.0.0:0`) has been written. -/
theorem read5_unknown_atyp (cmd rsv t : UInt8) (h1 : t ≠ 1) (h3 : t ≠ 3) (h4 : t ≠ 4)
    (rest : Bytes) (eof : Bool) :
    read5 (5 :: cmd :: rsv :: t :: rest) eof
      = .error (.atyp t) (Rfc1928.reply 0x08 (.ipv4 0 0 0 0) 0) := by
  have e1 : t.toNat ≠ 1 := fun h => h1 (UInt8.toNat_inj.mp h)
  have e3 : t.toNat ≠ 3 := fun h => h3 (UInt8.toNat_inj.mp h)
  have e4 : t.toNat ≠ 4 := fun h => h4 (UInt8.toNat_inj.mp h)
  simp [read5, readRequest5, readAddress5, run_readU8_cons, Script.run, socksVer5, socksAtypIpv4,
    socksAtypDomain, socksAtypIpv6, e1, e3, e4, atypUnsupReply, Rfc1928.reply, Rfc1928.addrBytes,
    be16, u8, socksRepAtypunsup, socksReserved]

/-- Conversely, whatever `read_request` accepts *is* a well-formed RFC 1928 request (up to the
    reserved byte, which is not validated) followed by the unconsumed rest: no other byte string is
    ever accepted, on an open or on an ended stream. -/
theorem read5_done_wellformed (inp : Bytes) (eof : Bool) (q : Req) (n : Nat) (w : Bytes)
    (h : read5 inp eof = .done q n w) :
    w = [] ∧ ∃ (r : Rfc1928.Request) (rsv : UInt8) (rest : Bytes), r.wf ∧
      q = ⟨r.cmd, hostOf r.addr, r.port⟩ ∧ inp = requestRsv r rsv ++ rest ∧
      n = (requestRsv r rsv).length := by
  unfold read5 readRequest5 at h
  obtain ⟨v, r1, e1, h1⟩ := run_readU8_done h
  clear h
  by_cases hv : v.toNat = socksVer5
  · simp only [hv, ne_eq, not_true_eq_false, if_false] at h1
    obtain ⟨cmd, r2, e2, h2⟩ := run_readU8_done h1
    obtain ⟨rsv, r3, e3, h3⟩ := run_readU8_done h2
    unfold readAddress5 at h3
    obtain ⟨t, r4, e4, h4⟩ := run_readU8_done h3
    clear h1 h2 h3
    have hv5 : v = 5 := UInt8.toNat_inj.mp (by simpa [socksVer5] using hv)
    subst e1 e2 e3 e4 hv5
    by_cases h1 : t.toNat = socksAtypIpv4
    · simp only [h1, if_true] at h4
      have ht : t = 1 := UInt8.toNat_inj.mp (by simpa [socksAtypIpv4] using h1)
      obtain ⟨x, r5, hx, e5, h5⟩ := run_readN_done h4
      obtain ⟨p0, p1, r6, e6, h6⟩ := run_readU16_done h5
      clear h4 h5
      simp only [Script.run, Result.done.injEq] at h6
      obtain ⟨rfl, rfl, rfl⟩ := h6
      subst ht e5 e6
      match x, hx with
      | [a, b, c, d], _ =>
        refine ⟨rfl, ⟨cmd, .ipv4 a b c d, rd16 p0 p1⟩, rsv, r6, ⟨trivial, rd16_lt _ _⟩, rfl, ?_, ?_⟩
        · simp [requestRsv, Rfc1928.addrBytes, be16_rd16]
        · simp [requestRsv, Rfc1928.addrBytes]
    · simp only [h1, if_false] at h4
      by_cases h3 : t.toNat = socksAtypDomain
      · simp only [h3, if_true] at h4
        have ht : t = 3 := UInt8.toNat_inj.mp (by simpa [socksAtypDomain] using h3)
        obtain ⟨l, r5, e5, h5⟩ := run_readU8_done h4
        obtain ⟨x, r6, hx, e6, h6⟩ := run_readN_done h5
        obtain ⟨p0, p1, r7, e7, h7⟩ := run_readU16_done h6
        clear h4 h5 h6
        simp only [Script.run, Result.done.injEq] at h7
        obtain ⟨rfl, rfl, rfl⟩ := h7
        subst ht e5 e6 e7
        have hl := l.toNat_lt
        have hxl : UInt8.ofNat x.length = l := by rw [hx]; simp
        refine ⟨rfl, ⟨cmd, .domain x, rd16 p0 p1⟩, rsv, r7, ⟨?_, rd16_lt _ _⟩, rfl, ?_, ?_⟩
        · simp only [Rfc1928.Addr.wf]; omega
        · simp [requestRsv, Rfc1928.addrBytes, be16_rd16, hxl]
        · simp [requestRsv, Rfc1928.addrBytes, hx]; omega
      · simp only [h3, if_false] at h4
        by_cases h4' : t.toNat = socksAtypIpv6
        · simp only [h4', if_true] at h4
          have ht : t = 4 := UInt8.toNat_inj.mp (by simpa [socksAtypIpv6] using h4')
          obtain ⟨x, r5, hx, e5, h5⟩ := run_readN_done h4
          obtain ⟨p0, p1, r6, e6, h6⟩ := run_readU16_done h5
          clear h4 h5
          simp only [Script.run, Result.done.injEq] at h6
          obtain ⟨rfl, rfl, rfl⟩ := h6
          subst ht e5 e6
          refine ⟨rfl, ⟨cmd, .ipv6 x, rd16 p0 p1⟩, rsv, r6, ⟨hx, rd16_lt _ _⟩, rfl, ?_, ?_⟩
          · simp [requestRsv, Rfc1928.addrBytes, be16_rd16]
          · simp [requestRsv, Rfc1928.addrBytes, hx]
        · simp [h4', Script.run] at h4
  · simp [hv, Script.run] at h1

/-- Whatever the SOCKS4 reader accepts is a well-formed SOCKS4 request (`DSTIP` not the marker) or a
    well-formed SOCKS4a request (marker `0.0.0.x`, `x ≠ 0`, NUL-terminated domain), terminators
    included, followed by the unconsumed rest. -/
theorem read4_done_wellformed (inp : Bytes) (eof : Bool) (q : Req) (n : Nat) (w : Bytes)
    (h : read4 inp eof = .done q n w) :
    w = [] ∧ ∃ rest : Bytes,
      (∃ r : Socks4a.Request4, r.wf ∧ q = ⟨r.cmd, ⟨.ipv4, [r.a, r.b, r.c, r.d]⟩, r.port⟩ ∧
          inp = (Socks4a.request4 r).drop 1 ++ rest ∧ n + 1 = (Socks4a.request4 r).length) ∨
      (∃ r : Socks4a.Request4a, r.wf ∧ q = ⟨r.cmd, ⟨.domain, r.domain⟩, r.port⟩ ∧
          inp = (Socks4a.request4a r).drop 1 ++ rest ∧ n + 1 = (Socks4a.request4a r).length) := by
  unfold read4 readRequest4 at h
  obtain ⟨cmd, r1, e1, h1⟩ := run_readU8_done h
  obtain ⟨p0, p1, r2, e2, h2⟩ := run_readU16_done h1
  obtain ⟨a, b, c, d, r3, e3, h3⟩ := run_readU32_done h2
  obtain ⟨uid, r4, hu, e4, h4⟩ := run_readUntilNul_done h3
  clear h h1 h2 h3
  subst e1 e2 e3 e4
  by_cases hm : is4aMarker (rd32 a b c d) = true
  · simp only [hm, if_true] at h4
    obtain ⟨dom, r5, hd, e5, h5⟩ := run_readUntilNul_done h4
    clear h4
    simp only [Script.run, Result.done.injEq] at h5
    obtain ⟨rfl, rfl, rfl⟩ := h5
    subst e5
    obtain ⟨rfl, rfl, rfl, hd0⟩ := (is4aMarker_iff a b c d).mp hm
    refine ⟨rfl, r5, Or.inr ⟨⟨cmd, rd16 p0 p1, d, uid, dom⟩, ⟨rd16_lt _ _, hd0, hu, hd⟩, rfl, ?_, ?_⟩⟩
    · simp [Socks4a.request4a, be16_rd16]
    · simp [Socks4a.request4a]; omega
  · rw [if_neg hm] at h4
    simp only [Script.run, Result.done.injEq] at h4
    obtain ⟨rfl, rfl, rfl⟩ := h4
    have hnm : ¬ Socks4a.isMarker a b c d := fun hh => hm ((is4aMarker_iff a b c d).mpr hh)
    refine ⟨rfl, r4, Or.inl ⟨⟨cmd, rd16 p0 p1, a, b, c, d, uid⟩, ⟨rd16_lt _ _, hu, hnm⟩, ?_, ?_, ?_⟩⟩
    · simp [be32_rd32]
    · simp [Socks4a.request4, be16_rd16]
    · simp [Socks4a.request4]; omega

/-! ## Writers: byte-exact replies -/

/-- `write_response` for every reply code and every IPv4 / IPv6 socket address is the RFC's reply. -/
theorem writeResponse5_eq_rfc (rep : UInt8) (a : SockAddr) (h : a.wf) :
    writeResponse5 rep a = Rfc1928.reply rep (addrOf a) (portOf a) := by
  cases a with
  | v4 o p =>
    obtain ⟨ho, _⟩ := h
    match o, ho with
    | [a, b, c, d], _ =>
      simp [writeResponse5, Rfc1928.reply, Rfc1928.addrBytes, addrOf, portOf, u8, socksVer5,
        socksReserved, socksAtypIpv4]
  | v6 o p =>
    simp [writeResponse5, Rfc1928.reply, Rfc1928.addrBytes, addrOf, portOf, u8, socksVer5,
      socksReserved, socksAtypIpv6]

theorem writeResponseUnspecified_eq_rfc (rep : UInt8) :
    writeResponseUnspecified rep = Rfc1928.reply rep (.ipv4 0 0 0 0) 0 := by
  simp [writeResponseUnspecified, Rfc1928.reply, Rfc1928.addrBytes, be16, u8, socksVer5,
    socksReserved, socksAtypIpv4]

theorem writeAuthMethod_eq_rfc (m : UInt8) : writeAuthMethod m = Rfc1928.methodSelection m := by
  simp [writeAuthMethod, Rfc1928.methodSelection, u8, socksVer5]

theorem writeResponse4_eq_spec (cd : UInt8) : writeResponse4 cd = Socks4a.reply4 cd := by
  simp [writeResponse4, Socks4a.reply4, u8, socksVerRep4]

/-- A conforming client reads back from `write_response` the reply code, address and port given. -/
theorem client_parses_response5 (rep : UInt8) (a : SockAddr) (h : a.wf) :
    Rfc1928.clientParseReply (writeResponse5 rep a) = some (rep, addrOf a, portOf a) := by
  cases a with
  | v4 o p =>
    obtain ⟨ho, hp⟩ := h
    match o, ho with
    | [a, b, c, d], _ =>
      simp [writeResponse5, Rfc1928.clientParseReply, Rfc1928.parseAddrPort, addrOf, portOf, u8,
        socksVer5, socksReserved, socksAtypIpv4, be16, rd16_be16 p hp]
  | v6 o p =>
    obtain ⟨ho, hp⟩ := h
    simp [writeResponse5, Rfc1928.clientParseReply, Rfc1928.parseAddrPort, addrOf, portOf, u8,
      socksVer5, socksReserved, socksAtypIpv6, be16, rd16_be16 p hp, ho]

theorem client_parses_response4 (cd : UInt8) :
    Socks4a.clientParseReply4 (writeResponse4 cd) = some cd := by
  simp [writeResponse4, Socks4a.clientParseReply4, u8, socksVerRep4]

/-! ## UDP relay header -/

/-- `udp_relay_response` is the RFC's header for the target address followed by the payload. -/
theorem udp_response_eq_rfc (a : SockAddr) (h : a.wf) (d : Bytes) :
    udpRelayResponse a d = Rfc1928.udpHeader (addrOf a) (portOf a) ++ d := by
  cases a with
  | v4 o p =>
    obtain ⟨ho, _⟩ := h
    match o, ho with
    | [a, b, c, d], _ =>
      simp [udpRelayResponse, Rfc1928.udpHeader, Rfc1928.addrBytes, addrOf, portOf, u8, socksAtypIpv4]
  | v6 o p =>
    simp [udpRelayResponse, Rfc1928.udpHeader, Rfc1928.addrBytes, addrOf, portOf, u8, socksAtypIpv6]

/-- The RFC's client parser inverts the RFC's header builder (all three address types). -/
theorem clientParseUdp_udpHeader (a : Rfc1928.Addr) (ha : a.wf) (port : Nat) (hp : port < 65536)
    (d : Bytes) : Rfc1928.clientParseUdp (Rfc1928.udpHeader a port ++ d) = some (a, port, d) := by
  cases a with
  | ipv4 a b c d' =>
    simp [Rfc1928.clientParseUdp, Rfc1928.udpHeader, Rfc1928.addrBytes, Rfc1928.parseAddrPort, be16,
      rd16_be16 port hp]
  | domain n =>
    simp only [Rfc1928.Addr.wf] at ha
    have hm : n.length % 256 = n.length := by omega
    simp [Rfc1928.clientParseUdp, Rfc1928.udpHeader, Rfc1928.addrBytes, Rfc1928.parseAddrPort, be16,
      rd16_be16 port hp, hm]
  | ipv6 o =>
    simp only [Rfc1928.Addr.wf] at ha
    simp [Rfc1928.clientParseUdp, Rfc1928.udpHeader, Rfc1928.addrBytes, Rfc1928.parseAddrPort, be16,
      rd16_be16 port hp, ha]
    omega

/-- A relay datagram built for any IPv4 / IPv6 target and any payload parses back, as a conforming
    client parses it, to the same address, port and payload. -/
theorem udp_client_parses_response (a : SockAddr) (h : a.wf) (d : Bytes) :
    Rfc1928.clientParseUdp (udpRelayResponse a d) = some (addrOf a, portOf a, d) := by
  rw [udp_response_eq_rfc a h d]
  apply clientParseUdp_udpHeader
  · cases a with
    | v4 o p => trivial
    | v6 o p => exact h.1
  · cases a with
    | v4 o p => exact h.2
    | v6 o p => exact h.2

/-- `parse_udp_relay_header` on the RFC's header for any address (IPv4, domain of length 0..255,
    IPv6), any port, followed by any payload: that address, port and payload. -/
theorem parseUdp_wellformed (a : Rfc1928.Addr) (ha : a.wf) (port : Nat) (hp : port < 65536)
    (d : Bytes) : parseUdpRelayHeader (Rfc1928.udpHeader a port ++ d) = .ok (hostOf a, port, d) := by
  cases a with
  | ipv4 a b c d' =>
    simp [parseUdpRelayHeader, Rfc1928.udpHeader, Rfc1928.addrBytes, be16, hostOf,
      rd16_be16 port hp, be32_rd32, socksUdpMinHeader, socksUdpMinV4, socksAtypIpv4]
    repeat' split
    all_goals first | rfl | omega
  | domain n =>
    simp only [Rfc1928.Addr.wf] at ha
    have hm : n.length % 256 = n.length := by omega
    simp [parseUdpRelayHeader, Rfc1928.udpHeader, Rfc1928.addrBytes, be16, hostOf,
      rd16_be16 port hp, hm, socksUdpMinHeader, socksUdpMinDomainLen, socksUdpMinDomainAfterLen,
      socksAtypIpv4, socksAtypDomain]
    repeat' split
    all_goals first | rfl | omega
  | ipv6 o =>
    simp only [Rfc1928.Addr.wf] at ha
    simp [parseUdpRelayHeader, Rfc1928.udpHeader, Rfc1928.addrBytes, be16, hostOf,
      rd16_be16 port hp, ha, socksUdpMinHeader, socksUdpMinV6,
      socksAtypIpv4, socksAtypDomain, socksAtypIpv6]
    repeat' split
    all_goals first | rfl | omega

/-- What the relay builds, the relay's own parser reads back (server-side round trip). -/
theorem parseUdp_udpRelayResponse (a : SockAddr) (h : a.wf) (d : Bytes) :
    parseUdpRelayHeader (udpRelayResponse a d) = .ok (hostOf (addrOf a), portOf a, d) := by
  rw [udp_response_eq_rfc a h d]
  apply parseUdp_wellformed
  · cases a with
    | v4 o p => trivial
    | v6 o p => exact h.1
  · cases a with
    | v4 o p => exact h.2
    | v6 o p => exact h.2

/-- Fragments (`FRAG ≠ 0`) are rejected as such, whatever the reserved bytes and the rest. -/
theorem parseUdp_fragment_rejected (r0 r1 frag t : UInt8) (rest : Bytes) (h : frag ≠ 0) :
    parseUdpRelayHeader (r0 :: r1 :: frag :: t :: rest) = .error .fragmented := by
  simp [parseUdpRelayHeader, socksUdpMinHeader, h]

/-- Fewer than four bytes: `ParseAssociate`. -/
theorem parseUdp_short (bs : Bytes) (h : bs.length < 4) :
    parseUdpRelayHeader bs = .error .parseAssociate := by
  simp [parseUdpRelayHeader, socksUdpMinHeader, h]

/-- Unknown address type: `UnknownAddressType(t)`. -/
theorem parseUdp_unknown_atyp (r0 r1 t : UInt8) (h1 : t ≠ 1) (h3 : t ≠ 3) (h4 : t ≠ 4)
    (rest : Bytes) :
    parseUdpRelayHeader (r0 :: r1 :: 0 :: t :: rest) = .error (.unknownAtyp t) := by
  have e1 : t.toNat ≠ 1 := fun h => h1 (UInt8.toNat_inj.mp h)
  have e3 : t.toNat ≠ 3 := fun h => h3 (UInt8.toNat_inj.mp h)
  have e4 : t.toNat ≠ 4 := fun h => h4 (UInt8.toNat_inj.mp h)
  simp [parseUdpRelayHeader, socksUdpMinHeader, socksAtypIpv4, socksAtypDomain, socksAtypIpv6, e1, e3, e4]

/-- Every strict prefix of a header (any address type, any domain length) is rejected with
    `ParseAssociate`: a datagram cut inside its header is never delivered. -/
theorem parseUdp_truncated_header (a : Rfc1928.Addr) (ha : a.wf) (port : Nat) (p q : Bytes)
    (h : Rfc1928.udpHeader a port = p ++ q) (hq : q ≠ []) :
    parseUdpRelayHeader p = .error .parseAssociate := by
  have hql : 0 < q.length := List.length_pos_iff.mpr hq
  have hlen := congrArg List.length h
  match p with
  | [] | [_] | [_, _] | [_, _, _] => simp [parseUdpRelayHeader, socksUdpMinHeader]
  | r0 :: r1 :: f :: t :: rest =>
    cases a with
    | ipv4 a b c d =>
      simp [Rfc1928.udpHeader, Rfc1928.addrBytes, be16] at h hlen
      obtain ⟨rfl, rfl, rfl, rfl, _⟩ := h
      have hlt : rest.length < 6 := by omega
      simp [parseUdpRelayHeader, socksUdpMinHeader, socksUdpMinV4, socksAtypIpv4, hlt]
    | domain n =>
      simp only [Rfc1928.Addr.wf] at ha
      have hm : n.length % 256 = n.length := by omega
      simp [Rfc1928.udpHeader, Rfc1928.addrBytes, be16] at h hlen
      obtain ⟨rfl, rfl, rfl, rfl, h⟩ := h
      match rest with
      | [] =>
        simp [parseUdpRelayHeader, socksUdpMinHeader, socksUdpMinDomainLen, socksAtypIpv4,
          socksAtypDomain]
      | l :: after =>
        simp at h hlen
        obtain ⟨rfl, _⟩ := h
        simp [parseUdpRelayHeader, socksUdpMinHeader, socksUdpMinDomainLen,
          socksUdpMinDomainAfterLen, socksAtypIpv4, socksAtypDomain, hm]
        intro h2
        omega
    | ipv6 o =>
      simp only [Rfc1928.Addr.wf] at ha
      simp [Rfc1928.udpHeader, Rfc1928.addrBytes, be16] at h hlen
      obtain ⟨rfl, rfl, rfl, rfl, _⟩ := h
      have hlt : rest.length < 18 := by omega
      simp [parseUdpRelayHeader, socksUdpMinHeader, socksUdpMinV6, socksAtypIpv4, socksAtypDomain,
        socksAtypIpv6, hlt]

/-! ## The magic numbers are the RFCs' -/

/-- `magics.rs` (re-extracted on every run) against the numbers of RFC 1928 sections 3-6 and of the
    SOCKS4 protocol note; the address kinds map to ATYP 1 / 3 / 4. -/
theorem magics_eq_rfc :
    socksVer4 = 4 ∧ socksVer5 = 5 ∧ socksVerRep4 = 0 ∧
    socksCmdConnect = 1 ∧ socksCmdBind = 2 ∧ socksCmdAssoc = 3 ∧
    AddrKind.ipv4.atyp = 1 ∧ AddrKind.domain.atyp = 3 ∧ AddrKind.ipv6.atyp = 4 ∧
    socksAuthNoauth = 0 ∧ socksAuthNoaccept = 255 ∧
    [socksRepSucc, socksRepGenfail, socksRepNotallowed, socksRepNetunre, socksRepHostunre,
      socksRepConnref, socksRepTtlexp, socksRepCmdunsup, socksRepAtypunsup] = [0, 1, 2, 3, 4, 5, 6, 7, 8] ∧
    socksRepV4Succ = 90 ∧ socksRepV4Fail = 91 ∧ socksReserved = 0 := by
  decide

/-! ## Non-vacuity: the hypotheses above are met by concrete non-trivial values -/

-- CONNECT www (domain, 3 bytes) port 80, followed by two more bytes
example : (Rfc1928.Request.mk 1 (.domain [0x77, 0x77, 0x77]) 80).wf := by decide
example : read5 ([5, 1, 0, 3, 3, 0x77, 0x77, 0x77, 0, 80] ++ [0xaa, 0xbb]) false
    = .done ⟨1, ⟨.domain, [0x77, 0x77, 0x77]⟩, 80⟩ 10 [] := by decide
-- the same cut after the length byte: waits / unexpected EOF while reading the name
example : read5 [5, 1, 0, 3, 3] false = .needMore := by decide
example : read5 [5, 1, 0, 3, 3, 0x77] true = .error (.eof .domainAddress) [] := by decide
-- empty domain name
example : read5 [5, 1, 0, 3, 0, 0x1f, 0x90] true = .done ⟨1, ⟨.domain, []⟩, 8080⟩ 7 [] := by decide
-- unknown address type 2: the RFC's "address type not supported" reply
example : read5 [5, 1, 0, 2, 9, 9] true = .error (.atyp 2) [5, 8, 0, 1, 0, 0, 0, 0, 0, 0] := by decide
-- SOCKS4 to 0.1.2.3 (first octet 0 but not the marker) and SOCKS4a with user id "a", domain "ww"
example : (Socks4a.Request4.mk 1 80 0 1 2 3 [0x61]).wf := by decide
example : read4 [1, 0, 80, 0, 1, 2, 3, 0x61, 0] true = .done ⟨1, ⟨.ipv4, [0, 1, 2, 3]⟩, 80⟩ 9 [] := by decide
example : (Socks4a.Request4a.mk 1 80 1 [0x61] [0x77, 0x77]).wf := by decide
example : read4 [1, 0, 80, 0, 0, 0, 1, 0x61, 0, 0x77, 0x77, 0] false
    = .done ⟨1, ⟨.domain, [0x77, 0x77]⟩, 80⟩ 12 [] := by decide
-- the domain cut before its terminator is not accepted
example : read4 [1, 0, 80, 0, 0, 0, 1, 0x61, 0, 0x77, 0x77] true = .error (.eof .domain) [] := by decide
-- UDP: 1.2.3.4:80 "xy"
example : (SockAddr.v4 [1, 2, 3, 4] 80).wf := by decide
example : udpRelayResponse (.v4 [1, 2, 3, 4] 80) [0x78, 0x79] = [0, 0, 0, 1, 1, 2, 3, 4, 0, 80, 0x78, 0x79] := by
  decide
example : Rfc1928.clientParseUdp [0, 0, 0, 1, 1, 2, 3, 4, 0, 80, 0x78, 0x79]
    = some (.ipv4 1 2 3 4, 80, [0x78, 0x79]) := by decide
-- the byte order of the unrepaired code is not parsed back to the target by a conforming client
example : Rfc1928.clientParseUdp [0, 0, 0, 1, 2, 3, 4, 1, 0, 80, 0x78, 0x79]
    ≠ some (.ipv4 1 2 3 4, 80, [0x78, 0x79]) := by decide
example : parseUdpRelayHeader [0, 0, 1, 1, 1, 2, 3, 4, 0, 80] = .error .fragmented := by decide

end Penguin.C18
