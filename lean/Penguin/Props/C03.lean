/-
C03 — Credit-based flow control is never violated between conforming endpoints.
Theorems over the link model (`Penguin.Link`: one direction of one established stream), for EVERY
sequence of actions (writes of any size, shutdown, abort, deliveries, reads of any size,
acknowledgement deliveries — i.e. every interleaving of writer, reader, the two tasks and the
transport), every window `W ≥ 1` and every acknowledgement threshold `th ≤ W`; plus the facts about
the endpoint model that make those the only parameters that occur (`threshold_le_window`,
handshake values). The actions of the link model are the projections of the endpoint model's
functions (`Lemmas/LinkGlue.lean`, restated below as `link_*` theorems).
-/
import Penguin.Model.Link
import Penguin.Model.Mux
import Penguin.Lemmas.Link
import Penguin.Lemmas.LinkGlue
import Penguin.Lemmas.PairHarness
import Penguin.Model.WakerN
import Penguin.Lemmas.WakerNInv

namespace Penguin.C03
open Penguin Penguin.Link

/-- Pushes put on the wire minus the credit returned by `Acknowledge` frames never exceed the window
    the peer advertised: `sent + credit = W + granted` in every reachable state. -/
theorem window_never_exceeded (W th : Nat) (hW : 0 < W) (hth : th ≤ W) (as : List Act) :
    let s := run (init W th) as
    s.sent + s.credit = W + s.granted ∧ s.sent ≤ W + s.granted := by
  have h := run_inv _ as (init_inv W th hW hth)
  have hw : (run (init W th) as).W = W := run_W _ as
  have := h.hsent
  rw [hw] at this
  exact ⟨this, by omega⟩

/-- Every unit of the window is in exactly one place (credit, in flight, queued, consumed but not
    yet acknowledged, acknowledgement in flight): the receive queue never holds more than the window,
    so a stream between two penguin endpoints is never reset for overrunning it. -/
theorem never_overrun (W th : Nat) (hW : 0 < W) (hth : th ≤ W) (as : List Act) :
    let s := run (init W th) as
    s.credit + (pushes s.wire).length + s.rxq.length + s.since + s.acks.sum = W ∧
    s.rxq.length ≤ W ∧ s.overrun = false := by
  have h := run_inv _ as (init_inv W th hW hth)
  have hw : (run (init W th) as).W = W := run_W _ as
  have := h.hcredit
  rw [hw] at this
  exact ⟨this, by omega, h.hover⟩

/-- One successful write consumes exactly one unit of credit and puts exactly one `Push` on the
    wire; a write that cannot get credit changes nothing. -/
theorem one_write_one_credit (s : St) (d : Bytes) :
    ((step s (.write d)).2 = .wrote d.length ∧ d ≠ [] →
        (step s (.write d)).1.credit + 1 = s.credit ∧ (step s (.write d)).1.wire = s.wire ++ [.push d] ∧
        (step s (.write d)).1.sent = s.sent + 1) ∧
    ((step s (.write d)).2 = .pending → (step s (.write d)).1 = s ∧ s.credit = 0) :=
  Link.write_effect s d

/-- An endpoint never acknowledges frames it has not consumed, nor the same frame twice: the sum of
    all `Acknowledge` counts ever sent plus the not yet acknowledged count is exactly the number of
    frames the reader took. -/
theorem ack_only_consumed (W th : Nat) (hW : 0 < W) (hth : th ≤ W) (as : List Act) :
    let s := run (init W th) as
    s.acked + s.since = s.consumed ∧ s.acked ≤ s.consumed ∧ s.granted ≤ s.acked :=  by
  have h := run_inv _ as (init_inv W th hW hth)
  have h1 := h.hacked
  have h2 := h.hgranted
  exact ⟨h1, by omega, by omega⟩

/-- Each side's initial send credit is the window the other side advertised. -/
theorem initial_credit_is_advertised (W th : Nat) : (init W th).credit = W := rfl

/-- The window and threshold a stream object gets from the handshake (endpoint model): the capacity
    of its receive queue is the rwnd this endpoint advertises in `Connect`/`Acknowledge`, its send
    credit is the rwnd the peer advertised, and the threshold never exceeds the own window — for
    every pair of options the builder accepts. -/
theorem handshake_parameters (o : Mux.Opts) (fid peerRwnd : Nat) (host : Bytes) (port : Nat) :
    (Mux.newObj o fid peerRwnd host port).cap = o.rwnd ∧
    (Mux.newObj o fid peerRwnd host port).credit = peerRwnd ∧
    (Mux.newObj o fid peerRwnd host port).threshold ≤ o.rwnd := by
  refine ⟨rfl, rfl, ?_⟩
  simp only [Mux.newObj, Mux.thresholdFor]; omega

/-! The link actions are the endpoint model's functions, projected onto one stream. -/

open Penguin.Mux in
/-- `Link.step (.write d)` is `appWrite` on the object the handle refers to. -/
theorem link_write_is_appWrite (e : EP) (h i : Nat) (o : Obj) (d : Bytes)
    (hh : e.handles[h]? = some i) (ho : e.objs[i]? = some o) :
    (o.finishSent = true →
        (appWrite e h d).2 = .brokenPipe ∧ (appWrite e h d).1.outq = e.outq ∧
        (appWrite e h d).1.objs[i]? = some { o with parked := false }) ∧
    (o.finishSent = false → d = [] →
        (appWrite e h d).2 = .wrote 0 ∧ (appWrite e h d).1.outq = e.outq ∧
        (appWrite e h d).1.objs[i]? = some { o with parked := false }) ∧
    (o.finishSent = false → d ≠ [] → o.credit = 0 →
        (appWrite e h d).2 = .pending ∧ (appWrite e h d).1.outq = e.outq ∧
        (appWrite e h d).1.objs[i]? = some { o with parked := true, woken := false }) ∧
    (o.finishSent = false → d ≠ [] → o.credit ≠ 0 → e.outClosed = false →
        (appWrite e h d).2 = .wrote d.length ∧
        (appWrite e h d).1.outq = e.outq ++ [.frame (.push o.fid d)] ∧
        (appWrite e h d).1.objs[i]? = some { o with credit := o.credit - 1, parked := false }) :=
  Mux.appWrite_glue e h i o d hh ho

open Penguin.Mux in
/-- `Link.step .deliver` of a `Push` is `processFrame` on the object of the flow's slot. -/
theorem link_deliver_push_is_processFrame (e : EP) (fid i : Nat) (o : Obj) (d : Bytes) (ig : Bool)
    (hs : lookup e.flows fid = some (.established i)) (ho : e.objs[i]? = some o)
    (halive : o.senderAlive = true) (hopen : o.rxOpen = true) (hroom : o.rxq.length < o.cap) :
    (processFrame e (.push fid d) ig).1.objs[i]? = some { o with rxq := o.rxq ++ [d] } ∧
    (processFrame e (.push fid d) ig).1.outq = e.outq ∧
    (processFrame e (.push fid d) ig).1.flows = e.flows :=
  Mux.processFrame_push_glue e fid i o d ig hs ho halive hopen hroom

open Penguin.Mux in
/-- `Link.step .deliverAck` is `processFrame` of an `Acknowledge` on an established flow. -/
theorem link_deliverAck_is_processFrame (e : EP) (fid i n : Nat) (o : Obj) (ig : Bool)
    (hs : lookup e.flows fid = some (.established i)) (ho : e.objs[i]? = some o) :
    (processFrame e (.acknowledge fid n) ig).1.objs[i]? =
        some { o.wake with credit := (o.credit + n) % 4294967296 } ∧
    (processFrame e (.acknowledge fid n) ig).1.outq = e.outq ∧
    (processFrame e (.acknowledge fid n) ig).1.flows = e.flows :=
  Mux.processFrame_ack_glue e fid i n o ig hs ho

open Penguin.Mux in
/-- `Link.countFrame` is the reader's `ackStep` (`increment_psh_recvd_since`). -/
theorem link_countFrame_is_ackStep (e : EP) (i : Nat) (o : Obj) (ho : e.objs[i]? = some o)
    (hoc : e.outClosed = false) :
    (o.recvdSince + 1 ≥ o.threshold →
        (ackStep e i o).objs[i]? = some { o with recvdSince := 0 } ∧
        (ackStep e i o).outq = e.outq ++ [.frame (.acknowledge o.fid (o.recvdSince + 1))]) ∧
    (¬ o.recvdSince + 1 ≥ o.threshold →
        (ackStep e i o).objs[i]? = some { o with recvdSince := o.recvdSince + 1 } ∧
        (ackStep e i o).outq = e.outq) :=
  Mux.ackStep_glue e i o ho hoc


/-! ### The same for two whole endpoint models joined by FIFO wires (`Penguin.Pair`)

Every interleaving of application calls, transmissions, frame processing and dropped-handle
notifications on both sides; every pair of options; any number of concurrent flows; ids never drawn
twice (`Pair.Cfg`).  The composition "two endpoint models over FIFO wires project, per flow and
direction, onto the link model" is `Pair.established_dir` (Lemmas/PairCor.lean), proved by the
invariant `Pair.Inv` over all runs (Lemmas/PairMain.lean `run_inv`). -/

open Penguin.Mux Penguin.Pair in
/-- On every flow established on both endpoints, direction `a → b`: the sender's credit, the `Push`
    frames in flight, the receiver's queue, its consumed-but-unacknowledged count and the
    acknowledgements in flight add up to exactly the window `b` advertised; the queue never exceeds
    it; the window in force is `b`'s configured `rwnd`. -/
theorem pair_window_never_exceeded {oa ob : Opts} {ra rb : List Nat} (c : Cfg oa ob ra rb) (as : List (Pair.Side × Pair.Act))
    {x i j : Nat} (e : Established (Pair.run (Pair.init oa ob ra rb) as) x i j) :
    let p := Pair.run (Pair.init oa ob ra rb) as
    ∃ oA oB, p.a.objs[i]? = some oA ∧ p.b.objs[j]? = some oB ∧
      oA.credit + (pushesOf x (pathAB p)).length + oB.rxq.length + oB.recvdSince + (acksOf x (pathBA p)).sum = ob.rwnd ∧
      oB.rxq.length ≤ ob.rwnd ∧ oB.cap = ob.rwnd := by
  have h := reach_inv c as
  have hb : (Pair.run (Pair.init oa ob ra rb) as).b.opts = ob := (run_opts _ as (init_inv oa ob ra rb c.wa c.wb c.nodup c.nonzero)).2
  have := established_credit h e
  rw [hb] at this
  exact this

open Penguin.Mux Penguin.Pair in
/-- … and the same in the direction `b → a` (the model is symmetric). -/
theorem pair_window_never_exceeded_rev {oa ob : Opts} {ra rb : List Nat} (c : Cfg oa ob ra rb) (as : List (Pair.Side × Pair.Act))
    {x i j : Nat} (e : Established (Pair.run (Pair.init oa ob ra rb) as) x i j) :
    let p := Pair.run (Pair.init oa ob ra rb) as
    ∃ oB oA, p.b.objs[j]? = some oB ∧ p.a.objs[i]? = some oA ∧
      oB.credit + (pushesOf x (pathBA p)).length + oA.rxq.length + oA.recvdSince + (acksOf x (pathAB p)).sum = oa.rwnd ∧
      oA.rxq.length ≤ oa.rwnd ∧ oA.cap = oa.rwnd := by
  have h := reach_inv c as
  have ha : (Pair.run (Pair.init oa ob ra rb) as).a.opts = oa := (run_opts _ as (init_inv oa ob ra rb c.wa c.wb c.nodup c.nonzero)).1
  have := established_credit h.swap e.swap
  simp only [PS.swap] at this
  rw [ha] at this
  exact this

open Penguin.Mux Penguin.Pair in
/-- A `Push` arriving on an established flow always finds room in the receiver's queue: between two
    penguin endpoints the overrun branch (`Reset` for exceeding the window) is never taken. -/
theorem pair_push_always_fits {oa ob : Opts} {ra rb : List Nat} (c : Cfg oa ob ra rb) (as : List (Pair.Side × Pair.Act))
    {x i j : Nat} (e : Established (Pair.run (Pair.init oa ob ra rb) as) x i j) (d : Bytes) (rest : List Msg)
    (hab : (Pair.run (Pair.init oa ob ra rb) as).ab = .frame (.push x d) :: rest) :
    ∃ oB, (Pair.run (Pair.init oa ob ra rb) as).b.objs[j]? = some oB ∧ oB.senderAlive = true ∧ oB.rxOpen = true ∧
      oB.rxq.length < oB.cap :=
  established_push_fits (reach_inv c as) e d rest hab

open Penguin.Mux Penguin.Pair in
/-- The same at the level the correspondence harness works at: after EVERY history of stimuli
    (application calls and deliveries at either endpoint, each followed by that endpoint's run to
    quiescence — `Mux.applyOp`, the function compared with the real `Multiplexor` step by step), on
    every flow established on both endpoints, the credit accounting holds.  (`stimRun` checks each
    stimulus's side conditions; every such history is a fine-grained run, `Pair.stimRun_is_run`.) -/
theorem harness_history_window {oa ob : Opts} {ra rb : List Nat} (c : Cfg oa ob ra rb) (l : List (Pair.Side × Stim)) (q : PS)
    (h : stimRun (Pair.init oa ob ra rb) l = some q) {x i j : Nat} (e : Established q x i j) :
    ∃ oA oB, q.a.objs[i]? = some oA ∧ q.b.objs[j]? = some oB ∧
      oA.credit + (pushesOf x (pathAB q)).length + oB.rxq.length + oB.recvdSince + (acksOf x (pathBA q)).sum = q.b.opts.rwnd ∧
      oB.rxq.length ≤ q.b.opts.rwnd ∧ oB.cap = q.b.opts.rwnd :=
  established_credit (stim_history_inv c l q h) e

/-! Non-vacuity of the pair theorems: a concrete run (windows 2, threshold 1) that opens a stream,
    writes three bytes, reads them in two reads, shuts down and reads end-of-stream. -/
private def pcfg : Mux.Opts := { rwnd := 2, threshold := 1 }
private def pacts : List (Pair.Side × Pair.Act) :=
  [(.A, .open 1 [104] 80), (.A, .xmit), (.B, .recv), (.B, .xmit), (.A, .recv), (.A, .runDone), (.B, .accept),
   (.A, .write 0 [1, 2, 3]), (.A, .xmit), (.B, .recv), (.B, .read 0 2), (.B, .read 0 9), (.B, .xmit), (.A, .recv),
   (.A, .shutdown 0), (.A, .xmit), (.B, .recv), (.B, .read 0 9)]
example : Pair.Cfg pcfg pcfg [7, 8] [9, 10] := ⟨by decide, by decide, by decide, by decide⟩
example : Pair.Established (Pair.run (Pair.init pcfg pcfg [7, 8] [9, 10]) pacts) 7 0 0 :=
  ⟨by decide, by decide, by decide, by decide, by decide⟩

/-! Non-vacuity: a concrete run with an asymmetric configuration (window 2, threshold 1). -/
example : (run (init 2 1) [.write [1], .write [2], .write [3], .deliver, .read 8, .deliverAck, .write [3]]).sent = 3 := by decide
example : (step (run (init 2 1) [.write [1], .write [2]]) (.write [3])).2 = .pending := by decide

/-! Non-vacuity of `harness_history_window`: a stimulus-level history that opens a stream, transfers
    three bytes and half-closes is accepted by `stimRun`. -/
private def hhist : List (Pair.Side × Pair.Stim) :=
  [(.A, .call (.open 1 [104] 80)), (.B, .deliver), (.A, .deliver), (.B, .call .accept),
   (.A, .call (.write 0 [1, 2, 3])), (.B, .deliver), (.B, .call (.read 0 2)), (.B, .call (.read 0 9)), (.A, .deliver),
   (.A, .call (.shutdown 0)), (.B, .deliver), (.B, .call (.read 0 9))]
example : ((Pair.stimRun (Pair.init pcfg pcfg [7, 8] [9, 10]) hhist).map (fun q => (q.gb.rlog 0, q.gb.eof 0))) =
    some ([1, 2, 3], true) := by decide

/-! ### One write, one unit — with several tasks writing to ONE stream at the same time

`one_write_one_credit` is about the writes of a stream one after the other (`AsyncWrite` takes
`&mut self`).  The frame-level entry points `poll_write_push` / `poll_obtain_write_permission` take
`&self`, so several tasks can write to one stream concurrently; the small-step model `Model/WakerN`
(one step = one atomic operation of any of the threads, see `Props/C12.lean`) covers that. -/

open Penguin.WakerN Penguin.Lemmas.WakerN in
/-- For every scenario (any initial credit = the window the peer advertised, any number of writer
    threads and polls, any number of `acknowledge(n)` / close threads, any number of `do_shutdown()`
    calls through other handles) and every interleaving of the
    atomic operations: every successful write (`Ready(Some(()))`) is exactly one `Push` handed to the
    task; the credit left plus the successful writes plus the units held by writers whose `Push` is
    their next operation is exactly the window plus the credit returned by acknowledgements so far — no
    unit is spent twice, whoever wins a race for it; so the `Push`es never exceed window + returned
    credit, and never what the peer advertised and acknowledged altogether. -/
theorem one_write_one_credit_under_concurrency (sc : WakerN.Scenario) (ls : List WakerN.Label) :
    let s := WakerN.run sc ls
    totalSome s = totalSent s ∧
    s.credit + totalSome s + inFlight s = sc.credit + s.grants ∧
    totalSent s ≤ sc.credit + s.grants ∧ sc.credit + s.grants ≤ sc.credit + sc.ackTotal := by
  intro s
  have inv : Lemmas.WakerN.Inv sc s := Lemmas.WakerN.run_inv sc ls
  have h0 := totalSome_eq_totalSent inv
  have h1 := inv.conservation
  have h2 := totals inv
  have h3 := inv.grants
  refine ⟨h0, ?_, ?_, ?_⟩ <;> omega

/-- Non-vacuity: window 1, two tasks writing, one acknowledgement of 1: two writes succeed, two `Push`es,
    no credit left (writer 1's first `compare_exchange` loses against writer 0's, it waits, is woken by
    the acknowledgement's arrival in its re-check). -/
example :
    let s := WakerN.run ⟨1, [1, 1], [.ack 1], 0⟩ [.writer 0, .writer 1, .writer 0, .writer 1, .writer 0, .writer 1,
      .writer 0, .writer 1, .writer 1, .actor 0, .writer 1, .writer 1, .writer 1, .writer 1, .actor 0]
    WakerN.allWritersFinished s = true ∧ WakerN.totalSome s = 2 ∧ WakerN.totalSent s = 2 ∧ s.credit = 0 ∧
      s.grants = 1 := by
  decide

end Penguin.C03
