/-
C08 — When the connection ends, everything resolves: the stimuli of `Model/MuxStart.lean`.

`Props/C08.lean` quantifies over histories of `Mux.Op`.  Two stimuli of the correspondence harness
are not in `Mux.Op`: a transport whose OUTBOUND direction fails (`sinkfail`, `applySinkFail`) and
the first poll of a connection task that was created but not polled yet (`start`, `applyStart`;
until then every call is `opStep` alone).  The theorems here state the end-of-connection properties
for them — for every endpoint state, and for EVERY history `ops : List OpX` (`Model/MuxHist.lean`)
from a fresh endpoint (any options, any script of id draws):

* a poll with a failed sink ends the connection at once (which modes end at once, which were
  already ending), and with it every pending open request and every pending bind request is
  answered, the flow table is empty, every stream is closed in both directions, every parked writer
  is woken — also when that poll is the task's FIRST one, whatever was called before it;
* in every reachable state whose task has finished: no request is pending, the flow table is empty,
  all streams are closed, all parked writers woken; the end is final; each request is answered at
  most once over the whole history;
* no Close reaches the wire through a failed sink, and a finished task transmits nothing.

(The invariants are those of Lemmas/MuxWF, MuxReach, MuxMono, MuxWake, MuxBound, MuxLeak, MuxOnce,
MuxOnceB, MuxEndedTable, shown for the new functions in Lemmas/MuxStartRel, MuxStartOnce, MuxStartEnd,
MuxStartKept, MuxStartTx and lifted to `runOpsX` in Lemmas/MuxStartHist.)
-/
import Penguin.Model.Mux
import Penguin.Model.MuxStart
import Penguin.Model.MuxHist
import Penguin.Lemmas.MuxStartRel
import Penguin.Lemmas.MuxStartOnce
import Penguin.Lemmas.MuxStartEnd
import Penguin.Lemmas.MuxStartKept
import Penguin.Lemmas.MuxStartTx
import Penguin.Lemmas.MuxStartHist
import Penguin.Lemmas.MuxStartPre
import Penguin.Lemmas.MuxStartAns

namespace Penguin.C08
open Penguin Penguin.Mux

/-! ### One poll with a failed sink -/

/-- A failing sink ends the connection at once.  On an endpoint whose task has not finished and is
    in none of the two wind-down waits (`closing`: waiting for the peer's end; `draining`: the drain
    after a local drop), the poll with the failed sink
    * finishes the task, or — only if the receive loop itself ended the connection in this very poll
      (e.g. it found the peer's Close among the delivered items, without the end of the source) —
      leaves it waiting for the peer's end;
    * once the poll has finished the task, the stimulus leaves the endpoint finished with its
      outbound queue closed;
    * it does finish the task when the receive loop has nothing to do (nothing delivered, no
      hand-over parked), and when the source has already ended or failed (the end marker is among
      the delivered items, or was seen before) — nothing waits for the application or the peer. -/
theorem sinkfail_ends_the_connection (e : EP) (hd : e.dead = false) (hc : e.closing = none) (hdr : e.draining = none) :
    ((taskPollSinkFailed e).1.dead = true ∨ (taskPollSinkFailed e).1.closing.isSome = true) ∧
    ((taskPollSinkFailed e).1.dead = true →
      (applySinkFail e).1.dead = true ∧ (applySinkFail e).1.outClosed = true) ∧
    ((e.inbox = [] ∧ e.park = none) ∨ hasEnd e.inbox = true ∨ e.srcEnded = true →
      (applySinkFail e).1.dead = true) := by
  have hdead : (taskPollSinkFailed e).1.dead = true → (applySinkFail e).1.dead = true := fun h =>
    (Mono.settle (taskPollSinkFailed e).1).dead h
  refine ⟨taskPollSinkFailed_ends e hd hc, ?_, ?_⟩
  · intro h
    exact ⟨hdead h, (applySinkFail_ended e (Ended.of_running hd hc hdr)).closed (Or.inl (hdead h))⟩
  · intro h
    apply hdead
    rcases h with ⟨hi, hp⟩ | h | h
    · rw [taskPollSinkFailed_quiet e hd hc hdr hi hp]
      exact (windDownTail_resolves _ [] _ .wsError (Or.inr (by intro h; cases h))).1
    · exact taskPollSinkFailed_hasEnd e hd hc hdr (Or.inl h)
    · exact taskPollSinkFailed_hasEnd e hd hc hdr (Or.inr h)

/-- "A failing sink ALWAYS finishes a running task at once" is false of the model (and of the code it
    follows): when the peer's Close has been delivered but not the end of the source, the receive loop
    ends the connection itself in that poll and the task waits for the peer's end — with the requests
    still pending until it arrives (the close-handshake wait recorded as a known finding in
    `Props/C08.lean`; the harness's transport always ends the source right after a Close, so its runs
    do not reach this).  Witness: an open request, then a bare Close handed to the transport, before a
    first poll on a failed sink. -/
theorem sinkfail_may_leave_the_task_waiting_for_the_peer :
    ∃ ops : List OpX,
      let e := runOpsX (initX {} [7]) ops
      e.dead = false ∧ e.closing = none ∧ e.draining = none ∧
      (applyStart e true).1.dead = false ∧ (applyStart e true).1.closing = some .ok ∧ pend (applyStart e true).1 = [1] :=
  ⟨[.pre (.open 1 [] 80), .preDeliver [.msg .close]], by decide⟩

/-- The modes that were already ending.  Finished, or waiting for the peer's end: the sink is not
    used any more, the poll does nothing.  Parked in the drain after a local drop: the drain ends
    (the queue is discarded) and the rest of the wind-down follows with the result of the drop — the
    task finishes, or (clean result, source still open, no end delivered) waits for the peer's end;
    it finishes when the source has ended or the result is an error. -/
theorem sinkfail_while_already_ending (e : EP) :
    (e.dead = true ∨ e.closing.isSome = true → taskPollSinkFailed e = (e, [])) ∧
    (∀ res, e.dead = false → e.closing = none → e.draining = some res →
      ((taskPollSinkFailed e).1.dead = true ∨ (taskPollSinkFailed e).1.closing = some res) ∧
      (hasEnd e.inbox = true ∨ e.srcEnded = true ∨ res ≠ .ok → (taskPollSinkFailed e).1.dead = true)) :=
  ⟨taskPollSinkFailed_idle e, fun res hd hc hdr => taskPollSinkFailed_draining e res hd hc hdr⟩

/-- What "everything resolves" means for one stimulus from `e` to `e'` with events `evs`:
    1. the task has finished and the outbound queue is closed;
    2. the flow table is empty;
    3. no open request is pending (neither waiting nor answered-but-not-returned);
    4. every open request that was pending has its answer among the events of this stimulus;
    5. every `BindRequested` slot got its answer among the events of this stimulus;
    6. every stream object is closed in both directions (reads end, writes fail);
    7. every writer parked on flow-control credit has been woken. -/
def Resolved (e e' : EP) (evs : List Ev) : Prop :=
  (e'.dead = true ∧ e'.outClosed = true) ∧
  e'.flows = [] ∧
  (e'.opens = [] ∧ e'.doneq = []) ∧
  (∀ q, q ∈ pend e → q ∈ doneReqs evs) ∧
  (∀ fid q, lookup e.flows fid = some (.bindRequested q) → q ∈ doneB evs) ∧
  (Inv2 e → ∀ (i : Nat) (ob : Obj), e'.objs[i]? = some ob → ob.closed) ∧
  (Inv2 e → WakeOk e → ∀ (i : Nat) (ob : Obj), e'.objs[i]? = some ob → ob.parked = true → ob.woken = true)

/-- A failing sink resolves every pending request.  `e` is any endpoint state whose task has not
    finished and is not waiting for the peer's end (`Ended e` holds in every reachable state, and
    trivially for a running one: `Ended.of_running`).  If the poll finishes the task
    (`sinkfail_ends_the_connection` says when), then after the stimulus: the task is finished, the
    flow table empty, no open request pending; every open request that was pending and every
    `BindRequested` slot has its answer among the emitted events (each at most once:
    `each_request_answered_at_most_once_x`); all streams are closed, all parked writers woken. -/
theorem sinkfail_resolves_every_pending_request (e : EP) (hd : e.dead = false) (he : Ended e)
    (hfin : (taskPollSinkFailed e).1.dead = true) :
    Resolved e (applySinkFail e).1 (applySinkFail e).2.2 := by
  have hdead : (applySinkFail e).1.dead = true := (Mono.settle (taskPollSinkFailed e).1).dead hfin
  have hended := applySinkFail_ended e he
  have hflows : (applySinkFail e).1.flows = [] := hended.empty hdead
  have hpend : pend (applySinkFail e).1 = [] := applySinkFail_done e he (Tidy.of_alive hd) hdead
  have hk := Kept.applySinkFail e
  refine ⟨⟨hdead, hended.closed (Or.inl hdead)⟩, hflows, pend_nil hpend, ?_, ?_, ?_, ?_⟩
  · intro q hq
    rcases hk.opens q hq with h | h
    · rw [hpend] at h; cases h
    · exact h
  · intro fid q hq
    rcases hk.binds fid q hq with h | h
    · rw [hflows] at h; simp at h
    · exact h
  · intro hi
    exact (applySinkFail_inv e hi).dead_all_closed hdead
  · intro hi hw
    exact (applySinkFail_inv e hi).dead_all_woken (Keeps.applySinkFail e hw) hdead

/-- WHICH answers: on a running endpoint whose receive loop has nothing to do (nothing delivered and
    unprocessed, no hand-over parked — the state between two stimuli of a healthy connection) the
    failing sink answers every bind request `refused` and every open request `Closed` — or
    `FlowIdRejected` when the peer had rejected it and no retry is left; a stream is handed out only
    for a request the peer had acknowledged before and whose future had not run yet (none after a
    `settle`).  (When frames are still waiting in the transport the receive loop processes them in
    the same poll first, and an answer may be what the peer sent.) -/
theorem sinkfail_answers_are_negative (e : EP) (hd : e.dead = false) (hc : e.closing = none) (hdr : e.draining = none)
    (hi : e.inbox = []) (hp : e.park = none) :
    (∀ q r, Ev.bindDone q r ∈ (applySinkFail e).2.2 → r = .refused) ∧
    (∀ q r, Ev.openDone q r ∈ (applySinkFail e).2.2 →
      r = .closed ∨ r = .rejected ∨ ((∃ h, r = .ok h) ∧ q ∈ e.doneq.map (·.1))) :=
  ⟨fun q r h => applySinkFail_quiet_ans e hd hc hdr hi hp (Ev.bindDone q r) h,
   fun q r h => applySinkFail_quiet_ans e hd hc hdr hi hp (Ev.openDone q r) h⟩

/-- The same at the earliest point: the task's FIRST poll finds the sink already failed
    (`applyStart e true`), whatever calls were made and whatever was delivered before — `e` is any
    state (every unstarted history leads to one with `dead = false`, `Ended`, `Inv2`, `WakeOk`:
    `unstarted_history_is_running`).  Requests made before the first poll do not stay pending. -/
theorem start_on_dead_transport_resolves_everything (e : EP) (hd : e.dead = false) (he : Ended e)
    (hfin : (taskPollSinkFailed e).1.dead = true) :
    Resolved e (applyStart e true).1 (applyStart e true).2.2 := by
  rw [applyStart_failed]
  exact sinkfail_resolves_every_pending_request e hd he hfin

/-- Every history of an endpoint whose task has not been polled yet (application calls and
    deliveries into the transport, `opStep` / `deliverMany` alone) leaves the task neither finished
    nor winding down, in a well-formed state — so the two theorems above apply to its first poll:
    that poll, with a failed sink, finishes the task or leaves it waiting for the peer's end, and
    finishes it when nothing needs receiving or the source has ended. -/
theorem unstarted_history_is_running (o : Opts) (rng : List Nat) (pres : List OpX) (hpre : pres.all isPre = true) :
    let e := runOpsX (initX o rng) pres
    e.dead = false ∧ e.closing = none ∧ e.draining = none ∧ Ended e ∧ Inv2 e ∧ WakeOk e ∧
    ((taskPollSinkFailed e).1.dead = true ∨ (taskPollSinkFailed e).1.closing.isSome = true) ∧
    ((e.inbox = [] ∧ e.park = none) ∨ hasEnd e.inbox = true ∨ e.srcEnded = true →
      (applyStart e true).1.dead = true) := by
  intro e
  have f := pre_flags (initX o rng) pres hpre
  have hd : e.dead = false := f.dead
  have hc : e.closing = none := f.closing
  have hdr : e.draining = none := f.draining
  refine ⟨hd, hc, hdr, reachableX_ended o rng pres, reachableX_inv o rng pres, reachableX_wakeOk o rng pres,
    taskPollSinkFailed_ends e hd hc, ?_⟩
  intro h
  rw [applyStart_failed]
  exact (sinkfail_ends_the_connection e hd hc hdr).2.2 h

/-- The clause "at any point, including before the task's first poll", unconditionally: WHATEVER the
    application calls before the first poll — open requests, bind requests, datagrams, drops of the
    `Multiplexor`, cancellations, in any number and order, with any options and id draws; nothing
    delivered yet — if the sink has failed by the time of the first poll, that poll finishes the task
    and everything is resolved (`Resolved`: every one of those requests is answered in that very
    step, none stays pending, the table is empty, …), and nothing at all is transmitted. -/
theorem requests_before_first_poll_resolve_on_dead_transport (o : Opts) (rng : List Nat) (pres : List OpX)
    (hpre : pres.all isPreCall = true) :
    let e := runOpsX (initX o rng) pres
    Resolved e (applyStart e true).1 (applyStart e true).2.2 ∧ txOf (applyStart e true).2.2 = [] := by
  intro e
  have hp := all_isPre_of_isPreCall hpre
  have f := pre_flags (initX o rng) pres hp
  have hd : e.dead = false := f.dead
  have hfin : (taskPollSinkFailed e).1.dead = true := preCall_start_failed_dead o rng pres hpre
  refine ⟨start_on_dead_transport_resolves_everything e hd (reachableX_ended o rng pres) hfin, ?_⟩
  rw [applyStart_failed, applySinkFail_evs, txOf_append,
    taskPollSinkFailed_quiet_tx e hd f.closing f.draining (preCall_inbox _ pres hpre) (pre_park _ pres hp),
    settle_dead_tx _ hfin]
  rfl

/-- Neither the connection task nor the open futures ever drop a request silently: across `settle`
    (the task's run to quiescence after any stimulus), across a poll with a failed sink and across a
    first poll, every open request that was pending is still pending or has its answer among the
    emitted events, and every `BindRequested` slot is still in the table or has its answer there.
    (An application that gives a request up — `cancelOpen` — is the only way one leaves unanswered.) -/
theorem task_never_drops_a_request (e : EP) (sf : Bool) :
    Kept e (settle e).1 (settle e).2 ∧
    Kept e (applySinkFail e).1 (applySinkFail e).2.2 ∧
    Kept e (applyStart e sf).1 (applyStart e sf).2.2 :=
  ⟨Kept.settle e, Kept.applySinkFail e, Kept.applyStart e sf⟩

/-! ### Every history with a failing sink and an unstarted task -/

/-- The end is final, also across failing sinks and first polls: once the task has finished and
    the outbound queue is closed they stay so through every further history; a dropped
    `Multiplexor` stays dropped. -/
theorem the_end_is_final_x (e : EP) (ops : List OpX) :
    (e.dead = true → (runOpsX e ops).dead = true) ∧
    (e.outClosed = true → (runOpsX e ops).outClosed = true) ∧
    (e.muxAlive = false → (runOpsX e ops).muxAlive = false) :=
  ⟨(Mono.runOpsX e ops).dead, (Mono.runOpsX e ops).outClosed, (Mono.runOpsX e ops).muxGone⟩

/-- In EVERY state an endpoint can reach — any options, any script of id draws, any history of calls
    before the first poll, first polls, stimuli of the started task and failing sinks — once the
    task has finished, every stream object ever created is closed in both directions and no flow
    refers to a stream. -/
theorem every_stream_closed_after_end_x (o : Opts) (rng : List Nat) (ops : List OpX)
    (hd : (runOpsX (initX o rng) ops).dead = true) :
    (∀ (i : Nat) (ob : Obj), (runOpsX (initX o rng) ops).objs[i]? = some ob → ob.closed) ∧
    (∀ fid i, lookup (runOpsX (initX o rng) ops).flows fid ≠ some (.established i)) :=
  ⟨reachableX_dead_all_closed o rng ops hd, (reachableX_inv o rng ops).2 hd⟩

/-- … the flow table is empty (and stays empty: calls on an ended connection take the slot they
    inserted out again), and while the task is winding down or finished the outbound queue is closed. -/
theorem ended_connection_table_is_empty_x (o : Opts) (rng : List Nat) (ops : List OpX) :
    ((runOpsX (initX o rng) ops).dead = true → (runOpsX (initX o rng) ops).flows = []) ∧
    ((runOpsX (initX o rng) ops).dead = true ∨ (runOpsX (initX o rng) ops).draining ≠ none ∨
      (runOpsX (initX o rng) ops).closing ≠ none → (runOpsX (initX o rng) ops).outClosed = true) :=
  ⟨(reachableX_ended o rng ops).empty, (reachableX_ended o rng ops).closed⟩

/-- … and NO open request is pending: no `new_stream_channel` future is still waiting, none is
    answered without having returned.  (Together with the empty flow table: no bind request is
    pending either.)  This is the clause "at any point, including before the task's first poll":
    whatever ended the connection — the peer, the source, a failing sink, a first poll on a dead
    transport — nothing stays pending for ever. -/
theorem no_request_pending_after_end_x (o : Opts) (rng : List Nat) (ops : List OpX)
    (hd : (runOpsX (initX o rng) ops).dead = true) :
    (runOpsX (initX o rng) ops).opens = [] ∧ (runOpsX (initX o rng) ops).doneq = [] ∧
    pendB (runOpsX (initX o rng) ops) = [] := by
  have h := pend_nil (reachableX_done o rng ops hd)
  refine ⟨h.1, h.2, ?_⟩
  unfold pendB
  rw [(reachableX_ended o rng ops).empty hd]; rfl

/-- Each request is answered at most once over the whole history, and only requests that were
    started are answered: for every history whose open requests (resp. bind requests) are numbered
    without repetition, the `openDone` (resp. `bindDone`) events of the whole run name each request
    at most once and only started ones. -/
theorem each_request_answered_at_most_once_x (o : Opts) (rng : List Nat) (ops : List OpX) :
    ((opensOfX ops).Nodup →
      (doneReqs (runOpsXEv (initX o rng) ops).2).Nodup ∧
      ∀ r, r ∈ doneReqs (runOpsXEv (initX o rng) ops).2 → r ∈ opensOfX ops) ∧
    ((bindsOfX ops).Nodup →
      (doneB (runOpsXEv (initX o rng) ops).2).Nodup ∧
      ∀ r, r ∈ doneB (runOpsXEv (initX o rng) ops).2 → r ∈ bindsOfX ops) :=
  ⟨answered_at_most_once_x o rng ops, binds_answered_at_most_once_x o rng ops⟩

/-- Nothing blocks for ever, writers included: in every reachable state whose task has finished,
    every writer that was parked on flow-control credit has been woken. -/
theorem parked_writers_woken_after_end_x (o : Opts) (rng : List Nat) (ops : List OpX)
    (hd : (runOpsX (initX o rng) ops).dead = true) (i : Nat) (ob : Obj)
    (ho : (runOpsX (initX o rng) ops).objs[i]? = some ob) (hp : ob.parked = true) : ob.woken = true :=
  (reachableX_inv o rng ops).dead_all_woken (reachableX_wakeOk o rng ops) hd i ob ho hp

/-- In every reachable state, finished or not: the flow table and the stream objects are consistent
    (`WF`), a parked un-woken writer has no credit and an open stream (`WakeOk`), the queues respect
    their bounds and flow id 0 is never in the table (`Bnd`), and an `Established` slot under id `x`
    refers to an object of id `x` (`SlotFidE`). -/
theorem reachable_wellformed_x (o : Opts) (rng : List Nat) (ops : List OpX) :
    WF (runOpsX (initX o rng) ops) ∧ WakeOk (runOpsX (initX o rng) ops) ∧ Bnd o (runOpsX (initX o rng) ops) ∧
    SlotFidE (runOpsX (initX o rng) ops) :=
  ⟨(reachableX_inv o rng ops).1, reachableX_wakeOk o rng ops, reachableX_bnd o rng ops, reachableX_slotFid o rng ops⟩

/-! ### The wire -/

/-- No Close on the wire through a failed sink.  In NO state does the poll with a failed sink emit
    `wireClose`; once that poll has finished the task, the whole stimulus emits none and everything
    it emits after the poll is no transmission at all; on a running endpoint whose receive loop has
    nothing to do the stimulus transmits nothing whatsoever (what was queued is discarded). -/
theorem no_close_on_wire_after_sinkfail (e : EP) :
    Ev.wireClose ∉ (taskPollSinkFailed e).2 ∧
    ((taskPollSinkFailed e).1.dead = true →
      Ev.wireClose ∉ (applySinkFail e).2.2 ∧
      ∃ later, (applySinkFail e).2.2 = (taskPollSinkFailed e).2 ++ later ∧ txOf later = []) ∧
    (e.dead = false → e.closing = none → e.draining = none → e.inbox = [] → e.park = none →
      txOf (applySinkFail e).2.2 = []) := by
  refine ⟨taskPollSinkFailed_no_close_mem e, ?_, ?_⟩
  · intro hd
    obtain ⟨later, h1, h2⟩ := applySinkFail_after_poll_tx e hd
    refine ⟨?_, later, h1, h2⟩
    apply not_mem_of_closesOf
    rw [h1, closesOf_append, taskPollSinkFailed_no_close, closesOf_of_txOf h2]; rfl
  · intro hd hc hdr hi hp
    have hfin : (taskPollSinkFailed e).1.dead = true := by
      rw [taskPollSinkFailed_quiet e hd hc hdr hi hp]
      exact (windDownTail_resolves _ [] _ .wsError (Or.inr (by intro h; cases h))).1
    rw [applySinkFail_evs, txOf_append, taskPollSinkFailed_quiet_tx e hd hc hdr hi hp, settle_dead_tx _ hfin]; rfl

/-- A finished task transmits nothing, whatever happens next: no message and no Close is handed to
    the sink by any later stimulus of any kind. -/
theorem nothing_transmitted_after_the_end_x (e : EP) (hd : e.dead = true) (ops : List OpX) :
    txOf (runOpsXEv e ops).2 = [] :=
  dead_runOpsXEv_tx e ops hd

/-! ### Non-vacuity -/

/-- An open request and a bind request, both unanswered (ids 7 and 9 from the script). -/
def twoRequests : List OpX := [.op (.open 1 [104] 80), .op (.bindReq 2 .stream [] 8080)]

/-- They are pending on a running endpoint whose receive loop has nothing to do … -/
example : let e := runOpsX (initX {} [7, 9]) twoRequests
    (e.dead = false ∧ e.closing = none ∧ e.draining = none ∧ e.inbox = [] ∧ e.park = none ∧
     e.flows = [(9, .bindRequested 2), (7, .requested 1)] ∧ pend e = [1] ∧ pendB e = [2]) := by decide

/-- … the sink fails: both are answered, nothing is pending, the table is empty, the task is
    finished with the transport error, and no Close was sent. -/
example : (runOpsXEv (initX {} [7, 9]) (twoRequests ++ [.sinkfail])).2 =
    [.wire (.frame (.connect 7 4 80 [104])), .wire (.frame (.bind 9 .stream 8080 [])),
     .bindDone 2 .refused, .openDone 1 .closed, .exit .wsError] := by decide
example : let e := runOpsX (initX {} [7, 9]) (twoRequests ++ [.sinkfail])
    (e.dead = true ∧ e.flows = [] ∧ pend e = [] ∧ pendB e = []) := by decide
example : let e := runOpsX (initX {} [7, 9]) twoRequests
    ((taskPollSinkFailed e).1.dead = true ∧ (applySinkFail e).2.2 = [.bindDone 2 .refused, .openDone 1 .closed, .exit .wsError]) := by
  decide

/-- The same two requests made BEFORE the task's first poll, on a transport whose sink has failed
    already: the first poll answers them (C08-9's scenario). -/
def twoRequestsUnstarted : List OpX := [.pre (.open 1 [104] 80), .pre (.bindReq 2 .stream [] 8080)]

example : twoRequestsUnstarted.all isPre = true ∧ twoRequestsUnstarted.all isPreCall = true := by decide
example : let e := runOpsX (initX {} [7, 9]) twoRequestsUnstarted
    (e.inbox = [] ∧ e.park = none ∧ pend e = [1] ∧ pendB e = [2] ∧
     e.outq = [.frame (.connect 7 4 80 [104]), .frame (.bind 9 .stream 8080 [])]) := by decide
example : (runOpsXEv (initX {} [7, 9]) (twoRequestsUnstarted ++ [.start true])).2 =
    [.bindDone 2 .refused, .openDone 1 .closed, .exit .wsError] := by decide
example : let e := runOpsX (initX {} [7, 9]) (twoRequestsUnstarted ++ [.start true])
    (e.dead = true ∧ e.flows = [] ∧ pend e = [] ∧ pendB e = []) := by decide
/-- With a sink that works the first poll sends the two requests instead. -/
example : (runOpsXEv (initX {} [7, 9]) (twoRequestsUnstarted ++ [.start false])).2 =
    [.wire (.frame (.connect 7 4 80 [104])), .wire (.frame (.bind 9 .stream 8080 []))] := by decide

/-- The second disjunct of `sinkfail_ends_the_connection` is real: the peer's Close was delivered
    without the end of the source; the receive loop ends the connection itself in the poll and the
    task waits for the peer's end (the requests are answered when that arrives). -/
example : let e := runOpsX (initX {} [7, 9]) (twoRequestsUnstarted ++ [.preDeliver [.msg .close], .start true])
    (e.dead = false ∧ e.closing = some .ok ∧ pend e = [1]) := by decide
example : let e := runOpsX (initX {} [7, 9]) (twoRequestsUnstarted ++ [.preDeliver [.msg .close], .start true, .op (.deliver .eof)])
    (e.dead = true ∧ pend e = [] ∧ pendB e = []) := by decide

/-- A parked writer is woken by the failing sink (window 1: the second write parks). -/
example : let e := runOpsX (initX {} []) [.op (.deliver (.msg (.frame (.connect 5 1 80 [])))), .op .accept,
      .op (.write 0 [1]), .op (.write 0 [2]), .sinkfail]
    (e.dead = true ∧ e.objs.map (fun ob => (ob.parked, ob.woken, ob.finishSent, ob.senderAlive)) = [(true, true, true, false)]) := by
  decide

/-- Draining after a local drop with a stalled sink, then the sink fails: the task goes on to wait
    for the peer's end (`sinkfail_while_already_ending`); the source's end finishes it. -/
example : let e := runOpsX (initX {} [7]) [.op (.sinkRoom (some 0)), .op (.open 1 [] 80), .op .dropMux]
    (e.dead = false ∧ e.draining = some .ok ∧ e.outq.length = 1) := by decide
example : let e := runOpsX (initX {} [7]) [.op (.sinkRoom (some 0)), .op (.open 1 [] 80), .op .dropMux, .sinkfail]
    (e.dead = false ∧ e.draining = none ∧ e.closing = some .ok ∧ e.outq = []) := by decide
example : let e := runOpsX (initX {} [7]) [.op (.sinkRoom (some 0)), .op (.open 1 [] 80), .op .dropMux, .sinkfail,
      .op (.deliver .eof)]
    (e.dead = true ∧ pend e = [] ∧ e.flows = []) := by decide

end Penguin.C08
