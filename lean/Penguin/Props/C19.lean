/-
C19 — Client survives connection loss: bounded back-off, retry limit, no lost request.
Property theorems only; every theorem here is audited (`#print axioms`) by bin/check.

Part A: the back-off generator (`penguin_mux::timing::Backoff`), all parameters universally
quantified.  Part B: the retry loop of `client_main_inner` for every script of outcomes.
Part C: the connected main loop, the parked request, no request lost.
-/
import Penguin.Model.Backoff
import Penguin.Model.Client
import Penguin.Spec.Backoff
import Penguin.Spec.ClientLoop
import Penguin.Lemmas.Backoff
import Penguin.Lemmas.Client
import Penguin.Lemmas.ClientReqs

namespace Penguin.C19
open Penguin Penguin.Backoff Penguin.Client Penguin.Constants Penguin.Spec

/-! ## A. The back-off generator -/

/-! `Spec.closedDelay i m c n k` is the property's closed form: `some (min (i·c^k) m)` while
`n = 0 ∨ k < n`, else `none` (give up).  `Spec.specOps` / `Spec.specLoop` extend it to operation
sequences and to scripts of connection attempts (Spec/Backoff.lean, Spec/ClientLoop.lean). -/

/-- After any number `k` of consecutive `advance` calls on a fresh generator, the next call returns
    exactly the closed form — for all parameters, including `mult = 0`, `initial > max`, and calls
    past the retry limit. -/
theorem advance_closed_form (i m c n k : Nat) :
    ((Backoff.new i m c n).advanceN k).advance.2 = closedDelay i m c n k :=
  Lemmas.Client.advance_closed_form i m c n k

/-- The `k`-th delay of a fresh generator is `min(initial·mult^k, max)` while the retry limit is
    not reached (`k < count`) or there is no limit (`count = 0`). -/
theorem advance_seq (i m c n k : Nat) (h : n = 0 ∨ k < n) :
    ((Backoff.new i m c n).advanceN k).advance.2 = some (Nat.min (i * c ^ k) m) := by
  rw [advance_closed_form]; simp [closedDelay, h]

/-- … instantiated to the client's generator (constants read from client/mod.rs):
    `min(200 ms · 2^k, max_retry_interval)`. -/
theorem advance_seq_client (count maxInterval k : Nat) (h : count = 0 ∨ k < count) :
    ((clientBackoff count maxInterval).advanceN k).advance.2 = some (Nat.min (200 * 2 ^ k) maxInterval) :=
  advance_seq 200 maxInterval 2 count k h

/-- With a retry limit `n > 0`, the `(n+1)`-th consecutive `advance` (and every later one) returns
    `None`: the caller answers `MaxRetryCountReached`. -/
theorem gives_up (i m c n k : Nat) (hn : 0 < n) (hk : n ≤ k) :
    ((Backoff.new i m c n).advanceN k).advance.2 = none := by
  rw [advance_closed_form]
  have : ¬ (n = 0 ∨ k < n) := by omega
  simp [closedDelay, this]

/-- `max_count = 0` means "never give up": every `advance` returns a delay. -/
theorem never_gives_up_0 (i m c k : Nat) :
    ((Backoff.new i m c 0).advanceN k).advance.2 = some (Nat.min (i * c ^ k) m) :=
  advance_seq i m c 0 k (Or.inl rfl)

/-- Every delay ever handed out is at most `max` (bounded back-off), whatever was called before. -/
theorem delay_le_max (b : Backoff) (d : Nat) (h : b.advance.2 = some d) : d ≤ b.max := by
  unfold Backoff.advance at h
  split at h
  · simp at h
  · simp only [Option.some.injEq] at h
    subst h
    exact Nat.min_le_right _ _

/-- `reset` puts a generator that was created by `new` and used in any way back into the state
    `new` created: the next delay is again the shortest one, `min(initial, max)`, and the retry
    count starts again. -/
theorem reset_after_success (i m c n : Nat) (ops : List Backoff.Op) :
    (Lemmas.Client.applyOps (Backoff.new i m c n) ops).reset = Backoff.new i m c n ∧
    (Lemmas.Client.applyOps (Backoff.new i m c n) ops).reset.advance.2 = some (Nat.min i m) :=
  Lemmas.Client.reset_restarts i m c n ops

/-- Complete description of any interleaving of `advance` and `reset`: the results are the closed
    form of the number of delays handed out since the last reset. -/
theorem outputs_closed_form (i m c n : Nat) (ops : List Backoff.Op) :
    (Backoff.new i m c n).outputs ops = specOps i m c n 0 ops :=
  Lemmas.Client.outputs_closed_form i m c n ops

/-- `count` is not observable when there is no retry limit (so its `u32` wrap-around after 2^32
    advances in a release build changes nothing). -/
theorem advance_count_irrelevant_unlimited (b : Backoff) (k : Nat) (h : b.maxCount = 0) :
    ({ b with count := k }).advance.2 = b.advance.2 ∧
    ({ b with count := k }).advance.1.current = b.advance.1.current := by
  simp [Backoff.advance, h]

/-- The client's generator can never hit the `Duration` overflow panic of `old * mult`:
    `max_retry_interval` is a `u64` of milliseconds and the multiplier is 2. -/
theorem client_backoff_never_overflows (count maxInterval : Nat) (hm : maxInterval < 2 ^ 64)
    (ops : List Backoff.Op) :
    (clientBackoff count maxInterval).runOps ops =
      ((clientBackoff count maxInterval).outputs ops).map Backoff.Out.ofOption :=
  Lemmas.Client.client_never_overflows count maxInterval hm ops

/-! ## B. The retry loop, for every script of outcomes -/

/-- For every script of per-attempt outcomes, every retry limit and every maximum interval, the
    retry loop sleeps exactly the closed-form delays — `min(200·2^k, max)` for the `k`-th
    consecutive failure, `k` starting again from 0 after every attempt that reached
    `on_connected` — and ends exactly as the specification says. -/
theorem loop_follows_spec (n m : Nat) (script : List (Outcome × Bool)) :
    runLoop (clientBackoff n m) script = specLoop n m 0 script :=
  Lemmas.Client.loop_follows_spec n m script

/-- Retry limit: `n > 0` and `n + 1` consecutive retryable handshake failures (whatever follows
    in the script, no Ctrl-C): the client sleeps `n` times, the delays being the closed form, and
    returns `MaxRetryCountReached(last error)`. -/
theorem gives_up_loop (n m : Nat) (hn : 0 < n) (errs : List ClientErr) (rest : List (Outcome × Bool))
    (hlen : errs.length = n + 1) (hr : ∀ e ∈ errs, e.retryable = true ∧ e ≠ .cancelled) :
    runLoop (clientBackoff n m) (errs.map (fun e => (.handshakeErr e, false)) ++ rest) =
      ((List.range n).map (fun k => Nat.min (200 * 2 ^ k) m),
       .gaveUp (errs.getLast (by intro h; simp [h] at hlen))) :=
  Lemmas.Client.gives_up_loop n m hn errs rest hlen hr _

/-- `max_retry_count = 0`: no script makes the client give up. -/
theorem never_gives_up_loop_0 (m : Nat) (script : List (Outcome × Bool)) (e : ClientErr) :
    (runLoop (clientBackoff 0 m) script).2 ≠ .gaveUp e :=
  Lemmas.Client.never_gives_up_loop_0 m script e

/-- After any attempt that reached `on_connected` and failed with a retryable error, the next delay
    is the shortest one, `min(200, max)`, whatever the back-off state was (any number of earlier
    failures), and it is never the end because of the retry limit. -/
theorem reset_after_success_loop (n m : Nat) (ops : List Backoff.Op) (e : ClientErr)
    (he : e.retryable = true) (hc : e ≠ .cancelled) (rest : List (Outcome × Bool)) :
    runLoop (Lemmas.Client.applyOps (clientBackoff n m) ops) ((.connectedErr e, false) :: rest) =
      (Nat.min 200 m :: (runLoop ((clientBackoff n m).advance.1) rest).1,
       (runLoop ((clientBackoff n m).advance.1) rest).2) :=
  Lemmas.Client.reset_after_success_loop n m ops e he hc rest

/-- A non-retryable error ends the client at once: no sleep, no further attempt, the error is
    returned as it is — whether it came from the handshake or from the connected phase. -/
theorem nonretryable_ends (b : Backoff) (e : ClientErr) (he : e.retryable = false) (hc : e ≠ .cancelled)
    (c : Bool) (rest : List (Outcome × Bool)) :
    runLoop b ((.handshakeErr e, c) :: rest) = ([], .fatal e) ∧
    runLoop b ((.connectedErr e, c) :: rest) = ([], .fatal e) := by
  simp [runLoop, stepLoop, retryStep, hc, he]

/-- Every delay slept by the loop is at most `max_retry_interval`. -/
theorem loop_sleeps_bounded (n m : Nat) (script : List (Outcome × Bool)) :
    ∀ d ∈ (runLoop (clientBackoff n m) script).1, d ≤ m :=
  Lemmas.Client.loop_sleeps_bounded n m script

/-! Non-vacuity of Parts A and B. -/

example : ((Backoff.new 200 1000 2 5).advanceN 3).advance.2 = some 1000 := by decide
example : (Backoff.new 10 1000 2 5).outputs [.advance, .advance, .reset, .advance] = [some 10, some 20, some 10] := by
  decide
example : ((Backoff.new 3 8 2 2).advanceN 2).advance.2 = none := by decide
example : (ClientErr.handshakeTimeout).retryable = true ∧ ClientErr.handshakeTimeout ≠ .cancelled := by decide
example : runLoop (clientBackoff 2 300)
    [(.handshakeErr .handshakeTimeout, false), (.handshakeErr .handshakeTimeout, false),
     (.handshakeErr .handshakeTimeout, false)] = ([200, 300], .gaveUp .handshakeTimeout) := by decide
example : runLoop (clientBackoff 2 1000)
    [(.handshakeErr .handshakeTimeout, false), (.connectedErr .serverDisconnected, false),
     (.handshakeErr .handshakeTimeout, false), (.never, false)] = ([200, 200, 400], .stays) := by decide
example : (ClientErr.tungstenite .http).retryable = false := by decide

/-! ## C. The connected main loop, the parked request, no request lost -/

open Lemmas.ClientReqs in
/-- Read from the source on every run (bin/gen_constants.py): the `select!` arm of `on_connected`
    that sees the multiplexor task end leaves the loop with `ServerDisconnected` also when the task
    ended with `Ok(())` (orderly close by the server).  On the tree as pinned this constant was
    `false` — the loop kept running on the dead multiplexor (fixes/C19-orderly-close-reconnect.diff). -/
theorem mux_task_ok_leaves_loop : muxTaskOkExits = true := rfl

open Lemmas.ClientReqs in
/-- The multiplexor task ending — with an error, or with `Ok(())` on an orderly close by the
    server — ends `on_connected`, whatever harmless events (arrivals, datagrams, served requests)
    came before and whatever would come after; the error returned is `Mux(e)` resp.
    `ServerDisconnected`. -/
theorem connected_loop_exits (rs : Reqs) (pr : StreamRes) (pre post : List ConnEvent) (r : Option MuxErr)
    (hp : rs.parked = none ∨ pr = .ok) (hq : ∀ ev ∈ pre, quiet ev = true) :
    (onConnected rs pr (pre ++ .muxEnded r :: post)).2 = .exit (.error (muxEndError r)) := by
  unfold onConnected
  cases hpk : rs.parked with
  | none => exact mainLoop_muxEnded mux_task_ok_leaves_loop pre post r hq rs
  | some q =>
    rcases hp with h | h
    · rw [hpk] at h; cases h
    · subst h
      simpa [getSendStreamChan] using mainLoop_muxEnded mux_task_ok_leaves_loop pre post r hq _

open Lemmas.ClientReqs in
/-- … and that error is retryable exactly when the task ended cleanly or with a retryable
    multiplexor error — so the outer loop reconnects. -/
theorem connected_loop_exit_retryable (r : Option MuxErr) :
    (muxEndError r).retryable = true ↔ (r = none ∨ ∃ e, r = some e ∧ e.retryable = true) := by
  cases r with
  | none => simp [muxEndError]; decide
  | some e =>
    have h : "Mux" ∈ clientDelegating := by decide
    simp [muxEndError, ClientErr.retryable, h]

open Lemmas.ClientReqs in
/-- End to end: an orderly close by the server (or a retryable multiplexor error) while connected
    makes the client sleep the shortest delay `min(200, max)` and go on with the next attempt,
    from any back-off state and any request state with nothing parked. -/
theorem orderly_close_reconnects (n m : Nat) (ops : List Backoff.Op) (rs : Reqs) (pr : StreamRes)
    (pre post : List ConnEvent) (r : Option MuxErr) (rest : List (Attempt × Bool))
    (hp : rs.parked = none ∨ pr = .ok) (hq : ∀ ev ∈ pre, quiet ev = true)
    (hr : r = none ∨ ∃ e, r = some e ∧ e.retryable = true) :
    ∃ b' rs', clientRun (Lemmas.Client.applyOps (clientBackoff n m) ops) rs
        ((.up pr (pre ++ .muxEnded r :: post), false) :: rest) =
      { clientRun b' rs' rest with
        sleeps := Nat.min 200 m :: (clientRun b' rs' rest).sleeps,
        attempts := (clientRun b' rs' rest).attempts + 1 } := by
  have hex := connected_loop_exits rs pr pre post r hp hq
  have hret := (connected_loop_exit_retryable r).mpr hr
  have hnc : muxEndError r ≠ .cancelled := by cases r <;> simp [muxEndError]
  have hreset := Lemmas.Client.reset_restarts 200 m 2 n ops
  have h1 : (Lemmas.Client.applyOps (clientBackoff n m) ops).reset = clientBackoff n m := hreset.1
  have h2 : (clientBackoff n m).advance.2 = some (Nat.min 200 m) := by
    have := hreset.2; rw [hreset.1] at this; exact this
  rcases hoc : onConnected rs pr (pre ++ .muxEnded r :: post) with ⟨rs1, out⟩
  rw [hoc] at hex
  simp only at hex
  subst hex
  rcases hb : (clientBackoff n m).advance with ⟨b', d⟩
  rw [hb] at h2
  simp only at h2
  subst h2
  refine ⟨b', { rs1 with gen := rs1.gen + 1 }, ?_⟩
  simp [clientRun, attemptOutcome, hoc, stepLoop, retryStep, hnc, hret, h1, hb]

open Lemmas.ClientReqs in
/-- A parked request (one whose stream request failed or timed out on an earlier connection) is the
    first request the next connection serves: it is handed to the new multiplexor before anything
    from the command channel. -/
theorem parked_request_served_first (rs : Reqs) (r : Req) (evs : List ConnEvent) (hp : rs.parked = some r) :
    ∃ more, (onConnected rs .ok evs).1.served = rs.served ++ (r, rs.gen) :: more := by
  unfold onConnected
  rw [hp]
  simp only [getSendStreamChan]
  obtain ⟨more, hm⟩ := mainLoop_served evs { rs with parked := none, served := rs.served ++ [(r, rs.gen)] }
  exact ⟨more, by rw [hm]; simp⟩

/-- A stream request that fails or times out is parked, not dropped, and the error it produces is
    the one the retry loop sees (`StreamRequestTimeout` is retryable, `retryable_table`). -/
theorem failed_request_is_parked (rs : Reqs) (r : Req) (e : MuxErr) (hp : rs.parked = none) :
    getSendStreamChan rs r .timeout = ({ rs with parked := some r }, some (.error .streamRequestTimeout)) ∧
    getSendStreamChan rs r (.muxErr e) = ({ rs with parked := some r }, some (.error (.mux e))) := by
  simp [getSendStreamChan, Reqs.park, hp]

open Lemmas.ClientReqs in
/-- Every local connection waiting in the command channel — e.g. accepted while the tunnel was
    down — is served by the next connection that gets the chance, in arrival order. -/
theorem pending_served_by_next_connection (rs : Reqs) (rest : List ConnEvent) :
    mainLoop rs (serveAll rs.queue.length ++ rest) =
      mainLoop { rs with queue := [], served := rs.served ++ rs.queue.map (·, rs.gen) } rest :=
  mainLoop_serveAll rest rs.queue rs rfl

open Lemmas.ClientReqs in
/-- Several local connections waiting when a connection fails one of them: the request at the head
    of the command channel that fails (`penguin_mux` error) or times out is parked, `on_connected`
    returns that error, and every request queued behind it is STILL IN THE CHANNEL, in order,
    followed by whatever arrives afterwards — the loop takes one command per trip through `select!`,
    so nothing but the failed request has left the channel. -/
theorem failed_request_keeps_rest_queued (rs : Reqs) (r : Req) (q : List Req) (post : List ConnEvent)
    (res : StreamRes) (hres : res = .timeout ∨ ∃ e, res = .muxErr e)
    (hp : rs.parked = none) (hq : rs.queue = r :: q) :
    let out := mainLoop rs (.serveNext res :: post)
    out.1.parked = some r ∧ out.1.queue = q ++ evArrivals post ∧ out.1.lost = rs.lost ∧
    out.1.served = rs.served ∧ ∃ e, out.2 = .exit (.error e) ∧ e ≠ .cancelled := by
  rcases hres with rfl | ⟨e, rfl⟩ <;>
    simp [mainLoop, hq, getSendStreamChan, Reqs.park, hp, drainArrivals_eq, Reqs.enqueue]

open Lemmas.ClientReqs in
/-- … and the next connection that works serves the parked request first and then every request
    that was queued behind it, in order (all of them by that one connection). -/
theorem queued_requests_survive_failed_connection (rs : Reqs) (r : Req) (q : List Req)
    (rest : List ConnEvent) (hp : rs.parked = some r) (hq : rs.queue = q) :
    onConnected rs .ok (serveAll q.length ++ rest) =
      mainLoop { rs with parked := none, queue := [],
                         served := rs.served ++ (r, rs.gen) :: q.map (·, rs.gen) } rest := by
  unfold onConnected
  rw [hp]
  simp only [getSendStreamChan]
  rw [mainLoop_serveAll rest q _ (by simpa using hq)]
  simp [List.append_assoc]

open Lemmas.ClientReqs in
/-- No request is lost, duplicated or reordered: for every back-off state and every script of
    attempts in which the user does not cancel a stream request, the requests served (in that
    order), then the one in flight, the parked one and the queued ones are exactly the local
    connections that arrived during the attempts made, in arrival order; the parking slot was never
    overwritten and nothing was dropped. -/
theorem no_request_lost (b : Backoff) (script : List (Attempt × Bool)) (hn : ∀ a ∈ script, noCancel a.1) :
    ledger (clientRun b {} script).reqs =
      ((script.take (clientRun b {} script).attempts).map (fun a => attemptArrivals a.1)).flatten ∧
    (clientRun b {} script).reqs.lost = [] ∧ (clientRun b {} script).reqs.dropped = [] := by
  have := clientRun_keeps script b {} rfl hn
  simpa [ledger] using this

/-- The whole-client run sleeps and ends exactly as the retry loop does on the outcomes of its
    attempts (so Part B applies to it). -/
theorem clientRun_is_runLoop (script : List (Attempt × Bool)) :
    ∀ (b : Backoff) (rs : Reqs),
      ((clientRun b rs script).sleeps, (clientRun b rs script).final) = runLoop b (outcomes rs script) := by
  induction script with
  | nil => intro b rs; rfl
  | cons ac rest ih =>
    intro b rs
    obtain ⟨a, c⟩ := ac
    simp only [clientRun, outcomes, runLoop]
    rcases stepLoop b (attemptOutcome rs a).2 c with f | ⟨b', d⟩
    · rfl
    · have := ih b' { (attemptOutcome rs a).1 with gen := (attemptOutcome rs a).1.gen + 1 }
      simp only
      rw [← this]

/-- The classification of errors, case by case (lists of variants regenerated from
    maybe_retryable.rs on every run). -/
theorem retryable_table :
    (∀ k : IoKind, k.retryable = [IoKind.addrNotAvailable, .brokenPipe, .connectionRefused,
        .connectionReset, .hostUnreachable, .networkUnreachable, .connectionAborted, .notConnected,
        .networkDown, .timedOut, .unexpectedEof].contains k) ∧
    (∀ p : WsProto, p.retryable = [WsProto.receivedAfterClosing, .resetWithoutClosingHandshake,
        .sendAfterClosing, .handshakeIncomplete].contains p) ∧
    (∀ e : WsErr, e.retryable = match e with
        | .connectionClosed | .alreadyClosed => true
        | .io k => k.retryable
        | .protocol p => p.retryable
        | _ => false) ∧
    (∀ e : MuxErr, e.retryable = match e with
        | .keepaliveTimeout | .sendStreamToClient | .closed => true
        | .webSocket (some w) => w.retryable
        | _ => false) ∧
    (∀ e : TlsErr, e.retryable = match e with
        | .tcpConnect k => k.retryable
        | _ => false) ∧
    (∀ e : ClientErr, e.retryable = match e with
        | .handshakeTimeout | .streamRequestTimeout | .serverDisconnected => true
        | .tungstenite w => w.retryable
        | .tcpConnect k => k.retryable
        | .tls t => t.retryable
        | .mux x => x.retryable
        | _ => false) := by
  have hIo : "Io" ∈ wsDelegating := by decide
  have hPr : "Protocol" ∈ wsDelegating := by decide
  have hTc : "TcpConnect" ∈ tlsDelegating := by decide
  have hD : muxWebSocketDowncastsTungstenite = true := rfl
  have hc1 : "Tungstenite" ∈ clientDelegating := by decide
  have hc2 : "TcpConnect" ∈ clientDelegating := by decide
  have hc3 : "Tls" ∈ clientDelegating := by decide
  have hc4 : "Mux" ∈ clientDelegating := by decide
  refine ⟨?_, ?_, ?_, ?_, ?_, ?_⟩
  · intro k; cases k <;> decide
  · intro p; cases p <;> decide
  · intro e
    cases e with
    | io k => simp [WsErr.retryable, hIo]
    | protocol p => simp [WsErr.retryable, hPr]
    | _ => decide
  · intro e
    cases e with
    | webSocket w => cases w <;> simp [MuxErr.retryable, hD]
    | _ => decide
  · intro e
    cases e with
    | tcpConnect k => simp [TlsErr.retryable, hTc]
    | _ => decide
  · intro e
    cases e with
    | tungstenite w => simp [ClientErr.retryable, hc1]
    | tcpConnect k => simp [ClientErr.retryable, hc2]
    | tls t => simp [ClientErr.retryable, hc3]
    | mux x => simp [ClientErr.retryable, hc4]
    | maxRetryCountReached l => simp [ClientErr.retryable, ClientErr.name]; decide
    | _ => decide

/-- The model's error types list exactly the variants the source declares (names regenerated from
    client/mod.rs and penguin-mux/src/lib.rs). -/
theorem error_variants_match_source :
    ClientErr.variants.map ClientErr.name = clientErrorVariants ∧
    MuxErr.variants.map MuxErr.name = muxErrorVariants := by decide

/-! Non-vacuity of Part C. -/

open Lemmas.ClientReqs in
example : (∀ ev ∈ [ConnEvent.arrive 7, .serveNext .ok, .datagram], quiet ev = true) := by decide
-- orderly close while a request was served before: leaves with ServerDisconnected, request kept
example : onConnected {} .ok [.arrive 7, .serveNext .ok, .muxEnded none, .arrive 8] =
    ({ queue := [8], served := [(7, 0)] }, .exit (.error .serverDisconnected)) := by decide
-- a timed-out request is parked, retried first on the next connection, before request 9
example : (onConnected { queue := [5, 9] } .ok [.serveNext .timeout]).1.parked = some 5 := by decide
example : (onConnected { parked := some 5, queue := [9], gen := 3 } .ok [.serveNext .ok]).1.served = [(5, 3), (9, 3)] := by
  decide
example : Lemmas.ClientReqs.noCancel (.up .ok [.arrive 1, .serveNext .timeout]) := by
  simp [Lemmas.ClientReqs.noCancel, Lemmas.ClientReqs.isCancel, Lemmas.ClientReqs.cancels]
-- a whole run: refused, refused (request 1 arrives), connected and cut, refused, healthy
example : (runScenario { maxRetryCount := 0, maxRetryInterval := 1000, handshakeTimeout := some 300, channelTimeout := some 300 }
    [⟨.refuse, []⟩, ⟨.refuse, [1]⟩, ⟨.closeAbrupt 300, []⟩, ⟨.refuse, []⟩, ⟨.healthy, [2]⟩]).sleeps
    = [200, 400, 200, 400] := by decide
-- two local connections accepted while the tunnel was down, then a connection on which the first
-- stream request times out: request 1 is parked, request 2 stays queued, the next connection
-- serves both (attempt 3), nothing is lost; the same with the connection cut instead of silent
example : (runScenario { maxRetryCount := 0, maxRetryInterval := 1000, handshakeTimeout := some 300, channelTimeout := some 300 }
    [⟨.refuse, [1]⟩, ⟨.refuse, [2]⟩, ⟨.mute, []⟩]).reqs = { parked := some 1, queue := [2], gen := 3 } := by decide
example : (runScenario { maxRetryCount := 0, maxRetryInterval := 1000, handshakeTimeout := some 300, channelTimeout := some 300 }
    [⟨.refuse, [1]⟩, ⟨.refuse, [2]⟩, ⟨.mute, []⟩, ⟨.healthy, []⟩]).reqs.served = [(1, 3), (2, 3)] := by decide
example : (runScenario { maxRetryCount := 0, maxRetryInterval := 1000, handshakeTimeout := some 300, channelTimeout := some 300 }
    [⟨.stall, [1, 2, 3]⟩, ⟨.muteCut 100, []⟩, ⟨.healthy, [4]⟩]).reqs.served = [(1, 2), (2, 2), (3, 2), (4, 2)] := by decide

-- the same loop over `wss://`: a stalled TLS handshake (nothing after the ClientHello, or only the
-- ServerHello) is a handshake time-out like a stalled upgrade — retried, then given up; a connection
-- closed inside the TLS handshake is retried (`Tls(TcpConnect(UnexpectedEof))`); clear text where TLS
-- was expected ends the client at once (`Tls(TcpConnect(InvalidData))` is not retryable)
example : (fun (r : Run) => (r.sleeps, r.attempts, r.final))
    (runScenario { maxRetryCount := 2, maxRetryInterval := 1000, handshakeTimeout := some 300, channelTimeout := some 300, transport := .wss }
      [⟨.stall, [1]⟩, ⟨.stallTls, []⟩, ⟨.stallUpgrade, []⟩, ⟨.healthy, []⟩])
    = ([200, 400], 3, .gaveUp .handshakeTimeout) := by decide
example : (fun (r : Run) => (r.sleeps, r.attempts, r.final, r.reqs.served))
    (runScenario { maxRetryCount := 0, maxRetryInterval := 1000, handshakeTimeout := some 300, channelTimeout := some 300, transport := .wss }
      [⟨.refuse, [1]⟩, ⟨.closeAbrupt 200, []⟩, ⟨.refuse, []⟩, ⟨.plain400, []⟩, ⟨.healthy, []⟩])
    = ([200, 200, 400], 4, .fatal (.tls (.tcpConnect .invalidData)), [(1, 1)]) := by decide
example : (runScenario { maxRetryCount := 1, maxRetryInterval := 1000, handshakeTimeout := some 300, channelTimeout := some 300, transport := .wss }
    [⟨.refuse, []⟩, ⟨.refuse, []⟩]).final = .gaveUp (.tls (.tcpConnect .unexpectedEof)) := by decide

end Penguin.C19
