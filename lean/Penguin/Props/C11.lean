/-
C11 — Datagram service: at most once, unmodified, ordered, never blocking.
Over the link-free endpoint model for the per-step facts, over the pair of endpoint models for the running
phase, and over EVERY history of one endpoint model with ANY peer (wind-down, faults, dropped
`Multiplexor`, misbehaving peers included) for the receiving side (`datagrams_received_are_those_delivered_with_room`,
`datagram_with_room_is_never_dropped`), for non-interference (`datagrams_never_touch_streams_every_history`,
`datagrams_never_end_the_connection_every_history`) and for the sending side
(`sent_datagrams_reach_the_wire_in_order`).
-/
import Penguin.Model.Mux
import Penguin.Model.Frame
import Penguin.Model.DgSys
import Penguin.Lemmas.MuxBasic
import Penguin.Lemmas.MuxStep
import Penguin.Lemmas.Frame
import Penguin.Lemmas.PairDg
import Penguin.Lemmas.MuxDgramHist
import Penguin.Lemmas.MuxDgramSrc
import Penguin.Lemmas.MuxDgramStep

namespace Penguin.C11
open Penguin Penguin.Mux

/-- A datagram is accepted exactly when its target host has at most 255 bytes; a longer host is
    refused with `DatagramHostTooLong` and has no other effect. -/
theorem send_accepts_iff (e : EP) (d : Dgram) :
    ((appSendDgram e d).2 = .tooLong ↔ 255 < d.host.length) ∧
    (255 < d.host.length → appSendDgram e d = (e, .tooLong)) := by
  unfold appSendDgram
  constructor
  · constructor
    · intro h
      split at h
      · assumption
      · split at h <;> simp at h
    · intro h; simp [h]
  · intro h; simp [h]

/-- An accepted datagram is queued as one `Datagram` frame with exactly the four given fields (any
    flow id including 0, empty host, empty payload); nothing else changes. -/
theorem send_queues_exactly (e : EP) (d : Dgram) (hl : d.host.length ≤ 255) (hoc : e.outClosed = false) :
    appSendDgram e d = (e.enqFrame (.datagram d.fid d.port d.host d.data), .unit) ∧
    (e.enqFrame (.datagram d.fid d.port d.host d.data)).outq = e.outq ++ [.frame (.datagram d.fid d.port d.host d.data)] := by
  have : ¬ 255 < d.host.length := by omega
  simp [appSendDgram, this, hoc, EP.enqFrame, enq_outq]

/-- On the wire the four fields survive unchanged (C09's round trip), for every payload size
    including 0–3 bytes. -/
theorem wire_preserves_fields (fid port : Nat) (host data : Bytes)
    (h1 : fid < 4294967296) (h2 : port < 65536) (h3 : host.length ≤ 255) :
    decode (encode (.datagram fid port host data)) = .ok (.datagram fid port host data) :=
  Lemmas.Frame.decode_encode _ ⟨h1, h2, h3⟩

/-- Receiving a datagram: it is appended, unmodified, to the application's queue when there is room
    and dropped when the queue is full; it never ends the connection (whatever its size), never
    touches the flow table, any stream object or the outbound queue, and never blocks the receive
    loop. -/
theorem receive_datagram (e : EP) (fid port : Nat) (host d : Bytes) (ig : Bool) (hm : e.muxAlive = true) :
    let r := processFrame e (.datagram fid port host d) ig
    r.2.2 = none ∧ r.2.1 = [] ∧ r.1.flows = e.flows ∧ r.1.objs = e.objs ∧ r.1.outq = e.outq ∧ r.1.park = e.park ∧
    (if e.dgramq.length < e.opts.dgramCap
      then r.1.dgramq = e.dgramq ++ [{ fid := fid, host := host, port := port, data := d }]
      else r.1.dgramq = e.dgramq) := by
  simp only [processFrame, hm, Bool.not_true, Bool.false_eq_true, if_false]
  split <;> simp_all

/-- The application reads datagrams in queue order. -/
theorem recv_is_fifo (e : EP) (d : Dgram) (rest : List Dgram) (hq : e.dgramq = d :: rest) :
    appRecvDgram e = ({ e with dgramq := rest }, .dgram d) := by
  simp [appRecvDgram, hq]

/-- End to end (sender's accepted datagrams → FIFO transport → bounded queue → application): for
    every sequence of sends, deliveries and receives and every queue capacity, the datagrams the
    application received are a subsequence of the datagrams sent — each delivered at most once,
    in the order sent; a datagram is lost only at a full queue. -/
theorem delivered_is_subsequence {α : Type} (cap : Nat) (as : List (DgSys.Act α)) :
    (DgSys.run ({ cap := cap } : DgSys.St α) as).got.Sublist (DgSys.run ({ cap := cap } : DgSys.St α) as).sent := by
  suffices h : ∀ (s : DgSys.St α), (∃ pre, s.sent = pre ++ s.wire ∧ (s.got ++ s.q).Sublist pre) →
      ∃ pre, (DgSys.run s as).sent = pre ++ (DgSys.run s as).wire ∧
        ((DgSys.run s as).got ++ (DgSys.run s as).q).Sublist pre by
    obtain ⟨pre, h1, h2⟩ := h { cap := cap } ⟨[], by simp, by simp⟩
    rw [h1]
    exact ((List.sublist_append_left _ _).trans h2).trans (List.sublist_append_left _ _)
  intro s hs
  induction as generalizing s with
  | nil => exact hs
  | cons a as ih =>
    apply ih
    obtain ⟨pre, h1, h2⟩ := hs
    cases a with
    | send d => exact ⟨pre, by simp [DgSys.step, h1], h2⟩
    | deliver =>
      simp only [DgSys.step]
      cases hw : s.wire with
      | nil => exact ⟨pre, by simpa [hw] using h1, h2⟩
      | cons d rest =>
        simp only
        split
        · refine ⟨pre ++ [d], by simp [h1, hw], ?_⟩
          rw [← List.append_assoc]
          exact List.Sublist.append h2 (List.Sublist.refl _)
        · exact ⟨pre ++ [d], by simp [h1, hw], h2.trans (List.sublist_append_left _ _)⟩
    | recv =>
      simp only [DgSys.step]
      cases hq : s.q with
      | nil => exact ⟨pre, h1, by simpa [hq] using h2⟩
      | cons d rest => exact ⟨pre, h1, by simpa [hq, List.append_assoc] using h2⟩

/-! ### Over two whole endpoint models joined by FIFO wires (`Penguin.Pair`) -/

open Penguin.Pair in
/-- At most once, in order, every field intact — for the real composition: in EVERY reachable state
    of two endpoint models joined by FIFO wires (every interleaving of application calls,
    transmissions and frame processing on both sides, any concurrent stream traffic, any options, no
    hypothesis on flow ids), the datagrams `b`'s application has received are a subsequence of the
    datagrams `a`'s application sent, and vice versa. -/
theorem pair_datagrams_subsequence (oa ob : Opts) (ra rb : List Nat) (as : List (Pair.Side × Pair.Act)) :
    (Pair.run (Pair.init oa ob ra rb) as).gb.drecv.Sublist (Pair.run (Pair.init oa ob ra rb) as).ga.dsent ∧
    (Pair.run (Pair.init oa ob ra rb) as).ga.drecv.Sublist (Pair.run (Pair.init oa ob ra rb) as).gb.dsent :=
  datagrams_subsequence oa ob ra rb as

open Penguin.Pair in
/-- Lost only when the queue is full, and then nothing else is: what has been received, what the
    receive queue holds and what is still in transit together are a subsequence of what was sent —
    a datagram disappears from this list only in the `processFrame` branch "queue full" (or after the
    receiving `Multiplexor` was dropped). -/
theorem pair_datagrams_accounted (oa ob : Opts) (ra rb : List Nat) (as : List (Pair.Side × Pair.Act)) :
    let p := Pair.run (Pair.init oa ob ra rb) as
    (p.gb.drecv ++ p.b.dgramq ++ dgOf (pathAB p)).Sublist p.ga.dsent :=
  (run_dg _ as (init_dg oa ob ra rb)).ab

open Penguin.Pair in
/-- Never blocking and never disturbing: sending a datagram, receiving one, and processing a
    `Datagram` frame leave the view of EVERY flow (slot, stream objects, notifications, frames in
    transit) unchanged — they preserve the pair invariant as steps that concern no flow. -/
theorem pair_datagram_steps_concern_no_flow (e : EP) (d : Dgram) (fid port : Nat) (host data : Bytes) (ig : Bool) :
    Eff (fun _ => False) e (appSendDgram e d).1 ∧ Eff (fun _ => False) e (appRecvDgram e).1 ∧
    Eff (fun _ => False) e (processFrame e (.datagram fid port host data) ig).1 :=
  ⟨appSendDgram_eff _ _ _, appRecvDgram_eff _ _, processFrame_dgram_eff _ _ _ _ _ _⟩

/-! Non-vacuity: two datagrams (flow id 0 and an empty payload among them) cross while a stream is open. -/
private def dcfg : Opts := { rwnd := 2, threshold := 1 }
private def dacts : List (Pair.Side × Pair.Act) :=
  [(.A, .sendDgram { fid := 0, host := [1], port := 53, data := [9] }), (.A, .open 1 [104] 80),
   (.A, .sendDgram { fid := 7, host := [], port := 0, data := [] }), (.A, .xmit), (.A, .xmit), (.A, .xmit),
   (.B, .recv), (.B, .recv), (.B, .recv), (.B, .recvDgram), (.B, .recvDgram)]
example : (Pair.run (Pair.init dcfg dcfg [7, 8] [9, 10]) dacts).gb.drecv =
    [{ fid := 0, host := [1], port := 53, data := [9] }, { fid := 7, host := [], port := 0, data := [] }] := by decide

/-! Non-vacuity -/
example : (DgSys.run ({ cap := 1 } : DgSys.St Nat) [.send 1, .send 2, .deliver, .deliver, .recv]).got = [1] := by decide
example : (appSendDgram { opts := {} } { fid := 0, host := [], port := 53, data := [] }).1.outq
    = [.frame (.datagram 0 53 [] [])] := by decide

/-! ### Over EVERY history of one endpoint model, with ANY peer

`runOps e ops` is the endpoint after the stimuli `ops` (application calls, deliveries by the transport —
of anything: valid frames, invalid ones, errors, Close —, dropped handles, sink back-pressure, a dropped
`Multiplexor`); one stimulus = the call followed by the connection task's run to quiescence.
`runOpsD e {} ops` is the same run together with what an observer records (`Mux.DGhost`):
* `queued` — the datagrams of the `Datagram` frames the task processed while the `Multiplexor` handle
  existed and `dgramq` held fewer than `dgramCap` datagrams: `process_frame`'s own test, evaluated on the
  state BEFORE each frame (`Mux.queuedDg`, followed through the task's run by mirrors of `settleLoop`,
  `windDown`, … because one stimulus may process several inbox items);
* `seen` — the datagrams of ALL the `Datagram` frames the task processed;
* `returned` — the datagrams `get_datagram` calls answered with;
* `discarded` — what was queued, unread, when the application dropped the `Multiplexor`;
* `sent` — the arguments of the `send_datagram` calls that answered `Ok`;
* `evs` — every event the endpoint emitted (`Ev.wire m` = `m` was handed to the transport).
None of these is defined from the fields the theorems equate them with. -/

open Penguin.Mux in
/-- At most once, in order, unmodified, and lost only for a stated reason — receiving side, every
    history.  After every history: the datagrams `get_datagram` has returned, then those waiting in the
    queue, then those thrown away with the queue when the `Multiplexor` was dropped, are — in order, each
    once, all four fields (flow id, host, port, payload) as they were in the frame — EXACTLY the datagrams
    of the `Datagram` frames the task processed while the `Multiplexor` existed and the queue had room.
    So a datagram delivered by the transport is missing from what the application gets only if the
    queue was full when its frame was processed, or the `Multiplexor` had been dropped (before: not
    queued; after: discarded with the queue), or its frame was never processed (the connection ended
    first: `queued_datagrams_are_delivered_once_in_order` accounts for those still in the inbox).
    While the `Multiplexor` exists nothing is discarded (second conjunct); once it is gone the queue is
    empty (third). -/
theorem datagrams_received_are_those_delivered_with_room (o : Opts) (ops : List Mux.Op) :
    let e := runOps { opts := o } ops
    let g := (runOpsD { opts := o } {} ops).2
    g.returned ++ e.dgramq ++ g.discarded = g.queued ∧
    (e.muxAlive = true → g.discarded = [] ∧ g.returned ++ e.dgramq = g.queued) ∧
    (e.muxAlive = false → e.dgramq = []) := by
  have h := dgram_receiver_inv o ops
  rw [runOpsD_fst] at h
  refine ⟨h.eq, fun ha => ⟨h.kept ha, ?_⟩, h.gone⟩
  have := h.eq
  rw [h.kept ha, List.append_nil] at this
  exact this

open Penguin.Mux in
/-- What the application has received is, at every moment of every history, a prefix of the datagrams
    queued: at most once, in the order the frames were processed. -/
theorem received_datagrams_are_prefix_of_queued (o : Opts) (ops : List Mux.Op) :
    (runOpsD { opts := o } {} ops).2.returned <+: (runOpsD { opts := o } {} ops).2.queued := by
  have h := (dgram_receiver_inv o ops).eq
  rw [← h, List.append_assoc]
  exact List.prefix_append _ _

open Penguin.Mux in
/-- Where queued datagrams come from.  After every history: the queued datagrams are a subsequence of
    the processed ones; the processed ones, followed by the datagrams of the `Datagram` frames still
    waiting in the inbox, are a subsequence of the datagrams of the `Datagram` frames the transport
    delivered (`Mux.deliveredDg`), in delivery order.  So every delivered `Datagram` frame is processed
    at most once, never out of order, with its four fields as delivered, and nothing that was not
    delivered as a `Datagram` frame is ever queued. -/
theorem queued_datagrams_are_delivered_once_in_order (o : Opts) (ops : List Mux.Op) :
    let e := runOps { opts := o } ops
    let g := (runOpsD { opts := o } {} ops).2
    g.queued.Sublist g.seen ∧ (g.seen ++ dgIn e.inbox).Sublist (deliveredDg ops) := by
  have h := srcD_run { opts := o } {} [] ops (List.Sublist.refl _) (List.Sublist.refl _)
  simp only [List.nil_append] at h
  rw [runOpsD_fst] at h
  exact ⟨queued_sub_seen _ {} ops (List.Sublist.refl _), h.2⟩

open Penguin.Mux in
/-- What the record is made of: a frame is recorded as queued exactly when it is a `Datagram` frame
    processed while the `Multiplexor` exists and the queue has room, and the record is the frame's four
    fields; a datagram is recorded as returned only by a `get_datagram` that answered with it, as
    discarded only by dropping the `Multiplexor` while it was queued, as sent only by a `send_datagram`
    with that argument that answered `Ok`. -/
theorem datagram_record_is_observable (e : EP) (f : Frame) (op : Mux.Op) (r : Mux.Res) (d : Dgram) :
    (d ∈ queuedDg e f ↔ f = .datagram d.fid d.port d.host d.data ∧ e.muxAlive = true ∧ e.dgramq.length < e.opts.dgramCap) ∧
    (d ∈ returnedDg op r → op = .recvDgram ∧ r = .dgram d) ∧
    (d ∈ discardedDg e op → op = .dropMux ∧ d ∈ e.dgramq) ∧
    (d ∈ sentDg op r → op = .sendDgram d ∧ r = .unit) :=
  ⟨queuedDg_spec e f d, returnedDg_spec op r d, discardedDg_spec e op d, sentDg_spec op r d⟩

open Penguin.Mux in
/-- Per frame, no hidden state.  In EVERY running state (the task has not finished and is not winding
    down, its receive loop is not parked on a full accept / bind queue, the source has not ended) — so in
    every such state any history can reach, whatever happened before: earlier overflows, streams, binds,
    resets — the stimulus that delivers a `Datagram` frame makes the task process exactly that frame, and
    the queue changes by exactly `process_frame`'s test on the state as it is (`Mux.queuedDg`: the datagram,
    all four fields, if the `Multiplexor` exists and the queue has room; nothing otherwise). -/
theorem datagram_delivery_queues_by_the_test (e : EP) (fid port : Nat) (host d : Bytes)
    (hd : e.dead = false) (hdr : e.draining = none) (hc : e.closing = none) (hp : e.park = none)
    (hi : e.inbox = []) (hs : e.srcEnded = false) :
    (applyOp e (.deliver (.msg (.frame (.datagram fid port host d))))).1.dgramq =
      e.dgramq ++ queuedDg e (.datagram fid port host d) := by
  have h1 := (DqA.opStep e (.deliver (.msg (.frame (.datagram fid port host d))))).q
  have h2 := (DqT.settle (opStep e (.deliver (.msg (.frame (.datagram fid port host d))))).1).q
  rw [settleLogD_deliver_datagram queuedDg e fid port host d hd hdr hc hp hi hs] at h2
  have h3 : (opStep e (.deliver (.msg (.frame (.datagram fid port host d))))).1.dgramq = e.dgramq := by
    simpa [returnedDg, discardedDg] using h1.symm
  rw [applyOp_fst', h2, h3]

open Penguin.Mux in
/-- A datagram that finds room is never dropped: in every running state (as above) in which the
    `Multiplexor` exists and the queue has room, delivering a `Datagram` frame appends the datagram —
    exactly it, all four fields, at the back — to the queue, whatever happened before. -/
theorem datagram_with_room_is_never_dropped (e : EP) (fid port : Nat) (host d : Bytes)
    (hd : e.dead = false) (hdr : e.draining = none) (hc : e.closing = none) (hp : e.park = none)
    (hi : e.inbox = []) (hs : e.srcEnded = false)
    (ha : e.muxAlive = true) (hroom : e.dgramq.length < e.opts.dgramCap) :
    (applyOp e (.deliver (.msg (.frame (.datagram fid port host d))))).1.dgramq =
      e.dgramq ++ [{ fid := fid, host := host, port := port, data := d }] := by
  rw [datagram_delivery_queues_by_the_test e fid port host d hd hdr hc hp hi hs]
  simp [queuedDg, ha, hroom]

open Penguin.Mux in
/-- … and a delivered datagram is dropped (the queue stays as it is) only if the queue is full or the
    `Multiplexor` is gone. -/
theorem datagram_dropped_only_when_full_or_gone (e : EP) (fid port : Nat) (host d : Bytes)
    (hd : e.dead = false) (hdr : e.draining = none) (hc : e.closing = none) (hp : e.park = none)
    (hi : e.inbox = []) (hs : e.srcEnded = false)
    (hlost : (applyOp e (.deliver (.msg (.frame (.datagram fid port host d))))).1.dgramq = e.dgramq) :
    e.muxAlive = false ∨ e.opts.dgramCap ≤ e.dgramq.length := by
  rw [datagram_delivery_queues_by_the_test e fid port host d hd hdr hc hp hi hs] at hlost
  by_cases ha : e.muxAlive = true
  · by_cases hroom : e.dgramq.length < e.opts.dgramCap
    · simp [queuedDg, ha, hroom] at hlost
    · right; omega
  · left; simpa using ha

open Penguin.Mux in
/-- Processing a `Datagram` frame, in ANY state (so in every reachable one), whatever its size and
    fields, during the running phase or the wind-down: nothing changes but `dgramq` — not the flow table,
    no stream object, no handle, not the accept / bind queues, not the outbound queue, not the phase of
    the connection; no event is emitted; the receive loop goes on. -/
theorem datagram_frame_changes_only_dgramq (e : EP) (fid port : Nat) (host d : Bytes) (ig : Bool) :
    processFrame e (.datagram fid port host d) ig =
      ({ e with dgramq := e.dgramq ++ queuedDg e (.datagram fid port host d) }, [], none) := by
  cases e with
  | mk o fl ob hn oq oc inb aq dq bq he dr op rn fb pk cl se rq dn sr dg ma de =>
    simp only [processFrame, queuedDg]
    cases ma with
    | false => simp
    | true =>
      by_cases hroom : dq.length < o.dgramCap
      · simp [hroom]
      · simp [hroom]

open Penguin.Mux in
/-- Datagrams never block or alter any stream — every history.  Take ANY history and replace every
    `Datagram` frame the transport delivers by a `Ping` (`Mux.neutralOp`; a `Ping` is read and ignored).
    The endpoint then passes through the same states except for `dgramq` (and the not yet processed inbox
    items, where a `Ping` stands for each `Datagram`): same flow table, same stream objects with the same
    bytes, credit and flags, same handles, same accept / bind queues, same outbound queue, same open
    requests, same parked state of the receive loop; it emits the same events, stimulus by stimulus, and
    answers every call in the same way except `get_datagram` (`Mux.runOpsObs`, `Mux.visible`).  So no
    `Datagram` frame, whatever its flow id, host, port, payload or size, whenever it arrives, has any
    effect on anything but the datagram queue. -/
theorem datagrams_never_touch_streams_every_history (o : Opts) (ops : List Mux.Op) :
    let e := runOps { opts := o } ops
    let e' := runOps { opts := o } (ops.map neutralOp)
    e' = { e with dgramq := [], inbox := e.inbox.map neutral } ∧
    (e'.flows = e.flows ∧ e'.objs = e.objs ∧ e'.handles = e.handles ∧ e'.acceptq = e.acceptq ∧
     e'.bindq = e.bindq ∧ e'.held = e.held ∧ e'.outq = e.outq ∧ e'.opens = e.opens ∧ e'.park = e.park) ∧
    runOpsObs { opts := o } (ops.map neutralOp) = runOpsObs { opts := o } ops := by
  have h := runOps_strip { opts := o } ops
  rw [strip_fresh] at h
  refine ⟨h.1, ?_, h.2⟩
  simp only [h.1, strip_flows, strip_objs, strip_handles, strip_acceptq, strip_bindq, strip_held, strip_outq,
    strip_opens, strip_park, and_self]

open Penguin.Mux in
/-- Datagrams never terminate the connection, whatever their size — every history.  With every
    `Datagram` frame replaced by a `Ping`, the task is finished / winding down / draining / running in
    exactly the same way, the outbound queue and the source are open or closed in the same way, and the
    whole event trace is the same — in particular every `Ev.exit r` (the task's result) and every
    `Ev.wireClose`: the connection ends in a history iff it ends, at the same stimulus and with the same
    result, in the history without the datagrams. -/
theorem datagrams_never_end_the_connection_every_history (o : Opts) (ops : List Mux.Op) :
    let e := runOps { opts := o } ops
    let e' := runOps { opts := o } (ops.map neutralOp)
    e'.dead = e.dead ∧ e'.closing = e.closing ∧ e'.draining = e.draining ∧ e'.outClosed = e.outClosed ∧
    e'.srcEnded = e.srcEnded ∧ e'.muxAlive = e.muxAlive ∧
    (runOpsEv { opts := o } (ops.map neutralOp)).2 = (runOpsEv { opts := o } ops).2 := by
  have h := runOps_strip { opts := o } ops
  have hev := runOpsEv_strip { opts := o } ops
  rw [strip_fresh] at h hev
  simp only [h.1, strip_dead, strip_closing, strip_draining, strip_outClosed, strip_srcEnded, strip_muxAlive, hev,
    and_self]

open Penguin.Mux in
/-- Sending side, every history.  The `Datagram` frames handed to the transport so far, followed by
    those still in the outbound queue, are — all four fields, in order — a prefix of the datagrams
    `send_datagram` accepted (answered `Ok`), and they are ALL of them as long as the outbound queue is
    open.  So every accepted datagram is sent exactly once, in order, unmodified, and no other
    `Datagram` frame is ever enqueued or sent — whatever the peer does; once the connection is torn down
    after an error or a Close what was still queued is dropped (a prefix was sent), after a dropped
    `Multiplexor` it is sent first.  (`g.evs` is `(Mux.runOpsEv _ ops).2`: `Mux.runOpsD_evs`.) -/
theorem sent_datagrams_reach_the_wire_in_order (o : Opts) (ops : List Mux.Op) :
    let e := runOps { opts := o } ops
    let g := (runOpsD { opts := o } {} ops).2
    (dgramsEv g.evs ++ dgramsQ e.outq <+: g.sent) ∧
    (e.outClosed = false → dgramsEv g.evs ++ dgramsQ e.outq = g.sent) := by
  have h := dgram_sender_inv o ops
  rw [runOpsD_fst] at h
  exact h

/-- `send_datagram` answers `DatagramHostTooLong` iff the host is longer than 255 bytes, `Closed` iff
    the host fits and the outbound queue is closed, `Ok` iff the host fits and the queue is open; and
    unless it answers `Ok` it changes nothing. -/
theorem send_datagram_outcomes (e : EP) (d : Dgram) :
    ((appSendDgram e d).2 = .tooLong ↔ 255 < d.host.length) ∧
    ((appSendDgram e d).2 = .closed ↔ d.host.length ≤ 255 ∧ e.outClosed = true) ∧
    ((appSendDgram e d).2 = .unit ↔ d.host.length ≤ 255 ∧ e.outClosed = false) ∧
    ((appSendDgram e d).2 ≠ .unit → (appSendDgram e d).1 = e) := by
  unfold appSendDgram
  by_cases hl : d.host.length > 255
  · simp [hl]; omega
  · by_cases hc : e.outClosed = true
    · simp [hl, hc]; omega
    · simp only [Bool.not_eq_true] at hc
      simp [hl, hc]; omega

/-! Non-vacuity of the every-history theorems (`dgramCap` 4, windows 2, threshold 1). -/
private def hcfg : Opts := { rwnd := 2, threshold := 1, dgramCap := 4 }
private def hmk (k : UInt8) : Dgram := { fid := k.toNat, host := [k], port := 53, data := [k, k] }
private def hdg (k : UInt8) : Mux.Op := .deliver (.msg (.frame (.datagram k.toNat 53 [k] [k, k])))
private def hfr (f : Frame) : Mux.Op := .deliver (.msg (.frame f))

/-- An overflow followed by a drain: four datagrams fill the queue, the fifth is dropped, two are read,
    the next two ARE queued, the one after is dropped again. -/
private def hOver : List Mux.Op :=
  [hdg 1, hdg 2, hdg 3, hdg 4, hdg 5, .recvDgram, .recvDgram, hdg 6, hdg 7, hdg 8]
open Penguin.Mux in
example : (runOpsD { opts := hcfg } {} hOver).2.queued = [hmk 1, hmk 2, hmk 3, hmk 4, hmk 6, hmk 7] ∧
    (runOpsD { opts := hcfg } {} hOver).2.seen = [hmk 1, hmk 2, hmk 3, hmk 4, hmk 5, hmk 6, hmk 7, hmk 8] ∧
    (runOpsD { opts := hcfg } {} hOver).2.returned = [hmk 1, hmk 2] ∧
    (runOpsD { opts := hcfg } {} hOver).2.discarded = [] ∧
    (runOps { opts := hcfg } hOver).dgramq = [hmk 3, hmk 4, hmk 6, hmk 7] ∧
    (runOps { opts := hcfg } hOver).muxAlive = true ∧
    deliveredDg hOver = [hmk 1, hmk 2, hmk 3, hmk 4, hmk 5, hmk 6, hmk 7, hmk 8] := by decide
/-! … and the state after the overflow and the two reads meets every hypothesis of
    `datagram_with_room_is_never_dropped` (running, not parked, `Multiplexor` alive, room for two), while
    the state after the first four datagrams is one where a datagram is dropped for want of room
    (`datagram_dropped_only_when_full_or_gone`). -/
open Penguin.Mux in
example : let e := runOps { opts := hcfg } (hOver.take 7)
    e.dead = false ∧ e.draining = none ∧ e.closing = none ∧ e.park = none ∧ e.inbox = [] ∧ e.srcEnded = false ∧
    e.muxAlive = true ∧ e.dgramq.length < e.opts.dgramCap ∧ e.dgramq = [hmk 3, hmk 4] ∧
    (applyOp e (hdg 6)).1.dgramq = [hmk 3, hmk 4, hmk 6] := by decide
open Penguin.Mux in
example : let e := runOps { opts := hcfg } (hOver.take 4)
    e.dead = false ∧ e.draining = none ∧ e.closing = none ∧ e.park = none ∧ e.inbox = [] ∧ e.srcEnded = false ∧
    (applyOp e (hdg 5)).1.dgramq = e.dgramq ∧ e.opts.dgramCap ≤ e.dgramq.length := by decide

/-! … and the records are made as `datagram_record_is_observable` says. -/
open Penguin.Mux in
example : hmk 6 ∈ queuedDg (runOps { opts := hcfg } (hOver.take 7)) (.datagram 6 53 [6] [6, 6]) ∧
    hmk 5 ∉ queuedDg (runOps { opts := hcfg } (hOver.take 4)) (.datagram 5 53 [5] [5, 5]) ∧
    hmk 1 ∈ returnedDg .recvDgram (applyOp (runOps { opts := hcfg } (hOver.take 5)) .recvDgram).2.1 ∧
    hmk 1 ∈ discardedDg (runOps { opts := hcfg } [hdg 1]) .dropMux ∧
    hmk 1 ∈ sentDg (.sendDgram (hmk 1)) (applyOp { opts := hcfg } (.sendDgram (hmk 1))).2.1 := by decide

/-- Datagrams interleaved with stream traffic in both directions (the peer opens flow 5). -/
private def hMix : List Mux.Op :=
  [hfr (.connect 5 4 80 [104]), hdg 1, .accept, hfr (.push 5 [1, 2]), hdg 2, .read 0 5, .recvDgram,
   .write 0 [9], .sendDgram (hmk 7), hfr (.push 5 [3]), hdg 3, .sendDgram (hmk 8), .read 0 5, .recvDgram]
open Penguin.Mux in
example : (runOpsD { opts := hcfg } {} hMix).2.queued = [hmk 1, hmk 2, hmk 3] ∧
    (runOpsD { opts := hcfg } {} hMix).2.returned = [hmk 1, hmk 2] ∧
    (runOps { opts := hcfg } hMix).dgramq = [hmk 3] ∧
    (runOpsD { opts := hcfg } {} hMix).2.sent = [hmk 7, hmk 8] ∧
    dgramsEv (runOpsD { opts := hcfg } {} hMix).2.evs = [hmk 7, hmk 8] ∧
    (runOps { opts := hcfg } hMix).outClosed = false := by decide
/-! … the same history with a `Ping` for every `Datagram` frame: the stream got the same bytes, the same
    frames went out, the datagram queue stayed empty. -/
open Penguin.Mux in
example : (runOps { opts := hcfg } (hMix.map neutralOp)).dgramq = [] ∧
    (runOps { opts := hcfg } hMix).dgramq ≠ [] ∧
    (runOpsObs { opts := hcfg } hMix).map (·.1) =
      [some .unit, some .unit, some (.stream 0 [104] 80), some .unit, some .unit, some (.data [1, 2]), none,
       some (.wrote 1), some .unit, some .unit, some .unit, some .unit, some (.data [3]), none] ∧
    (runOpsEv { opts := hcfg } (hMix.map neutralOp)).2 =
      [.wire (.frame (.acknowledge 5 2)), .wire (.frame (.acknowledge 5 1)), .wire (.frame (.push 5 [9])),
       .wire (.frame (.datagram 7 53 [7] [7, 7])), .wire (.frame (.datagram 8 53 [8] [8, 8])),
       .wire (.frame (.acknowledge 5 1))] := by decide

/-- A datagram after the `Multiplexor` was dropped: the queued one is discarded with the queue, the
    later one is processed (the task is waiting for the peer's Close) but not queued. -/
private def hDrop : List Mux.Op := [hdg 1, .dropMux, hdg 2]
open Penguin.Mux in
example : (runOpsD { opts := hcfg } {} hDrop).2.queued = [hmk 1] ∧
    (runOpsD { opts := hcfg } {} hDrop).2.seen = [hmk 1, hmk 2] ∧
    (runOpsD { opts := hcfg } {} hDrop).2.returned = [] ∧
    (runOpsD { opts := hcfg } {} hDrop).2.discarded = [hmk 1] ∧
    (runOps { opts := hcfg } hDrop).dgramq = [] ∧
    (runOps { opts := hcfg } hDrop).muxAlive = false := by decide

/-- Sending: accepted, accepted while the sink is blocked, refused (host of 256 bytes), accepted, then a
    transport error, refused (closed): what went out is a strict prefix of what was accepted. -/
private def hSend : List Mux.Op :=
  [.sendDgram (hmk 1), .sinkRoom (some 1), .sendDgram (hmk 2),
   .sendDgram { fid := 3, host := List.replicate 256 0, port := 1, data := [] }, .sendDgram (hmk 4),
   .deliver .err, .sendDgram (hmk 5)]
set_option maxRecDepth 8192 in
open Penguin.Mux in
example : (runOpsD { opts := hcfg } {} hSend).2.sent = [hmk 1, hmk 2, hmk 4] ∧
    dgramsEv (runOpsD { opts := hcfg } {} hSend).2.evs = [hmk 1, hmk 2] ∧
    (runOps { opts := hcfg } hSend).outq = [] ∧ (runOps { opts := hcfg } hSend).outClosed = true ∧
    (runOps { opts := hcfg } (hSend.take 5)).outClosed = false ∧
    dgramsEv (runOpsD { opts := hcfg } {} (hSend.take 5)).2.evs ++ dgramsQ (runOps { opts := hcfg } (hSend.take 5)).outq =
      [hmk 1, hmk 2, hmk 4] := by decide

end Penguin.C11
