/-
C11 — Datagram service: at most once, unmodified, ordered, never blocking.
-/
import Penguin.Model.Mux
import Penguin.Model.Frame
import Penguin.Model.DgSys
import Penguin.Lemmas.MuxBasic
import Penguin.Lemmas.MuxStep
import Penguin.Lemmas.Frame
import Penguin.Lemmas.PairDg

namespace Penguin.C11
open Penguin Penguin.Mux

/-- A datagram is accepted exactly when its target host has at most 255 bytes; a longer host is
    refused with `DatagramHostTooLong` and has no other effect. -/
theorem send_accepts_iff (e : EP) (d : Dgram) :
    ((appSendDgram e d).2 = .tooLong ↔ 255 < d.host.length) ∧
    (255 < d.host.length → appSendDgram e d = (e, .tooLong)) := by
  unfold appSendDgram
  constructor
  · constructor
    · intro h
      split at h
      · assumption
      · split at h <;> simp at h
    · intro h; simp [h]
  · intro h; simp [h]

/-- An accepted datagram is queued as one `Datagram` frame with exactly the four given fields (any
    flow id including 0, empty host, empty payload); nothing else changes. -/
theorem send_queues_exactly (e : EP) (d : Dgram) (hl : d.host.length ≤ 255) (hoc : e.outClosed = false) :
    appSendDgram e d = (e.enqFrame (.datagram d.fid d.port d.host d.data), .unit) ∧
    (e.enqFrame (.datagram d.fid d.port d.host d.data)).outq = e.outq ++ [.frame (.datagram d.fid d.port d.host d.data)] := by
  have : ¬ 255 < d.host.length := by omega
  simp [appSendDgram, this, hoc, EP.enqFrame, enq_outq]

/-- On the wire the four fields survive unchanged (C09's round trip), for every payload size
    including 0–3 bytes. -/
theorem wire_preserves_fields (fid port : Nat) (host data : Bytes)
    (h1 : fid < 4294967296) (h2 : port < 65536) (h3 : host.length ≤ 255) :
    decode (encode (.datagram fid port host data)) = .ok (.datagram fid port host data) :=
  Lemmas.Frame.decode_encode _ ⟨h1, h2, h3⟩

/-- Receiving a datagram: it is appended, unmodified, to the application's queue when there is room
    and dropped when the queue is full; it never ends the connection (whatever its size), never
    touches the flow table, any stream object or the outbound queue, and never blocks the receive
    loop. -/
theorem receive_datagram (e : EP) (fid port : Nat) (host d : Bytes) (ig : Bool) (hm : e.muxAlive = true) :
    let r := processFrame e (.datagram fid port host d) ig
    r.2.2 = none ∧ r.2.1 = [] ∧ r.1.flows = e.flows ∧ r.1.objs = e.objs ∧ r.1.outq = e.outq ∧ r.1.park = e.park ∧
    (if e.dgramq.length < e.opts.dgramCap
      then r.1.dgramq = e.dgramq ++ [{ fid := fid, host := host, port := port, data := d }]
      else r.1.dgramq = e.dgramq) := by
  simp only [processFrame, hm, Bool.not_true, Bool.false_eq_true, if_false]
  split <;> simp_all

/-- The application reads datagrams in queue order. -/
theorem recv_is_fifo (e : EP) (d : Dgram) (rest : List Dgram) (hq : e.dgramq = d :: rest) :
    appRecvDgram e = ({ e with dgramq := rest }, .dgram d) := by
  simp [appRecvDgram, hq]

/-- End to end (sender's accepted datagrams → FIFO transport → bounded queue → application): for
    every sequence of sends, deliveries and receives and every queue capacity, the datagrams the
    application received are a subsequence of the datagrams sent — each delivered at most once,
    in the order sent; a datagram is lost only at a full queue. -/
theorem delivered_is_subsequence {α : Type} (cap : Nat) (as : List (DgSys.Act α)) :
    (DgSys.run ({ cap := cap } : DgSys.St α) as).got.Sublist (DgSys.run ({ cap := cap } : DgSys.St α) as).sent := by
  suffices h : ∀ (s : DgSys.St α), (∃ pre, s.sent = pre ++ s.wire ∧ (s.got ++ s.q).Sublist pre) →
      ∃ pre, (DgSys.run s as).sent = pre ++ (DgSys.run s as).wire ∧
        ((DgSys.run s as).got ++ (DgSys.run s as).q).Sublist pre by
    obtain ⟨pre, h1, h2⟩ := h { cap := cap } ⟨[], by simp, by simp⟩
    rw [h1]
    exact ((List.sublist_append_left _ _).trans h2).trans (List.sublist_append_left _ _)
  intro s hs
  induction as generalizing s with
  | nil => exact hs
  | cons a as ih =>
    apply ih
    obtain ⟨pre, h1, h2⟩ := hs
    cases a with
    | send d => exact ⟨pre, by simp [DgSys.step, h1], h2⟩
    | deliver =>
      simp only [DgSys.step]
      cases hw : s.wire with
      | nil => exact ⟨pre, by simpa [hw] using h1, h2⟩
      | cons d rest =>
        simp only
        split
        · refine ⟨pre ++ [d], by simp [h1, hw], ?_⟩
          rw [← List.append_assoc]
          exact List.Sublist.append h2 (List.Sublist.refl _)
        · exact ⟨pre ++ [d], by simp [h1, hw], h2.trans (List.sublist_append_left _ _)⟩
    | recv =>
      simp only [DgSys.step]
      cases hq : s.q with
      | nil => exact ⟨pre, h1, by simpa [hq] using h2⟩
      | cons d rest => exact ⟨pre, h1, by simpa [hq, List.append_assoc] using h2⟩

/-! ### Over two whole endpoint models joined by FIFO wires (`Penguin.Pair`) -/

open Penguin.Pair in
/-- At most once, in order, every field intact — for the real composition: in EVERY reachable state
    of two endpoint models joined by FIFO wires (every interleaving of application calls,
    transmissions and frame processing on both sides, any concurrent stream traffic, any options, no
    hypothesis on flow ids), the datagrams `b`'s application has received are a subsequence of the
    datagrams `a`'s application sent, and vice versa. -/
theorem pair_datagrams_subsequence (oa ob : Opts) (ra rb : List Nat) (as : List (Pair.Side × Pair.Act)) :
    (Pair.run (Pair.init oa ob ra rb) as).gb.drecv.Sublist (Pair.run (Pair.init oa ob ra rb) as).ga.dsent ∧
    (Pair.run (Pair.init oa ob ra rb) as).ga.drecv.Sublist (Pair.run (Pair.init oa ob ra rb) as).gb.dsent :=
  datagrams_subsequence oa ob ra rb as

open Penguin.Pair in
/-- Lost only when the queue is full, and then nothing else is: what has been received, what the
    receive queue holds and what is still in transit together are a subsequence of what was sent —
    a datagram disappears from this list only in the `processFrame` branch "queue full" (or after the
    receiving `Multiplexor` was dropped). -/
theorem pair_datagrams_accounted (oa ob : Opts) (ra rb : List Nat) (as : List (Pair.Side × Pair.Act)) :
    let p := Pair.run (Pair.init oa ob ra rb) as
    (p.gb.drecv ++ p.b.dgramq ++ dgOf (pathAB p)).Sublist p.ga.dsent :=
  (run_dg _ as (init_dg oa ob ra rb)).ab

open Penguin.Pair in
/-- Never blocking and never disturbing: sending a datagram, receiving one, and processing a
    `Datagram` frame leave the view of EVERY flow (slot, stream objects, notifications, frames in
    transit) unchanged — they preserve the pair invariant as steps that concern no flow. -/
theorem pair_datagram_steps_concern_no_flow (e : EP) (d : Dgram) (fid port : Nat) (host data : Bytes) (ig : Bool) :
    Eff (fun _ => False) e (appSendDgram e d).1 ∧ Eff (fun _ => False) e (appRecvDgram e).1 ∧
    Eff (fun _ => False) e (processFrame e (.datagram fid port host data) ig).1 :=
  ⟨appSendDgram_eff _ _ _, appRecvDgram_eff _ _, processFrame_dgram_eff _ _ _ _ _ _⟩

/-! Non-vacuity: two datagrams (flow id 0 and an empty payload among them) cross while a stream is open. -/
private def dcfg : Opts := { rwnd := 2, threshold := 1 }
private def dacts : List (Pair.Side × Pair.Act) :=
  [(.A, .sendDgram { fid := 0, host := [1], port := 53, data := [9] }), (.A, .open 1 [104] 80),
   (.A, .sendDgram { fid := 7, host := [], port := 0, data := [] }), (.A, .xmit), (.A, .xmit), (.A, .xmit),
   (.B, .recv), (.B, .recv), (.B, .recv), (.B, .recvDgram), (.B, .recvDgram)]
example : (Pair.run (Pair.init dcfg dcfg [7, 8] [9, 10]) dacts).gb.drecv =
    [{ fid := 0, host := [1], port := 53, data := [9] }, { fid := 7, host := [], port := 0, data := [] }] := by decide

/-! Non-vacuity -/
example : (DgSys.run ({ cap := 1 } : DgSys.St Nat) [.send 1, .send 2, .deliver, .deliver, .recv]).got = [1] := by decide
example : (appSendDgram { opts := {} } { fid := 0, host := [], port := 53, data := [] }).1.outq
    = [.frame (.datagram 0 53 [] [])] := by decide

end Penguin.C11
