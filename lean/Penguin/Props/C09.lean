/-
C09 — Wire format: encode/decode are inverse, total, and exactly PROTOCOL.md.
Property theorems only; every theorem here is audited by `Audit/C09.lean` (`#print axioms`).
-/
import Penguin.Model.Frame
import Penguin.Spec.Layout
import Penguin.Lemmas.Frame

namespace Penguin.C09
open Penguin Penguin.Constants

/-- Every frame the public constructors can build encodes to exactly the layout of PROTOCOL.md. -/
theorem encode_eq_layout (f : Frame) : encode f = Spec.Layout.build f := by
  cases f <;> rfl

/-- Decoding the encoding of a frame yields an equal frame (all field values in range, any host and
    payload including empty ones). -/
theorem decode_encode (f : Frame) (h : f.wf) : decode (encode f) = .ok f :=
  Lemmas.Frame.decode_encode f h

/-- A vectored `Push` encodes like the single `Push` of the concatenation, hence decodes to it. -/
theorem encode_pushVectored (id : Nat) (pieces : List Bytes) :
    encodePushVectored id pieces = encode (.push id pieces.flatten) := rfl

theorem decode_pushVectored (id : Nat) (pieces : List Bytes) (h : id < 4294967296) :
    decode (encodePushVectored id pieces) = .ok (.push id pieces.flatten) := by
  rw [encode_pushVectored]; exact decode_encode _ h

/-- `encode` is injective on well-formed frames: the bytes determine every field. -/
theorem encode_injective (f g : Frame) (hf : f.wf) (hg : g.wf) (h : encode f = encode g) : f = g := by
  have h1 := decode_encode f hf
  have h2 := decode_encode g hg
  rw [h] at h1; rw [h1] at h2; exact Except.ok.inj h2

/-- Decoding succeeds exactly on the byte strings that are valid under PROTOCOL.md. -/
theorem decode_ok_iff_valid (bs : Bytes) :
    (∃ f, decode bs = .ok f) ↔ Spec.Layout.Valid bs = true :=
  Lemmas.Frame.decode_ok_iff_valid bs

/-- … and yields the field values the layout prescribes: the decoded frame is in range and its
    layout is the input (version nibble normalised), up to ignored trailing bytes, which only
    `Acknowledge`, `Reset` and `Finish` can have. -/
theorem decode_fields (bs : Bytes) (f : Frame) (h : decode bs = .ok f) :
    f.wf ∧ ∃ tail, Spec.Layout.normalizeVersion bs = Spec.Layout.build f ++ tail ∧
      (tail = [] ∨ (∃ id n, f = .acknowledge id n) ∨ (∃ id, f = .reset id) ∨ (∃ id, f = .finish id)) :=
  Lemmas.Frame.decode_fields bs f h

/-- Which error for which defect (the error kinds are part of the API). -/
theorem decode_err_short (bs : Bytes) (h : bs.length < 5) : decode bs = .error .tooShort :=
  Lemmas.Frame.decode_err_short bs h

theorem decode_err_version (b0 : UInt8) (rest : Bytes) (hl : 4 ≤ rest.length)
    (h7 : b0.toNat / 16 ≠ 7) (h0 : b0.toNat / 16 ≠ 0) :
    decode (b0 :: rest) = .error (.version (b0.toNat / 16)) :=
  Lemmas.Frame.decode_err_version b0 rest hl h7 h0

theorem decode_err_opcode (b0 : UInt8) (rest : Bytes) (hl : 4 ≤ rest.length)
    (hv : b0.toNat / 16 = 7 ∨ b0.toNat / 16 = 0) (ho : 6 < b0.toNat % 16) :
    decode (b0 :: rest) = .error (.opcode (b0.toNat % 16)) :=
  Lemmas.Frame.decode_err_opcode b0 rest hl hv ho

theorem decode_err_bindType (i0 i1 i2 i3 t p0 p1 : UInt8) (host : Bytes)
    (ht1 : t.toNat ≠ 1) (ht3 : t.toNat ≠ 3) :
    decode (0x75 :: i0 :: i1 :: i2 :: i3 :: t :: p0 :: p1 :: host) = .error (.bindType t.toNat) :=
  Lemmas.Frame.decode_err_bindType i0 i1 i2 i3 t p0 p1 host ht1 ht3

/-- `append_push_data` on an encoded `Push` is the encoding of the `Push` with the data appended. -/
theorem appendPush_encode (id : Nat) (d e : Bytes) :
    appendPushData (encode (.push id d)) e = some (encode (.push id (d ++ e))) := by
  simp [appendPushData, encode, verOp, decodeOp, opPush, protocolVersion, lenientVersionZero,
    decOpConnect, decOpAcknowledge, decOpReset, decOpFinish, decOpPush, List.append_assoc]

/-- The seven opcodes written by the encoder are pairwise distinct and are the seven the decoder reads. -/
theorem opcode_tables_agree :
    [opConnect, opAcknowledge, opReset, opFinish, opPush, opBind, opDatagram].Nodup ∧
    [opConnect, opAcknowledge, opReset, opFinish, opPush, opBind, opDatagram] =
    [decOpConnect, decOpAcknowledge, decOpReset, decOpFinish, decOpPush, decOpBind, decOpDatagram] := by
  decide

/-! Non-vacuity: the hypotheses above are met by concrete non-trivial frames. -/

example : (Frame.datagram 7 53 [0x78] [0x31]).wf := by decide
example : decode (encode (.datagram 7 53 [0x78] [0x31])) = .ok (.datagram 7 53 [0x78] [0x31]) := by decide
example : Spec.Layout.Valid [0x76, 0, 0, 0, 7, 1, 0, 0x35, 0x78, 0x31] = true := by decide
example : Spec.Layout.Valid [0x76, 0, 0, 0, 7, 0, 0, 0x35] = true := by decide   -- empty host, empty payload
example : decode [0x05, 0, 0, 0, 7, 3, 0, 0x35] = .ok (.bind 7 .datagram 53 []) := by decide  -- lenient version 0

end Penguin.C09
